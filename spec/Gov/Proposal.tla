------------------------------ MODULE Proposal ------------------------------
(***************************************************************************)
(* CR proposals and the committee's funds bookkeeping                      *)
(* (cr/state/proposalmanager.go, the CRC* cases of committeeaction.go and  *)
(* the CRCProposal / review / tracking / withdraw checkers of              *)
(* core/transaction).                                                      *)
(*                                                                         *)
(* This module is a library of operators over a committee state record     *)
(* `s`; CR.tla owns the variables and composes these operators into the    *)
(* block transition.  What is modelled here:                               *)
(*                                                                         *)
(*   proposal status   Registered -> CRAgreed -> VoterAgreed ->            *)
(*                     Finished | Terminated, with the exits CRCanceled,   *)
(*                     VoterCanceled, Aborted                              *)
(*   per-stage budget  Unfinished | Withdrawable | Withdrawn | Rejected |  *)
(*                     Closed (BudgetsStatus), the accounting sets         *)
(*                     WithdrawableBudgets / WithdrawnBudgets              *)
(*   funds             stage amount (CRCCurrentStageAmount), used          *)
(*                     (CRCCommitteeUsedAmount), its start-of-term copy    *)
(*                     (CommitteeUsedAmount), the balances of the CR       *)
(*                     assets and CR expenses addresses, the pending       *)
(*                     withdraw orders (WithdrawableTxInfo)                *)
(*                                                                         *)
(* Every proposal has three budget stages: 0 imprest, 1 normal payment,    *)
(* 2 final payment (numbered 1..3 here).  A "close" proposal (CloseProposal type) has no budget *)
(* and terminates its target when the voters agree.                        *)
(*                                                                         *)
(* The node validates every transaction of a block against the state       *)
(* BEFORE the block (blockchain.checkTxsContext) and Committee.ProcessBlock *)
(* captures the values its change closures use from that same state; the   *)
(* closures then run in sequence.  The operators below therefore take two  *)
(* states: s0 (pre-block, where the code captures) and s (running).        *)
(***************************************************************************)
EXTENDS Integers, Sequences, FiniteSets, TLC

CONSTANTS CRs,            \* CR identities (candidates / council members)
          Props,          \* proposal identities (= draft hashes)
          Owners,         \* proposal owner keys
          Voters,         \* stake addresses
          AgreeCount,     \* CRAgreementCount
          PropCRVote,     \* ProposalCRVotingPeriod
          PropPubVote,    \* ProposalPublicVotingPeriod
          RejectThreshold,\* reject / impeachment votes needed (units of "big votes")
          MaxTracking     \* MaxProposalTrackingCount

Stages == 1..3          \* 1 imprest, 2 normal payment, 3 final payment (code: stage - 1)
NoProp == 0

FinalStatus == {"Finished", "CRCanceled", "VoterCanceled", "Terminated", "Aborted"}

RECURSIVE SumSet(_, _)
SumSet(f, S) == IF S = {} THEN 0
                ELSE LET x == CHOOSE y \in S : TRUE IN f[x] + SumSet(f, S \ {x})

EmptyProp == [st |-> "None", kind |-> "normal", target |-> NoProp,
              bud |-> <<0, 0, 0>>,
              bst |-> <<"NA", "NA", "NA">>,
              wable |-> {}, wdrawn |-> {},
              owner |-> 0, sponsor |-> 0,
              crv |-> [c \in CRs |-> "none"],
              rej |-> 0, regH |-> 0, vsH |-> 0, tcount |-> 0, fps |-> FALSE,
              termH |-> 0, sess |-> 0]

Total(p) == p.bud[1] + p.bud[2] + p.bud[3]

\* Committee.AvailableWithdrawalAmount: withdrawable and not yet withdrawn
Avail(p) == SumSet(p.bud, p.wable \ p.wdrawn)

\* getProposalUnusedBudgetAmount: budgets that never became withdrawable
Unused(p) == SumSet(p.bud, Stages \ p.wable)

---------------------------------------------------------------------------
(* Checker verdicts (SpecialContextCheck), evaluated on the pre-block state *)

\* checkNormalOrELIPProposal: the two budget limits.  inBlock is the sum of
\* the budgets of the proposals that precede this one in the same block.
ProposalCap(s0) == ((s0.stage - s0.usedSnap) * 10) \div 100
ProposalRoom(s0, inBlock) == s0.stage - s0.used - inBlock
BudgetOK(s0, bud, inBlock) ==
    LET amt == bud[1] + bud[2] + bud[3] IN
      amt <= ProposalCap(s0) /\ amt <= ProposalRoom(s0, inBlock)

\* CRCProposalWithdraw (both payload versions): status, owner, amount = available > 0.
\* Payload version 0 (below CRCProposalWithdrawPayloadV1Height) spends outputs of the
\* CR expenses address itself; version 1 records an order that a later
\* CRCProposalRealWithdraw pays (see Withdraw0 / Withdraw).
WithdrawOK(s0, p, owner, amt) ==
    LET q == s0.prop[p] IN
      /\ q.st \in {"VoterAgreed", "Finished", "Aborted", "Terminated"}
      /\ q.owner = owner
      /\ Avail(q) > 0
      /\ amt = Avail(q)

\* CRCProposalTracking.  legacy: the block is below CRCProposalWithdrawPayloadV1Height,
\* where a Rejected tracking is checked like a Progress one (normal payment stages only).
TrackingOK(s0, p, owner, tt, stage, legacy) ==
    LET q == s0.prop[p] IN
      /\ q.st = "VoterAgreed" /\ q.kind = "normal"
      /\ q.tcount < MaxTracking
      /\ q.owner = owner
      /\ CASE tt = "Progress"   -> stage = 2 /\ stage \notin q.wable
           [] tt = "Rejected"   -> IF legacy THEN stage = 2 /\ stage \notin q.wable
                                   ELSE stage \in Stages /\ stage \notin q.wable
           [] tt = "Finalized"  -> stage = 3
           [] tt = "Terminated" -> stage = 0
           [] tt = "Common"     -> stage = 0
           [] OTHER -> FALSE

---------------------------------------------------------------------------
(* Effects of the transactions (the execute closures) *)

\* ProposalManager.registerProposal + processCRCAddressRelatedTx
RegisterProposal(s0, s, h, p, kind, target, sponsor, owner, bud) ==
    LET q == [EmptyProp EXCEPT !.st = "Registered", !.kind = kind, !.target = target,
                               !.bud = bud,
                               !.bst = IF kind = "normal"
                                       THEN [i \in Stages |-> IF i = 1 THEN "Withdrawable" ELSE "Unfinished"]
                                       ELSE <<"NA", "NA", "NA">>,
                               !.owner = owner, !.sponsor = sponsor,
                               !.regH = h, !.sess = s0.session]
    IN [s EXCEPT !.prop[p] = q, !.used = @ + Total(q)]

\* ProposalManager.proposalReview
Review(s, p, m, res) == [s EXCEPT !.prop[p].crv[m] = res]

\* ProposalManager.proposalTracking + Committee.proposalTracking.  The amount
\* given back to the committee is computed from the PRE-BLOCK state.
TrackingUnused(s0, p, tt) ==
    LET q == s0.prop[p] IN
      CASE tt = "Terminated" -> IF q.st \in {"Terminated", "Finished"} THEN 0 ELSE Unused(q)
        [] tt = "Finalized"  -> SumSet(q.bud, (Stages \ {3}) \ q.wable)
        [] OTHER -> 0

CloseOpen(bst) == [i \in Stages |-> IF bst[i] \in {"Unfinished", "Rejected"} THEN "Closed" ELSE bst[i]]

Tracking(s0, s, h, p, tt, stage, newOwner) ==
    LET q == s.prop[p]
        skip == tt = "Terminated" /\ s0.prop[p].st \in {"Terminated", "Finished"}
        q1 == [q EXCEPT !.tcount = @ + 1]
        q2 == CASE tt = "Progress" ->
                     [q1 EXCEPT !.bst[stage] = "Withdrawable",
                                !.wable = @ \cup {stage},
                                !.fps = IF Cardinality(q.wdrawn) = 2 THEN TRUE ELSE @]
                [] tt = "Rejected" ->
                     IF stage = 1 THEN q1 ELSE [q1 EXCEPT !.bst[stage] = "Rejected"]
                [] tt = "ChangeOwner" -> [q1 EXCEPT !.owner = newOwner]
                [] tt = "Terminated" ->
                     [q1 EXCEPT !.termH = h, !.st = "Terminated", !.bst = CloseOpen(@)]
                [] tt = "Finalized" ->
                     [q1 EXCEPT !.st = "Finished", !.wable = @ \cup {3},
                                !.bst = CloseOpen([@ EXCEPT ![stage] = "Withdrawable"])]
                [] OTHER -> q1
    IN IF skip THEN s
       ELSE [s EXCEPT !.prop[p] = q2, !.used = @ - TrackingUnused(s0, p, tt)]

\* ProposalManager.proposalWithdraw (payload v1): the stages paid are the
\* ones available in the PRE-BLOCK state; a pending order is recorded.
Withdraw(s0, s, p, amt) ==
    LET paying == s0.prop[p].wable \ s0.prop[p].wdrawn
        q == s.prop[p]
    IN [s EXCEPT !.prop[p].wdrawn = @ \cup paying,
                 !.prop[p].bst = [i \in Stages |-> IF q.bst[i] = "Withdrawable" THEN "Withdrawn" ELSE q.bst[i]],
                 !.pend = @ \cup {[n |-> s.wid + 1, p |-> p, amt |-> amt]},
                 !.wid = @ + 1,
                 \* ledger view (history variables of the property)
                 !.paid[p] = @ + amt,
                 !.cover[p] = [i \in Stages |-> IF i \in paying THEN @[i] + 1 ELSE @[i]]]

\* ProposalManager.proposalWithdraw (payload v0): the same stages are marked
\* withdrawn, nothing is ordered: the transaction itself spends outputs of the
\* CR expenses address (inputs - change = amt leaves the address).
Withdraw0(s0, s, p, amt) ==
    LET paying == s0.prop[p].wable \ s0.prop[p].wdrawn
        q == s.prop[p]
    IN [s EXCEPT !.prop[p].wdrawn = @ \cup paying,
                 !.prop[p].bst = [i \in Stages |-> IF q.bst[i] = "Withdrawable" THEN "Withdrawn" ELSE q.bst[i]],
                 !.cbal = @ - amt,
                 !.paid[p] = @ + amt,
                 !.cover[p] = [i \in Stages |-> IF i \in paying THEN @[i] + 1 ELSE @[i]]]

\* CRCProposalRealWithdraw: pays every pending order out of the expenses address
RealWithdraw(s0, s) ==
    LET total == SumSet([o \in s0.pend |-> o.amt], s0.pend) IN
      [s EXCEPT !.pend = @ \ s0.pend, !.cbal = @ - total]

---------------------------------------------------------------------------
(* End of block: ProposalManager.updateProposals + Committee.updateProposals *)

AllClosed == [i \in Stages |-> "Closed"]
CloseBst(q) == IF q.kind = "normal" THEN AllClosed ELSE q.bst

ApproveCount(q) == Cardinality({c \in CRs : q.crv[c] = "approve"})

\* status a proposal moves to at height h (or its own status if it stays)
NextStatus(q, h, inElection) ==
    CASE q.st = "Registered" ->
           IF ~inElection THEN "Aborted"
           ELSE IF q.regH + PropCRVote <= h
                THEN (IF ApproveCount(q) >= AgreeCount THEN "CRAgreed" ELSE "CRCanceled")
                ELSE q.st
      [] q.st = "CRAgreed" ->
           IF ~inElection THEN "Aborted"
           ELSE IF q.vsH + PropPubVote <= h
                THEN (IF q.rej >= RejectThreshold THEN "VoterCanceled"
                      ELSE IF q.kind = "close" THEN "Finished" ELSE "VoterAgreed")
                ELSE q.st
      [] OTHER -> q.st

\* proposals whose public vote is over at h (their reject votes are dropped)
Ended(s, h, inElection) ==
    {p \in Props : s.prop[p].st = "CRAgreed" /\ NextStatus(s.prop[p], h, inElection) # "CRAgreed"}

\* close proposals that take effect at h, and the targets they terminate
Closing(s, h, inElection) ==
    {p \in Props : /\ s.prop[p].st = "CRAgreed" /\ s.prop[p].kind = "close"
                   /\ NextStatus(s.prop[p], h, inElection) = "Finished"
                   /\ s.prop[s.prop[p].target].st \notin {"Terminated", "Finished"}}
ClosedTargets(s, h, inElection) == {s.prop[p].target : p \in Closing(s, h, inElection)}

UpdateProposals(s, h, inElection) ==
    LET ns(p) == NextStatus(s.prop[p], h, inElection)
        closing == Closing(s, h, inElection)
        targets == ClosedTargets(s, h, inElection)
        giveBack(p) ==
            (IF ns(p) \in {"Aborted", "CRCanceled", "VoterCanceled"} /\ ns(p) # s.prop[p].st
             THEN Total(s.prop[p]) ELSE 0)
        \* dealProposal(CloseProposal) adds the target's unused budget once per
        \* close proposal that takes effect
        closeBack == SumSet([p \in Props |-> Unused(s.prop[s.prop[p].target])], closing)
        unused == SumSet([p \in Props |-> giveBack(p)], Props) + closeBack
        step1(p) ==
            LET q == s.prop[p] IN
              IF ns(p) = q.st THEN q
              ELSE CASE ns(p) \in {"Aborted", "CRCanceled", "VoterCanceled"} ->
                          [q EXCEPT !.st = ns(p), !.bst = CloseBst(q)]
                     [] ns(p) = "CRAgreed" -> [q EXCEPT !.st = "CRAgreed", !.vsH = h]
                     [] ns(p) = "VoterAgreed" -> [q EXCEPT !.st = "VoterAgreed", !.wable = @ \cup {1}]
                     [] OTHER -> [q EXCEPT !.st = ns(p)]
        step2(p) ==
            LET q == step1(p) IN
              IF p \in targets
              THEN [q EXCEPT !.termH = h, !.st = "Terminated", !.bst = CloseOpen(@)]
              ELSE q
        ended == Ended(s, h, inElection)
    IN [s EXCEPT !.prop = [p \in Props |-> step2(p)],
                 !.used = @ - unused,
                 !.uRej = [v \in Voters |-> [p \in Props |-> IF p \in ended THEN 0 ELSE s.uRej[v][p]]]]

\* Committee.resetCRCCommitteeUsedAmount (at a committee change): what is
\* still owed to the proposals that are alive
Outstanding(q) ==
    CASE q.st \in {"None", "CRCanceled", "VoterCanceled", "Aborted"} -> 0
      [] q.st \in {"Terminated", "Finished"} -> SumSet(q.bud, q.wable \ q.wdrawn)
      [] OTHER -> SumSet(q.bud, Stages \ q.wdrawn)

OutstandingAll(s) == SumSet([p \in Props |-> Outstanding(s.prop[p])], Props)

---------------------------------------------------------------------------
(* C29: proposal spending stays within approved budgets *)

\* approved = the stages that became withdrawable
Approved(q) == SumSet(q.bud, q.wable)

\* total paid out for a proposal never exceeds its approved stages
PaidWithinApproved(s) == \A p \in Props : s.paid[p] <= Approved(s.prop[p])

\* each stage is paid at most once ...
StagePaidOnce(s) == \A p \in Props : \A i \in Stages : s.cover[p][i] <= 1
\* ... and only after it has become withdrawable
WithdrawnWasWithdrawable(s) ==
    \A p \in Props : /\ s.prop[p].wdrawn \subseteq s.prop[p].wable
                     /\ \A i \in Stages : s.prop[p].bst[i] = "Withdrawn" => i \in s.prop[p].wdrawn
                     /\ \A i \in Stages : s.cover[p][i] > 0 => i \in s.prop[p].wable

\* the payable set (pending withdraw orders, WithdrawableTxInfo) of a proposal is
\* covered by stages marked withdrawn: an order that survives the undoing of its
\* withdrawal, or a second order for the same stages, breaks this
PendOf(s, p) == {o \in s.pend : o.p = p}
PayableWithinWithdrawn(s) ==
    \A p \in Props : SumSet([o \in PendOf(s, p) |-> o.amt], PendOf(s, p)) <= SumSet(s.prop[p].bud, s.prop[p].wdrawn)

\* the committee never commits more than its available funds: what is owed
\* to live proposals is covered by the bookkeeping, and the bookkeeping is
\* within the funds of the term
CommittedWithinAvailable(s) == 0 <= s.used /\ OutstandingAll(s) <= s.used /\ s.used <= s.stage
=============================================================================
