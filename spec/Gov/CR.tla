--------------------------------- MODULE CR ---------------------------------
(***************************************************************************)
(* The CR committee state machine (cr/state/committee.go, state.go,        *)
(* committeeaction.go) on top of the proposal / funds operators of         *)
(* Proposal.tla, as the node runs it after DPoS 2.0 (Voting transactions,  *)
(* next-committee members elected at the end of the voting period, claim   *)
(* period, committee change).                                              *)
(*                                                                         *)
(* One spec step is one block (Committee.ProcessBlock) carrying up to      *)
(* MaxTx abstract transactions, or one Committee.RollbackTo.  A block is   *)
(* admitted exactly as the node admits it: the block-level duplicate rule  *)
(* (blockchain.CheckDuplicateTx) and every transaction checked against the *)
(* state BEFORE the block.  ProcessBlock is transcribed in the code's      *)
(* order, including which values are captured before the block's changes   *)
(* run (pre-block state s0) and which are read when they run:              *)
(*                                                                         *)
(*   1 voting-start marker, transactions (withdrawals first), pending      *)
(*     -> active after ActivateDuration blocks, deposit unlock after       *)
(*     Lockup blocks                                  [state history]      *)
(*   2 impeachment / early end of the election period [committee history,  *)
(*     runs at 5]                                                          *)
(*   3 proposal status updates                        [manager history]    *)
(*   4 end of voting -> next members; committee change [committee history] *)
(*   5 committee history runs                                              *)
(*   6 members without a claimed node become inactive [inactive history]   *)
(*   7 funds of the new term                          [appropriation hist.]*)
(*                                                                         *)
(* C22: a rollback to t -- as the chain does it: checkpoint.Manager           *)
(*      .OnRollbackTo -> cr Checkpoint.OnRollbackTo, which resets the      *)
(*      committee below CRVotingStartHeight and calls Committee.RollbackTo *)
(*      from there on -- gives the state after block t (hist[t]).          *)
(* C23: CheckpointRestore (checkpoint, restore from it) is the identity.   *)
(* C28 (CR side): CRDepositBalance holds in every reachable state.         *)
(* C29: the invariants of Proposal.tla hold in every reachable state.      *)
(***************************************************************************)
EXTENDS Proposal, Json

CONSTANTS MemberCount, VotingPeriod, ClaimPeriod, DutyPeriod, Lockup, ActivateDuration,
          VotingStart,      \* CRVotingStartHeight
          WithdrawV1Height, \* CRCProposalWithdrawPayloadV1Height: withdrawals below it carry payload version 0
          CommitteeStart,   \* CRCommitteeStartHeight
          MaxSession,
          BudgetChoices,    \* budget triples <<imprest, normal, final>> a proposal may ask for
          VotePatterns,     \* CR vote contents: functions CRs -> votes
          Kinds,            \* transaction kinds explored
          Scenario,         \* name of the start state
          MaxSteps,         \* explored steps after the start state
          MaxTx,            \* transactions per block (1 or 2)
          MaxRollbacks,     \* RollbackTo steps per behaviour
          RollDepth,        \* how far back a rollback may go
          DupRule           \* TRUE: CheckDuplicateTx refuses a second withdrawal / a second tracking of one proposal

VARIABLES s,       \* committee state (record, see Genesis)
          hist,    \* hist[i] = <<height, state after that height>>, most recent RollDepth+1 entries
          nsteps, nrolls,
          pc,      \* > 0: index of the next start-state block still to be processed, 0: started
          log      \* history variable: the behaviour, for replay

vars == <<s, hist, nsteps, nrolls, pc, log>>
view == <<s, hist, nsteps, nrolls, pc>>

NoC == 0
Sessions == 0..MaxSession
ZeroBud == <<0, 0, 0>>
ZeroPat == [c \in CRs |-> 0]

BaseTx == [k |-> "", c |-> NoC, p |-> NoProp, t |-> NoProp, v |-> NoC, o |-> NoC, o2 |-> NoC,
           x |-> "", n |-> 0, bud |-> ZeroBud, pat |-> ZeroPat]

Genesis ==
  [h |-> 0,
   cand |-> [c \in CRs |-> [st |-> "None", votes |-> 0, regH |-> 0, cancelH |-> 0, nick |-> 0]],
   nv   |-> [c \in CRs |-> 0],                    \* nickname versions handed out
   dep  |-> [c \in CRs |-> [known |-> FALSE, locked |-> 0, total |-> 0, pen |-> 0]],  \* units of MinDepositAmount
   mem  |-> [c \in CRs |-> [st |-> "None", imp |-> 0, key |-> FALSE, pbc |-> 0]],  \* pbc = PenaltyBlockCount
   next |-> [c \in CRs |-> [in |-> FALSE, key |-> FALSE]],
   hmem |-> [i \in Sessions |-> [c \in CRs |-> "None"]],
   hcand |-> [i \in Sessions |-> [c \in CRs |-> "None"]],
   lch |-> 0, lvsh |-> 0, inElect |-> FALSE, session |-> 0, needApp |-> FALSE,
   fbal |-> 0, cbal |-> 0, used |-> 0, stage |-> 0, approp |-> 0, usedSnap |-> 0,
   uCR  |-> [v \in Voters |-> ZeroPat],
   uImp |-> [v \in Voters |-> ZeroPat],
   uRej |-> [v \in Voters |-> [p \in Props |-> 0]],
   prop |-> [p \in Props |-> EmptyProp],
   pend |-> {}, wid |-> 0,
   paid |-> [p \in Props |-> 0],
   cover |-> [p \in Props |-> [i \in Stages |-> 0]],
   over |-> [c \in CRs |-> 0]]                     \* deposits released twice by the named deviation ReleasedTwice

---------------------------------------------------------------------------
(* Periods (Committee.isInVotingPeriod / isInClaimPeriod / IsProposalAllowed) *)

InVoting(st, h) ==
    IF st.lch < CommitteeStart /\ h <= CommitteeStart
    THEN h >= VotingStart /\ h < CommitteeStart
    ELSE IF ~st.inElect THEN (st.lvsh = 0 \/ h < st.lvsh + VotingPeriod)
    ELSE h >= st.lvsh /\ h < st.lvsh + VotingPeriod

InClaim(st, h) == h >= st.lvsh + VotingPeriod /\ h <= st.lvsh + VotingPeriod + ClaimPeriod

ProposalAllowed(st, h) == st.inElect /\ ~InVoting(st, h) /\ ~InClaim(st, h)

OnDuty(st) == {"Elected", "Inactive", "Illegal"}

\* State.getAvailableDepositAmount: what a ReturnCRDepositCoin may take
Available(st, c) == st.dep[c].total - st.dep[c].locked - st.dep[c].pen

\* the payload version of a withdrawal is fixed by the height of its block
\* (HeightVersionCheck of CRCProposalWithdraw)
Legacy(h) == h < WithdrawV1Height

---------------------------------------------------------------------------
(* Admission of one transaction against the pre-block state s0 (the        *)
(* SpecialContextCheck of its kind).  inBlock = budgets of the proposals   *)
(* that precede it in the block.                                           *)

Accepts(s0, h, tx, inBlock) ==
    CASE tx.k = "RegisterCR"   -> InVoting(s0, h) /\ s0.cand[tx.c].st = "None"
      [] tx.k = "UpdateCR"     -> InVoting(s0, h) /\ s0.cand[tx.c].st \in {"Pending", "Active"}
      [] tx.k = "UnregisterCR" -> InVoting(s0, h) /\ s0.cand[tx.c].st \in {"Pending", "Active"}
      [] tx.k = "VoteCR"       -> /\ InVoting(s0, h)
                                  /\ \E c \in CRs : tx.pat[c] > 0
                                  /\ \A c \in CRs : tx.pat[c] > 0 => s0.cand[c].st = "Active"
      [] tx.k = "Impeach"      -> s0.inElect /\ s0.mem[tx.c].st \in {"Elected", "Inactive"}
      [] tx.k = "Reject"       -> s0.prop[tx.p].st = "CRAgreed"
      [] tx.k = "Proposal"     -> /\ s0.prop[tx.p].st = "None"
                                  /\ ProposalAllowed(s0, h - 1)
                                  /\ s0.mem[tx.c].st = "Elected"
                                  /\ BudgetOK(s0, tx.bud, inBlock)
      [] tx.k = "Close"        -> /\ s0.prop[tx.p].st = "None"
                                  /\ ProposalAllowed(s0, h - 1)
                                  /\ s0.mem[tx.c].st = "Elected"
                                  /\ tx.t # tx.p /\ s0.prop[tx.t].st = "VoterAgreed"
      [] tx.k = "Review"       -> s0.prop[tx.p].st = "Registered" /\ s0.mem[tx.c].st = "Elected"
      [] tx.k = "Tracking"     -> IF tx.x = "ChangeOwner"
                                  THEN /\ s0.prop[tx.p].st = "VoterAgreed" /\ s0.prop[tx.p].kind = "normal"
                                       /\ s0.prop[tx.p].tcount < MaxTracking
                                       /\ s0.prop[tx.p].owner = tx.o /\ tx.o2 # tx.o
                                  ELSE TrackingOK(s0, tx.p, tx.o, tx.x, tx.n, Legacy(h))
      \* (a version 0 withdrawal spends outputs of the expenses address: they must be there)
      [] tx.k = "Withdraw"     -> WithdrawOK(s0, tx.p, tx.o, tx.n) /\ (Legacy(h) => tx.n <= s0.cbal)
      [] tx.k = "RealWithdraw" -> s0.pend # {} /\ SumSet([o \in s0.pend |-> o.amt], s0.pend) <= s0.cbal
      [] tx.k = "Approp"       -> s0.needApp /\ s0.approp > 0 /\ s0.approp <= s0.fbal
      [] tx.k = "Claim"        -> IF tx.x = "next"
                                  THEN s0.next[tx.c].in /\ ~s0.next[tx.c].key
                                  ELSE s0.mem[tx.c].st \in {"Elected", "Inactive"} /\ ~s0.mem[tx.c].key
      \* ReturnCRDepositCoin: the signer has deposit that is no longer locked
      \* (the whole available amount is returned; a penalty counts when it takes a whole deposit)
      [] tx.k = "ReturnDeposit" -> /\ s0.dep[tx.c].known /\ s0.dep[tx.c].locked >= 0
                                   /\ Available(s0, tx.c) > 0
      [] tx.k = "Fund"         -> TRUE
      [] OTHER -> FALSE

\* blockchain.CheckDuplicateTx: one register / update / unregister per CID
\* per block and (DupRule) one withdrawal and one tracking per proposal
CRKinds == {"RegisterCR", "UpdateCR", "UnregisterCR"}
DupFree(txs) ==
    \A i, j \in 1..Len(txs) : i < j =>
        /\ ~(txs[i].k \in CRKinds /\ txs[j].k \in CRKinds /\ txs[i].c = txs[j].c)
        /\ (DupRule => ~(txs[i].k \in {"Withdraw", "Tracking"} /\ txs[j].k = txs[i].k /\ txs[i].p = txs[j].p))

\* what the property demands: a withdrawal / a tracking is judged against the
\* state its predecessors in the block leave behind, so a second one of the
\* same proposal must not be admitted on the strength of the pre-block state
\* (it would pay a stage twice / give the same budget back twice)
RuleAllows(txs, i) ==
    \A j \in 1..(i - 1) : ~(txs[i].k \in {"Withdraw", "Tracking"} /\ txs[j].k = txs[i].k /\ txs[j].p = txs[i].p)

RECURSIVE BudgetBefore(_, _)
BudgetBefore(txs, i) ==
    IF i <= 1 THEN 0
    ELSE BudgetBefore(txs, i - 1) +
         (IF txs[i - 1].k = "Proposal" THEN txs[i - 1].bud[1] + txs[i - 1].bud[2] + txs[i - 1].bud[3] ELSE 0)

BlockAdmitted(s0, h, txs) ==
    /\ DupFree(txs)
    /\ \A i \in 1..Len(txs) : Accepts(s0, h, txs[i], BudgetBefore(txs, i))

---------------------------------------------------------------------------
(* Effects of the CR transactions (state.go / committeeaction.go) *)

ApplyTx(s0, st, h, tx) ==
    CASE tx.k = "RegisterCR" ->
           [st EXCEPT !.cand[tx.c] = [st |-> "Pending", votes |-> 0, regH |-> h, cancelH |-> 0,
                                      nick |-> st.nv[tx.c] + 1],
                      !.nv[tx.c] = @ + 1,
                      !.dep[tx.c] = [@ EXCEPT !.known = TRUE, !.locked = @ + 1, !.total = @ + 1]]
      [] tx.k = "UpdateCR" ->
           [st EXCEPT !.cand[tx.c].nick = st.nv[tx.c] + 1, !.nv[tx.c] = @ + 1]
      [] tx.k = "UnregisterCR" ->
           [st EXCEPT !.cand[tx.c].st = "Canceled", !.cand[tx.c].cancelH = h]
      [] tx.k = "VoteCR" ->
           \* the voter's previous CR votes (pre-block) are cancelled, the new ones added
           [st EXCEPT !.cand = [c \in CRs |-> [@[c] EXCEPT !.votes = @ - s0.uCR[tx.v][c] + tx.pat[c]]],
                      !.uCR[tx.v] = tx.pat]
      [] tx.k = "Impeach" ->
           LET live(c) == s0.mem[c].st \in OnDuty(s0) IN
           [st EXCEPT !.mem = [c \in CRs |->
                                 [@[c] EXCEPT !.imp = @ - (IF live(c) THEN s0.uImp[tx.v][c] ELSE 0)
                                                        + (IF c = tx.c /\ live(c) THEN tx.n ELSE 0)]],
                      !.uImp[tx.v] = [c \in CRs |-> IF c = tx.c THEN tx.n ELSE 0]]
      [] tx.k = "Reject" ->
           LET open(p) == s0.prop[p].st = "CRAgreed" IN
           [st EXCEPT !.prop = [p \in Props |->
                                  [@[p] EXCEPT !.rej = @ - (IF open(p) THEN s0.uRej[tx.v][p] ELSE 0)
                                                         + (IF p = tx.p /\ open(p) THEN tx.n ELSE 0)]],
                      !.uRej[tx.v] = [p \in Props |-> IF p = tx.p THEN tx.n ELSE 0]]
      [] tx.k = "Proposal" -> RegisterProposal(s0, st, h, tx.p, "normal", NoProp, tx.c, tx.o, tx.bud)
      [] tx.k = "Close"    -> RegisterProposal(s0, st, h, tx.p, "close", tx.t, tx.c, tx.o, ZeroBud)
      [] tx.k = "Review"   -> Review(st, tx.p, tx.c, tx.x)
      [] tx.k = "Tracking" -> Tracking(s0, st, h, tx.p, tx.x, tx.n, tx.o2)
      [] tx.k = "Withdraw" -> IF Legacy(h) THEN Withdraw0(s0, st, tx.p, tx.n) ELSE Withdraw(s0, st, tx.p, tx.n)
      [] tx.k = "RealWithdraw" -> RealWithdraw(s0, st)
      [] tx.k = "Approp" ->
           [st EXCEPT !.needApp = FALSE, !.fbal = @ - s0.approp, !.cbal = @ + s0.approp]
      [] tx.k = "Fund" -> [st EXCEPT !.fbal = @ + tx.n]
      [] tx.k = "Claim" ->
           IF tx.x = "next" THEN [st EXCEPT !.next[tx.c].key = TRUE]
           ELSE [st EXCEPT !.mem[tx.c].key = TRUE,
                           !.mem[tx.c].st = IF @ = "Inactive" THEN "Elected" ELSE @]
      [] tx.k = "ReturnDeposit" ->
           [st EXCEPT !.dep[tx.c].total = @ - Available(s0, tx.c),
                      !.cand[tx.c].st =
                          IF s0.cand[tx.c].st = "Canceled" /\ h - s0.cand[tx.c].cancelH > Lockup
                          THEN "Returned" ELSE @,
                      !.hcand = [i \in Sessions |-> [c \in CRs |->
                                    IF c = tx.c /\ s0.hcand[i][c] \notin {"None", "Returned"}
                                    THEN "Returned" ELSE @[i][c]]],
                      !.hmem = [i \in Sessions |-> [c \in CRs |->
                                    IF c = tx.c /\ s0.hmem[i][c] # "None" THEN "Returned" ELSE @[i][c]]]]
      [] OTHER -> st

\* processTransactions sorts the block's transactions (coinbase excluded) with
\* SortTransactions; for at most two transactions the result is: a withdrawal
\* followed by a non-withdrawal keeps its order, every other pair is swapped.
ExecOrder(txs) ==
    IF Len(txs) = 2 /\ ~(txs[1].k = "Withdraw" /\ txs[2].k # "Withdraw")
    THEN <<txs[2], txs[1]>> ELSE txs

RECURSIVE ApplyAll(_, _, _, _)
ApplyAll(s0, st, h, txs) ==
    IF txs = <<>> THEN st ELSE ApplyAll(s0, ApplyTx(s0, st, h, Head(txs)), h, Tail(txs))

---------------------------------------------------------------------------
(* ProcessBlock *)

\* 1. everything recorded in the state history, run by its Commit
StatePhase(s0, h, txs) ==
    LET mark == ~InVoting(s0, h) /\ h = s0.lch + DutyPeriod - VotingPeriod - ClaimPeriod - 1
        a == IF mark THEN [s0 EXCEPT !.lvsh = h + 1] ELSE s0
        b == ApplyAll(s0, a, h, ExecOrder(txs))
        activate == IF InVoting(s0, h)
                    THEN {c \in CRs : s0.cand[c].st = "Pending" /\ h - s0.cand[c].regH + 1 >= ActivateDuration}
                    ELSE {}
        unlock == {c \in CRs : s0.cand[c].st = "Canceled" /\ h - s0.cand[c].cancelH = Lockup}
    IN [b EXCEPT !.h = h,
                 !.cand = [c \in CRs |-> IF c \in activate THEN [@[c] EXCEPT !.st = "Active"] ELSE @[c]],
                 !.dep = [c \in CRs |-> IF c \in unlock THEN [@[c] EXCEPT !.locked = @ - 1] ELSE @[c]]]

\* candidates ranked as getActiveAndExistDIDCRCandidatesDesc does; ties are
\* broken by the order of the identities (the driver names its keys so)
Before(st, c, d) == st.cand[c].votes > st.cand[d].votes
                    \/ (st.cand[c].votes = st.cand[d].votes /\ c < d)
Active(st) == {c \in CRs : st.cand[c].st = "Active"}
Elect(st) == {c \in Active(st) : Cardinality({d \in Active(st) : Before(st, d, c)}) < MemberCount}

\* 2-5. everything recorded in the committee history.  s1 is the state after
\* the state history ran; sp the same with the proposals updated (3).
CommitteePhase(s1, sp, h) ==
    LET onDuty   == {m \in CRs : s1.mem[m].st \in OnDuty(s1)}
        newImp   == IF s1.inElect THEN {m \in onDuty : s1.mem[m].imp >= RejectThreshold} ELSE {}
        already  == {m \in CRs : s1.mem[m].st = "Impeached"}
        ending   == s1.inElect /\ Cardinality(already) + Cardinality(newImp) > MemberCount - AgreeCount
        termd    == IF ending THEN onDuty \ newImp ELSE {}
        \* getMemberPenalty: the penalty takes the whole deposit when the member
        \* served no block of the term or reviewed none of the term's proposals
        \* (smaller penalties are not modelled)
        termProps == {p \in Props : s1.prop[p].st # "None" /\ s1.prop[p].sess = s1.session}
        reviewed(m) == termProps = {} \/ \E p \in termProps : s1.prop[p].crv[m] # "none"
        served(m, impeached) == (IF impeached THEN h - s1.lch ELSE DutyPeriod) - s1.mem[m].pbc
                                - (IF s1.mem[m].st = "Inactive" THEN 1 ELSE 0)
        fullPen(m, impeached) == IF served(m, impeached) = 0 \/ ~reviewed(m) THEN 1 ELSE 0
        \* (2) closures of tryStartVotingPeriod
        c2 == [sp EXCEPT
                 !.mem = [m \in CRs |-> IF m \in newImp THEN [@[m] EXCEPT !.st = "Impeached"]
                                        ELSE IF m \in termd THEN [@[m] EXCEPT !.st = "Terminated"]
                                        ELSE @[m]],
                 !.dep = [m \in CRs |-> IF m \in newImp \cup termd
                                        THEN [@[m] EXCEPT !.locked = @ - 1, !.pen = s1.dep[m].pen + fullPen(m, m \in newImp)]
                                        ELSE @[m]],
                 !.uImp = IF ending THEN [v \in Voters |-> ZeroPat]
                          ELSE [v \in Voters |-> [m \in CRs |-> IF m \in newImp THEN 0 ELSE @[v][m]]],
                 !.inElect = IF ending THEN FALSE ELSE @,
                 !.lvsh = IF ending /\ (@ = 0 \/ ~(h < @ + VotingPeriod)) THEN h ELSE @]
        \* (4a) end of the voting period (live values: those of s1)
        endVoting == h = s1.lvsh + VotingPeriod
        voted     == {c \in Active(s1) : s1.cand[c].votes > 0}
        enough    == Cardinality(voted) >= MemberCount
        elected   == Elect(s1)
        c4a == IF ~endVoting THEN c2
               ELSE IF ~enough THEN [c2 EXCEPT !.lvsh = h]
               ELSE [c2 EXCEPT
                       !.next = [c \in CRs |-> [in |-> c \in elected, key |-> FALSE]],
                       !.uCR = [v \in Voters |-> ZeroPat],
                       !.dep = [c \in CRs |->
                                  IF /\ s1.cand[c].st # "None" /\ c \notin elected
                                     /\ ~(s1.cand[c].st = "Canceled" /\ h - s1.cand[c].cancelH >= Lockup)
                                     /\ s1.cand[c].st # "Returned"
                                  THEN [@[c] EXCEPT !.locked = @ - 1] ELSE @[c]],
                       !.hcand[s1.session] = [c \in CRs |-> s1.cand[c].st],
                       !.cand = [c \in CRs |-> [st |-> "None", votes |-> 0, regH |-> 0, cancelH |-> 0, nick |-> 0]]]
        \* (4b) committee change (live values: those of s1; proposals: sp)
        change == IF s1.lch = 0 /\ h <= CommitteeStart THEN h = CommitteeStart
                  ELSE IF s1.lvsh = 0 THEN h = s1.lch + DutyPeriod
                  ELSE h = s1.lch + DutyPeriod \/ h = s1.lvsh + VotingPeriod + ClaimPeriod
        clean  == s1.lvsh = s1.lch + DutyPeriod - VotingPeriod - ClaimPeriod
        hasNext == \E c \in CRs : s1.next[c].in
        anyMem == \E m \in CRs : s1.mem[m].st # "None"
        hm0 == IF clean THEN [i \in Sessions |-> [c \in CRs |-> "None"]] ELSE c4a.hmem
        hc0 == IF clean THEN [i \in Sessions |-> [c \in CRs |-> "None"]] ELSE c4a.hcand
        hm1 == IF anyMem
               THEN [hm0 EXCEPT ![s1.session] = [c \in CRs |-> IF s1.mem[c].st # "None" THEN s1.mem[c].st ELSE @[c]]]
               ELSE hm0
        depOut == [m \in CRs |-> IF s1.inElect /\ m \in onDuty
                                 THEN [c4a.dep[m] EXCEPT !.locked = @ - 1, !.pen = s1.dep[m].pen + fullPen(m, FALSE)]
                                 ELSE c4a.dep[m]]
        c4b == IF ~change THEN c4a
               ELSE IF ~hasNext
               THEN [c4a EXCEPT !.hmem = hm1, !.hcand = hc0, !.dep = depOut,
                                !.uImp = [v \in Voters |-> ZeroPat],
                                !.mem = [m \in CRs |-> [st |-> "None", imp |-> 0, key |-> FALSE, pbc |-> 0]],
                                !.inElect = FALSE]
               ELSE [c4a EXCEPT !.hmem = hm1, !.hcand = hc0, !.dep = depOut,
                                !.mem = [m \in CRs |-> IF s1.next[m].in
                                                       THEN [st |-> "Elected", imp |-> 0, key |-> s1.next[m].key, pbc |-> 0]
                                                       ELSE [st |-> "None", imp |-> 0, key |-> FALSE, pbc |-> 0]],
                                !.next = [m \in CRs |-> [in |-> FALSE, key |-> FALSE]],
                                !.uImp = [v \in Voters |-> ZeroPat],
                                !.session = @ + 1, !.inElect = TRUE, !.lch = h,
                                !.used = OutstandingAll(sp), !.needApp = TRUE]
        changed == change /\ hasNext
        \* Named deviation (a defect of the code, kept in the model because the model follows
        \* the code; on the real committee it is reported as
        \* C28:cr-deposit-negative:released-twice-at-committee-change): a member that is impeached or
        \* terminated by (2) in the very block in which the committee changes is still on duty in
        \* the state processCurrentMembersDepositInfo reads (the closures of (2) have not run
        \* yet), so its deposit is released by both: depOut above subtracts a second time.
        releasedTwice == IF change /\ s1.inElect THEN newImp \cup termd ELSE {}
        \* (6) members that have not claimed a node
        inactCheck == ~(h < c4b.lvsh + VotingPeriod + ClaimPeriod)
        \* updateInactiveCountPenalty: a block spent inactive counts against the member
        c5 == [c4b EXCEPT !.mem = [m \in CRs |-> IF @[m].st \in {"Inactive", "Illegal"}
                                                 THEN [@[m] EXCEPT !.pbc = @ + 1] ELSE @[m]]]
        c6 == IF inactCheck
              THEN [c5 EXCEPT !.mem = [m \in CRs |-> IF @[m].st = "Elected" /\ ~@[m].key
                                                     THEN [@[m] EXCEPT !.st = "Inactive"] ELSE @[m]]]
              ELSE c5
        \* (7) funds of the new term
        ap == (c6.fbal * 10) \div 100
        c7 == [c6 EXCEPT !.over = [m \in CRs |-> IF m \in releasedTwice THEN @[m] + 1 ELSE @[m]]]
       \* createAppropriationTransaction: with nothing on the CR assets address there is no appropriation
       \* to make and NeedAppropriation (set by the committee history a moment ago) is dropped again
    IN IF changed THEN [c7 EXCEPT !.usedSnap = c7.used, !.approp = ap, !.stage = c7.cbal + ap, !.needApp = c7.fbal > 0]
       ELSE c7

ElectionAlive(s1) ==
    LET onDuty  == {m \in CRs : s1.mem[m].st \in OnDuty(s1)}
        newImp  == {m \in onDuty : s1.mem[m].imp >= RejectThreshold}
        already == {m \in CRs : s1.mem[m].st = "Impeached"}
    IN s1.inElect /\ ~(Cardinality(already) + Cardinality(newImp) > MemberCount - AgreeCount)

ProcessBlock(s0, h, txs) ==
    LET s1 == StatePhase(s0, h, txs)
        sp == UpdateProposals(s1, h, ElectionAlive(s1))
    IN CommitteePhase(s1, sp, h)

---------------------------------------------------------------------------
(* Start states: a fixed sequence of blocks processed from Genesis.  The   *)
(* driver replays the same blocks on the real committee.                   *)

T(k) == [BaseTx EXCEPT !.k = k]
TC(k, c) == [BaseTx EXCEPT !.k = k, !.c = c]
AllOnes == [c \in CRs |-> 1]

CRSeq == CHOOSE q \in [1..Cardinality(CRs) -> CRs] : \A i, j \in 1..Cardinality(CRs) : i < j => q[i] < q[j]
ForAllCRs(k, x) == [i \in 1..Cardinality(CRs) |-> [BaseTx EXCEPT !.k = k, !.c = CRSeq[i], !.x = x]]
\* the CRs a vote of one unit for everybody elects (ties are broken by the order of the identities)
ForElected(k, x) == [i \in 1..MemberCount |-> [BaseTx EXCEPT !.k = k, !.c = CRSeq[i], !.x = x]]
AVoter == CHOOSE v \in Voters : \A w \in Voters : v <= w
AnOwner == CHOOSE o \in Owners : \A w \in Owners : o <= w
P1 == CHOOSE p \in Props : \A q \in Props : p <= q
P2 == CHOOSE p \in Props \ {P1} : \A q \in Props \ {P1} : p <= q
C1 == CRSeq[1]
C2 == CRSeq[2]

Empty(n) == [i \in 1..n |-> <<>>]

\* first election: register at 1, active at 6, vote at 7, voting ends at
\* VotingPeriod (8), nodes claimed and committee changed at CommitteeStart (9),
\* funds appropriated at 10
FirstTerm ==
    <<ForAllCRs("RegisterCR", ""), <<[T("Fund") EXCEPT !.n = 800]>>>> \o Empty(4)
    \o << <<[T("VoteCR") EXCEPT !.v = AVoter, !.pat = AllOnes]>>, <<>>, ForElected("Claim", "next"), <<T("Approp")>> >>

\* a proposal of the first term taken to VoterAgreed (blocks 11-13)
OneProposal ==
    << <<[T("Proposal") EXCEPT !.p = P1, !.c = C1, !.o = AnOwner, !.bud = <<1, 2, 5>>]>>,
       <<[T("Review") EXCEPT !.p = P1, !.c = C1, !.x = "approve"], [T("Review") EXCEPT !.p = P1, !.c = C2, !.x = "approve"]>>,
       <<>> >>

\* the end of the first term with the second election decided (blocks 11-22): two
\* proposals registered at 11 and 13, the first approved by two members, the second
\* by one; everybody registers again at 16, is active at 21 and gets one vote at 22.
\* What the proposals are then depends on the proposal voting periods: with long
\* ones the review / public vote ends in the blocks around the end of the voting
\* period (24) and the committee change (25).  "handover" starts at 23 (the next
\* two blocks end the voting period and change the committee), "handover21" at 21
\* (the votes are still to be cast).
Handover ==
    << <<[T("Proposal") EXCEPT !.p = P1, !.c = C1, !.o = AnOwner, !.bud = <<1, 2, 5>>]>>,
       <<[T("Review") EXCEPT !.p = P1, !.c = C1, !.x = "approve"], [T("Review") EXCEPT !.p = P1, !.c = C2, !.x = "approve"]>>,
       <<[T("Proposal") EXCEPT !.p = P2, !.c = C1, !.o = AnOwner, !.bud = <<2, 1, 1>>]>>,
       <<[T("Review") EXCEPT !.p = P2, !.c = C1, !.x = "approve"]>>,
       <<>>,
       ForAllCRs("RegisterCR", "") >>
    \o Empty(5)
    \o << <<[T("VoteCR") EXCEPT !.v = AVoter, !.pat = AllOnes]>> >>

Preamble ==
    CASE Scenario = "fresh"    -> <<>>
      [] Scenario = "voting"   -> <<ForAllCRs("RegisterCR", ""), <<[T("Fund") EXCEPT !.n = 800]>>>> \o Empty(3)
      [] Scenario = "voting4"  -> <<ForAllCRs("RegisterCR", ""), <<[T("Fund") EXCEPT !.n = 800]>>>> \o Empty(2)
      [] Scenario = "unfunded" -> <<ForAllCRs("RegisterCR", "")>> \o Empty(4)     \* nothing on the CR assets address
      [] Scenario = "handover" -> FirstTerm \o Handover \o Empty(1)
      [] Scenario = "handover21" -> FirstTerm \o SubSeq(Handover, 1, Len(Handover) - 1)
      [] Scenario = "seated"   -> SubSeq(FirstTerm, 1, Len(FirstTerm) - 1)   \* the committee has just changed (9): appropriation pending
      [] Scenario = "duty"     -> FirstTerm
      [] Scenario = "agreed"   -> FirstTerm \o OneProposal
      [] Scenario = "election" -> \* second voting period (16..23): candidates registered at 16, now 20
                                  FirstTerm \o OneProposal \o Empty(2) \o <<ForAllCRs("RegisterCR", "")>> \o Empty(4)
      [] OTHER -> <<>>

---------------------------------------------------------------------------
(* Transactions offered to a block *)

TxAlphabet ==
    (IF "RegisterCR" \in Kinds THEN {TC("RegisterCR", c) : c \in CRs} ELSE {})
    \cup (IF "UpdateCR" \in Kinds THEN {TC("UpdateCR", c) : c \in CRs} ELSE {})
    \cup (IF "UnregisterCR" \in Kinds THEN {TC("UnregisterCR", c) : c \in CRs} ELSE {})
    \cup (IF "VoteCR" \in Kinds THEN {[T("VoteCR") EXCEPT !.v = v, !.pat = pt] : v \in Voters, pt \in VotePatterns} ELSE {})
    \cup (IF "Impeach" \in Kinds THEN {[TC("Impeach", c) EXCEPT !.v = v, !.n = n] : c \in CRs, v \in Voters, n \in 1..2} ELSE {})
    \cup (IF "Reject" \in Kinds THEN {[T("Reject") EXCEPT !.p = p, !.v = v, !.n = n] : p \in Props, v \in Voters, n \in 1..2} ELSE {})
    \cup (IF "Proposal" \in Kinds THEN {[TC("Proposal", c) EXCEPT !.p = p, !.o = AnOwner, !.bud = b] :
                                          c \in {C1}, p \in Props, b \in BudgetChoices} ELSE {})
    \cup (IF "Close" \in Kinds THEN {[TC("Close", C1) EXCEPT !.p = p, !.t = t, !.o = AnOwner] : p \in Props, t \in Props} ELSE {})
    \cup (IF "Review" \in Kinds THEN {[TC("Review", c) EXCEPT !.p = p, !.x = r] :
                                          c \in CRs, p \in Props, r \in {"approve", "reject", "abstain"}} ELSE {})
    \cup (IF "Tracking" \in Kinds THEN
            {[T("Tracking") EXCEPT !.p = p, !.o = o, !.x = "Progress", !.n = 2] : p \in Props, o \in Owners}
            \cup {[T("Tracking") EXCEPT !.p = p, !.o = o, !.x = "Rejected", !.n = n] : p \in Props, o \in Owners, n \in 2..3}
            \cup {[T("Tracking") EXCEPT !.p = p, !.o = o, !.x = "Finalized", !.n = 3] : p \in Props, o \in Owners}
            \cup {[T("Tracking") EXCEPT !.p = p, !.o = o, !.x = "Terminated", !.n = 0] : p \in Props, o \in Owners}
            \cup {[T("Tracking") EXCEPT !.p = p, !.o = o, !.x = "ChangeOwner", !.n = 0, !.o2 = o2] :
                     p \in Props, o \in Owners, o2 \in Owners}
          ELSE {})
    \cup (IF "RealWithdraw" \in Kinds THEN {T("RealWithdraw")} ELSE {})
    \cup (IF "Approp" \in Kinds THEN {T("Approp")} ELSE {})
    \cup (IF "Claim" \in Kinds THEN {[TC("Claim", c) EXCEPT !.x = x] : c \in CRs, x \in {"cur", "next"}} ELSE {})
    \cup (IF "ReturnDeposit" \in Kinds THEN {TC("ReturnDeposit", c) : c \in CRs} ELSE {})

\* Pairs in one block are explored when both transactions concern the same
\* proposal, the same CR or the same stake address, or both register a
\* proposal: that is where the per-block rule (pre-block validation) matters.
Groups(e) ==
    {{x \in e : x.p = p} : p \in Props}
    \cup {{x \in e : x.p = NoProp /\ x.c = cr} : cr \in CRs}
    \cup {{x \in e : x.v = v} : v \in Voters}
    \cup {{x \in e : x.k \in {"Proposal", "Close"}}}

\* one Voting transaction per stake address per block (vote-right accounting
\* of several votes in one block is not modelled here)
OneVotePerVoter(txs) ==
    \A i, j \in 1..Len(txs) : i < j => ~(txs[i].k \in {"VoteCR", "Impeach", "Reject"} /\
                                         txs[j].k \in {"VoteCR", "Impeach", "Reject"} /\ txs[i].v = txs[j].v)
\* a proposal identity is a draft hash: two registrations of it in one block
\* are the same transaction
OneRegistration(txs) ==
    \A i, j \in 1..Len(txs) : i < j => ~(txs[i].k \in {"Proposal", "Close"} /\ txs[j].k \in {"Proposal", "Close"}
                                         /\ txs[i].p = txs[j].p)

\* withdrawals: the only amount the checker can accept is the available one
\* (other amounts are probed by the driver against Verdicts)
WithdrawTxs(st) ==
    IF "Withdraw" \in Kinds
    THEN {[T("Withdraw") EXCEPT !.p = p, !.o = st.prop[p].owner, !.n = Avail(st.prop[p])] :
             p \in {q \in Props : st.prop[q].st # "None"}}
    ELSE {}

Enabled1(st) == {tx \in TxAlphabet \cup WithdrawTxs(st) : Accepts(st, st.h + 1, tx, 0)}

BlockChoices(st) ==
    LET e == Enabled1(st) IN
      {<<>>} \cup {<<a>> : a \in e}
      \cup (IF MaxTx >= 2
            THEN {q \in UNION {{<<a, b>> : a \in g, b \in g} : g \in Groups(e)} :
                     /\ q[1] # q[2] \/ q[1].k \in {"Withdraw", "Tracking"}
                     /\ OneVotePerVoter(q) /\ OneRegistration(q)
                     \* both are admitted alone; together: the duplicate rule, and the
                     \* budgets asked by the first count against the second
                     /\ DupFree(q)
                     /\ (q[2].k = "Proposal" => Accepts(st, st.h + 1, q[2], BudgetBefore(q, 2)))}
            ELSE {})

---------------------------------------------------------------------------
(* Behaviour *)

\* what the checkers must answer in state st for the next block (probed by
\* the driver on the real checkers after every step)
Verdicts(st) ==
    [avail |-> [p \in Props |-> IF st.prop[p].st \in {"VoterAgreed", "Finished", "Aborted", "Terminated"}
                                THEN Avail(st.prop[p]) ELSE 0],
     cap   |-> IF ProposalAllowed(st, st.h) THEN ProposalCap(st) ELSE 0,
     room  |-> IF ProposalAllowed(st, st.h) THEN ProposalRoom(st, 0) ELSE 0]

\* the state as logged: positional, spec-only bookkeeping (nickname counter,
\* order numbers, the paid / cover ledgers, deposit totals, the deviation counter `over`) left out;
\* kd = the CRs whose deposit the named deviation ReleasedTwice has released a second time
Compact(st) ==
    [h |-> st.h,
     cand |-> [c \in CRs |-> <<st.cand[c].st, st.cand[c].votes, st.cand[c].regH, st.cand[c].cancelH, st.cand[c].nick>>],
     dep  |-> [c \in CRs |-> <<st.dep[c].known, st.dep[c].locked>>],
     mem  |-> [c \in CRs |-> <<st.mem[c].st, st.mem[c].imp, st.mem[c].key, st.mem[c].pbc>>],
     next |-> [c \in CRs |-> <<st.next[c].in, st.next[c].key>>],
     hmem |-> st.hmem, hcand |-> st.hcand,
     per  |-> <<st.lch, st.lvsh, st.inElect, st.session, st.needApp>>,
     fund |-> <<st.fbal, st.cbal, st.used, st.stage, st.approp, st.usedSnap>>,
     uCR |-> st.uCR, uImp |-> st.uImp, uRej |-> st.uRej,
     prop |-> [p \in Props |->
                 LET q == st.prop[p] IN
                   <<q.st, q.kind, q.target, q.bud, q.bst, q.wable, q.wdrawn, q.owner, q.sponsor, q.crv, q.rej,
                     q.regH, q.vsH, q.tcount, q.fps, q.termH, q.sess>>],
     pend |-> {<<o.n, o.p, o.amt>> : o \in st.pend}]

LogStep(act, args) ==
    log' = Append(log, [act |-> act, args |-> args, st |-> Compact(s'), vd |-> Verdicts(s'),
                        kd |-> {c \in CRs : s'.over[c] > 0}])

StartLog(st) == <<[act |-> "Start", args |-> [scenario |-> Scenario], st |-> Compact(st), vd |-> Verdicts(st),
                   kd |-> {c \in CRs : st.over[c] > 0}]>>

\* The start state is reached by processing the blocks of Preamble from Genesis,
\* one step each (not part of the logged behaviour; the blocks are printed once
\* for the replay driver).
Init == /\ PrintT(<<"PREAMBLE", ToJson(Preamble)>>)
        /\ s = Genesis
        /\ nsteps = 0 /\ nrolls = 0
        /\ IF Preamble = <<>>
           THEN pc = 0 /\ hist = <<<<0, Genesis>>>> /\ log = StartLog(Genesis)
           ELSE pc = 1 /\ hist = <<>> /\ log = <<>>

PreStep ==
    /\ pc > 0
    /\ s' = ProcessBlock(s, s.h + 1, Preamble[pc])
    /\ IF pc = Len(Preamble)
       THEN pc' = 0 /\ hist' = <<<<s.h + 1, s'>>>> /\ log' = StartLog(s')
       ELSE pc' = pc + 1 /\ UNCHANGED <<hist, log>>
    /\ UNCHANGED <<nsteps, nrolls>>

Push(hs, e) == LET q == Append(hs, e) IN
               IF Len(q) > RollDepth + 1 THEN SubSeq(q, Len(q) - RollDepth, Len(q)) ELSE q

\* txs ranges over BlockChoices(s) (see Next)
Block(txs) ==
    /\ pc = 0 /\ nsteps < MaxSteps
    /\ s' = ProcessBlock(s, s.h + 1, txs)
    /\ hist' = Push(hist, <<s.h + 1, s'>>)
    /\ nsteps' = nsteps + 1
    /\ UNCHANGED <<nrolls, pc>>
    /\ LogStep("Block", [h |-> s.h + 1, txs |-> txs,
                         ok |-> [i \in 1..Len(txs) |-> RuleAllows(txs, i)]])

\* A rollback to height t the way the chain does it (checkpoint.Manager.OnRollbackTo
\* -> cr Checkpoint.OnRollbackTo): the state after block t.  Below VotingStart the
\* checkpoint resets the committee to its initial state, which is the state after
\* every block below VotingStart (ProcessBlock ignores them); from VotingStart on it
\* is Committee.RollbackTo.  t = VotingStart - 1 and t = VotingStart are the two
\* sides of that bound.  (Committee.RollbackTo(0) itself does not terminate:
\* uint32 loop bound; the node never calls it.)
RollbackFloor == IF VotingStart > 0 THEN VotingStart - 1 ELSE 0
Rollback(i) ==
    /\ pc = 0 /\ nsteps < MaxSteps /\ nrolls < MaxRollbacks
    /\ i \in 1..(Len(hist) - 1)
    /\ hist[i][1] >= RollbackFloor
    /\ s' = hist[i][2]
    /\ hist' = SubSeq(hist, 1, i)
    /\ nsteps' = nsteps + 1 /\ nrolls' = nrolls + 1 /\ UNCHANGED pc
    /\ LogStep("Rollback", [t |-> hist[i][1]])

\* C23: taking the committee checkpoint and restoring a committee from it
\* (Checkpoint.Snapshot -> Serialize -> Deserialize -> Committee.Recover) is the
\* identity on the state.  The change histories are gone afterwards: nothing
\* below the checkpoint can be rolled back to.
Snapshot(st) == st
Restore(cp) == cp
CheckpointRestore ==
    /\ pc = 0 /\ nsteps < MaxSteps /\ "Checkpoint" \in Kinds
    /\ s' = Restore(Snapshot(s))
    /\ hist' = <<<<s.h, s'>>>>
    /\ nsteps' = nsteps + 1 /\ UNCHANGED <<nrolls, pc>>
    /\ LogStep("Checkpoint", [h |-> s.h])

Next == \/ PreStep
        \/ CheckpointRestore
        \/ pc = 0 /\ \E txs \in BlockChoices(s) : Block(txs)
        \/ pc = 0 /\ \E i \in 1..(Len(hist) - 1) : Rollback(i)

Spec == Init /\ [][Next]_vars

\* Random walks for -simulate: one successor per step, drawn by TLC's seeded
\* generator (a rollback about every sixth step).
SimNext ==
    IF pc > 0 THEN PreStep ELSE
    LET rb == {i \in 1..(Len(hist) - 1) : hist[i][1] >= RollbackFloor} IN
      IF rb # {} /\ nrolls < MaxRollbacks /\ RandomElement(1..6) = 1
      THEN Rollback(RandomElement(rb))
      ELSE IF "Checkpoint" \in Kinds /\ RandomElement(1..8) = 1 THEN CheckpointRestore
      ELSE Block(RandomElement(BlockChoices(s)))
SimSpec == Init /\ [][SimNext]_vars

---------------------------------------------------------------------------
(* Properties *)

TypeOK ==
    /\ \A c \in CRs : /\ s.cand[c].st \in {"None", "Pending", "Active", "Canceled", "Returned"}
                      /\ s.mem[c].st \in {"None", "Elected", "Impeached", "Terminated", "Returned", "Inactive", "Illegal"}
    /\ \A p \in Props : s.prop[p].st \in {"None", "Registered", "CRAgreed", "VoterAgreed"} \cup FinalStatus
    /\ s.fbal >= 0 /\ s.session \in Sessions

\* C22, model side: the newest history entry is the current state and a
\* rollback lands on a state that was the state after that height
HistConsistent == pc = 0 => (hist[Len(hist)][2] = s /\ hist[Len(hist)][1] = s.h)

\* C23 (CR part): a checkpoint / restore step changes nothing
CheckpointLossless ==
    [][(Len(log') > Len(log) /\ log'[Len(log')].act = "Checkpoint") => s' = s]_vars

\* C29
C29PaidWithinApproved == PaidWithinApproved(s)
C29StagePaidOnce == StagePaidOnce(s)
C29WithdrawnWasWithdrawable == WithdrawnWasWithdrawable(s)
C29CommittedWithinAvailable == CommittedWithinAvailable(s)
C29PayableWithinWithdrawn == PayableWithinWithdrawn(s)

\* C28, CR side: deposits are never overdrawn.  Per CID the committee keeps the
\* deposit address total, the part of it that is locked (one MinDepositAmount per
\* live candidacy / membership) and the penalty; what ReturnCRDepositCoin may
\* take is Available = total - locked - penalty.  The balance invariant: no part is
\* negative and Available never exceeds what is on the address beyond the locked
\* amount and the penalty (a locked amount that is released twice goes negative
\* and inflates Available by a whole deposit).  The model follows the code in
\* how `locked` moves; the invariant is evaluated on the real committee after
\* every block (keys C28:cr-...), and by TLC on the model.
CRDepositBalance(st) ==
    \A c \in CRs : /\ st.dep[c].locked >= 0 /\ st.dep[c].pen >= 0 /\ st.dep[c].total >= 0
                   /\ Available(st, c) <= st.dep[c].total
                   /\ (~st.dep[c].known => st.dep[c].total = 0 /\ st.dep[c].locked = 0)
C28CRDepositBalance == CRDepositBalance(s)
\* what TLC checks on the model: the same with the deposits the named deviation
\* ReleasedTwice (see CommitteePhase) released a second time put back
C28CRDepositBalanceButKnown ==
    CRDepositBalance([s EXCEPT !.dep = [c \in CRs |-> [@[c] EXCEPT !.locked = @ + s.over[c]]]])
DepositSane == \A c \in CRs : s.dep[c].locked >= 0

\* candidate votes never go negative, members are exactly MemberCount or none
VotesSane == \A c \in CRs : s.cand[c].votes >= 0 /\ s.mem[c].imp >= 0
MembersSane == Cardinality({m \in CRs : s.mem[m].st # "None"}) \in {0, MemberCount}

Emit == (pc' = 0 /\ nsteps' > 0) => PrintT(<<"TRACE", ToJson(log')>>)
EmitLast == (nsteps' = MaxSteps) => PrintT(<<"TRACE", ToJson(log')>>)
=============================================================================
