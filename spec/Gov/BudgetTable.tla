---------------------------- MODULE BudgetTable ----------------------------
(***************************************************************************)
(* Decision table for the budget limits at proposal registration           *)
(* (core/transaction/crcproposaltransaction.go: checkNormalOrELIPProposal). *)
(* In the behaviours of CR.tla the second limit (what is left of the stage  *)
(* amount) cannot bind below the 10 % cap with two proposals; here the      *)
(* committee's funds fields are chosen freely so that each limit, and the   *)
(* budgets asked earlier in the same block, decide cases.                   *)
(*                                                                         *)
(* Init picks one case, Decide logs the verdict BudgetOK of Proposal.tla.   *)
(* The driver sets the three fields on a real committee in its duty period  *)
(* and asks the real checker.                                               *)
(***************************************************************************)
EXTENDS Proposal, Json

CONSTANTS StageAmounts, UsedAtStart, UsedNow, AskedInBlock, Totals

VARIABLES case, done, log
vars == <<case, done, log>>
view == <<case, done>>

Cases == [stage : StageAmounts, usedSnap : UsedAtStart, used : UsedNow, inBlock : AskedInBlock, total : Totals]

Init == case \in Cases /\ done = FALSE /\ log = <<>>

Funds(c) == [stage |-> c.stage, usedSnap |-> c.usedSnap, used |-> c.used]

Decide ==
    /\ ~done /\ done' = TRUE /\ UNCHANGED case
    /\ log' = <<[act |-> "Case", args |-> case,
                 exp |-> BudgetOK(Funds(case), <<case.total - 2, 1, 1>>, case.inBlock),
                 cap |-> ProposalCap(Funds(case)), room |-> ProposalRoom(Funds(case), case.inBlock)]>>

Next == Decide
Spec == Init /\ [][Next]_vars

\* a registered proposal never takes the committee beyond the stage amount
RegistrationWithinFunds ==
    (done /\ log[1].exp) => case.used + case.inBlock + case.total <= case.stage

Emit == PrintT(<<"TRACE", ToJson(log')>>)
=============================================================================
