// Conformance driver for C31 (spec/Policy/CrossChainUTXO.tla, NetConfig.tla).
//
//	ccutxo policy <cases.jsonl>   every case of CrossChainUTXO.tla -> the real
//	                              checkTransactionCrossChainUTXO (verif export), for
//	                              every transaction type the factory instantiates and
//	                              several embeddings of the abstract heights
//	ccutxo config <cases.jsonl>   every case of NetConfig.tla -> Settings.SetupConfig
//	                              on a generated config file
package main

import (
	"fmt"
	"math"
	"os"
	"sort"

	"github.com/elastos/Elastos.ELA/common"
	"github.com/elastos/Elastos.ELA/common/config"
	"github.com/elastos/Elastos.ELA/core/contract"
	"github.com/elastos/Elastos.ELA/core/transaction"
	common2 "github.com/elastos/Elastos.ELA/core/types/common"
	"github.com/elastos/Elastos.ELA/core/types/functions"
	"github.com/elastos/Elastos.ELA/core/types/interfaces"

	"verif/harness/internal/edgee2e"
	"verif/harness/internal/netcfg"
	"verif/harness/internal/rep"
	"verif/harness/internal/stack"
)

const (
	KeyUnlistedName = "C31:config:unlisted-activenet-keeps-mainnet-params"
)

var otherPrefixes = []contract.PrefixType{contract.PrefixStandard, contract.PrefixMultiSig,
	contract.PrefixDeposit, contract.PrefixCRDID, contract.PrefixDPoSV2, 0x00, 0x4A, 0x4C, 0xFF}

// every type byte the transaction factory can instantiate
func instantiable() (all []common2.TxType) {
	for b := 0; b < 256; b++ {
		func() {
			defer func() { recover() }()
			if txn, err := transaction.GetTransaction(common2.TxType(b)); err == nil && txn != nil {
				all = append(all, common2.TxType(b))
			}
		}()
	}
	return
}

func mkTx(t common2.TxType, ver byte, nIn int) interfaces.Transaction {
	ins := make([]*common2.Input, nIn)
	for i := range ins {
		ins[i] = &common2.Input{Previous: common2.OutPoint{TxID: common.Uint256{byte(i + 1)}, Index: uint16(i)}}
	}
	return transaction.CreateTransaction(common2.TxVersion09, t, ver, nil, nil, ins, nil, 0, nil)
}

func mkRefs(txn interfaces.Transaction, nX, nO, rot int) map[*common2.Input]common2.Output {
	refs := map[*common2.Input]common2.Output{}
	ins := txn.Inputs()
	// rot decides where among the inputs the cross-chain references sit
	for i := 0; i < nX+nO; i++ {
		var ph common.Uint168
		ph[1] = byte(i + 1)
		pos := (i + rot) % (nX + nO)
		if pos < nX {
			ph[0] = byte(contract.PrefixCrossChain)
		} else {
			ph[0] = byte(otherPrefixes[(pos-nX+rot)%len(otherPrefixes)])
		}
		refs[ins[i]] = common2.Output{ProgramHash: ph, Value: 100}
	}
	return refs
}

// embeddings of the abstract (F, R, h) into uint32 heights; all preserve the
// order relations between h and F, R.
func embed(mode int, F, R, h int) (f, r, hh uint32, ok bool) {
	switch mode {
	case 0:
		return uint32(F), uint32(R), uint32(h), true
	case 1: // the coordinated mainnet heights
		fm, rm := config.MainNetCrossChainUTXOFreezeHeight, config.MainNetCrossChainUTXORestrictionHeight
		if R == F {
			rm = fm
		}
		switch {
		case h < F:
			hh = fm - uint32(F-h)
		case h < R:
			if h == R-1 && h > F {
				hh = rm - 1
			} else {
				hh = fm + uint32(h-F)
			}
		default:
			hh = rm + uint32(h-R)
		}
		return fm, rm, hh, true
	case 2: // the top of the height range
		base := uint32(math.MaxUint32 - 32)
		return base + uint32(F), base + uint32(R), base + uint32(h), true
	case 3: // policy disabled as on testnet/regnet: both heights MaxUint32
		if F != R || h >= F {
			return 0, 0, 0, false
		}
		d := config.DisabledCrossChainUTXORestrictionHeight
		return d, d, d - uint32(F-h), true
	}
	return 0, 0, 0, false
}

func versionsFor(v int, top int) []byte {
	if v == top { // the largest abstract version stands for every larger one
		return []byte{byte(v), byte(v + 1), 0x7f, 0xff}
	}
	return []byte{byte(v)}
}

func policy(path string) {
	functions.GetTransactionByTxType = transaction.GetTransaction
	functions.GetTransactionByBytes = transaction.GetTransactionByBytes
	functions.CreateTransaction = transaction.CreateTransaction
	functions.GetTransactionParameters = transaction.GetTransactionparameters

	cases := rep.ReadCases(path)
	types := instantiable()
	var others []common2.TxType
	for _, t := range types {
		if t != common2.WithdrawFromSideChain && t != common2.ReturnSideChainDepositCoin {
			others = append(others, t)
		}
	}
	top := 0
	for _, c := range cases {
		if v := rep.Int(rep.Map(c, "args"), "ver"); v > top {
			top = v
		}
	}
	runs, agree := 0, 0
	var sample interface{}
	for _, c := range cases {
		a := rep.Map(c, "args")
		exp := rep.Str(c, "exp")
		F, R, h := rep.Int(a, "F"), rep.Int(a, "R"), rep.Int(a, "h")
		nX, nO := rep.Int(a, "nX"), rep.Int(a, "nO")
		var tts []common2.TxType
		switch rep.Str(a, "kind") {
		case "withdraw":
			tts = []common2.TxType{common2.WithdrawFromSideChain}
		case "returnDeposit":
			tts = []common2.TxType{common2.ReturnSideChainDepositCoin}
		default:
			tts = others
		}
		ok := true
		for mode := 0; mode < 4; mode++ {
			f, r, hh, can := embed(mode, F, R, h)
			if !can {
				continue
			}
			for _, t := range tts {
				for _, ver := range versionsFor(rep.Int(a, "ver"), top) {
					for rot := 0; rot < 1+nX+nO && rot < 3; rot++ {
						txn := mkTx(t, ver, nX+nO)
						refs := mkRefs(txn, nX, nO, rot)
						var err error
						var pan interface{}
						func() {
							defer func() { pan = recover() }()
							err = transaction.VerifC31CheckCrossChainUTXO(txn, refs, hh, f, r)
						}()
						runs++
						conc := map[string]interface{}{"case": c, "txType": t.Name(), "txTypeByte": int(t), "payloadVersion": int(ver),
							"freezeHeight": f, "restrictionHeight": r, "blockHeight": hh, "error": fmt.Sprint(err)}
						if pan != nil {
							ok = false
							rep.Violation("C31:policy:panic", fmt.Sprintf("checkTransactionCrossChainUTXO panicked: %v", pan), conc)
							continue
						}
						real := "accept"
						if err != nil {
							real = "reject"
						}
						if real == exp {
							if sample == nil && exp == "reject" && mode == 1 {
								sample = conc
							}
							continue
						}
						ok = false
						if exp == "reject" {
							rep.Violation("C31:policy:"+rep.Str(c, "why")+":"+rep.Str(a, "kind"),
								fmt.Sprintf("%s v%d spending %d cross-chain + %d other UTXOs accepted at height %d (freeze %d, restriction %d); the policy refuses it (%s)",
									t.Name(), ver, nX, nO, hh, f, r, rep.Str(c, "why")), conc)
						} else {
							rep.Mismatch(fmt.Sprintf("the policy lets this case through (%s) but the code refused: %v", rep.Str(c, "why"), err), conc)
						}
					}
				}
			}
		}
		if ok {
			agree++
		}
	}
	rep.Summary(len(cases), map[string]interface{}{"mode": "policy", "agree": agree, "concrete_runs": runs,
		"tx_types": len(types)}, sample)
}

// e2e: the cases whose transaction the harness can make fully valid (a signed
// TransferAsset, class "other") go through the node's own
// BlockChain.CheckTransactionContext on a regnet node that holds cross-chain
// (prefix X) and standard outputs; the configured heights are placed around the
// fixed validation height exactly as the case places h around F and R.
func e2e(path string) {
	cases := rep.ReadCases(path)
	env, err := edgee2e.New([]string{"X", "B", "C"}, 3)
	if err != nil {
		fmt.Fprintln(os.Stderr, "cannot build the node:", err)
		os.Exit(3)
	}
	defer env.Close()
	defer stack.CleanupGlobals()
	n, agree := 0, 0
	var sample interface{}
	for _, c := range cases {
		a := rep.Map(c, "args")
		nX, nO := rep.Int(a, "nX"), rep.Int(a, "nO")
		if rep.Str(a, "kind") != "other" || nX+nO == 0 || rep.Int(a, "ver") != 0 {
			continue
		}
		n++
		exp := rep.Str(c, "exp")
		F, R, h := rep.Int(a, "F"), rep.Int(a, "R"), rep.Int(a, "h")
		env.N.Params.CrossChainUTXOFreezeHeight = uint32(int(env.H) + F - h)
		env.N.Params.CrossChainUTXORestrictionHeight = uint32(int(env.H) + R - h)
		ok := true
		for rot := 0; rot < nX+nO && rot < 3; rot++ {
			ins := make([]string, nX+nO)
			for i := range ins {
				if (i+rot)%(nX+nO) < nX {
					ins[i] = "X"
				} else {
					ins[i] = "B"
				}
			}
			tx, err := env.Transfer(ins, []string{"C"})
			if err != nil {
				ok = false
				rep.Mismatch("cannot build the transfer: "+err.Error(), c)
				continue
			}
			cerr, pan := env.Check(tx)
			conc := map[string]interface{}{"case": c, "inputs": ins, "validatedHeight": env.H,
				"freezeHeight": env.N.Params.CrossChainUTXOFreezeHeight, "restrictionHeight": env.N.Params.CrossChainUTXORestrictionHeight,
				"error": fmt.Sprint(cerr)}
			switch {
			case pan != nil:
				ok = false
				rep.Violation("C31:e2e:panic", fmt.Sprintf("CheckTransactionContext panicked: %v", pan), conc)
			case cerr == nil && exp == "reject":
				ok = false
				rep.Violation("C31:e2e:"+rep.Str(c, "why"), fmt.Sprintf("CheckTransactionContext accepted a signed TransferAsset spending %d cross-chain + %d other outputs at height %d (freeze %d, restriction %d); the policy refuses it (%s)",
					nX, nO, env.H, env.N.Params.CrossChainUTXOFreezeHeight, env.N.Params.CrossChainUTXORestrictionHeight, rep.Str(c, "why")), conc)
			case cerr != nil && exp == "accept":
				ok = false
				rep.Mismatch(fmt.Sprintf("the policy lets the transfer through (%s) but CheckTransactionContext refused: %v", rep.Str(c, "why"), cerr), conc)
			default:
				if sample == nil && exp == "reject" {
					sample = conc
				}
			}
		}
		if ok {
			agree++
		}
	}
	rep.Summary(n, map[string]interface{}{"mode": "e2e", "agree": agree}, sample)
}

func configCases(path string) {
	cases := rep.ReadCases(path)
	dir, err := os.MkdirTemp("", "ccutxo-cfg-")
	if err != nil {
		fmt.Fprintln(os.Stderr, err)
		os.Exit(3)
	}
	defer os.RemoveAll(dir)
	agree, runs := 0, 0
	var sample interface{}
	for _, c := range cases {
		a := rep.Map(c, "args")
		exp := rep.Map(c, "exp")
		dev := rep.Map(c, "dev") // result of the named deviation for this case, if any
		nc := netcfg.Case{Name: rep.Str(a, "name"), OvF: rep.Str(a, "ovF"), OvR: rep.Str(a, "ovR"), OvFrozen: rep.Str(a, "ovFrozen")}
		variants := []bool{false}
		if nc.Name == "" {
			variants = append(variants, true)
		}
		ok := true
		for _, omit := range variants {
			res := netcfg.Run(dir, nc, omit)
			runs++
			conc := map[string]interface{}{"case": c, "real": res}
			if res.Panic != "" {
				ok = false
				rep.Mismatch("SetupConfig failed: "+res.Panic, conc)
				continue
			}
			if res.Net != rep.Str(exp, "net") {
				ok = false
				rep.Mismatch(fmt.Sprintf("parameter set selected for ActiveNet %q: spec %s, real %s", nc.Name, rep.Str(exp, "net"), res.Net), conc)
				continue
			}
			if res.F == rep.Str(exp, "F") && res.R == rep.Str(exp, "R") {
				if sample == nil && nc.OvF == "zero" && res.Net == "main" {
					sample = conc
				}
				continue
			}
			ok = false
			what := fmt.Sprintf("ActiveNet %q selects the %snet parameter set (magic %d) but the effective heights are freeze=%d restriction=%d (spec: %s/%s); file: %s",
				nc.Name, res.Net, res.Magic, res.FreezeH, res.RestrH, rep.Str(exp, "F"), rep.Str(exp, "R"), res.File)
			switch {
			case dev != nil && res.F == rep.Str(dev, "F") && res.R == rep.Str(dev, "R"):
				rep.Violation(KeyUnlistedName, what, conc)
			case res.Net == "main":
				rep.Violation("C31:config:mainnet-heights-not-coordinated", what, conc)
			default:
				rep.Violation("C31:config:policy-enabled-off-mainnet", what, conc)
			}
		}
		if ok {
			agree++
		}
	}
	rep.Summary(len(cases), map[string]interface{}{"mode": "config", "agree": agree, "concrete_runs": runs}, sample)
}

func main() {
	if len(os.Args) < 3 {
		fmt.Fprintln(os.Stderr, "usage: ccutxo policy|config <cases.jsonl>")
		os.Exit(3)
	}
	defer rep.Flush()
	switch os.Args[1] {
	case "policy":
		policy(os.Args[2])
	case "config":
		configCases(os.Args[2])
	case "e2e":
		e2e(os.Args[2])
	case "types":
		ts := instantiable()
		sort.Slice(ts, func(i, j int) bool { return ts[i] < ts[j] })
		for _, t := range ts {
			fmt.Printf("%d %s\n", t, t.Name())
		}
	default:
		os.Exit(3)
	}
}
