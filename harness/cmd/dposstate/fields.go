// C23, generated part for the DPoS check point: `dposstate fields <n> <seed>`.
//
// The behaviour-driven part (checkpoint.go) only reaches check point contents that block
// processing produces (e.g. next CRC arbiters == current ones, empty reward maps).  Here
// every member of state.Arbiters / state.CheckPoint is GENERATED field by field with
// reflection (unexported fields through unsafe): every scalar non-zero and different from
// every other generated scalar of the instance (a member copied from the wrong source
// shows), every map with >= 2 entries at every nesting level, every slice with >= 2
// elements, pointers non-nil, ArbiterMember values cycling through the three concrete
// implementations, public keys valid curve points.  Two comparisons per instance, each on
// the canonical dump (dump.go):
//
//	(a) a generated CheckPoint: Serialize -> Deserialize into a fresh object == original;
//	(b) a generated Arbiters: NewCheckpoint (initFromArbitrators) feeds every CheckPoint
//	    member from the Arbiters member of the same name (a member that equals a
//	    DIFFERENTLY named Arbiters member instead: C23:dpos-snapshot-wrong-source:<member>);
//	    CheckPoint.Snapshot() (the path core/checkpoint uses) gives the same object again;
//	    RecoverFromCheckPoints into a fresh Arbiters leaves every member that is part of
//	    the check point equal to the generated one.
//
// Members that are intentionally not part of the check point are listed in `excluded`
// with the reason the code gives; anything else that does not survive is a violation
// C23:dpos-checkpoint-field:<path class>.
package main

import (
	"bytes"
	"fmt"
	"math/rand"
	"os"
	"reflect"
	"sort"
	"strconv"
	"strings"
	"unsafe"

	"github.com/elastos/Elastos.ELA/crypto"
	"github.com/elastos/Elastos.ELA/dpos/state"
	"verif/harness/internal/rep"
)

// excluded: members of state.Arbiters (path relative to the Arbiters object) that are not
// generated and not compared, with the reason taken from the code.
var excluded = map[string]string{
	".State.GetArbiters":                     "function value (callback wired by NewState / NewArbitrators)",
	".State.ChainParams":                     "configuration handed to the constructor, not state",
	".State.mtx":                             "lock",
	".State.History":                         "change history: recoverFromCheckPoints replaces it by an empty one ('reset history')",
	".State.LastRenewalDPoSV2Votes":          "'temp use' marker of the block being processed: processTransactions re-creates it at the start of every block",
	".degradation":                           "no member of CheckPoint: runtime consensus mode of this node (understaffed / inactive since), created DSNormal by NewArbitrators and re-entered from live block processing",
	".ChainParams":                           "configuration handed to the constructor, not state",
	".CRCommittee":                           "reference to the CR committee, which has its own check point (cr/state)",
	".bestHeight":                            "function value (RegisterFunction)",
	".bestBlockHash":                         "function value (RegisterFunction)",
	".getBlockByHeight":                      "function value (RegisterFunction)",
	".CkpManager":                            "reference to the check point manager",
	".mtx":                                   "lock",
	".started":                               "set by Start() when the node has finished initialising, not chain state",
	".Snapshots":                             "in-memory per-height frames for GetSnapshot, filled by snapshotByHeight while blocks are processed",
	".SnapshotKeysDesc":                      "index of Snapshots",
	".BlockConfirmProposalSponsors":          "fixed table read from DPoSConfiguration.SponsorsFilePath by NewArbitrators",
	".History":                               "change history: recoverFromCheckPoints replaces it by an empty one ('reset history')",
	"CheckPoint.arbitrators":                 "back pointer to the owning Arbiters",
	"CheckPoint.Height":                      "(comparison b only) set by the check point manager through SetHeight, no Arbiters member",
	"CheckPoint.CurrentOnDutyCRCArbitersMap": "(comparison b only) no Arbiters member of that meaning exists: initFromArbitrators never writes it, it is only made empty by the per-height snapshot constructor (arbitrators.go, snapshotByHeight)",
}

// ---------------------------------------------------------------------------
// generator

type gen struct {
	rng   *rand.Rand
	n     uint64 // running counter: every generated scalar is different
	arbN  int    // cycles the ArbiterMember implementations
	depth int
}

var (
	keyPool      [][]byte
	arbiterTypes []reflect.Type // *originArbiter, *dposArbiter, *crcArbiter (element types)
	arbiterIface = reflect.TypeOf((*state.ArbiterMember)(nil)).Elem()
)

func initFieldsMode() {
	for i := 0; i < 509; i++ {
		keyPool = append(keyPool, fixedKey(int64(7000+i)).pub)
	}
	k := fixedKey(1).pub
	o, err := state.NewOriginArbiter(k)
	if err != nil {
		panic(err)
	}
	d, err := state.NewDPoSArbiter(protoProducer())
	if err != nil {
		panic(err)
	}
	// NewCRCArbiter wants a CRMember; a zero one is enough to learn the type
	c, err := state.NewCRCArbiter(k, k, nil, true)
	if err != nil {
		panic(err)
	}
	for _, a := range []state.ArbiterMember{o, d, c} {
		arbiterTypes = append(arbiterTypes, reflect.TypeOf(a).Elem())
	}
}

// protoProducer: a producer with a decodable owner key (NewDPoSArbiter hashes it).
func protoProducer() *state.Producer {
	p := &state.Producer{}
	info := settable(reflect.ValueOf(p).Elem().FieldByName("info"))
	info.FieldByName("OwnerKey").SetBytes(fixedKey(2).pub)
	info.FieldByName("NodePublicKey").SetBytes(fixedKey(3).pub)
	return p
}

// settable gives write access to an addressable (possibly unexported) field.
func settable(v reflect.Value) reflect.Value {
	if v.CanSet() {
		return v
	}
	return reflect.NewAt(v.Type(), unsafe.Pointer(v.UnsafeAddr())).Elem()
}

func (g *gen) next() uint64 {
	g.n++
	return g.n
}

func (g *gen) pubKey() []byte {
	return append([]byte(nil), keyPool[int(g.next())%len(keyPool)]...)
}

func (g *gen) bytesFor(name string) []byte {
	switch {
	case strings.Contains(name, "Signature"):
		b := make([]byte, crypto.SignatureLength)
		g.rng.Read(b)
		b[0] = byte(g.next())
		return b
	case name == "Code":
		// standard redeem script: PUSH33 <public key> CHECKSIG (crcArbiter.getPublicKey cuts the key out of it)
		return append(append([]byte{0x21}, g.pubKey()...), 0xac)
	}
	return g.pubKey()
}

// skipGen: members that are left at their zero value.
func skipGen(path string, t reflect.Type) bool {
	if _, ok := excluded[path]; ok && !strings.HasPrefix(path, "CheckPoint.Height") && !strings.HasPrefix(path, "CheckPoint.CurrentOnDuty") {
		return true
	}
	switch t.Kind() {
	case reflect.Func, reflect.Chan, reflect.UnsafePointer:
		return true
	}
	if t.PkgPath() == "sync" {
		return true
	}
	return false
}

func (g *gen) fill(v reflect.Value, path, name string) {
	v = settable(v)
	t := v.Type()
	if skipGen(path, t) {
		return
	}
	if g.depth > 30 {
		panic("generator: too deep at " + path)
	}
	g.depth++
	defer func() { g.depth-- }()
	switch t.Kind() {
	case reflect.Bool:
		v.SetBool(g.rng.Intn(4) != 0)
	case reflect.Int, reflect.Int8, reflect.Int16, reflect.Int32, reflect.Int64:
		n := int64(g.next())
		switch t.Kind() {
		case reflect.Int8:
			n = n%120 + 1
		case reflect.Int16:
			n = n%30000 + 1
		case reflect.Int64:
			n = n*100003 + 17 // amounts: not a round number
		}
		v.SetInt(n)
	case reflect.Uint, reflect.Uint8, reflect.Uint16, reflect.Uint32, reflect.Uint64:
		n := g.next()
		switch t.Kind() {
		case reflect.Uint8:
			n = n%250 + 1
		case reflect.Uint16:
			n = n%60000 + 1
		}
		v.SetUint(n)
	case reflect.Float32, reflect.Float64:
		v.SetFloat(float64(g.next()) + 0.5)
	case reflect.String:
		v.SetString(fmt.Sprintf("%s-%d", strings.ToLower(name), g.next()))
	case reflect.Array:
		if t.Elem().Kind() == reflect.Uint8 {
			// hashes / program hashes: a standard-address prefix, then bytes of the counter
			n := g.next()
			for i := 0; i < t.Len(); i++ {
				v.Index(i).SetUint(uint64(byte(n>>(8*uint(i%8))) ^ byte(i*37)))
			}
			if t.Len() == 21 {
				v.Index(0).SetUint(0x21)
			}
			return
		}
		for i := 0; i < t.Len(); i++ {
			g.fill(v.Index(i), fmt.Sprintf("%s[%d]", path, i), name)
		}
	case reflect.Slice:
		if t.Elem().Kind() == reflect.Uint8 {
			v.SetBytes(g.bytesFor(name))
			return
		}
		n := 2 + g.rng.Intn(2)
		s := reflect.MakeSlice(t, n, n)
		for i := 0; i < n; i++ {
			g.fill(s.Index(i), path+"[]", name)
		}
		v.Set(s)
	case reflect.Map:
		n := 2 + g.rng.Intn(2)
		m := reflect.MakeMapWithSize(t, n)
		for m.Len() < n {
			k := reflect.New(t.Key()).Elem()
			g.fill(k, path+"[key]", name)
			e := reflect.New(t.Elem()).Elem()
			g.fill(e, path+"[]", name)
			m.SetMapIndex(k, e)
		}
		v.Set(m)
	case reflect.Ptr:
		if t.Elem().Kind() == reflect.Struct && name == "hash" {
			return // memoised hash of a payload (dump.go leaves it out as well)
		}
		p := reflect.New(t.Elem())
		g.fill(p.Elem(), path, name)
		v.Set(p)
	case reflect.Interface:
		if t != arbiterIface {
			return // interface{} map values (IllegalBlocksPayloadHashes): nil, as Deserialize produces
		}
		at := arbiterTypes[g.arbN%len(arbiterTypes)]
		g.arbN++
		p := reflect.New(at)
		g.fill(p.Elem(), path, name)
		v.Set(p)
	case reflect.Struct:
		for i := 0; i < t.NumField(); i++ {
			f := t.Field(i)
			g.fill(v.Field(i), path+"."+f.Name, f.Name)
		}
	default:
		panic(fmt.Sprintf("generator: kind %v at %s", t.Kind(), path))
	}
}

// genCheckPoint: a check point with every member generated (no Arbiters behind it).
func (g *gen) genCheckPoint() *state.CheckPoint {
	cp := &state.CheckPoint{}
	v := reflect.ValueOf(cp).Elem()
	t := v.Type()
	for i := 0; i < t.NumField(); i++ {
		f := t.Field(i)
		if f.Name == "arbitrators" {
			continue
		}
		g.fill(v.Field(i), "CheckPoint."+f.Name, f.Name)
	}
	return cp
}

// genArbiters: an Arbiters object (with its State) with every member generated.
func (g *gen) genArbiters() *state.Arbiters {
	ar := new(state.Arbiters)
	g.fill(reflect.ValueOf(ar).Elem(), "", "Arbiters")
	return ar
}

// ---------------------------------------------------------------------------
// dumps

// dumpArbiters: the generated / restored members of an Arbiters object (excluded ones left out).
func dumpArbiters(ar *state.Arbiters) *dump {
	d := &dump{}
	v := reflect.ValueOf(ar).Elem()
	t := v.Type()
	for i := 0; i < t.NumField(); i++ {
		f := t.Field(i)
		if _, ok := excluded["."+f.Name]; ok {
			continue
		}
		if f.Name == "State" {
			// of State only the key frame is state (the other members are on the exclusion list)
			walk(reflectOf(ar.State.StateKeyFrame), "Arbiters.StateKeyFrame", d, 0)
			continue
		}
		walk(v.Field(i), "Arbiters."+f.Name, d, 0)
	}
	return d
}

// memberDump: one member as a sorted "path=value" text (paths relative to the member), used to decide which
// generated member a value is.
func memberDump(v reflect.Value) string {
	d := &dump{}
	walk(v, "", d, 0)
	d.sort()
	var sb strings.Builder
	for _, e := range d.e {
		if _, known := knownClass(fieldClass(e.k)); known {
			continue // recorded finding (reported by the field-by-field comparison): not part of the identity of a member
		}
		sb.WriteString(e.k)
		sb.WriteByte('=')
		sb.WriteString(e.v)
		sb.WriteByte('\n')
	}
	return sb.String()
}

// arbitersMembers: name -> value of the members of ar that can be the source of a check point member
// (the key frame under the name StateKeyFrame).
func arbitersMembers(ar *state.Arbiters) map[string]reflect.Value {
	res := map[string]reflect.Value{}
	v := reflect.ValueOf(ar).Elem()
	t := v.Type()
	for i := 0; i < t.NumField(); i++ {
		f := t.Field(i)
		if _, ok := excluded["."+f.Name]; ok {
			continue
		}
		if f.Name == "State" {
			res["StateKeyFrame"] = reflectOf(ar.State.StateKeyFrame).Elem()
			continue
		}
		res[f.Name] = v.Field(i)
	}
	return res
}

// sourceOf: the Arbiters member a CheckPoint member of this name is fed from (same name, letter case ignored:
// NextCRCArbitersMap <- nextCRCArbitersMap, CRCChangedHeight <- crcChangedHeight).
func sourceOf(members map[string]reflect.Value, name string) (string, reflect.Value, bool) {
	for n, v := range members {
		if strings.EqualFold(n, name) {
			return n, v, true
		}
	}
	return "", reflect.Value{}, false
}

// ---------------------------------------------------------------------------
// the two comparisons

type fieldsCtx struct {
	reported map[string]bool
	stats    map[string]int
	ok       bool
}

func (c *fieldsCtx) violation(key, what string, info map[string]interface{}) {
	c.ok = false
	c.stats["violations"]++
	if c.reported[key] {
		return
	}
	c.reported[key] = true
	rep.Violation(key, what, info)
}

// knownClass maps a difference that belongs to a recorded finding to that finding's key.
func knownClass(cl string) (string, bool) {
	if strings.HasSuffix(cl, ".crMember.Info.Signature") {
		// the CR member's CRInfo is written without its signature (cr/state CRMember.Serialize): C23 CR part
		return "C23:dpos-checkpoint:crcArbiter.crMember.Info.Signature", true
	}
	return "", false
}

func (c *fieldsCtx) diffs(prefix string, ds []diffEntry, what string, info map[string]interface{}) {
	// group the differing classes by top-level member: a member that is wrong as a whole (fed from another member,
	// read in the wrong order) differs in every field and gets ONE key, a field that does not survive gets its own
	seen := map[string]bool{}
	byMember := map[string][]diffEntry{}
	var order []string
	for _, d := range ds {
		cl := fieldClass(d.Path)
		if seen[cl] {
			continue
		}
		seen[cl] = true
		if k, ok := knownClass(cl); ok {
			c.violation(k, fmt.Sprintf("%s: %s is %q, generated %q", what, d.Path, d.A, d.B), info)
			continue
		}
		m := topMember(cl)
		if _, ok := byMember[m]; !ok {
			order = append(order, m)
		}
		byMember[m] = append(byMember[m], d)
	}
	for _, m := range order {
		l := byMember[m]
		if len(l) > 3 {
			d := l[0]
			c.violation(prefix+m+":whole-member", fmt.Sprintf("%s: %d field classes of %s differ, e.g. %s is %q, generated %q", what, len(l), m, d.Path, d.A, d.B), info)
			continue
		}
		for _, d := range l {
			c.violation(prefix+fieldClass(d.Path), fmt.Sprintf("%s: %s is %q, generated %q", what, d.Path, d.A, d.B), info)
		}
	}
}

// topMember: "CheckPoint.NextCRCArbitersMap[].crMember.X" -> "CheckPoint.NextCRCArbitersMap".
func topMember(cl string) string {
	parts := strings.SplitN(cl, ".", 3)
	if len(parts) < 2 {
		return cl
	}
	m := parts[1]
	if i := strings.IndexAny(m, "[#"); i >= 0 {
		m = m[:i]
	}
	return parts[0] + "." + m
}

// roundTrip: comparison (a).
func (c *fieldsCtx) roundTrip(g *gen, info map[string]interface{}) {
	cp := g.genCheckPoint()
	w := new(bytes.Buffer)
	if err := cp.Serialize(w); err != nil {
		c.violation("C23:dpos-checkpoint:serialize-error", "generated check point: "+err.Error(), info)
		return
	}
	raw := append([]byte(nil), w.Bytes()...)
	back := &state.CheckPoint{}
	if err := back.Deserialize(bytes.NewReader(raw)); err != nil {
		c.violation("C23:dpos-checkpoint:deserialize-error", "generated check point: "+err.Error(), info)
		return
	}
	c.stats["leaves"] += len(dumpCheckpoint(cp).e)
	c.diffs("C23:dpos-checkpoint-field:", diffDumps(dumpCheckpoint(back), dumpCheckpoint(cp)),
		"generated check point after Serialize/Deserialize", info)
	// the bytes of the restored object are the bytes read (same length; map order is free)
	w2 := new(bytes.Buffer)
	if err := back.Serialize(w2); err == nil && w2.Len() != len(raw) {
		c.violation("C23:dpos-checkpoint:reserialized-length", fmt.Sprintf("the restored generated check point serializes to %d bytes, the original to %d",
			w2.Len(), len(raw)), info)
	}
	c.stats["roundtrips"]++
}

// snapshotPath: comparison (b).
func (c *fieldsCtx) snapshotPath(g *gen, info map[string]interface{}) {
	ar := g.genArbiters()
	members := arbitersMembers(ar)
	texts := map[string]string{}
	for n, v := range members {
		texts[n] = memberDump(v)
	}
	cp := state.NewCheckpoint(ar) // initFromArbitrators
	if plantWrongSource {
		// binding self-test of the recipe: what a wrong source variable in initFromArbitrators gives
		cp.NextCRCArbitersMap = cp.CurrentCRCArbitersMap
	}
	cpv := reflect.ValueOf(cp).Elem()
	cpt := cpv.Type()
	wrong := map[string]bool{} // lower-case names of members already reported as fed from the wrong source
	checkSources := func(where string, cpv reflect.Value) {
		for i := 0; i < cpt.NumField(); i++ {
			f := cpt.Field(i)
			if _, ok := excluded["CheckPoint."+f.Name]; ok {
				continue
			}
			srcName, _, ok := sourceOf(members, f.Name)
			if !ok {
				c.violation("C23:dpos-checkpoint-field:no-source:"+f.Name, "CheckPoint."+f.Name+" has no Arbiters member of the same name and is not on the exclusion list", info)
				continue
			}
			if wrong[strings.ToLower(f.Name)] {
				continue // reported on an earlier path
			}
			got := memberDump(cpv.Field(i))
			c.stats["members"]++
			if got == texts[srcName] {
				// the same member; what a recorded finding loses on the way is reported field by field
				d1, d2 := &dump{}, &dump{}
				walk(cpv.Field(i), "CheckPoint."+f.Name, d1, 0)
				walk(members[srcName], "CheckPoint."+f.Name, d2, 0)
				c.diffs("C23:dpos-checkpoint-field:", diffDumps(d1, d2), where+" (against Arbiters."+srcName+")", info)
				continue
			}
			// fed from another member?
			var others []string
			for n, txt := range texts {
				if n != srcName && txt == got && members[n].Type() == members[srcName].Type() {
					others = append(others, n)
				}
			}
			sort.Strings(others)
			if len(others) > 0 {
				wrong[strings.ToLower(f.Name)] = true
				c.violation("C23:dpos-snapshot-wrong-source:"+f.Name, fmt.Sprintf("%s: CheckPoint.%s holds the value generated for Arbiters.%s, not that of Arbiters.%s",
					where, f.Name, strings.Join(others, " / "), srcName), info)
				continue
			}
			d1, d2 := &dump{}, &dump{}
			walk(cpv.Field(i), "CheckPoint."+f.Name, d1, 0)
			walk(members[srcName], "CheckPoint."+f.Name, d2, 0)
			c.diffs("C23:dpos-checkpoint-field:", diffDumps(d1, d2), where+" (against Arbiters."+srcName+")", info)
		}
	}
	checkSources("NewCheckpoint(arbiters)", cpv)
	if plantWrongSource {
		return
	}
	// the path core/checkpoint uses: Snapshot() = initFromArbitrators + Serialize + Deserialize into a new object
	snapI := cp.Snapshot()
	snap, _ := snapI.(*state.CheckPoint)
	if snapI == nil || snap == nil {
		c.violation("C23:dpos-checkpoint:snapshot-error", "CheckPoint.Snapshot() of a generated Arbiters returns nil", info)
		return
	}
	checkSources("CheckPoint.Snapshot()", reflect.ValueOf(snap).Elem())
	// (Arbiters.Snapshot() = newCheckPoint, the in-memory per-height frame for GetSnapshot, is NOT compared: it is not
	// the persisted check point, and StateKeyFrame.snapshot() copies only what the consensus reads from a frame - the
	// producer / vote maps - leaving the mode / irreversibility / version scalars and EmergencyInactiveArbiters zero)
	// and back: a fresh Arbiters recovers from the snapshot
	ar2 := new(state.Arbiters)
	ar2.State = &state.State{StateKeyFrame: state.NewStateKeyFrame()}
	ar2.RecoverFromCheckPoints(snap)
	m2 := arbitersMembers(ar2)
	var names []string
	for n := range m2 {
		names = append(names, n)
	}
	sort.Strings(names)
	for _, n := range names {
		got := memberDump(m2[n])
		if got == texts[n] || wrong[strings.ToLower(n)] {
			continue
		}
		for o, txt := range texts {
			if o != n && txt == got && members[o].Type() == m2[n].Type() {
				wrong[strings.ToLower(n)] = true
				c.violation("C23:dpos-snapshot-wrong-source:"+strings.ToUpper(n[:1])+n[1:], fmt.Sprintf("after Snapshot + RecoverFromCheckPoints Arbiters.%s holds the value generated for Arbiters.%s", n, o), info)
			}
		}
	}
	var ds []diffEntry
	for _, d := range diffDumps(dumpArbiters(ar2), dumpArbiters(ar)) {
		m := strings.TrimPrefix(topMember(fieldClass(d.Path)), "Arbiters.")
		if !wrong[strings.ToLower(m)] {
			ds = append(ds, d)
		}
	}
	c.diffs("C23:dpos-checkpoint-field:", ds, "Arbiters recovered from the snapshot of a generated Arbiters", info)
	c.stats["snapshots"]++
}

// plantWrongSource (`dposstate fields <n> <seed> plant`): the driver corrupts the check point it took itself.
var plantWrongSource bool

func fieldsMode(n int, seed int64) {
	initFieldsMode()
	c := &fieldsCtx{reported: map[string]bool{}, stats: map[string]int{}}
	okN := 0
	for i := 0; i < n; i++ {
		info := map[string]interface{}{"generated": fmt.Sprintf("instance %d of seed %d (dposstate fields)", i, seed)}
		c.ok = true
		func() {
			defer func() {
				if r := recover(); r != nil {
					c.violation("C23:dpos-checkpoint:panic", fmt.Sprintf("generated instance %d: %v", i, r), info)
				}
			}()
			g := &gen{rng: rand.New(rand.NewSource(seed*100003 + int64(i))), n: uint64(i) * 7919, arbN: i}
			c.roundTrip(g, info)
			c.snapshotPath(g, info)
		}()
		if c.ok {
			okN++
		}
	}
	var ex []string
	for k, v := range excluded {
		ex = append(ex, k+": "+v)
	}
	sort.Strings(ex)
	extra := map[string]interface{}{"agree": okN, "mode": "fields", "excluded": ex}
	for k, v := range c.stats {
		extra[k] = v
	}
	rep.Summary(n, extra, nil)
}

func fieldsMain(args []string) {
	n, seed := 200, int64(1)
	if len(args) > 0 {
		n, _ = strconv.Atoi(args[0])
	}
	if len(args) > 1 {
		seed, _ = strconv.ParseInt(args[1], 10, 64)
	}
	plantWrongSource = len(args) > 2 && args[2] == "plant"
	if n <= 0 {
		fmt.Fprintln(os.Stderr, "usage: dposstate fields <n> <seed> [plant]")
		os.Exit(3)
	}
	fieldsMode(n, seed)
}
