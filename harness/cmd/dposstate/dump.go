// Canonical, reflection based dump of a DPoS snapshot: every exported and
// unexported field of the CheckPoint / StateKeyFrame / Producer graph, maps in
// sorted key order.  Two snapshots are equal iff their dumps are.
package main

import (
	"encoding/hex"
	"fmt"
	"reflect"
	"sort"
	"strings"
)

type kv struct{ k, v string }

// dump: path -> value pairs (appended while walking, sorted before comparing).
type dump struct {
	e      []kv
	sorted bool
}

func (d *dump) set(k, v string) { d.e = append(d.e, kv{k, v}) }

func (d *dump) sort() {
	if !d.sorted {
		sort.Slice(d.e, func(i, j int) bool { return d.e[i].k < d.e[j].k })
		d.sorted = true
	}
}

func dumpValue(v interface{}) *dump {
	d := &dump{}
	walk(reflect.ValueOf(v), "", d, 0)
	return d
}

func isBytes(t reflect.Type) bool {
	return (t.Kind() == reflect.Slice || t.Kind() == reflect.Array) && t.Elem().Kind() == reflect.Uint8
}

func bytesOf(v reflect.Value) string {
	n := v.Len()
	b := make([]byte, n)
	for i := 0; i < n; i++ {
		b[i] = byte(v.Index(i).Uint())
	}
	return hex.EncodeToString(b)
}

func leaf(v reflect.Value) (string, bool) {
	switch v.Kind() {
	case reflect.Bool:
		return fmt.Sprint(v.Bool()), true
	case reflect.Int, reflect.Int8, reflect.Int16, reflect.Int32, reflect.Int64:
		return fmt.Sprint(v.Int()), true
	case reflect.Uint, reflect.Uint8, reflect.Uint16, reflect.Uint32, reflect.Uint64, reflect.Uintptr:
		return fmt.Sprint(v.Uint()), true
	case reflect.Float32, reflect.Float64:
		return fmt.Sprint(v.Float()), true
	case reflect.String:
		return v.String(), true
	}
	if isBytes(v.Type()) {
		if v.Kind() == reflect.Slice && v.IsNil() {
			return "", true // nil and empty byte strings are the same value
		}
		return bytesOf(v), true
	}
	return "", false
}

func keyString(k reflect.Value) string {
	if s, ok := leaf(k); ok {
		return s
	}
	d := &dump{}
	walk(k, "", d, 0)
	var parts []string
	for _, e := range d.e {
		parts = append(parts, e.k+"="+e.v)
	}
	sort.Strings(parts)
	return strings.Join(parts, ",")
}

func walk(v reflect.Value, path string, d *dump, depth int) {
	if depth > 40 {
		d.set(path, "<too deep>")
		return
	}
	if !v.IsValid() {
		return
	}
	if s, ok := leaf(v); ok {
		d.set(path, s)
		return
	}
	switch v.Kind() {
	case reflect.Ptr:
		if v.IsNil() {
			d.set(path, "<nil>")
			return
		}
		walk(v.Elem(), path, d, depth+1)
	case reflect.Interface:
		if v.IsNil() {
			d.set(path, "<nil>")
			return
		}
		d.set(path+"#type", v.Elem().Type().String())
		walk(v.Elem(), path, d, depth+1)
	case reflect.Struct:
		t := v.Type()
		if t.PkgPath() == "sync" {
			return
		}
		for i := 0; i < v.NumField(); i++ {
			f := t.Field(i)
			if f.Type.Kind() == reflect.Func || f.Type.Kind() == reflect.Chan {
				continue
			}
			if f.Type.PkgPath() == "sync" {
				continue
			}
			if f.Name == "hash" && f.Type.Kind() == reflect.Ptr {
				continue // memoised hash of a payload
			}
			walk(v.Field(i), path+"."+f.Name, d, depth+1)
		}
	case reflect.Map:
		// a nil map and an empty map hold the same (no) entries
		// an amount map entry holding 0 is identified with no entry ("+= x" undone by
		// "-= x" leaves such an entry behind; every reader treats both alike)
		n := 0
		keys := v.MapKeys()
		for _, k := range keys {
			e := v.MapIndex(k)
			if e.Kind() == reflect.Int64 && e.Int() == 0 {
				continue
			}
			if e.Kind() == reflect.Map && e.Len() == 0 {
				continue // an empty inner map (left behind by delete) is no entry
			}
			n++
			walk(e, path+"["+keyString(k)+"]", d, depth+1)
		}
		d.set(path+"#len", fmt.Sprint(n))
	case reflect.Slice, reflect.Array:
		d.set(path+"#len", fmt.Sprint(v.Len()))
		if v.Len() > 64 {
			sub := &dump{}
			for i := 0; i < v.Len(); i++ {
				walk(v.Index(i), fmt.Sprintf("[%d]", i), sub, depth+1)
			}
			d.set(path+"#hash", hashDump(sub))
			return
		}
		for i := 0; i < v.Len(); i++ {
			walk(v.Index(i), fmt.Sprintf("%s[%d]", path, i), d, depth+1)
		}
	}
}

// fieldClass strips map keys and indices from a dump path: the class of a
// difference (used in violation keys).
func fieldClass(path string) string {
	var sb strings.Builder
	depth := 0
	for _, c := range path {
		switch {
		case c == '[':
			depth++
			if depth == 1 {
				sb.WriteString("[]")
			}
		case c == ']':
			depth--
		case depth == 0:
			sb.WriteRune(c)
		}
	}
	s := strings.TrimPrefix(sb.String(), ".")
	return s
}

type diffEntry struct {
	Path, A, B string
}

// diff returns the differing paths (sorted).
func diffDumps(a, b *dump) []diffEntry {
	a.sort()
	b.sort()
	var res []diffEntry
	i, j := 0, 0
	for i < len(a.e) || j < len(b.e) {
		switch {
		case j >= len(b.e) || (i < len(a.e) && a.e[i].k < b.e[j].k):
			res = append(res, diffEntry{a.e[i].k, a.e[i].v, "<absent>"})
			i++
		case i >= len(a.e) || b.e[j].k < a.e[i].k:
			res = append(res, diffEntry{b.e[j].k, "<absent>", b.e[j].v})
			j++
		default:
			if a.e[i].v != b.e[j].v {
				res = append(res, diffEntry{a.e[i].k, a.e[i].v, b.e[j].v})
			}
			i++
			j++
		}
	}
	return res
}
