// Canonical, reflection based dump of a DPoS snapshot: every exported and
// unexported field of the CheckPoint / StateKeyFrame / Producer graph, maps in
// sorted key order.  Two snapshots are equal iff their dumps are.
package main

import (
	"encoding/hex"
	"fmt"
	"reflect"
	"sort"
	"strings"
)

type dump map[string]string

func dumpValue(v interface{}) dump {
	d := dump{}
	walk(reflect.ValueOf(v), "", d, 0)
	return d
}

func isBytes(t reflect.Type) bool {
	return (t.Kind() == reflect.Slice || t.Kind() == reflect.Array) && t.Elem().Kind() == reflect.Uint8
}

func bytesOf(v reflect.Value) string {
	n := v.Len()
	b := make([]byte, n)
	for i := 0; i < n; i++ {
		b[i] = byte(v.Index(i).Uint())
	}
	return hex.EncodeToString(b)
}

func leaf(v reflect.Value) (string, bool) {
	switch v.Kind() {
	case reflect.Bool:
		return fmt.Sprint(v.Bool()), true
	case reflect.Int, reflect.Int8, reflect.Int16, reflect.Int32, reflect.Int64:
		return fmt.Sprint(v.Int()), true
	case reflect.Uint, reflect.Uint8, reflect.Uint16, reflect.Uint32, reflect.Uint64, reflect.Uintptr:
		return fmt.Sprint(v.Uint()), true
	case reflect.Float32, reflect.Float64:
		return fmt.Sprint(v.Float()), true
	case reflect.String:
		return v.String(), true
	}
	if isBytes(v.Type()) {
		if v.Kind() == reflect.Slice && v.IsNil() {
			return "", true // nil and empty byte strings are the same value
		}
		return bytesOf(v), true
	}
	return "", false
}

func keyString(k reflect.Value) string {
	if s, ok := leaf(k); ok {
		return s
	}
	d := dump{}
	walk(k, "", d, 0)
	var parts []string
	for p, x := range d {
		parts = append(parts, p+"="+x)
	}
	sort.Strings(parts)
	return strings.Join(parts, ",")
}

func walk(v reflect.Value, path string, d dump, depth int) {
	if depth > 40 {
		d[path] = "<too deep>"
		return
	}
	if !v.IsValid() {
		return
	}
	if s, ok := leaf(v); ok {
		d[path] = s
		return
	}
	switch v.Kind() {
	case reflect.Ptr:
		if v.IsNil() {
			d[path] = "<nil>"
			return
		}
		walk(v.Elem(), path, d, depth+1)
	case reflect.Interface:
		if v.IsNil() {
			d[path] = "<nil>"
			return
		}
		d[path+"#type"] = v.Elem().Type().String()
		walk(v.Elem(), path, d, depth+1)
	case reflect.Struct:
		t := v.Type()
		if t.PkgPath() == "sync" {
			return
		}
		for i := 0; i < v.NumField(); i++ {
			f := t.Field(i)
			if f.Type.Kind() == reflect.Func || f.Type.Kind() == reflect.Chan {
				continue
			}
			if f.Type.PkgPath() == "sync" {
				continue
			}
			if f.Name == "hash" && f.Type.Kind() == reflect.Ptr {
				continue // memoised hash of a payload
			}
			walk(v.Field(i), path+"."+f.Name, d, depth+1)
		}
	case reflect.Map:
		// a nil map and an empty map hold the same (no) entries
		// an amount map entry holding 0 is identified with no entry ("+= x" undone by
		// "-= x" leaves such an entry behind; every reader treats both alike)
		n := 0
		keys := v.MapKeys()
		for _, k := range keys {
			e := v.MapIndex(k)
			if e.Kind() == reflect.Int64 && e.Int() == 0 {
				continue
			}
			if e.Kind() == reflect.Map && e.Len() == 0 {
				continue // an empty inner map (left behind by delete) is no entry
			}
			n++
			walk(e, path+"["+keyString(k)+"]", d, depth+1)
		}
		d[path+"#len"] = fmt.Sprint(n)
	case reflect.Slice, reflect.Array:
		d[path+"#len"] = fmt.Sprint(v.Len())
		if v.Len() > 64 {
			sub := dump{}
			for i := 0; i < v.Len(); i++ {
				walk(v.Index(i), fmt.Sprintf("[%d]", i), sub, depth+1)
			}
			d[path+"#hash"] = hashDump(sub)
			return
		}
		for i := 0; i < v.Len(); i++ {
			walk(v.Index(i), fmt.Sprintf("%s[%d]", path, i), d, depth+1)
		}
	}
}

// fieldClass strips map keys and indices from a dump path: the class of a
// difference (used in violation keys).
func fieldClass(path string) string {
	var sb strings.Builder
	depth := 0
	for _, c := range path {
		switch {
		case c == '[':
			depth++
			if depth == 1 {
				sb.WriteString("[]")
			}
		case c == ']':
			depth--
		case depth == 0:
			sb.WriteRune(c)
		}
	}
	s := strings.TrimPrefix(sb.String(), ".")
	return s
}

type diffEntry struct {
	Path, A, B string
}

// diff returns the differing paths (sorted).
func diffDumps(a, b dump) []diffEntry {
	var res []diffEntry
	for p, x := range a {
		if y, ok := b[p]; !ok {
			res = append(res, diffEntry{p, x, "<absent>"})
		} else if x != y {
			res = append(res, diffEntry{p, x, y})
		}
	}
	for p, y := range b {
		if _, ok := a[p]; !ok {
			res = append(res, diffEntry{p, "<absent>", y})
		}
	}
	sort.Slice(res, func(i, j int) bool { return res[i].Path < res[j].Path })
	return res
}
