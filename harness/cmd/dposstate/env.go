// Environment of the DPoS state driver (C21 / C28): chain parameters, key
// material, one real Arbiters+State instance, and builders for every
// transaction kind of spec/Consensus/DPoS.tla.
package main

import (
	"bytes"
	"encoding/hex"
	"fmt"
	"math"
	"math/big"

	"github.com/elastos/Elastos.ELA/blockchain"
	"github.com/elastos/Elastos.ELA/common"
	"github.com/elastos/Elastos.ELA/common/config"
	"github.com/elastos/Elastos.ELA/core/checkpoint"
	"github.com/elastos/Elastos.ELA/core/contract"
	"github.com/elastos/Elastos.ELA/core/contract/program"
	"github.com/elastos/Elastos.ELA/core/transaction"
	"github.com/elastos/Elastos.ELA/core/types"
	common2 "github.com/elastos/Elastos.ELA/core/types/common"
	"github.com/elastos/Elastos.ELA/core/types/functions"
	"github.com/elastos/Elastos.ELA/core/types/interfaces"
	"github.com/elastos/Elastos.ELA/core/types/outputpayload"
	"github.com/elastos/Elastos.ELA/core/types/payload"
	crstate "github.com/elastos/Elastos.ELA/cr/state"
	"github.com/elastos/Elastos.ELA/crypto"
	"github.com/elastos/Elastos.ELA/dpos/state"
)

// ELA is the unit of every amount in the spec.
const ELA = common.Fixed64(100000000)

// Spec constants that are chain parameters here (DPoS.tla CONSTANTS of the same
// name; tools/props/C21.py writes the same numbers into the cfg).
const (
	cfgLockup        = 3  // CRConfiguration.DepositLockupBlocks
	cfgIrrStart      = 7  // DPoSConfiguration.RevertToPOWStartHeight
	cfgMaxInactive   = 2  // DPoSConfiguration.MaxInactiveRounds
	cfgInactivePen   = 1  // ELA
	cfgEmergencyPen  = 5  // ELA
	cfgIllegalPen    = 2  // ELA
	cfgMinLock       = 2  // DPoSV2MinVotesLockTime
	cfgMaxLock       = 20 // DPoSV2MaxVotesLockTime
	cfgMinDepositV1  = 5000
	cfgMinDepositV2  = 2000
	cfgV1VoteAmount  = 3
	cfgRegExtra      = 1 // a registration pays this much more than the minimum deposit (DPoS.tla RegExtra)
	cfgStakeUntilReg = 0 // StakeUntil comes with the item
)

type keyPair struct {
	priv []byte
	pub  []byte
	pk   *crypto.PublicKey
}

func fixedKey(seed int64) keyPair {
	d := new(big.Int).SetInt64(seed)
	d.Mul(d, big.NewInt(1000003)).Add(d, big.NewInt(7919))
	x, y := crypto.DefaultCurve.ScalarBaseMult(d.Bytes())
	pk := &crypto.PublicKey{X: x, Y: y}
	pub, err := pk.EncodePoint(true)
	if err != nil {
		panic(err)
	}
	return keyPair{priv: d.Bytes(), pub: pub, pk: pk}
}

type producerKeys struct {
	name        string
	owner, node keyPair
	depositHash common.Uint168
	ownerCode   []byte
}

type voterKeys struct {
	name      string
	key       keyPair
	code      []byte
	stakeAddr common.Uint168
	stdAddr   common.Uint168
}

var (
	producers = map[string]*producerKeys{}
	voters    = map[string]*voterKeys{}
	prodNames = []string{"p1", "p2", "p3"}
	voterName = []string{"a1", "a2"}
	outAddr   common.Uint168 // a standard address receiving withdrawn coins
)

func initKeys() {
	for i, n := range prodNames {
		pk := &producerKeys{name: n, owner: fixedKey(int64(100 + i)), node: fixedKey(int64(200 + i))}
		ct, err := contract.CreateDepositContractByPubKey(pk.owner.pk)
		if err != nil {
			panic(err)
		}
		pk.depositHash = *ct.ToProgramHash()
		pk.ownerCode, _ = contract.CreateStandardRedeemScript(pk.owner.pk)
		producers[n] = pk
	}
	for i, n := range voterName {
		k := fixedKey(int64(300 + i))
		code, _ := contract.CreateStandardRedeemScript(k.pk)
		ct, _ := contract.CreateStakeContractByCode(code)
		std, _ := contract.CreateStandardContract(k.pk)
		voters[n] = &voterKeys{name: n, key: k, code: code, stakeAddr: *ct.ToProgramHash(), stdAddr: *std.ToProgramHash()}
	}
	k := fixedKey(999)
	std, _ := contract.CreateStandardContract(k.pk)
	outAddr = *std.ToProgramHash()
}

func initGlobals() {
	functions.GetTransactionByTxType = transaction.GetTransaction
	functions.GetTransactionByBytes = transaction.GetTransactionByBytes
	functions.CreateTransaction = transaction.CreateTransaction
	functions.GetTransactionParameters = transaction.GetTransactionparameters
	config.DefaultParams = *config.GetDefaultParams()
	initKeys()
}

// newParams: every era threshold of the producer state machine lies below the
// first block, so the code paths of the current main net are the ones taken
// (penalties apply, illegal producers can be re-activated, DPoS v2 transactions
// are processed); the arbiter round machine is kept quiescent (a round never
// ends within a behaviour) because DPoS.tla does not model arbiter election.
func newParams() *config.Configuration {
	p := config.GetDefaultParams()
	p.VoteStartHeight = 0
	p.CRCOnlyDPOSHeight = 0
	p.PublicDPOSHeight = 0
	p.EnableActivateIllegalHeight = 0
	p.VoteStatisticsHeight = math.MaxUint32
	p.DPoSV2StartHeight = 0
	p.DPoSV2EffectiveVotes = common.Fixed64(math.MaxInt64)
	p.CRConfiguration.DepositLockupBlocks = cfgLockup
	p.CRConfiguration.ChangeCommitteeNewCRHeight = 0
	p.CRConfiguration.CRClaimDPOSNodeStartHeight = 0
	p.CRConfiguration.CRVotingStartHeight = 0
	p.CRConfiguration.CRCommitteeStartHeight = 0
	p.CRConfiguration.RealWithdrawSingleFee = 0
	p.DPoSConfiguration.RevertToPOWStartHeight = cfgIrrStart
	p.DPoSConfiguration.MaxInactiveRounds = cfgMaxInactive
	p.DPoSConfiguration.InactivePenalty = cfgInactivePen * ELA
	p.DPoSConfiguration.EmergencyInactivePenalty = cfgEmergencyPen * ELA
	p.DPoSConfiguration.IllegalPenalty = cfgIllegalPen * ELA
	p.DPoSConfiguration.DPoSV2IllegalPenalty = cfgIllegalPen * ELA
	p.DPoSConfiguration.DPoSV2MinVotesLockTime = cfgMinLock
	p.DPoSConfiguration.DPoSV2MaxVotesLockTime = cfgMaxLock
	p.DPoSConfiguration.NormalArbitratorsCount = 100000
	p.DPoSConfiguration.NFTStartHeight = 0
	p.DPoSConfiguration.OriginArbiters = []string{hex.EncodeToString(fixedKey(500).pub)}
	p.DPoSConfiguration.CRCArbiters = []string{hex.EncodeToString(fixedKey(501).pub)}
	return p
}

// inst is one real DPoS state (Arbiters with its State), plus what a chain
// would provide to it: the outputs vote-cancelling inputs refer to.
type inst struct {
	params *config.Configuration
	arb    *state.Arbiters
	chain  *blockchain.BlockChain
	com    *crstate.Committee
	best   uint32
	orig   *state.State // the State NewArbitrators created (kept alive by its event subscription)
	ckp    *checkpoint.Manager
	refs   map[string]common2.Output // outpoint refer key -> output (harness UTXO view)
}

var sharedParams *config.Configuration

// dutyIndexStart: the duty index every instance starts from; a round ends when the
// index equals the number of arbiters - 1, which therefore never happens.
const dutyIndexStart = 1000

// free drops what the leaked event subscription of NewState would keep alive.
func (in *inst) free() {
	if in == nil || in.arb == nil {
		return
	}
	if in.ckp != nil {
		in.ckp.Close() // stops the file-channel goroutines of the registered checkpoints
		in.ckp = nil
	}
	if in.orig != nil {
		in.orig.StateKeyFrame = nil
		in.orig.History = nil
		in.orig = nil
	}
	in.arb.State.StateKeyFrame = nil
	in.arb.State.History = nil
	in.arb.History = nil
	in.arb.Snapshots = nil
	in.arb = nil
}

func newInst() *inst {
	if sharedParams == nil {
		sharedParams = newParams()
	}
	in := &inst{params: sharedParams, refs: map[string]common2.Output{}}
	ckp := checkpoint.NewManager(in.params)
	in.ckp = ckp
	arb, err := state.NewArbitrators(in.params, nil, nil, nil, nil, nil, nil, nil, nil, ckp)
	if err != nil {
		panic(err)
	}
	arb.RegisterFunction(func() uint32 { return in.best },
		func() *common.Uint256 { return &common.Uint256{} },
		func(h uint32) (*types.Block, error) { return nil, fmt.Errorf("no block") },
		func(tx interfaces.Transaction) (map[*common2.Input]common2.Output, error) {
			res := map[*common2.Input]common2.Output{}
			for _, i := range tx.Inputs() {
				o, ok := in.refs[i.ReferKey()]
				if !ok {
					return nil, fmt.Errorf("unknown input")
				}
				res[i] = o
			}
			return res, nil
		})
	getRef := arb.GetTxReference
	st := state.NewState(in.params,
		func() []*state.ArbiterInfo { return in.arbiters() },
		func() []*crstate.CRMember { return nil },
		func() []*crstate.CRMember { return nil },
		func() bool { return false },
		nil, nil, nil, nil, nil, nil, nil)
	st.GetTxReference = getRef
	in.orig = arb.State
	arb.State = st
	arb.DutyIndex = dutyIndexStart
	in.arb = arb
	in.com = crstate.NewCommittee(in.params, ckp)
	in.chain = &blockchain.BlockChain{}
	in.chain.SetState(arb.State)
	in.chain.SetCRCommittee(in.com)
	return in
}

// arbiters: the current arbiter set as the state sees it through GetArbiters: every
// producer in the active map, all "normal" (stub of the arbiter election, which
// DPoS.tla abstracts the same way).
func (in *inst) arbiters() []*state.ArbiterInfo {
	var res []*state.ArbiterInfo
	for _, n := range prodNames {
		k := producers[n]
		if _, ok := in.arb.State.ActivityProducers[hex.EncodeToString(k.owner.pub)]; ok {
			res = append(res, &state.ArbiterInfo{NodePublicKey: k.node.pub, IsNormal: true})
		}
	}
	return res
}

// ---------------------------------------------------------------------------
// transaction builders

func mkTx(version common2.TransactionVersion, typ common2.TxType, plVer byte, pl interfaces.Payload,
	ins []*common2.Input, outs []*common2.Output, progs []*program.Program) interfaces.Transaction {
	if ins == nil {
		ins = []*common2.Input{}
	}
	if outs == nil {
		outs = []*common2.Output{}
	}
	if progs == nil {
		progs = []*program.Program{}
	}
	for _, o := range outs {
		if o.Payload == nil {
			o.Type = common2.OTNone
			o.Payload = &outputpayload.DefaultOutput{}
		}
	}
	return functions.CreateTransaction(version, typ, plVer, pl, []*common2.Attribute{}, ins, outs, 0, progs)
}

// salt makes transactions of one kind distinct per (height, index in block, fork).
func saltInput(salt uint32) []*common2.Input {
	var id common.Uint256
	id[0] = 0xfe
	id[1] = byte(salt)
	id[2] = byte(salt >> 8)
	id[3] = byte(salt >> 16)
	id[4] = byte(salt >> 24)
	return []*common2.Input{{Previous: common2.OutPoint{TxID: id, Index: 0}, Sequence: 0}}
}

func sign(k keyPair, data []byte) []byte {
	s, err := crypto.Sign(k.priv, data)
	if err != nil {
		panic(err)
	}
	return s
}

func txRegister(p *producerKeys, nick string, stakeUntil uint32, amount common.Fixed64, salt uint32) interfaces.Transaction {
	info := &payload.ProducerInfo{OwnerKey: p.owner.pub, NodePublicKey: p.node.pub, NickName: nick,
		Url: "http://" + p.name, NetAddress: "127.0.0.1", StakeUntil: stakeUntil}
	ver := byte(payload.ProducerInfoVersion)
	if stakeUntil != 0 {
		ver = payload.ProducerInfoDposV2Version
	}
	buf := new(bytes.Buffer)
	info.SerializeUnsigned(buf, ver)
	info.Signature = sign(p.owner, buf.Bytes())
	return mkTx(common2.TxVersion09, common2.RegisterProducer, ver, info, saltInput(salt),
		[]*common2.Output{{Value: amount, ProgramHash: p.depositHash}}, nil)
}

func txUpdate(p *producerKeys, nick string, stakeUntil uint32, salt uint32) interfaces.Transaction {
	info := &payload.ProducerInfo{OwnerKey: p.owner.pub, NodePublicKey: p.node.pub, NickName: nick,
		Url: "http://" + p.name, NetAddress: "127.0.0.1", StakeUntil: stakeUntil}
	ver := byte(payload.ProducerInfoVersion)
	if stakeUntil != 0 {
		ver = payload.ProducerInfoDposV2Version
	}
	buf := new(bytes.Buffer)
	info.SerializeUnsigned(buf, ver)
	info.Signature = sign(p.owner, buf.Bytes())
	return mkTx(common2.TxVersion09, common2.UpdateProducer, ver, info, saltInput(salt), nil, nil)
}

func txCancel(p *producerKeys, salt uint32) interfaces.Transaction {
	pl := &payload.ProcessProducer{OwnerKey: p.owner.pub}
	buf := new(bytes.Buffer)
	pl.SerializeUnsigned(buf, payload.ProcessProducerVersion)
	pl.Signature = sign(p.owner, buf.Bytes())
	return mkTx(common2.TxVersion09, common2.CancelProducer, payload.ProcessProducerVersion, pl, saltInput(salt), nil, nil)
}

func txActivate(p *producerKeys, salt uint32) interfaces.Transaction {
	pl := &payload.ActivateProducer{NodePublicKey: p.node.pub}
	buf := new(bytes.Buffer)
	pl.SerializeUnsigned(buf, 0)
	pl.Signature = sign(p.node, buf.Bytes())
	tx := mkTx(common2.TxVersion09, common2.ActivateProducer, 0, pl, nil, nil, nil)
	tx.SetLockTime(salt) // zero-cost transaction: no inputs; the lock time makes it unique
	return tx
}

// v1VoteShape: the vote output a voter uses.  Amounts the code treats separately are kept
// different on purpose (equal-by-construction values hide wrong-variable defects):
//   - a2 votes with a VoteProducerAndCRVersion output, counted by the per-candidate
//     amount (cfgV1VoteAmount); the output itself is worth more than twice that;
//   - a1 votes with a version-0 output, counted by the output value (cfgV1VoteAmount);
//     the per-candidate amount it carries (ignored by the code) is different.
//
// The spec's V1Amt is what the producer is credited with in both cases.
func v1VoteShape(voter string) (version byte, value, votes common.Fixed64) {
	if voter == "a1" {
		return outputpayload.VoteProducerVersion, cfgV1VoteAmount * ELA, 1 * ELA
	}
	return outputpayload.VoteProducerAndCRVersion, (2*cfgV1VoteAmount + 1) * ELA, cfgV1VoteAmount * ELA
}

// txVoteV1: a TransferAsset carrying one vote output (Delegate) of voter a for producer p.
func txVoteV1(a *voterKeys, p *producerKeys, salt uint32) interfaces.Transaction {
	version, value, votes := v1VoteShape(a.name)
	return mkTx(common2.TxVersion09, common2.TransferAsset, 0, &payload.TransferAsset{}, saltInput(salt),
		[]*common2.Output{{Value: value, ProgramHash: a.stdAddr, Type: common2.OTVote,
			Payload: &outputpayload.VoteOutput{Version: version,
				Contents: []outputpayload.VoteContent{{VoteType: outputpayload.Delegate,
					CandidateVotes: []outputpayload.CandidateVotes{{Candidate: p.owner.pub, Votes: votes}}}}}}}, nil)
}

// txSpend: a plain transfer spending the given outpoint (cancels the vote it carries).
func txSpend(prev common2.OutPoint, amount common.Fixed64, to common.Uint168) interfaces.Transaction {
	return mkTx(common2.TxVersion09, common2.TransferAsset, 0, &payload.TransferAsset{},
		[]*common2.Input{{Previous: prev}},
		[]*common2.Output{{Value: amount, ProgramHash: to, Type: common2.OTNone, Payload: &outputpayload.DefaultOutput{}}}, nil)
}

// txStake: the stake output carries the vote rights; a change output of a different value
// follows it (the code must take the rights from the stake output only).
func txStake(params *config.Configuration, a *voterKeys, amount common.Fixed64, salt uint32) interfaces.Transaction {
	return mkTx(common2.TxVersion09, common2.ExchangeVotes, 0, &payload.ExchangeVotes{}, saltInput(salt),
		[]*common2.Output{{Value: amount, ProgramHash: *params.StakePoolProgramHash, Type: common2.OTStake,
			Payload: &outputpayload.ExchangeVotesOutput{Version: 0, StakeAddress: a.stakeAddr}},
			{Value: 2*amount + 5*ELA, ProgramHash: a.stdAddr, Type: common2.OTNone, Payload: &outputpayload.DefaultOutput{}}},
		[]*program.Program{{Code: a.code, Parameter: []byte{1}}})
}

func txVoteV2(a *voterKeys, p *producerKeys, amount common.Fixed64, lock uint32, salt uint32) interfaces.Transaction {
	pl := &payload.Voting{Contents: []payload.VotesContent{{VoteType: outputpayload.DposV2,
		VotesInfo: []payload.VotesWithLockTime{{Candidate: p.owner.pub, Votes: amount, LockTime: lock}}}}}
	return mkTx(common2.TxVersion09, common2.Voting, payload.VoteVersion, pl, saltInput(salt), nil,
		[]*program.Program{{Code: a.code, Parameter: []byte{1}}})
}

func txRenew(a *voterKeys, p *producerKeys, refer common.Uint256, amount common.Fixed64, lock uint32, salt uint32) interfaces.Transaction {
	pl := &payload.Voting{RenewalContents: []payload.RenewalVotesContent{{ReferKey: refer,
		VotesInfo: payload.VotesWithLockTime{Candidate: p.owner.pub, Votes: amount, LockTime: lock}}}}
	return mkTx(common2.TxVersion09, common2.Voting, payload.RenewalVoteVersion, pl, saltInput(salt), nil,
		[]*program.Program{{Code: a.code, Parameter: []byte{1}}})
}

func txReturnVotes(a *voterKeys, amount common.Fixed64, salt uint32) interfaces.Transaction {
	pl := &payload.ReturnVotes{ToAddr: a.stdAddr, Value: amount}
	return mkTx(common2.TxVersion09, common2.ReturnVotes, payload.ReturnVotesSchnorrVersion, pl, saltInput(salt), nil,
		[]*program.Program{{Code: a.code, Parameter: []byte{1}}})
}

func txTopUp(p *producerKeys, amount common.Fixed64, salt uint32) interfaces.Transaction {
	return mkTx(common2.TxVersion09, common2.TransferAsset, 0, &payload.TransferAsset{}, saltInput(salt),
		[]*common2.Output{{Value: amount, ProgramHash: p.depositHash, Type: common2.OTNone, Payload: &outputpayload.DefaultOutput{}}}, nil)
}

// txReturnDeposit spends deposit outpoints of p: `out` goes to a standard address,
// `change` back to the deposit address, the rest (1 sela) is the fee.
func txReturnDeposit(p *producerKeys, ins []common2.OutPoint, out, change common.Fixed64) interfaces.Transaction {
	var inputs []*common2.Input
	for _, o := range ins {
		inputs = append(inputs, &common2.Input{Previous: o})
	}
	outs := []*common2.Output{{Value: out, ProgramHash: outAddr, Type: common2.OTNone, Payload: &outputpayload.DefaultOutput{}}}
	if change > 0 {
		outs = append(outs, &common2.Output{Value: change, ProgramHash: p.depositHash, Type: common2.OTNone, Payload: &outputpayload.DefaultOutput{}})
	}
	return mkTx(common2.TxVersion09, common2.ReturnDepositCoin, 0, &payload.ReturnDepositCoin{}, inputs, outs,
		[]*program.Program{{Code: p.ownerCode, Parameter: []byte{1}}})
}

func txIllegal(p *producerKeys, height uint32, salt uint32) interfaces.Transaction {
	var h1, h2 common.Uint256
	h1[0], h1[1], h1[2] = 1, byte(salt), byte(salt>>8)
	h2[0], h2[1], h2[2] = 2, byte(salt), byte(salt>>8)
	pl := &payload.DPOSIllegalProposals{
		Evidence:        payload.ProposalEvidence{Proposal: payload.DPOSProposal{Sponsor: p.node.pub, BlockHash: h1}, BlockHeader: []byte{1}, BlockHeight: height},
		CompareEvidence: payload.ProposalEvidence{Proposal: payload.DPOSProposal{Sponsor: p.node.pub, BlockHash: h2}, BlockHeader: []byte{2}, BlockHeight: height},
	}
	return mkTx(common2.TxVersion09, common2.IllegalProposalEvidence, payload.IllegalProposalVersion, pl, nil, nil, nil)
}

func txInactive(p *producerKeys, height uint32, salt uint32) interfaces.Transaction {
	pl := &payload.InactiveArbitrators{Sponsor: fixedKey(501).pub, Arbitrators: [][]byte{p.node.pub}, BlockHeight: height + salt<<8}
	return mkTx(common2.TxVersion09, common2.InactiveArbitrators, payload.InactiveArbitratorsVersion, pl, nil, nil, nil)
}

func txRevertToPOW(height uint32) interfaces.Transaction {
	return mkTx(common2.TxVersion09, common2.RevertToPOW, payload.RevertToPOWVersion,
		&payload.RevertToPOW{Type: payload.NoBlock, WorkingHeight: height}, nil, nil, nil)
}

func txRevertToDPOS(salt uint32) interfaces.Transaction {
	tx := mkTx(common2.TxVersion09, common2.RevertToDPOS, payload.RevertToDPOSVersion,
		&payload.RevertToDPOS{WorkHeightInterval: payload.WorkHeightInterval}, nil, nil, nil)
	tx.SetLockTime(salt)
	return tx
}

func mkBlock(height uint32, txs []interfaces.Transaction) *types.Block {
	if txs == nil {
		txs = []interfaces.Transaction{}
	}
	return &types.Block{Header: common2.Header{Height: height, Timestamp: height * 10}, Transactions: txs}
}

func confirmOf(sponsor []byte) *payload.Confirm {
	if sponsor == nil {
		return nil
	}
	return &payload.Confirm{Proposal: payload.DPOSProposal{Sponsor: sponsor}}
}

// check runs the transaction's real SpecialContextCheck against the instance's state.
func (in *inst) check(tx interfaces.Transaction, height uint32, refs map[*common2.Input]common2.Output) (err error) {
	defer func() {
		if r := recover(); r != nil {
			err = fmt.Errorf("PANIC in SpecialContextCheck: %v", r)
		}
	}()
	t := functions.CreateTransaction(tx.Version(), tx.TxType(), tx.PayloadVersion(), tx.Payload(), tx.Attributes(),
		tx.Inputs(), tx.Outputs(), tx.LockTime(), tx.Programs())
	t.SetParameters(&transaction.TransactionParameters{Transaction: t, BlockHeight: height, TimeStamp: height * 10,
		Config: in.params, BlockChain: in.chain})
	if refs != nil {
		// the checker keys references by *Input of its own transaction object
		m := map[*common2.Input]common2.Output{}
		for i, inp := range tx.Inputs() {
			if o, ok := refs[inp]; ok {
				m[t.Inputs()[i]] = o
			}
		}
		t.SetReferences(m)
	}
	e, _ := t.SpecialContextCheck()
	if e != nil {
		return e
	}
	return nil
}
