// Conformance driver for spec/Consensus/DPoS.tla (C21, C28).
//
//	dposstate replay <behaviours.jsonl> [span]
//	dposstate checkpoint <behaviours.jsonl> [span] [stakeUntil]   (C23, checkpoint.go)
//	dposstate fields <n> <seed>                                   (C23, generated check points, fields.go)
//
// Every behaviour TLC printed is a sequence of Block / RollbackTo steps.  The
// blocks are built as real transactions and driven through the real
// state.Arbiters (ProcessBlock / RollbackTo):
//
//	(i)  differential oracle on the real code: after every rollback (the
//	     spec's RollbackTo steps, and at the end of the behaviour a sweep over
//	     every height within `span`) the rolled-back instance is compared,
//	     field by field, with a fresh instance that processed only the blocks
//	     up to that height; then the undone blocks are processed again and the
//	     result compared with the uninterrupted run;
//	(ii) the spec's abstract state is compared with the real one after every step;
//	(iii) C28: the real checkers (ReturnDepositCoin, Voting, ReturnVotes,
//	     CancelProducer) give their verdict for every such transaction against
//	     the pre-block state; balances are evaluated on the real accessors after
//	     every block; blocks the spec forbids (dev) are shown on a scratch instance.
package main

import (
	"encoding/hex"
	"fmt"
	"math"
	"os"
	"runtime/pprof"
	"sort"
	"strconv"
	"strings"

	"github.com/elastos/Elastos.ELA/common"
	"github.com/elastos/Elastos.ELA/common/config"
	common2 "github.com/elastos/Elastos.ELA/core/types/common"
	"github.com/elastos/Elastos.ELA/core/types/interfaces"
	"github.com/elastos/Elastos.ELA/core/types/outputpayload"
	"github.com/elastos/Elastos.ELA/core/types/payload"
	"github.com/elastos/Elastos.ELA/core/types"
	"github.com/elastos/Elastos.ELA/dpos/state"
	"verif/harness/internal/rep"
)

// ---------------------------------------------------------------------------
// chain-side bookkeeping the items refer to (persistent: copied per height)

type utxoEnt struct {
	op  common2.OutPoint
	val common.Fixed64
}

type chainView struct {
	utxo  map[string][]utxoEnt       // producer -> unspent deposit outputs, in spec order
	v1    map[string]utxoEnt         // voter -> live vote output
	votes map[int]common.Uint256     // vote id -> refer key
	vinfo map[int]payload.VotesWithLockTime
	vprod map[int]string
	su    map[string]uint32 // producer -> StakeUntil it registered / upgraded with
}

func newChainView() *chainView {
	return &chainView{utxo: map[string][]utxoEnt{}, v1: map[string]utxoEnt{}, votes: map[int]common.Uint256{},
		vinfo: map[int]payload.VotesWithLockTime{}, vprod: map[int]string{}, su: map[string]uint32{}}
}

func (c *chainView) clone() *chainView {
	n := newChainView()
	for k, v := range c.utxo {
		n.utxo[k] = append([]utxoEnt(nil), v...)
	}
	for k, v := range c.v1 {
		n.v1[k] = v
	}
	for k, v := range c.votes {
		n.votes[k] = v
	}
	for k, v := range c.vinfo {
		n.vinfo[k] = v
	}
	for k, v := range c.vprod {
		n.vprod[k] = v
	}
	for k, v := range c.su {
		n.su[k] = v
	}
	return n
}

type item struct {
	K, P, A string
	X, Y    int
}

func parseItems(st rep.Step) []item {
	var res []item
	for _, x := range rep.List(st, "items") {
		m, _ := x.(map[string]interface{})
		res = append(res, item{K: rep.Str(m, "k"), P: rep.Str(m, "p"), A: rep.Str(m, "a"), X: rep.Int(m, "x"), Y: rep.Int(m, "y")})
	}
	return res
}

type builtTx struct {
	it   item
	tx   interfaces.Transaction
	refs map[*common2.Input]common2.Output // references for the checker (deposit inputs)
}

type builtBlock struct {
	height  uint32
	items   []item
	txs     []builtTx
	sponsor []byte
	block   *types.Block
	before  *chainView
	after   *chainView
	nid     int
	fork    int
}

type common2Output = common2.Output

var globalRefs = map[string]common2.Output{} // every output a vote-cancelling input may refer to

// build turns the items of one block into transactions, given the chain view before the block.
func build(h uint32, items []item, nid int, cv *chainView, fork int) *builtBlock {
	bb := &builtBlock{height: h, items: items, before: cv, nid: nid, fork: fork}
	after := cv.clone()
	params := sharedParamsGet()
	idx := 0
	spent := map[string]map[int]bool{}
	var changes []struct {
		p  string
		e  utxoEnt
	}
	var topups []struct {
		p string
		e utxoEnt
	}
	for _, it := range items {
		if it.K == "Sponsor" {
			bb.sponsor = producers[it.P].node.pub
			continue
		}
		salt := h<<8 | uint32(idx)<<4 | uint32(fork&0xf)
		vid := nid + idx
		idx++
		var tx interfaces.Transaction
		var refs map[*common2.Input]common2.Output
		switch it.K {
		case "Reg":
			p := producers[it.P]
			su, amt := uint32(0), common.Fixed64(cfgMinDepositV1+cfgRegExtra)*ELA
			if it.P == "p3" {
				su, amt = uint32(specSU), common.Fixed64(cfgMinDepositV2+cfgRegExtra)*ELA
			}
			tx = txRegister(p, it.P+"-0", su, amt, salt)
			after.su[it.P] = su
			after.utxo[it.P] = []utxoEnt{{common2.OutPoint{TxID: tx.Hash(), Index: 0}, amt}}
		case "Upd":
			p := producers[it.P]
			// the nickname changes; x = 1 upgrades a v1 producer to v1v2, otherwise StakeUntil stays
			su := cv.su[it.P]
			if it.X == 1 {
				su = uint32(specSU)
				after.su[it.P] = su
			}
			tx = txUpdate(p, fmt.Sprintf("%s-u%d", it.P, salt), su, salt)
		case "Can":
			tx = txCancel(producers[it.P], salt)
		case "Act":
			tx = txActivate(producers[it.P], salt)
		case "Vote1":
			tx = txVoteV1(voters[it.A], producers[it.P], salt)
			e := utxoEnt{common2.OutPoint{TxID: tx.Hash(), Index: 0}, tx.Outputs()[0].Value}
			after.v1[it.A] = e
			globalRefs[e.op.ReferKey()] = *tx.Outputs()[0]
		case "Unvote1":
			e := cv.v1[it.A]
			tx = txSpend(e.op, e.val-1, voters[it.A].stdAddr)
			delete(after.v1, it.A)
		case "Stake":
			tx = txStake(params, voters[it.A], common.Fixed64(it.X)*ELA, salt)
		case "Vote2":
			p := producers[it.P]
			tx = txVoteV2(voters[it.A], p, common.Fixed64(it.X)*ELA, uint32(it.Y), salt)
			info := payload.VotesWithLockTime{Candidate: p.owner.pub, Votes: common.Fixed64(it.X) * ELA, LockTime: uint32(it.Y)}
			dvi := payload.DetailedVoteInfo{StakeProgramHash: voters[it.A].stakeAddr, TransactionHash: tx.Hash(), BlockHeight: h,
				PayloadVersion: tx.PayloadVersion(), VoteType: outputpayload.DposV2, Info: []payload.VotesWithLockTime{info}}
			after.votes[vid] = dvi.ReferKey()
			after.vinfo[vid] = info
			after.vprod[vid] = it.P
		case "Renew":
			old := cv.vinfo[it.X]
			pn := cv.vprod[it.X]
			p := producers[pn]
			tx = txRenew(voters[it.A], p, cv.votes[it.X], old.Votes, uint32(it.Y), salt)
			info := payload.VotesWithLockTime{Candidate: p.owner.pub, Votes: old.Votes, LockTime: uint32(it.Y)}
			dvi := payload.DetailedVoteInfo{StakeProgramHash: voters[it.A].stakeAddr, TransactionHash: tx.Hash(),
				PayloadVersion: payload.VoteVersion, VoteType: outputpayload.DposV2, Info: []payload.VotesWithLockTime{info}}
			delete(after.votes, it.X)
			after.votes[vid] = dvi.ReferKey()
			after.vinfo[vid] = info
			after.vprod[vid] = pn
		case "RetVotes":
			tx = txReturnVotes(voters[it.A], common.Fixed64(it.X)*ELA, salt)
		case "TopUp":
			tx = txTopUp(producers[it.P], common.Fixed64(it.X)*ELA, salt)
			topups = append(topups, struct {
				p string
				e utxoEnt
			}{it.P, utxoEnt{common2.OutPoint{TxID: tx.Hash(), Index: 0}, common.Fixed64(it.X) * ELA}})
		case "RetDep":
			p := producers[it.P]
			var ins []common2.OutPoint
			var inVal common.Fixed64
			if spent[it.P] == nil {
				spent[it.P] = map[int]bool{}
			}
			for i, e := range cv.utxo[it.P] {
				if it.X>>uint(i)&1 == 1 {
					ins = append(ins, e.op)
					inVal += e.val
					spent[it.P][i] = true
				}
			}
			change := common.Fixed64(it.Y) * ELA
			tx = txReturnDeposit(p, ins, inVal-change-1, change)
			refs = map[*common2.Input]common2.Output{}
			for i, inp := range tx.Inputs() {
				_ = i
				for _, e := range cv.utxo[it.P] {
					if e.op == inp.Previous {
						refs[inp] = common2.Output{ProgramHash: p.depositHash, Value: e.val}
					}
				}
			}
			if change > 0 {
				changes = append(changes, struct {
					p string
					e utxoEnt
				}{it.P, utxoEnt{common2.OutPoint{TxID: tx.Hash(), Index: 1}, change}})
			}
		case "Illegal":
			tx = txIllegal(producers[it.P], h, salt)
		case "Inact":
			tx = txInactive(producers[it.P], h, salt)
		case "ToPOW":
			tx = txRevertToPOW(h)
		case "ToDPOS":
			tx = txRevertToDPOS(salt)
		default:
			panic("unknown item kind " + it.K)
		}
		bb.txs = append(bb.txs, builtTx{it: it, tx: tx, refs: refs})
	}
	// deposit outputs after the block: unspent old ones, then top-ups, then change outputs
	for pn, m := range spent {
		var keep []utxoEnt
		for i, e := range cv.utxo[pn] {
			if !m[i] {
				keep = append(keep, e)
			}
		}
		after.utxo[pn] = keep
	}
	for _, t := range topups {
		after.utxo[t.p] = append(after.utxo[t.p], t.e)
	}
	for _, c := range changes {
		after.utxo[c.p] = append(after.utxo[c.p], c.e)
	}
	var txs []interfaces.Transaction
	for _, b := range bb.txs {
		txs = append(txs, b.tx)
	}
	bb.block = mkBlock(h, txs)
	bb.after = after
	return bb
}

var specSU = 12

func sharedParamsGet() *config.Configuration {
	if sharedParams == nil {
		sharedParams = newParams()
	}
	return sharedParams
}

// ---------------------------------------------------------------------------
// real instance helpers

func (in *inst) process(bb *builtBlock) (err error) {
	defer func() {
		if r := recover(); r != nil {
			err = fmt.Errorf("PANIC in ProcessBlock(%d): %v", bb.height, r)
		}
	}()
	in.best = bb.height
	in.arb.ProcessBlock(bb.block, confirmOf(bb.sponsor))
	return nil
}

func (in *inst) rollback(t uint32) (err error) {
	defer func() {
		if r := recover(); r != nil {
			err = fmt.Errorf("PANIC in RollbackTo(%d): %v", t, r)
		}
	}()
	e := in.arb.RollbackTo(t)
	in.best = t
	return e
}

func buildDirect(chain []*builtBlock) (*inst, error) {
	in := newInst()
	in.arb.State.GetTxReference = refLookup
	for _, bb := range chain {
		if err := in.process(bb); err != nil {
			return in, err
		}
	}
	return in, nil
}

func refLookup(tx interfaces.Transaction) (map[*common2.Input]common2.Output, error) {
	res := map[*common2.Input]common2.Output{}
	for _, i := range tx.Inputs() {
		o, ok := globalRefs[i.ReferKey()]
		if !ok {
			return nil, fmt.Errorf("unknown input")
		}
		res[i] = o
	}
	return res, nil
}

// snapshot: the live key frame (every field, also those State.snapshot() leaves out),
// the arbiters' check point without its copy of the key frame, and the degradation state.
func (in *inst) dump() *dump {
	d := &dump{e: make([]kv, 0, 256)}
	walk(reflectOf(in.arb.State.StateKeyFrame), "KeyFrame", d, 0)
	cp := in.arb.Snapshot()
	cp.StateKeyFrame = state.StateKeyFrame{}
	walk(reflectOf(cp), "CheckPoint", d, 0)
	keep := d.e[:0]
	for _, e := range d.e {
		if !strings.HasPrefix(e.k, "CheckPoint.StateKeyFrame") {
			keep = append(keep, e)
		}
	}
	d.e = keep
	d.set("History.height", fmt.Sprint(in.arb.State.History.Height()))
	d.set("ArbitersHistory.height", fmt.Sprint(in.arb.History.Height()))
	return d
}

// ---------------------------------------------------------------------------
// projection of the real state onto the spec's

func hOf(v uint32) int {
	if v == math.MaxUint32 {
		return -1
	}
	return int(v)
}

func ela(v common.Fixed64) (int, bool) {
	return int(v / ELA), v%ELA == 0
}

func (in *inst) project() (map[string]interface{}, []string) {
	var odd []string
	st := in.arb.State
	res := map[string]interface{}{}
	prs := map[string]interface{}{}
	for _, n := range prodNames {
		k := producers[n]
		key := hex.EncodeToString(k.owner.pub)
		maps := []string{}
		var pr *state.Producer
		for _, m := range []struct {
			n string
			m map[string]*state.Producer
		}{{"Active", st.ActivityProducers}, {"Canceled", st.CanceledProducers}, {"Illegal", st.IllegalProducers},
			{"Inactive", st.InactiveProducers}, {"Pending", st.PendingProducers}, {"PendingCanceled", st.PendingCanceledProducers}} {
			if p, ok := m.m[key]; ok {
				maps = append(maps, m.n)
				if pr != nil && pr != p {
					odd = append(odd, n+": two different objects in the producer maps")
				}
				pr = p
			}
		}
		sort.Strings(maps)
		if pr == nil {
			prs[n] = map[string]interface{}{"st": "None", "maps": maps}
			continue
		}
		f := func(v common.Fixed64, what string) int {
			x, ok := ela(v)
			if !ok {
				odd = append(odd, fmt.Sprintf("%s.%s=%d is not a whole number of ELA", n, what, v))
			}
			return x
		}
		ident := map[state.ProducerIdentity]string{state.DPoSV1: "V1", state.DPoSV2: "V2", state.DPoSV1V2: "V1V2"}[pr.Identity()]
		prs[n] = map[string]interface{}{
			"st": pr.State().String(), "maps": maps, "ident": ident,
			"regH": int(pr.RegisterHeight()), "cancelH": int(pr.CancelHeight()), "inactSince": int(pr.InactiveSince()),
			"actReq": hOf(pr.ActivateRequestHeight()), "illegalH": int(pr.IllegalHeight()),
			"pen": f(pr.Penalty(), "penalty"), "votes": f(pr.Votes(), "votes"), "v2votes": f(pr.DposV2Votes(), "dposV2Votes"),
			"dep": f(pr.DepositAmount(), "depositAmount"), "total": f(pr.TotalAmount(), "totalAmount"),
			"su": int(pr.Info().StakeUntil), "inactCnt": inactiveCount(pr),
		}
	}
	res["pr"] = prs
	ads := map[string]interface{}{}
	nv2 := 0
	for _, n := range voterName {
		v := voters[n]
		r, _ := ela(st.DposV2VoteRights[v.stakeAddr])
		u, _ := ela(st.UsedDposV2Votes[v.stakeAddr])
		ads[n] = map[string]interface{}{"rights": r, "used": u}
	}
	seen := map[*state.Producer]bool{}
	for _, p := range st.GetAllProducers() {
		pp := p
		_ = pp
	}
	for _, m := range []map[string]*state.Producer{st.ActivityProducers, st.CanceledProducers, st.IllegalProducers, st.InactiveProducers, st.PendingProducers} {
		for _, p := range m {
			if seen[p] {
				continue
			}
			seen[p] = true
			for _, dv := range p.GetAllDetailedDPoSV2Votes() {
				nv2 += len(dv)
			}
		}
	}
	res["ad"] = ads
	res["nv2"] = nv2
	mode := "DPOS"
	if st.ConsensusAlgorithm == state.POW {
		mode = "POW"
	}
	res["mode"] = mode
	res["dposWork"] = int(st.DPOSWorkHeight)
	res["lastIrr"] = int(st.LastIrreversibleHeight)
	res["dposStart"] = int(st.DPOSStartHeight)
	res["powH"] = int(st.RevertToPOWBlockHeight)
	return res, odd
}

// compareProj returns the differing field paths between the spec's projection and the real one.
func compareProj(spec map[string]interface{}, real map[string]interface{}) []string {
	var res []string
	var cmp func(path string, a, b interface{})
	cmp = func(path string, a, b interface{}) {
		switch x := a.(type) {
		case map[string]interface{}:
			y, ok := b.(map[string]interface{})
			if !ok {
				res = append(res, path)
				return
			}
			if s, ok := x["st"].(string); ok && s == "None" {
				if t, _ := y["st"].(string); t != "None" {
					res = append(res, path+".st: spec None real "+t)
				}
				return
			}
			for k, v := range x {
				if k == "taint" {
					continue // bookkeeping of the spec only
				}
				cmp(path+"."+k, v, y[k])
			}
		case []interface{}:
			var xs []string
			for _, e := range x {
				xs = append(xs, fmt.Sprint(e))
			}
			sort.Strings(xs)
			var ys []string
			switch yy := b.(type) {
			case []string:
				ys = append(ys, yy...)
			case []interface{}:
				for _, e := range yy {
					ys = append(ys, fmt.Sprint(e))
				}
			}
			sort.Strings(ys)
			if strings.Join(xs, ",") != strings.Join(ys, ",") {
				res = append(res, fmt.Sprintf("%s: spec %v real %v", path, xs, ys))
			}
		case float64:
			if y, ok := b.(int); !ok || int(x) != y {
				res = append(res, fmt.Sprintf("%s: spec %v real %v", path, x, b))
			}
		case string:
			if y, ok := b.(string); !ok || x != y {
				res = append(res, fmt.Sprintf("%s: spec %v real %v", path, x, b))
			}
		default:
			if fmt.Sprint(a) != fmt.Sprint(b) {
				res = append(res, fmt.Sprintf("%s: spec %v real %v", path, a, b))
			}
		}
	}
	cmp("", spec, real)
	sort.Strings(res)
	return res
}

// balances: C28 evaluated on the real accessors.  prev = totals before the block (nil: skip the withdrawal rule).
func (in *inst) balances(prev map[string]common.Fixed64) []string {
	return in.balancesCV(prev, nil)
}

// balancesCV additionally compares TotalAmount with the unspent deposit outputs of the chain view.
func (in *inst) balancesCV(prev map[string]common.Fixed64, cv *chainView) []string {
	var bad []string
	st := in.arb.State
	if cv != nil {
		for _, n := range prodNames {
			pr := st.GetProducer(producers[n].owner.pub)
			if pr == nil {
				continue
			}
			var sum common.Fixed64
			for _, e := range cv.utxo[n] {
				sum += e.val
			}
			if pr.TotalAmount() != sum {
				bad = append(bad, fmt.Sprintf("total-differs-from-outputs:%s TotalAmount=%v, unspent deposit outputs=%v", n, pr.TotalAmount(), sum))
			}
		}
	}
	// the used DPoS v2 votes of an address are the votes it has with the producers
	inUse := map[common.Uint168]common.Fixed64{}
	seen := map[*state.Producer]bool{}
	for _, m := range []map[string]*state.Producer{st.ActivityProducers, st.CanceledProducers, st.IllegalProducers, st.InactiveProducers, st.PendingProducers} {
		for _, p := range m {
			if seen[p] {
				continue
			}
			seen[p] = true
			for addr, dv := range p.GetAllDetailedDPoSV2Votes() {
				for _, v := range dv {
					for _, i := range v.Info {
						inUse[addr] += i.Votes
					}
				}
			}
		}
	}
	for _, n := range voterName {
		v := voters[n]
		if u := st.UsedDposV2Votes[v.stakeAddr]; u != inUse[v.stakeAddr] {
			bad = append(bad, fmt.Sprintf("used-differs-from-votes:%s UsedDposV2Votes=%v, votes held with producers=%v", n, u, inUse[v.stakeAddr]))
		}
	}
	for _, n := range prodNames {
		pr := st.GetProducer(producers[n].owner.pub)
		if pr == nil {
			continue
		}
		if pr.TotalAmount() < 0 {
			bad = append(bad, fmt.Sprintf("total-negative:%s TotalAmount=%v", n, pr.TotalAmount()))
		}
		if pr.DepositAmount() < 0 {
			cls := "deposit-negative"
			if pr.Identity() == state.DPoSV2 && pr.Info().StakeUntil < in.best && pr.DepositAmount()%(cfgMinDepositV2*ELA) == 0 {
				// an expired v2 producer canceled (and unlocked) once more, see DPoS.tla expProdAgain
				cls = "deposit-negative-expired-again"
			}
			bad = append(bad, fmt.Sprintf("%s:%s DepositAmount=%v", cls, n, pr.DepositAmount()))
		}
		if pr.Penalty() < 0 {
			bad = append(bad, fmt.Sprintf("penalty-negative:%s Penalty=%v", n, pr.Penalty()))
		}
		if prev != nil {
			if before, ok := prev[n]; ok && pr.TotalAmount() < before && pr.AvailableAmount() < 0 {
				bad = append(bad, fmt.Sprintf("overdrawn:%s withdrew %v leaving AvailableAmount=%v (total %v, locked %v, penalty %v)",
					n, before-pr.TotalAmount(), pr.AvailableAmount(), pr.TotalAmount(), pr.DepositAmount(), pr.Penalty()))
			}
		}
	}
	for _, n := range voterName {
		v := voters[n]
		r, u := st.DposV2VoteRights[v.stakeAddr], st.UsedDposV2Votes[v.stakeAddr]
		if r < 0 {
			bad = append(bad, fmt.Sprintf("rights-negative:%s DposV2VoteRights=%v", n, r))
		}
		if u < 0 {
			bad = append(bad, fmt.Sprintf("used-negative:%s UsedDposV2Votes=%v", n, u))
		}
		if u > r {
			bad = append(bad, fmt.Sprintf("used-exceeds-rights:%s UsedDposV2Votes=%v > DposV2VoteRights=%v", n, u, r))
		}
	}
	return bad
}

func (in *inst) totals() map[string]common.Fixed64 {
	res := map[string]common.Fixed64{}
	for _, n := range prodNames {
		if pr := in.arb.State.GetProducer(producers[n].owner.pub); pr != nil {
			res[n] = pr.TotalAmount()
		}
	}
	return res
}

// ---------------------------------------------------------------------------
// replay

type ctx struct {
	beh           rep.Behaviour
	span          int
	stats         map[string]int
	seenTwoStatus map[string]bool
	attrCache     map[string]string // (field class | kinds of the blamed block) -> kind that is enough on its own
}

func kindsOf(items []item) string {
	var ks []string
	seen := map[string]bool{}
	for _, it := range items {
		if !seen[it.K] {
			seen[it.K] = true
			ks = append(ks, it.K)
		}
	}
	sort.Strings(ks)
	if len(ks) == 0 {
		return "empty"
	}
	return strings.Join(ks, "+")
}

func checkedKind(k string) bool {
	return k == "RetDep" || k == "Vote2" || k == "Renew" || k == "RetVotes" || k == "Can"
}

// relevant items of the blamed block for a differing dump path
func blame(items []item, path string) string {
	var rel []item
	for _, it := range items {
		hit := it.K == "Sponsor"
		if it.P != "-" && it.P != "" {
			k := producers[it.P]
			if strings.Contains(path, hex.EncodeToString(k.owner.pub)) || strings.Contains(path, hex.EncodeToString(k.node.pub)) ||
				strings.Contains(path, hex.EncodeToString(k.depositHash[:])) {
				hit = true
			}
		}
		if it.A != "-" && it.A != "" {
			if strings.Contains(path, hex.EncodeToString(voters[it.A].stakeAddr[:])) {
				hit = true
			}
		}
		if !strings.Contains(path, "[") {
			// scalar field (mode, irreversibility bookkeeping): only mode transactions are specific
			hit = it.K == "ToPOW" || it.K == "ToDPOS"
		}
		if hit {
			rel = append(rel, it)
		}
	}
	if len(rel) == 0 {
		if !strings.Contains(path, "[") {
			return "auto"
		}
		rel = items
	}
	return kindsOf(rel)
}

// directDumps: one instance processes the chain block by block; res[h] is the dump
// after height h (res[0]: fresh instance).
func directDumps(chain []*builtBlock, from int) ([]*dump, error) {
	in := newInst()
	defer in.free()
	in.arb.State.GetTxReference = refLookup
	res := make([]*dump, len(chain)+1)
	if from <= 0 {
		res[0] = in.dump()
	}
	for i, bb := range chain {
		if err := in.process(bb); err != nil {
			return nil, err
		}
		if i+1 >= from {
			res[i+1] = in.dump()
		}
	}
	return res, nil
}

// differential: roll a full instance back to t and compare with the direct build.
// The caller frees the returned instance.
func differential(chain []*builtBlock, t int, dd []*dump) ([]diffEntry, *inst, error) {
	a, err := buildDirect(chain)
	if err != nil {
		a.free()
		return nil, nil, err
	}
	if err := a.rollback(uint32(t)); err != nil {
		a.free()
		return nil, nil, fmt.Errorf("RollbackTo(%d): %v", t, err)
	}
	return diffDumps(a.dump(), dd[t]), a, nil
}

func reportDiffs(c *ctx, chain []*builtBlock, t int, diffs []diffEntry, where string, caseInfo map[string]interface{}, dd []*dump) {
	// attribute: the smallest rollback that already shows the difference class
	// (a producer field is the same field whichever producer map the producer sits in at the rollback target:
	// classes are matched with the map name left out, the key names the class seen at the smallest rollback)
	byClass := map[string]diffEntry{}
	var order []string
	for _, d := range diffs {
		cl := normClass(fieldClass(d.Path))
		if _, ok := byClass[cl]; !ok {
			byClass[cl] = d
			order = append(order, cl)
		}
	}
	n := len(chain)
	for _, ncl := range order {
		d := byClass[ncl]
		blamed := n // height of the blamed block
		for tt := n - 1; tt >= t; tt-- {
			ds, ai, err := differential(chain, tt, dd)
			if err != nil {
				break
			}
			ai.free()
			found := false
			for _, x := range ds {
				if normClass(fieldClass(x.Path)) == ncl {
					found = true
					d = x
					break
				}
			}
			if found {
				blamed = tt + 1
				break
			}
		}
		cl := fieldClass(d.Path)
		kinds := blame(chain[blamed-1].items, d.Path)
		cacheKey := cl + "|" + kinds
		if k, ok := c.attrCache[cacheKey]; ok {
			kinds = k
		} else if bb := chain[blamed-1]; len(bb.items) >= 1 && bb.before != nil {
			// which item alone is enough?  (every item of a block is valid on its own: all are
			// checked against the pre-block state)
			variants := [][]item{nil}
			for _, it := range bb.items {
				variants = append(variants, []item{it})
			}
			for _, vit := range variants {
				variant := build(bb.height, vit, bb.nid, bb.before, bb.fork)
				ch := append(append([]*builtBlock{}, chain[:blamed-1]...), variant)
				dd2, err := directDumps(ch, blamed-1)
				if err != nil {
					continue
				}
				ds, ai, err := differential(ch, blamed-1, dd2)
				if err != nil {
					continue
				}
				ai.free()
				hit := false
				for _, x := range ds {
					if normClass(fieldClass(x.Path)) == ncl {
						hit = true
					}
				}
				if hit {
					kinds = "auto" // the end-of-block changes alone (no transaction) are enough
					if vit != nil {
						kinds = vit[0].K
					}
					break
				}
			}
			c.attrCache[cacheKey] = kinds
		}
		key := "C21:rollback-diff:" + cl + ":" + kinds
		rep.Violation(key, fmt.Sprintf("%s: after RollbackTo(%d) from height %d the field %s is %q, the state built directly from the blocks <= %d has %q "+
			"(difference appears as soon as block %d = [%s] is rolled back)", where, t, n, d.Path, d.A, t, d.B, blamed, kindsOf(chain[blamed-1].items)),
			caseInfo)
	}
}

var producerMaps = []string{"ActivityProducers", "InactiveProducers", "IllegalProducers", "CanceledProducers",
	"PendingCanceledProducers", "PendingProducers"}

// normClass leaves the name of the producer map out of a field class.
func normClass(cl string) string {
	for _, m := range producerMaps {
		if i := strings.Index(cl, "."+m+"["); i >= 0 {
			return cl[:i] + ".*Producers" + cl[i+1+len(m):]
		}
	}
	return cl
}

func replayOne(c *ctx, idx int) bool {
	b := c.beh
	okAll := true
	caseInfo := func(upto int) map[string]interface{} {
		return map[string]interface{}{"behaviour": compact(b[:upto+1])}
	}
	// pass 1: build every block
	views := []*chainView{newChainView()} // views[h] = chain view after height h
	height := 0
	fork := 0
	built := make([]*builtBlock, len(b))
	for i, st := range b {
		switch st.Act() {
		case "Block":
			h := rep.Int(st, "h")
			bb := build(uint32(h), parseItems(st), rep.Int(st, "nid"), views[height], fork)
			built[i] = bb
			if rep.Bool(st, "applied") {
				views = append(views[:height+1], bb.after)
				height = h
			}
		case "RollbackTo":
			t := rep.Int(st, "t")
			views = views[:t+1]
			height = t
			fork++
		}
		// "Checkpoint" steps (C23) change nothing: see the checkpoint mode
	}
	// pass 2: drive the real code
	A := newInst()
	A.arb.State.GetTxReference = refLookup
	var chain []*builtBlock
	balReported := map[string]bool{}
	for i, st := range b {
		switch st.Act() {
		case "Block":
			bb := built[i]
			pre, dev, applied := rep.Bool(st, "pre"), rep.Bool(st, "dev"), rep.Bool(st, "applied")
			// (iii) verdicts of the real checkers against the pre-block state
			allAccept := true
			for _, t := range bb.txs {
				if !checkedKind(t.it.K) {
					continue
				}
				err := A.check(t.tx, bb.height, t.refs)
				c.stats["checker:"+t.it.K]++
				if err != nil {
					allAccept = false
					c.stats["checker-reject:"+t.it.K]++
					if strings.Contains(err.Error(), "PANIC") {
						rep.Violation("C28:panic:checker:"+t.it.K, err.Error(), caseInfo(i))
						return false
					}
					if pre {
						rep.Mismatch(fmt.Sprintf("step %d: the real %s checker rejects (%v) a transaction the spec's rule accepts: %+v", i, t.it.K, err, t.it), caseInfo(i))
						return false
					}
				}
			}
			if why := rep.Str(st, "why"); why == "two-status-changes" {
				// named deviation: one producer's status changes twice in this block
				c.stats["two-status-blocks"]++
				if !c.seenTwoStatus[kindsOf(bb.items)] || c.stats["two-status-demos"] < 40 {
					c.seenTwoStatus[kindsOf(bb.items)] = true
					c.stats["two-status-demos"]++
					if demoTwoStatus(chain, bb, rep.Int(st, "nid"), caseInfo(i)) {
						okAll = false
					}
				}
				continue
			}
			if !pre || dev {
				// the spec refuses the block.  What does the real code do with it?
				if allAccept {
					shape := "checker-accepts"
					if dev {
						shape = "in-block"
					}
					bad := demonstrate(chain, bb)
					c.stats["refused-but-accepted"]++
					if len(bad) > 0 {
						cls := strings.SplitN(bad[0], ":", 2)[0]
						kinds := kindsOf(bb.items)
						if rep.Str(st, "why") == "forbidden" {
							kinds = "Can" // the cancellation of a Returned producer, whatever else the block carries
						}
						rep.Violation("C28:"+shape+":"+cls+":"+kinds,
							fmt.Sprintf("step %d: every transaction of block %d [%v] passes its real SpecialContextCheck against the pre-block state; "+
								"processing the block gives: %s", i, bb.height, bb.items, strings.Join(bad, "; ")), caseInfo(i))
						okAll = false
					} else if !pre {
						rep.Mismatch(fmt.Sprintf("step %d: the real checkers accept %v which the spec's rule rejects, and no balance goes wrong", i, bb.items), caseInfo(i))
						return false
					} else {
						// a named deviation that does no harm in this combination (e.g. the cancellation of a
						// Returned producer followed by a withdrawal that makes it Returned again)
						c.stats["deviation-harmless"]++
					}
				} else if dev {
					rep.Mismatch(fmt.Sprintf("step %d: the spec expects the real checkers to accept every transaction of %v (deviation %s)", i, bb.items, rep.Str(st, "why")), caseInfo(i))
					return false
				}
				continue
			}
			if !applied {
				continue
			}
			prev := A.totals()
			if err := A.process(bb); err != nil {
				rep.Violation("C21:panic:ProcessBlock:"+kindsOf(bb.items), err.Error(), caseInfo(i))
				return false
			}
			chain = append(chain, bb)
			if bad := A.balancesCV(prev, bb.after); len(bad) > 0 {
				cls := strings.SplitN(bad[0], ":", 2)[0]
				key := "C28:balance:" + cls + ":" + kindsOf(bb.items)
				if cls == "deposit-negative-expired-again" {
					key = "C28:balance:" + cls // caused by the end-of-block expiry, whatever the block carries
				}
				if !balReported[key] {
					balReported[key] = true
					rep.Violation(key, fmt.Sprintf("step %d: after block %d [%v]: %s", i, bb.height, bb.items, strings.Join(bad, "; ")), caseInfo(i))
				}
				okAll = false
			}
			// (ii) forward conformance
			real, odd := A.project()
			if d := compareProj(rep.Map(st, "st"), real); len(d) > 0 || len(odd) > 0 {
				rep.Mismatch(fmt.Sprintf("step %d (block %d %v): real state differs from the spec's: %v %v", i, bb.height, bb.items, d, odd), caseInfo(i))
				return false
			}
		case "RollbackTo":
			t := rep.Int(st, "t")
			n := len(chain)
			if err := A.rollback(uint32(t)); err != nil {
				rep.Violation("C21:rollback-error", fmt.Sprintf("step %d: RollbackTo(%d) from %d: %v", i, t, n, err), caseInfo(i))
				return false
			}
			dd, err := directDumps(chain, t)
			if err != nil {
				rep.Mismatch("direct build failed: "+err.Error(), caseInfo(i))
				return false
			}
			c.stats["rollbacks"]++
			diffs := diffDumps(A.dump(), dd[t])
			if len(diffs) > 0 {
				okAll = false
				reportDiffs(c, chain, t, diffs, fmt.Sprintf("step %d", i), caseInfo(i), dd)
				// continue from the directly built state so that the rest of the behaviour is not masked
				A.free()
				A, _ = buildDirect(chain[:t])
			}
			// (ii) the spec's state after the rollback is the direct build
			real, odd := A.project()
			if d := compareProj(rep.Map(st, "st"), real); len(d) > 0 || len(odd) > 0 {
				rep.Violation("C21:rollback-spec:"+strings.SplitN(strings.Join(d, ";"), ":", 2)[0],
					fmt.Sprintf("step %d: after RollbackTo(%d) the real state differs from the spec's direct build: %v %v", i, t, d, odd), caseInfo(i))
				return false
			}
			chain = chain[:t]
		}
	}
	// (i) sweep at the end: every rollback target within span, and reprocessing
	n := len(chain)
	if n > 0 {
		lo := n - c.span
		if lo < 0 {
			lo = 0
		}
		dd, err := directDumps(chain, lo)
		if err != nil {
			rep.Mismatch("direct build failed: "+err.Error(), caseInfo(len(b)-1))
			return false
		}
		fullDump := dd[n]
		for t := n - 1; t >= lo; t-- {
			diffs, a, err := differential(chain, t, dd)
			if err != nil {
				rep.Violation("C21:rollback-error", fmt.Sprintf("sweep RollbackTo(%d) from %d: %v", t, n, err), caseInfo(len(b)-1))
				return false
			}
			c.stats["rollbacks"]++
			if len(diffs) > 0 {
				okAll = false
				a.free()
				reportDiffs(c, chain, t, diffs, "final sweep", caseInfo(len(b)-1), dd)
				break // deeper rollbacks repeat the same difference
			}
			// process the undone blocks again: must arrive at the uninterrupted state
			for _, bb := range chain[t:] {
				if err := a.process(bb); err != nil {
					rep.Violation("C21:panic:reprocess:"+kindsOf(bb.items), err.Error(), caseInfo(len(b)-1))
					return false
				}
			}
			ds := diffDumps(a.dump(), fullDump)
			a.free()
			if len(ds) > 0 {
				okAll = false
				d := ds[0]
				rep.Violation("C21:reprocess-diff:"+fieldClass(d.Path)+":"+kindsOf(chain[t].items),
					fmt.Sprintf("RollbackTo(%d) from %d and processing blocks %d..%d again: field %s is %q, uninterrupted run has %q", t, n, t+1, n, d.Path, d.A, d.B),
					caseInfo(len(b)-1))
				break
			}
			c.stats["reprocessed"]++
		}
	}
	A.free()
	return okAll
}

// demonstrate: on a scratch instance process the refused block (and, for a
// cancellation, the blocks until the deposit lock-up ends) and evaluate C28.
func demonstrate(chain []*builtBlock, bb *builtBlock) []string {
	in, err := buildDirect(chain)
	defer in.free()
	if err != nil {
		return nil
	}
	prev := in.totals()
	base := map[string]bool{}
	for _, x := range in.balances(nil) {
		base[x] = true // what was wrong already before this block
	}
	fresh := func(xs []string) []string {
		var r []string
		for _, x := range xs {
			// the repeated expiry of a v2 producer happens at the end of whatever block comes next
			if !base[x] && !strings.HasPrefix(x, "deposit-negative-expired-again") {
				r = append(r, x)
			}
		}
		return r
	}
	if err := in.process(bb); err != nil {
		return []string{"panic:" + err.Error()}
	}
	bad := fresh(in.balances(prev))
	for h := bb.height + 1; len(bad) == 0 && h <= bb.height+cfgLockup+1; h++ {
		if err := in.process(&builtBlock{height: h, block: mkBlock(h, nil)}); err != nil {
			return []string{"panic:" + err.Error()}
		}
		bad = fresh(in.balances(nil))
	}
	return bad
}

// demoTwoStatus shows on the real code what a block that changes one producer's status
// twice leads to: (C21) with a fixed follow-up block (nothing, or further illegal evidence
// about one producer) the rollback of the follow-up / of both blocks is compared with the
// direct build; (C28) empty blocks follow until every v2 producer has expired and the
// balances are evaluated.
func demoTwoStatus(chain []*builtBlock, bb *builtBlock, nid int, caseInfo map[string]interface{}) bool {
	found := false
	base := append(append([]*builtBlock{}, chain...), bb)
	n := len(base)
	follow := [][]item{nil}
	for _, p := range prodNames {
		follow = append(follow, []item{{K: "Illegal", P: p, A: "-"}})
	}
	for _, f := range follow {
		ch := base
		if f != nil {
			ch = append(append([]*builtBlock{}, base...), build(bb.height+1, f, nid+8, bb.after, 9))
		}
		dd, err := directDumps(ch, n-1)
		if err != nil {
			continue
		}
		for t := len(ch) - 1; t >= n-1 && !found; t-- {
			ds, a, err := differential(ch, t, dd)
			if err != nil {
				continue
			}
			a.free()
			if len(ds) > 0 {
				found = true
				d := ds[0]
				rep.Violation("C21:rollback-diff:two-status-changes-one-block",
					fmt.Sprintf("block %d %v changes the status of one producer twice (both changes are decided against the pre-block state); "+
						"follow-up block %v; after RollbackTo(%d) from %d field %s is %q, built directly %q (%d fields differ)",
						bb.height, bb.items, f, t, len(ch), d.Path, d.A, d.B, len(ds)), caseInfo)
			}
		}
		if found {
			break
		}
	}
	in, err := buildDirect(base)
	defer in.free()
	if err == nil {
		for h := bb.height + 1; h <= uint32(specSU)+2 && h < bb.height+30; h++ {
			if err := in.process(&builtBlock{height: h, block: mkBlock(h, nil)}); err != nil {
				break
			}
			if bad := in.balances(nil); len(bad) > 0 {
				found = true
				rep.Violation("C28:balance:two-status-changes-one-block",
					fmt.Sprintf("block %d %v changes the status of one producer twice; after the empty blocks up to %d: %s",
						bb.height, bb.items, h, strings.Join(bad, "; ")), caseInfo)
				break
			}
		}
	}
	return found
}

func compact(b rep.Behaviour) []interface{} {
	var res []interface{}
	for _, st := range b {
		if st.Act() == "Block" {
			var its []string
			for _, it := range parseItems(st) {
				s := it.K
				if it.P != "-" {
					s += " " + it.P
				}
				if it.A != "-" {
					s += " " + it.A
				}
				if it.X != 0 || it.Y != 0 {
					s += fmt.Sprintf(" x=%d y=%d", it.X, it.Y)
				}
				its = append(its, s)
			}
			tag := ""
			if !rep.Bool(st, "applied") {
				tag = " (refused by the spec)"
			}
			res = append(res, fmt.Sprintf("h%d: [%s]%s", rep.Int(st, "h"), strings.Join(its, ", "), tag))
		} else {
			res = append(res, fmt.Sprintf("RollbackTo(%d)", rep.Int(st, "t")))
		}
	}
	return res
}

func main() {
	if pf := os.Getenv("DPOS_PROF"); pf != "" {
		f, _ := os.Create(pf)
		pprof.StartCPUProfile(f)
		defer pprof.StopCPUProfile()
	}
	initGlobals()
	if len(os.Args) < 2 {
		fmt.Fprintln(os.Stderr, "usage: dposstate replay <behaviours.jsonl> [span] [stakeUntil]")
		os.Exit(3)
	}
	switch os.Args[1] {
	case "probe":
		probe()
	case "fields":
		fieldsMain(os.Args[2:])
	case "checkpoint":
		span := 6
		if len(os.Args) > 3 {
			span, _ = strconv.Atoi(os.Args[3])
		}
		if len(os.Args) > 4 {
			specSU, _ = strconv.Atoi(os.Args[4])
		}
		checkpointMode(os.Args[2], span)
	case "replay":
		span := 6
		if len(os.Args) > 3 {
			span, _ = strconv.Atoi(os.Args[3])
		}
		if len(os.Args) > 4 {
			specSU, _ = strconv.Atoi(os.Args[4])
		}
		behs := rep.ReadBehaviours(os.Args[2])
		c := &ctx{span: span, stats: map[string]int{}, seenTwoStatus: map[string]bool{}, attrCache: map[string]string{}}
		okN, steps := 0, 0
		for i, b := range behs {
			c.beh = b
			globalRefs = map[string]common2.Output{}
			func() {
				defer func() {
					if r := recover(); r != nil {
						rep.Mismatch(fmt.Sprintf("driver panic in behaviour %d: %v", i, r), map[string]interface{}{"behaviour": compact(b)})
					}
				}()
				if replayOne(c, i) {
					okN++
				}
			}()
			steps += len(b)
		}
		extra := map[string]interface{}{"steps": steps, "agree": okN, "mode": "replay"}
		for k, v := range c.stats {
			extra[k] = v
		}
		var sample interface{}
		if len(behs) > 0 {
			sample = compact(behs[len(behs)/2])
		}
		rep.Summary(len(behs), extra, sample)
	}
	rep.Flush()
}
