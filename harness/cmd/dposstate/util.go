package main

import (
	"crypto/sha256"
	"encoding/hex"
	"fmt"
	"reflect"
	"sort"
	"time"

	"github.com/elastos/Elastos.ELA/core/types/interfaces"
	"github.com/elastos/Elastos.ELA/dpos/state"
)

func reflectOf(v interface{}) reflect.Value { return reflect.ValueOf(v) }

// inactiveCount reads the unexported Producer.inactiveCount.
func inactiveCount(p *state.Producer) int {
	return int(reflect.ValueOf(p).Elem().FieldByName("inactiveCount").Uint())
}

// hashDump folds a sub-dump into one entry (long arbiter lists).
func hashDump(d dump) string {
	keys := make([]string, 0, len(d))
	for k := range d {
		keys = append(keys, k)
	}
	sort.Strings(keys)
	h := sha256.New()
	for _, k := range keys {
		fmt.Fprintf(h, "%s=%s\n", k, d[k])
	}
	return hex.EncodeToString(h.Sum(nil))[:24]
}

// probe: a small smoke run of the environment.
func probe() {
	in := newInst()
	p1 := producers["p1"]
	for h := uint32(1); h <= 16; h++ {
		var txs []interfaces.Transaction
		if h == 1 {
			txs = append(txs, txRegister(p1, "n1", 0, 5000*ELA, 1))
		}
		in.best = h
		in.arb.ProcessBlock(mkBlock(h, txs), nil)
	}
	d := in.dump()
	cnt := map[string]int{}
	for k := range d {
		c := fieldClass(k)
		if len(c) > 60 {
			c = c[:60]
		}
		cnt[c]++
	}
	for k, v := range cnt {
		if v > 20 {
			fmt.Println(v, k)
		}
	}
	t0 := time.Now()
	for i := 0; i < 1000; i++ {
		in.dump()
	}
	fmt.Println("1000 dumps", time.Since(t0))
	t0 = time.Now()
	for i := 0; i < 200; i++ {
		x := newInst()
		x.free()
	}
	fmt.Println("200 newInst", time.Since(t0))
	fmt.Println("entries", len(d), "LIH", in.arb.State.LastIrreversibleHeight)
	fmt.Println("rollback", in.arb.RollbackTo(14), "LIH", in.arb.State.LastIrreversibleHeight, "DPOSStart", in.arb.State.DPOSStartHeight)
}
