package main

import (
	"crypto/sha256"
	"encoding/hex"
	"fmt"
	"reflect"
	"time"

	"github.com/elastos/Elastos.ELA/core/types/interfaces"
	"github.com/elastos/Elastos.ELA/dpos/state"
)

func reflectOf(v interface{}) reflect.Value { return reflect.ValueOf(v) }

// inactiveCount reads the unexported Producer.inactiveCount.
func inactiveCount(p *state.Producer) int {
	return int(reflect.ValueOf(p).Elem().FieldByName("inactiveCount").Uint())
}

// hashDump folds a sub-dump into one entry (long arbiter lists).
func hashDump(d *dump) string {
	d.sort()
	h := sha256.New()
	for _, e := range d.e {
		fmt.Fprintf(h, "%s=%s\n", e.k, e.v)
	}
	return hex.EncodeToString(h.Sum(nil))[:24]
}

// probe: a small smoke run of the environment.
func probe() {
	in := newInst()
	p1 := producers["p1"]
	for h := uint32(1); h <= 16; h++ {
		var txs []interfaces.Transaction
		if h == 1 {
			txs = append(txs, txRegister(p1, "n1", 0, 5000*ELA, 1))
		}
		in.best = h
		in.arb.ProcessBlock(mkBlock(h, txs), nil)
	}
	t0 := time.Now()
	for i := 0; i < 1000; i++ {
		in.dump()
	}
	fmt.Println("1000 dumps", time.Since(t0), "entries", len(in.dump().e))
	fmt.Println("rollback", in.arb.RollbackTo(14), "LIH", in.arb.State.LastIrreversibleHeight, "DPOSStart", in.arb.State.DPOSStartHeight)
}
