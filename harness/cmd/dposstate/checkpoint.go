// C23 part for the DPoS state: `dposstate checkpoint <behaviours.jsonl> [span] [stakeUntil]`.
//
// For every behaviour, after every applied block: the DPoS checkpoint is taken the
// way core/checkpoint does (state.NewCheckpoint(arbiters) = initFromArbitrators,
// Serialize -> bytes), restored into a FRESH instance (Deserialize into that
// instance's checkpoint object, OnInit -> RecoverFromCheckPoints) and
//
//	(a) the restored check point object is compared with the live one over every
//	    exported and unexported field (reflection, maps canonicalised); the restored
//	    object is serialized again: the bytes must have the same length and
//	    deserialize to the same object;
//	(b) the remaining blocks of the behaviour are processed on the restored instance
//	    and the final canonical state must equal the uninterrupted run's.
package main

import (
	"bytes"
	"fmt"
	"sort"
	"strings"

	"github.com/elastos/Elastos.ELA/dpos/state"
	"verif/harness/internal/rep"
)

func skipCkp(k string) bool {
	return strings.Contains(k, ".arbitrators") // back pointer to the owning Arbiters
}

func dumpCheckpoint(cp *state.CheckPoint) *dump {
	d := &dump{}
	walk(reflectOf(cp), "CheckPoint", d, 0)
	keep := d.e[:0]
	for _, e := range d.e {
		if !skipCkp(e.k) {
			keep = append(keep, e)
		}
	}
	d.e = keep
	return d
}

func isZeroVal(v string) bool {
	return v == "0" || v == "" || v == "false" || v == "<nil>"
}

type ckpStats struct {
	seen    map[string]bool // field class -> seen at all
	nonzero map[string]bool // field class -> some snapshot had a non-zero value
	taken   int
}

func (s *ckpStats) note(d *dump) {
	s.taken++
	for _, e := range d.e {
		c := fieldClass(e.k)
		s.seen[c] = true
		if !isZeroVal(e.v) {
			s.nonzero[c] = true
		}
	}
}

// restoreFrom builds a fresh instance from the bytes of a checkpoint.
func restoreFrom(buf []byte) (*inst, *state.CheckPoint, error) {
	in := newInst()
	in.arb.State.GetTxReference = refLookup
	cp := state.NewCheckpoint(in.arb)
	if err := cp.Deserialize(bytes.NewReader(buf)); err != nil {
		return in, nil, err
	}
	cp.OnInit()
	// NewArbitrators wired the replacement State's callbacks to this instance; the key frame now is the check point's
	return in, cp, nil
}

func checkpointOne(c *ctx, b rep.Behaviour, st *ckpStats) bool {
	ok := true
	caseInfo := func() map[string]interface{} { return map[string]interface{}{"behaviour": compact(b)} }
	// the final chain of the behaviour (rollback steps cut it)
	views := []*chainView{newChainView()}
	height, fork := 0, 0
	var chain []*builtBlock
	for _, s := range b {
		switch s.Act() {
		case "Block":
			if !rep.Bool(s, "applied") {
				continue
			}
			h := rep.Int(s, "h")
			bb := build(uint32(h), parseItems(s), rep.Int(s, "nid"), views[height], fork)
			views = append(views[:height+1], bb.after)
			chain = append(chain[:height], bb)
			height = h
		case "RollbackTo":
			t := rep.Int(s, "t")
			views = views[:t+1]
			chain = chain[:t]
			height = t
			fork++
		}
	}
	full, err := buildDirect(chain)
	if err != nil {
		rep.Mismatch("direct build failed: "+err.Error(), caseInfo())
		return false
	}
	fullDump := full.dump()
	full.free()
	live := newInst()
	live.arb.State.GetTxReference = refLookup
	defer func() { live.free() }()
	reported := map[string]bool{}
	for i, bb := range chain {
		if err := live.process(bb); err != nil {
			rep.Mismatch("ProcessBlock failed: "+err.Error(), caseInfo())
			return false
		}
		if len(chain)-i-1 > c.span && i+1 < len(chain) && (i+1)%3 != 0 {
			continue // every height within the span, every third one before
		}
		cpLive := state.NewCheckpoint(live.arb)
		cpLive.Height = bb.height
		w := new(bytes.Buffer)
		if err := cpLive.Serialize(w); err != nil {
			rep.Violation("C23:dpos-checkpoint:serialize-error", fmt.Sprintf("height %d: %v", bb.height, err), caseInfo())
			return false
		}
		raw := w.Bytes()
		c.stats["checkpoints"]++
		dLive := dumpCheckpoint(cpLive)
		st.note(dLive)
		r, cpR, err := restoreFrom(raw)
		if err != nil {
			rep.Violation("C23:dpos-checkpoint:deserialize-error", fmt.Sprintf("height %d: %v", bb.height, err), caseInfo())
			r.free()
			return false
		}
		// (a) restored object = live object
		for _, d := range diffDumps(dumpCheckpoint(cpR), dLive) {
			cl := fieldClass(d.Path)
			if reported[cl] {
				continue
			}
			reported[cl] = true
			ok = false
			rep.Violation("C23:dpos-checkpoint:"+cl, fmt.Sprintf("height %d: after Serialize/Deserialize field %s is %q, the live check point has %q",
				bb.height, d.Path, d.A, d.B), caseInfo())
		}
		w2 := new(bytes.Buffer)
		if err := cpR.Serialize(w2); err == nil {
			if w2.Len() != len(raw) {
				if !reported["#bytes"] {
					reported["#bytes"] = true
					ok = false
					rep.Violation("C23:dpos-checkpoint:reserialized-length", fmt.Sprintf("height %d: the restored check point serializes to %d bytes, the live one to %d",
						bb.height, w2.Len(), len(raw)), caseInfo())
				}
			} else {
				cp3 := &state.CheckPoint{}
				if err := cp3.Deserialize(bytes.NewReader(w2.Bytes())); err == nil {
					ds := diffDumps(dumpCheckpoint(cp3), dumpCheckpoint(cpR))
					if len(ds) > 0 && !reported["#again"] {
						reported["#again"] = true
						ok = false
						rep.Violation("C23:dpos-checkpoint:second-roundtrip:"+fieldClass(ds[0].Path),
							fmt.Sprintf("height %d: serializing the restored check point again changes %s: %q -> %q", bb.height, ds[0].Path, ds[0].B, ds[0].A), caseInfo())
					}
				}
			}
		}
		// (b) continue on the restored instance
		diverged := false
		for _, rest := range chain[i+1:] {
			if err := r.process(rest); err != nil {
				ok = false
				diverged = true
				rep.Violation("C23:dpos-restore-diverges:panic", fmt.Sprintf("restored at %d, block %d: %v", bb.height, rest.height, err), caseInfo())
				break
			}
		}
		if !diverged {
			rd := r.dump()
			// the change-history heights are not part of a check point
			var ds []diffEntry
			for _, d := range diffDumps(rd, fullDump) {
				if strings.HasPrefix(d.Path, "History.") || strings.HasPrefix(d.Path, "ArbitersHistory.") {
					continue
				}
				ds = append(ds, d)
			}
			// One mechanism, one key: a producer cancelled while Pending is ONE object held by
			// PendingCanceledProducers and by another producer map (CanceledProducers; IllegalProducers
			// ... after later status changes); the check point stores two copies, so what changes
			// after a restore reaches only the copy in the other map.  A difference in
			// PendingCanceledProducers[k].<field> belongs to it when the other map's entry of the
			// restored instance agrees with the uninterrupted run (where both names show one value).
			var aliasFields []string
			var aliasFirst *diffEntry
			keep := ds[:0:0]
			for i := range ds {
				d := ds[i]
				if f, is := pendingCanceledAlias(d, rd, fullDump); is {
					if aliasFirst == nil {
						aliasFirst = &ds[i]
					}
					dup := false
					for _, x := range aliasFields {
						dup = dup || x == f
					}
					if !dup {
						aliasFields = append(aliasFields, f)
					}
					continue
				}
				keep = append(keep, d)
			}
			ds = keep
			if aliasFirst != nil {
				ok = false
				if !reported["div:alias"] {
					reported["div:alias"] = true
					rep.Violation("C23:dpos-restore-diverges:PendingCanceledProducers-alias", fmt.Sprintf("restored from the check point of height %d and continued to %d: "+
						"the PendingCanceledProducers copy of a producer stays behind the copy in the other producer map in the field(s) %s "+
						"(e.g. %s is %q, the uninterrupted run has %q there and under both names)", bb.height, len(chain),
						strings.Join(aliasFields, ", "), aliasFirst.Path, aliasFirst.A, aliasFirst.B), caseInfo())
				}
			}
			seen := map[string]bool{}
			for _, d := range ds {
				cl := fieldClass(d.Path)
				if seen[cl] || reported["div:"+cl] {
					continue
				}
				seen[cl] = true
				reported["div:"+cl] = true
				ok = false
				rep.Violation("C23:dpos-restore-diverges:"+cl, fmt.Sprintf("restored from the check point of height %d and continued to %d: field %s is %q, "+
					"the uninterrupted run has %q", bb.height, len(chain), d.Path, d.A, d.B), caseInfo())
			}
			c.stats["continued"]++
		}
		r.free()
	}
	return ok
}

// lookup finds a path in a (sorted) dump.
func (d *dump) lookup(path string) (string, bool) {
	d.sort()
	i := sort.Search(len(d.e), func(i int) bool { return d.e[i].k >= path })
	if i < len(d.e) && d.e[i].k == path {
		return d.e[i].v, true
	}
	return "", false
}

// pendingCanceledAlias: is the difference d (restored vs. uninterrupted) in PendingCanceledProducers[k].<field>
// while another producer map of the restored instance holds k with the uninterrupted run's value of that field?
func pendingCanceledAlias(d diffEntry, restored, full *dump) (string, bool) {
	const pre = "KeyFrame.PendingCanceledProducers["
	if !strings.HasPrefix(d.Path, pre) {
		return "", false
	}
	rest := d.Path[len(pre):] // k].field
	j := strings.Index(rest, "].")
	if j < 0 {
		return "", false
	}
	for _, m := range producerMaps {
		if m == "PendingCanceledProducers" {
			continue
		}
		other := "KeyFrame." + m + "[" + rest
		vR, okR := restored.lookup(other)
		vF, okF := full.lookup(other)
		if okR && okF && vR == vF && vF == d.B {
			return rest[j+2:], true
		}
	}
	return "", false
}

func checkpointMode(path string, span int) {
	behs := rep.ReadBehaviours(path)
	c := &ctx{span: span, stats: map[string]int{}, seenTwoStatus: map[string]bool{}, attrCache: map[string]string{}}
	st := &ckpStats{seen: map[string]bool{}, nonzero: map[string]bool{}}
	okN := 0
	for i, b := range behs {
		globalRefs = map[string]common2Output{}
		func() {
			defer func() {
				if r := recover(); r != nil {
					rep.Mismatch(fmt.Sprintf("driver panic in behaviour %d: %v", i, r), map[string]interface{}{"behaviour": compact(b)})
				}
			}()
			if checkpointOne(c, b, st) {
				okN++
			}
		}()
	}
	var never []string
	for k := range st.seen {
		if !st.nonzero[k] {
			never = append(never, k)
		}
	}
	sort.Strings(never)
	extra := map[string]interface{}{"agree": okN, "mode": "checkpoint", "never_populated": never, "snapshots": st.taken}
	for k, v := range c.stats {
		extra[k] = v
	}
	var sample interface{}
	if len(behs) > 0 {
		sample = compact(behs[len(behs)/2])
	}
	rep.Summary(len(behs), extra, sample)
}
