package main

import (
	"net"
	"time"

	"github.com/elastos/Elastos.ELA/common"
	"github.com/elastos/Elastos.ELA/common/config"
	"github.com/elastos/Elastos.ELA/core"
	"github.com/elastos/Elastos.ELA/core/types"
	"github.com/elastos/Elastos.ELA/core/types/payload"
	"github.com/elastos/Elastos.ELA/dpos"
	dpeer "github.com/elastos/Elastos.ELA/dpos/p2p/peer"
	dmsg "github.com/elastos/Elastos.ELA/dpos/p2p/msg"
	"github.com/elastos/Elastos.ELA/elanet"
	"github.com/elastos/Elastos.ELA/p2p"
	"github.com/elastos/Elastos.ELA/p2p/msg"
	"github.com/elastos/Elastos.ELA/p2p/peer"
)

// instance is a valid message of one command on one of the node's two networks.
type instance struct {
	net     string // "main" | "dpos"
	magic   uint32
	make    func() p2p.Message
	factory p2p.CreateMessage
}

func (i *instance) id() string { return i.net + "/" + i.make().CMD() }

const (
	mainMagic = 2017001
	dposMagic = 2019000
)

func bytesOf(n int, seed byte) []byte {
	b := make([]byte, n)
	for i := range b {
		b[i] = seed + byte(i*13)
	}
	return b
}

func hash(seed byte) common.Uint256 {
	var h common.Uint256
	copy(h[:], bytesOf(32, seed))
	return h
}

func genesis() *types.Block {
	return core.GenesisBlock(*config.GetDefaultParams().FoundationProgramHash)
}

func vote(seed byte, accept bool) payload.DPOSProposalVote {
	return payload.DPOSProposalVote{ProposalHash: hash(seed), Signer: bytesOf(33, seed+1), Accept: accept, Sign: bytesOf(64, seed+2)}
}

func proposal(seed byte) payload.DPOSProposal {
	return payload.DPOSProposal{Sponsor: bytesOf(33, seed), BlockHash: hash(seed + 1), ViewOffset: 3, Sign: bytesOf(64, seed+2)}
}

func instances() []*instance {
	// the factories exactly as the node wires them: the peer's own createMessage,
	// falling back to the network server's factory
	mainF := peer.VerifC35CreateMessage(&peer.Config{Magic: mainMagic, CreateMessage: elanet.VerifC35CreateMessage})
	dposF := dpeer.VerifC35CreateMessage(&dpeer.Config{Magic: dposMagic, CreateMessage: dpos.VerifC35CreateMessage})
	ts := time.Unix(1700000000, 0)
	var pid [33]byte
	copy(pid[:], bytesOf(33, 7))
	var n16 [16]byte
	copy(n16[:], bytesOf(16, 9))
	var sig64 [64]byte
	copy(sig64[:], bytesOf(64, 11))
	inv := func() msg.Inv {
		h1, h2 := hash(1), hash(2)
		return msg.Inv{InvList: []*msg.InvVect{msg.NewInvVect(msg.InvTypeBlock, &h1), msg.NewInvVect(msg.InvTypeTx, &h2)}}
	}
	mainMsgs := []func() p2p.Message{
		func() p2p.Message {
			v := msg.NewVersion(80000, 20338, 5, 0x1122334455667788, 1234567, false, "ela-v0.9.9")
			v.Timestamp = ts
			return v
		},
		func() p2p.Message { return msg.NewVerAck() },
		func() p2p.Message { return msg.NewGetAddr() },
		func() p2p.Message {
			return msg.NewAddr([]*p2p.NetAddress{
				{Timestamp: ts, Services: 1, IP: net.ParseIP("10.1.2.3"), Port: 20338},
				{Timestamp: ts, Services: 5, IP: net.ParseIP("2001:db8::1"), Port: 20339}})
		},
		func() p2p.Message { return msg.NewPing(77) },
		func() p2p.Message { return msg.NewPong(78) },
		func() p2p.Message { return &msg.MemPool{} },
		func() p2p.Message { return msg.NewTx(genesis().Transactions[0]) },
		func() p2p.Message { return msg.NewBlock(&types.DposBlock{Block: genesis()}) },
		func() p2p.Message { i := inv(); return &i },
		func() p2p.Message { return &msg.NotFound{Inv: inv()} },
		func() p2p.Message { return &msg.GetData{Inv: inv()} },
		func() p2p.Message {
			h1, h2 := hash(3), hash(4)
			return msg.NewGetBlocks([]*common.Uint256{&h1, &h2}, hash(5))
		},
		func() p2p.Message { return &msg.FilterAdd{Data: bytesOf(40, 1)} },
		func() p2p.Message { return &msg.FilterClear{} },
		func() p2p.Message {
			return &msg.FilterLoad{Filter: bytesOf(64, 2), HashFuncs: 5, Tweak: 99, Flags: 1}
		},
		func() p2p.Message { return &msg.TxFilterLoad{Type: 1, Data: bytesOf(50, 3)} },
		func() p2p.Message {
			return &msg.Reject{Cmd: p2p.CmdBlock, RejectCode: msg.RejectInvalid, Reason: "bad block", Hash: hash(6)}
		},
		func() p2p.Message {
			return &msg.DAddr{PID: pid, Timestamp: ts, Encode: pid, Cipher: bytesOf(120, 4), Signature: bytesOf(64, 5)}
		},
	}
	dposMsgs := []func() p2p.Message{
		func() p2p.Message {
			v := dmsg.NewVersion(1, pid, n16, n16, 20339, "ela-v0.9.9")
			v.Timestamp = ts
			return v
		},
		func() p2p.Message { return &dmsg.VerAck{Signature: sig64} },
		func() p2p.Message { return dmsg.NewAddr("node.example.org", 20339) },
		func() p2p.Message { return dmsg.NewPing(5) },
		func() p2p.Message { return dmsg.NewPong(6) },
		func() p2p.Message { return msg.NewBlock(genesis()) },
		func() p2p.Message { return msg.NewTx(genesis().Transactions[0]) },
		func() p2p.Message { return &dmsg.Vote{Command: dmsg.CmdAcceptVote, Vote: vote(1, true)} },
		func() p2p.Message { return &dmsg.Vote{Command: dmsg.CmdRejectVote, Vote: vote(2, false)} },
		func() p2p.Message { return &dmsg.Proposal{Proposal: proposal(3)} },
		func() p2p.Message { return dmsg.NewInventory(hash(4)) },
		func() p2p.Message { return dmsg.NewGetBlock(hash(5)) },
		func() p2p.Message { return &dmsg.GetBlocks{StartBlockHeight: 10, EndBlockHeight: 20} },
		func() p2p.Message {
			return &dmsg.ResponseBlocks{Command: dmsg.CmdResponseBlocks, BlockConfirms: []*types.DposBlock{{Block: genesis()}}}
		},
		func() p2p.Message { return &dmsg.RequestConsensus{Height: 42} },
		func() p2p.Message {
			return &dmsg.ResponseConsensus{Consensus: dmsg.ConsensusStatus{ConsensusStatus: 1, ViewOffset: 2, ViewStartTime: ts,
				AcceptVotes: []payload.DPOSProposalVote{vote(1, true)}, RejectedVotes: []payload.DPOSProposalVote{vote(2, false)},
				PendingProposals: []payload.DPOSProposal{proposal(3)}, PendingVotes: []payload.DPOSProposalVote{vote(4, true)}}}
		},
		func() p2p.Message { return &dmsg.RequestProposal{ProposalHash: hash(6)} },
		func() p2p.Message {
			return &dmsg.IllegalProposals{Proposals: payload.DPOSIllegalProposals{
				Evidence:        payload.ProposalEvidence{Proposal: proposal(1), BlockHeader: bytesOf(80, 1), BlockHeight: 100},
				CompareEvidence: payload.ProposalEvidence{Proposal: proposal(2), BlockHeader: bytesOf(80, 2), BlockHeight: 100}}}
		},
		func() p2p.Message {
			return &dmsg.IllegalVotes{Votes: payload.DPOSIllegalVotes{
				Evidence:        payload.VoteEvidence{ProposalEvidence: payload.ProposalEvidence{Proposal: proposal(1), BlockHeader: bytesOf(80, 1), BlockHeight: 100}, Vote: vote(1, true)},
				CompareEvidence: payload.VoteEvidence{ProposalEvidence: payload.ProposalEvidence{Proposal: proposal(2), BlockHeader: bytesOf(80, 2), BlockHeight: 100}, Vote: vote(2, true)}}}
		},
		func() p2p.Message {
			return &dmsg.SidechainIllegalData{Data: payload.SidechainIllegalData{IllegalType: payload.SidechainIllegalProposal, Height: 9,
				IllegalSigner: bytesOf(33, 1), Evidence: payload.SidechainIllegalEvidence{DataHash: hash(1)},
				CompareEvidence: payload.SidechainIllegalEvidence{DataHash: hash(2)}, GenesisBlockAddress: "XKUh4GLhFJiqAMTF6HyWQrV9pK9HcGUdfJ",
				Signs: [][]byte{bytesOf(64, 3)}}}
		},
		func() p2p.Message {
			return &dmsg.ResponseInactiveArbitrators{TxHash: hash(7), Signer: bytesOf(33, 1), Sign: bytesOf(64, 2)}
		},
		func() p2p.Message {
			return &dmsg.ResponseRevertToDPOS{TxHash: hash(8), Signer: bytesOf(33, 1), Sign: bytesOf(64, 2)}
		},
		func() p2p.Message { return &dmsg.ResetView{Sponsor: bytesOf(33, 1), Sign: bytesOf(64, 2)} },
	}
	var all []*instance
	for _, m := range mainMsgs {
		all = append(all, &instance{net: "main", magic: mainMagic, make: m, factory: mainF})
	}
	for _, m := range dposMsgs {
		all = append(all, &instance{net: "dpos", magic: dposMagic, make: m, factory: dposF})
	}
	return all
}
