// Conformance driver for C35 (spec/Edge/P2PFrame.tla).
//
//	p2pframe list                 one JSON line per (network, command): payload length of
//	                              the valid instance and the command's maximum
//	p2pframe run <cases.jsonl>    every (command, corruption class[, declared length]) case of
//	                              the spec: the class is applied at every byte offset of the
//	                              field concerned, the bytes are fed to the real
//	                              p2p.ReadMessage with the peer layer's message factory, and
//	                              verdict, bytes consumed and bytes allocated are compared
package main

import (
	"bytes"
	"encoding/binary"
	"encoding/json"
	"errors"
	"fmt"
	"io"
	"math/rand"
	"net"
	"os"
	"runtime"
	"runtime/debug"
	"runtime/metrics"
	"sort"
	"time"

	"github.com/elastos/Elastos.ELA/common"
	"github.com/elastos/Elastos.ELA/common/log"
	"github.com/elastos/Elastos.ELA/core/transaction"
	"github.com/elastos/Elastos.ELA/core/types"
	"github.com/elastos/Elastos.ELA/core/types/functions"
	"github.com/elastos/Elastos.ELA/p2p"
	"github.com/elastos/Elastos.ELA/p2p/msg"

	"verif/harness/internal/rep"
)

// allocation a failing read may cause besides the payload buffer (error values,
// the header, hashing state)
const allocSlack = 64 << 10

// memConn is an in-memory net.Conn: reads come from a byte slice (EOF at its
// end), writes are collected; it counts what the reader consumed.
type memConn struct {
	in        *bytes.Reader
	out       bytes.Buffer
	delivered int
	maxAsk    int
}

func (c *memConn) Read(p []byte) (int, error) {
	if len(p) > c.maxAsk {
		c.maxAsk = len(p)
	}
	n, err := c.in.Read(p)
	c.delivered += n
	return n, err
}
func (c *memConn) Write(p []byte) (int, error)        { return c.out.Write(p) }
func (c *memConn) Close() error                       { return nil }
func (c *memConn) LocalAddr() net.Addr                { return &net.TCPAddr{} }
func (c *memConn) RemoteAddr() net.Addr               { return &net.TCPAddr{} }
func (c *memConn) SetDeadline(t time.Time) error      { return nil }
func (c *memConn) SetReadDeadline(t time.Time) error  { return nil }
func (c *memConn) SetWriteDeadline(t time.Time) error { return nil }

func getDposBlock(message p2p.Message) (*types.DposBlock, bool) {
	mb, ok := message.(*msg.Block)
	if !ok {
		return nil, false
	}
	db, ok := mb.Serializable.(*types.DposBlock)
	return db, ok
}

func serialize(m p2p.Message) []byte {
	buf := new(bytes.Buffer)
	if err := m.Serialize(buf); err != nil {
		panic(fmt.Sprintf("cannot serialize %s: %v", m.CMD(), err))
	}
	return buf.Bytes()
}

// frameOf writes the instance with the real p2p.WriteMessage.
func frameOf(in *instance) []byte {
	c := &memConn{in: bytes.NewReader(nil)}
	if err := p2p.WriteMessage(c, in.magic, in.make(), time.Second, getDposBlock); err != nil {
		panic(fmt.Sprintf("WriteMessage %s: %v", in.id(), err))
	}
	return append([]byte(nil), c.out.Bytes()...)
}

type outcome struct {
	Verdict string `json:"verdict"`
	Stage   string `json:"stage"`
	Read    int    `json:"read"`
	Alloc   uint64 `json:"alloc"`
	MaxAsk  int    `json:"maxAsk"`
	Err     string `json:"err,omitempty"`
	Panic   string `json:"panic,omitempty"`
	msg     p2p.Message
}

func stageOf(err error) string {
	switch {
	case err == nil:
		return "accept"
	case errors.Is(err, p2p.ErrInvalidHeader):
		return "header"
	case errors.Is(err, p2p.ErrUnmatchedMagic):
		return "magic"
	case errors.Is(err, p2p.ErrMsgSizeExceeded):
		return "length"
	case errors.Is(err, p2p.ErrInvalidPayload):
		return "checksum"
	case errors.Is(err, io.ErrUnexpectedEOF), errors.Is(err, io.EOF):
		return "short"
	}
	return "other" // unknown command (dispatch) or undecodable payload
}

// cumulative bytes allocated on the heap; large objects (every payload buffer
// that matters here) are accounted immediately, small ones per span refill,
// which the slack covers.  Much cheaper than runtime.ReadMemStats.
var allocSample = []metrics.Sample{{Name: "/gc/heap/allocs:bytes"}}

func allocated() uint64 {
	metrics.Read(allocSample)
	return allocSample[0].Value.Uint64()
}

var exactAlloc bool
var ms0, ms1 runtime.MemStats

func allocNow() uint64 {
	if exactAlloc {
		runtime.ReadMemStats(&ms0)
		return ms0.TotalAlloc
	}
	return allocated()
}

func readOne(in *instance, c *memConn) (o outcome) {
	start := c.delivered
	c.maxAsk = 0
	func() {
		defer func() {
			if r := recover(); r != nil {
				o.Panic = fmt.Sprint(r)
			}
		}()
		a0 := allocNow()
		m, err := p2p.ReadMessage(c, in.magic, time.Second, in.factory)
		o.Alloc = allocNow() - a0
		o.msg = m
		o.Stage = stageOf(err)
		if err != nil {
			o.Verdict = "reject"
			o.Err = err.Error()
			if len(o.Err) > 200 {
				o.Err = o.Err[:200]
			}
		} else {
			o.Verdict = "accept"
		}
	}()
	o.Read = c.delivered - start
	o.MaxAsk = c.maxAsk
	return
}

type variant struct {
	what  string
	bytes []byte
	// expectations that depend on the variant rather than the class
	stage string
	reads int // number of frames to read (twoFrames)
}

var pats = []byte{0x01, 0x80, 0xff}

func flips(frame []byte, from, to int, ps []byte, label string) (vs []variant) {
	for off := from; off < to; off++ {
		for _, p := range ps {
			b := append([]byte(nil), frame...)
			b[off] ^= p
			vs = append(vs, variant{what: fmt.Sprintf("%s[%d]^=%#02x", label, off, p), bytes: b})
		}
	}
	return
}

func cmdName(b []byte) (string, bool) {
	c := b[p2p.CMDOffset : p2p.CMDOffset+p2p.CMDSize]
	if bytes.IndexByte(c, 0) < 0 {
		return "", false
	}
	return string(bytes.TrimRight(c, "\x00")), true
}

func payloadOffsets(n int, rng *rand.Rand) []int {
	if n <= 192 {
		r := make([]int, n)
		for i := range r {
			r[i] = i
		}
		return r
	}
	set := map[int]bool{}
	for i := 0; i < 48; i++ {
		set[i], set[n-1-i] = true, true
	}
	for len(set) < 160 {
		set[rng.Intn(n)] = true
	}
	var r []int
	for k := range set {
		r = append(r, k)
	}
	sort.Ints(r)
	return r
}

func setLen(frame []byte, d uint32) []byte {
	b := append([]byte(nil), frame...)
	binary.LittleEndian.PutUint32(b[16:20], d)
	return b
}

func variantsFor(in *instance, frame []byte, class string, d interface{}, known map[string]bool, rng *rand.Rand, maxLen uint32) []variant {
	n := len(frame) - p2p.HeaderSize
	switch class {
	case "none":
		return []variant{{what: "valid frame", bytes: frame}}
	case "twoFrames":
		return []variant{{what: "two valid frames back to back", bytes: append(append([]byte(nil), frame...), frame...), reads: 2}}
	case "magic":
		vs := flips(frame, 0, 4, pats, "magic")
		other := uint32(dposMagic)
		if in.net == "dpos" {
			other = mainMagic
		}
		b := append([]byte(nil), frame...)
		binary.LittleEndian.PutUint32(b[0:4], other)
		return append(vs, variant{what: "magic of the node's other network", bytes: b})
	case "cmdUnknown":
		var vs []variant
		for _, v := range flips(frame, 4, 16, []byte{0x01, 0x20, 0x80}, "cmd") {
			name, nul := cmdName(v.bytes)
			if !nul {
				v.stage = "header" // the flip removed the only NUL: a malformed header
			} else if known[name] {
				continue // became another command of this network: a different frame, not a corruption
			}
			vs = append(vs, v)
		}
		return vs
	case "cmdNoNul":
		b := append([]byte(nil), frame...)
		for i := 4; i < 16; i++ {
			if b[i] == 0 {
				b[i] = 'x'
			}
		}
		return []variant{{what: "command field without NUL", bytes: b}}
	case "checksum":
		return flips(frame, 20, 24, pats, "checksum")
	case "payload":
		var vs []variant
		for _, off := range payloadOffsets(n, rng) {
			vs = append(vs, flips(frame, 24+off, 24+off+1, []byte{0x01, 0x80}, "payload")...)
		}
		return vs
	case "truncHeader":
		var vs []variant
		for k := 0; k < p2p.HeaderSize; k++ {
			vs = append(vs, variant{what: fmt.Sprintf("stream ends after %d header bytes", k), bytes: frame[:k]})
		}
		return vs
	case "truncPayload":
		var vs []variant
		for _, k := range payloadOffsets(n, rng) {
			vs = append(vs, variant{what: fmt.Sprintf("stream ends after %d payload bytes", k), bytes: frame[:24+k]})
		}
		return vs
	case "maxFill":
		b := setLen(frame, maxLen)
		b = append(b, make([]byte, int(maxLen)-n)...)
		return []variant{{what: fmt.Sprintf("declared = maximum %d, that many bytes supplied", maxLen), bytes: b}}
	case "length":
		if s, ok := d.(string); ok && s == "huge" {
			var vs []variant
			for _, v := range []uint32{0xffffffff, 0x80000000, 0x80000000 | uint32(n), 0xff000000 | uint32(n), 0x40000000 | uint32(n)} {
				vs = append(vs, variant{what: fmt.Sprintf("declared length %d", v), bytes: setLen(frame, v)})
			}
			return vs
		}
		v := uint32(d.(float64))
		return []variant{{what: fmt.Sprintf("declared length %d (actual %d)", v, n), bytes: setLen(frame, v)}}
	}
	panic("unknown class " + class)
}

func list() {
	for _, in := range instances() {
		frame := frameOf(in)
		b, _ := json.Marshal(map[string]interface{}{"id": in.id(), "net": in.net, "cmd": in.make().CMD(),
			"n": len(frame) - p2p.HeaderSize, "max": in.make().MaxLength()})
		fmt.Println(string(b))
	}
}

func run(path string) {
	cases := rep.ReadCases(path)
	rng := rand.New(rand.NewSource(rep.Seed()))
	byID := map[string]*instance{}
	known := map[string]map[string]bool{"main": {}, "dpos": {}}
	for _, in := range instances() {
		byID[in.id()] = in
		known[in.net][in.make().CMD()] = true
	}
	// commands the factories know although no instance is listed (sender-only or aliases)
	known["main"]["merkleblock"] = true
	frames := map[string][]byte{}
	agree, runs, skipped := 0, 0, 0
	var samples []interface{}
	for _, c := range cases {
		a := rep.Map(c, "args")
		exp := rep.Map(c, "exp")
		in := byID[rep.Str(a, "cmd")]
		if in == nil {
			rep.Mismatch("no instance for command "+rep.Str(a, "cmd"), c)
			continue
		}
		frame, ok := frames[in.id()]
		if !ok {
			frame = frameOf(in)
			frames[in.id()] = frame
		}
		class := rep.Str(a, "class")
		maxLen := in.make().MaxLength()
		vs := variantsFor(in, frame, class, a["d"], known[in.net], rng, maxLen)
		good := true
		for _, v := range vs {
			if bytes.Equal(v.bytes, frame) && class != "none" {
				skipped++
				continue
			}
			reads := v.reads
			if reads == 0 {
				reads = 1
			}
			conn := &memConn{in: bytes.NewReader(v.bytes)}
			for k := 0; k < reads; k++ {
				o := readOne(in, conn)
				runs++
				conc := map[string]interface{}{"case": c, "variant": v.what, "real": o, "max": maxLen, "payloadLen": len(frame) - 24}
				key := "C35:" + class
				if o.Panic != "" {
					good = false
					rep.Violation(key+":panic", fmt.Sprintf("%s: ReadMessage panicked on %s: %s", in.id(), v.what, o.Panic), conc)
					continue
				}
				expVerdict := rep.Str(exp, "verdict")
				if o.Verdict != expVerdict {
					good = false
					if expVerdict == "reject" {
						rep.Violation(key+":accepted", fmt.Sprintf("%s: a frame with %s was accepted as a %s message", in.id(), v.what, in.make().CMD()), conc)
					} else {
						rep.Violation(key+":valid-frame-refused", fmt.Sprintf("%s: the frame written by WriteMessage is not read back: %s", in.id(), o.Err), conc)
					}
					continue
				}
				if o.Verdict == "accept" {
					got := serialize(o.msg)
					if o.msg.CMD() != in.make().CMD() || !bytes.Equal(got, frame[24:]) {
						good = false
						rep.Violation(key+":roundtrip", fmt.Sprintf("%s: message read back differs from the one written", in.id()), conc)
					}
					if o.Read != len(frame) {
						good = false
						rep.Violation(key+":overread", fmt.Sprintf("%s: reading a valid frame of %d bytes consumed %d bytes", in.id(), len(frame), o.Read), conc)
					}
					continue
				}
				// failing read: bytes consumed and bytes allocated are bounded
				expRead := rep.Int(exp, "read")
				if class == "truncHeader" || class == "truncPayload" {
					expRead = len(v.bytes) // everything there is
				}
				if o.Read != expRead {
					good = false
					if o.Read > expRead {
						rep.Violation(key+":overread", fmt.Sprintf("%s: %s: the failing read consumed %d bytes, the frame reader may consume %d", in.id(), v.what, o.Read, expRead), conc)
					} else {
						rep.Mismatch(fmt.Sprintf("%s: %s: consumed %d bytes, spec %d", in.id(), v.what, o.Read, expRead), conc)
					}
					continue
				}
				bound := uint64(rep.Int(exp, "alloc")) + allocSlack
				if o.Alloc > bound {
					// the cheap counter lumps earlier small allocations in; measure this
					// (deterministic) read again, exactly
					exactAlloc = true
					o2 := readOne(in, &memConn{in: bytes.NewReader(v.bytes)})
					exactAlloc = false
					o.Alloc = o2.Alloc
					conc["real"] = o
				}
				if o.Alloc > bound {
					good = false
					rep.Violation(key+":alloc", fmt.Sprintf("%s: %s: the failing read allocated %d bytes; the payload buffer the spec allows at that point is %d (command maximum %d)",
						in.id(), v.what, o.Alloc, rep.Int(exp, "alloc"), maxLen), conc)
					continue
				}
				wantStage := rep.Str(exp, "stage")
				if v.stage != "" {
					wantStage = v.stage
				}
				if o.Stage != wantStage {
					good = false
					rep.Mismatch(fmt.Sprintf("%s: %s: rejected at stage %s (%s), spec says %s", in.id(), v.what, o.Stage, o.Err, wantStage), conc)
					continue
				}
				if len(samples) < 2 && (class == "length" || class == "checksum") && in.make().CMD() == "inv" {
					samples = append(samples, conc)
				}
			}
		}
		if good {
			agree++
		}
	}
	rep.Summary(len(cases), map[string]interface{}{"mode": "run", "agree": agree, "concrete_reads": runs,
		"noop_variants_skipped": skipped, "commands": len(byID)}, samples...)
}

// pipe round trip of every valid instance over net.Pipe (a real in-memory connection)
func pipe() {
	n, agree := 0, 0
	for _, in := range instances() {
		n++
		a, b := net.Pipe()
		errc := make(chan error, 1)
		go func() { errc <- p2p.WriteMessage(a, in.magic, in.make(), 5*time.Second, getDposBlock) }()
		var m p2p.Message
		var err error
		var pan interface{}
		func() {
			defer func() { pan = recover() }()
			m, err = p2p.ReadMessage(b, in.magic, 5*time.Second, in.factory)
		}()
		if len(serialize(in.make())) == 0 {
			// net.Pipe makes even an empty Write wait for a Read; a socket does not
			b.Read(nil)
		}
		werr := <-errc
		a.Close()
		b.Close()
		c := map[string]interface{}{"cmd": in.id()}
		switch {
		case pan != nil:
			rep.Violation("C35:none:panic", fmt.Sprintf("%s: ReadMessage panicked on a valid frame: %v", in.id(), pan), c)
		case werr != nil:
			rep.Mismatch(fmt.Sprintf("%s: WriteMessage failed: %v", in.id(), werr), c)
		case err != nil:
			rep.Violation("C35:none:valid-frame-refused", fmt.Sprintf("%s: the frame written by WriteMessage is not read back over a pipe: %v", in.id(), err), c)
		case m.CMD() != in.make().CMD() || !bytes.Equal(serialize(m), serialize(in.make())):
			rep.Violation("C35:none:roundtrip", fmt.Sprintf("%s: message read back over a pipe differs from the one written", in.id()), c)
		default:
			agree++
		}
	}
	rep.Summary(n, map[string]interface{}{"mode": "pipe", "agree": agree})
}

func main() {
	if len(os.Args) < 2 {
		fmt.Fprintln(os.Stderr, "usage: p2pframe list | run <cases.jsonl> | pipe")
		os.Exit(3)
	}
	functions.GetTransactionByTxType = transaction.GetTransaction
	functions.GetTransactionByBytes = transaction.GetTransactionByBytes
	functions.CreateTransaction = transaction.CreateTransaction
	functions.GetTransactionParameters = transaction.GetTransactionparameters
	// the node's logger must exist (header.Verify logs); keep it off stdout and
	// above warning level so that only the arguments' construction is measured
	realStdout := os.Stdout
	if devnull, err := os.OpenFile(os.DevNull, os.O_WRONLY, 0); err == nil {
		os.Stdout = devnull
	}
	dir, _ := os.MkdirTemp("", "p2pframe-log-")
	defer os.RemoveAll(dir)
	log.NewDefault(dir, 4, 0, 0)
	os.Stdout = realStdout
	debug.SetGCPercent(400)
	_ = common.Uint256{}
	defer rep.Flush()
	switch os.Args[1] {
	case "list":
		list()
	case "run":
		run(os.Args[2])
	case "pipe":
		pipe()
	default:
		os.Exit(3)
	}
}
