// Fault-enumeration driver for spec/Store/Crash.tla -> database/ffldb (C17).
//
//	storecrash replay <behaviours.jsonl> <maxfile> [workers]
//	storecrash record <runs> <maxfile> <out.ndjson>
//	storecrash child  <segment.json>                 (internal)
//
// A behaviour of Crash.tla is a sequence of durable steps (one per call of the
// crash-point hook `verifCrashPoint` in database/ffldb), cut into process
// lifetimes by Crash / Exit steps.  Every lifetime is re-enacted by a CHILD
// PROCESS that opens (first: creates) the real database, issues the commits of
// that lifetime and, at the hook call the spec's Crash follows, sends SIGKILL to
// itself - a genuine stop, nothing is flushed, closed or unwound.  The hook
// appends (step name, last flat file, its length) to an event file with plain
// write(2) calls before that, so the parent can compare every step the real code
// took with the spec's.
//
// After every stop the parent copies the database directory, opens the copy with
// the real database.Open path (openDB -> reconcileDB) and compares what it shows
// - caller metadata, HasBlock / FetchBlock of every block ever attempted, the
// lengths of the flat files - with the state the spec predicts and with the set
// the property allows, then performs two further commits, closes, reopens and
// checks again.  The next lifetime of the behaviour continues on the original
// directory, so that the recovery itself runs in a child and can be killed too.
package main

import (
	"bytes"
	"crypto/sha256"
	"encoding/json"
	"fmt"
	"hash/crc32"
	"io"
	"os"
	"os/exec"
	"path/filepath"
	"runtime/pprof"
	"sort"
	"strconv"
	"strings"
	"sync"
	"syscall"
	"time"

	"github.com/elastos/Elastos.ELA/common"
	"github.com/elastos/Elastos.ELA/database"
	"github.com/elastos/Elastos.ELA/database/ffldb"
	"verif/harness/internal/rep"
)

const netID = uint32(0x56455246)

var (
	maxFile uint32
	baseDir string
	seed    int64
)

func hashOf(id int) common.Uint256 {
	return common.Uint256(sha256.Sum256([]byte(fmt.Sprintf("verif-crash-block-%d", id))))
}

func bodyOf(id, sz int) []byte {
	x := uint64(seed)*0x9E3779B97F4A7C15 + uint64(id)*0xD1B54A32D192ED03 + 0x2545F4914F6CDD1D
	b := make([]byte, sz)
	for i := range b {
		x ^= x << 13
		x ^= x >> 7
		x ^= x << 17
		b[i] = byte(x >> 24)
	}
	return b
}

func valOf(n int) []byte { return []byte(fmt.Sprintf("value-of-commit-%d-seed-%d", n, seed)) }

type blockSpec struct {
	ID int `json:"id"`
	Sz int `json:"sz"`
}

type commitSpec struct {
	N      int         `json:"n"`
	Blocks []blockSpec `json:"blocks"`
	Flush  bool        `json:"flush"`
}

// segment = one process lifetime
type segment struct {
	Dir     string       `json:"dir"`
	Create  bool         `json:"create"`
	MaxFile uint32       `json:"maxfile"`
	Seed    int64        `json:"seed"`
	Commits []commitSpec `json:"commits"`
	Close   bool         `json:"close"`
	KillAt  int          `json:"kill_at"` // hook call after which the process kills itself; 0 = never
	Events  string       `json:"events"`
}

var bucketName = []byte("verif")

// doCommit is one application commit: caller metadata (a bucket created on
// demand, a key that is overwritten, a key that is added and the previous one
// deleted) and the blocks, in one managed read-write transaction.
func doCommit(db database.DB, c commitSpec) error {
	ffldb.VerifSetFlushEveryCommit(db, c.Flush)
	return db.Update(func(tx database.Tx) error {
		b, err := tx.Metadata().CreateBucketIfNotExists(bucketName)
		if err != nil {
			return err
		}
		if err := b.Put([]byte("last"), []byte(strconv.Itoa(c.N))); err != nil {
			return err
		}
		if err := b.Put([]byte(fmt.Sprintf("k%d", c.N)), valOf(c.N)); err != nil {
			return err
		}
		if c.N > 1 {
			if err := b.Delete([]byte(fmt.Sprintf("k%d", c.N-1))); err != nil {
				return err
			}
		}
		for _, bl := range c.Blocks {
			if err := tx.StoreBlock(hashOf(bl.ID), bodyOf(bl.ID, bl.Sz)); err != nil {
				return err
			}
		}
		return nil
	})
}

func scanFiles(dir string) (int, int64) {
	last, size := 0, int64(0)
	for i := 0; ; i++ {
		st, err := os.Stat(filepath.Join(dir, fmt.Sprintf("%09d.fdb", i)))
		if err != nil {
			break
		}
		last, size = i, st.Size()
	}
	return last, size
}

// ---------------------------------------------------------------------------
// child

func childMain(path string) {
	raw, err := os.ReadFile(path)
	if err != nil {
		os.Exit(3)
	}
	var seg segment
	if err := json.Unmarshal(raw, &seg); err != nil {
		os.Exit(3)
	}
	seed = seg.Seed
	ev, err := os.OpenFile(seg.Events, os.O_CREATE|os.O_WRONLY|os.O_TRUNC, 0644)
	if err != nil {
		os.Exit(3)
	}
	count := 0
	ffldb.VerifSetCrashPoint(func(name string) {
		count++
		f, o := scanFiles(seg.Dir)
		fmt.Fprintf(ev, "%s|%d|%d\n", name, f, o) // one write(2); survives the kill
		if count == seg.KillAt {
			syscall.Kill(os.Getpid(), syscall.SIGKILL)
			select {} // never continue past the crash point
		}
	})
	var db database.DB
	if seg.Create {
		db, err = ffldb.VerifCreate(seg.Dir, netID)
	} else {
		db, err = ffldb.VerifOpen(seg.Dir, netID)
	}
	if err != nil {
		fmt.Fprintf(ev, "!open|%v\n", err)
		os.Exit(4)
	}
	ffldb.VerifSetMaxBlockFileSize(db, seg.MaxFile)
	for _, c := range seg.Commits {
		if err := doCommit(db, c); err != nil {
			fmt.Fprintf(ev, "!commit|%d|%v\n", c.N, err)
			os.Exit(5)
		}
	}
	if seg.Close {
		if err := db.Close(); err != nil {
			fmt.Fprintf(ev, "!close|%v\n", err)
			os.Exit(5)
		}
		os.Exit(0)
	}
	fmt.Fprintf(ev, "!notkilled|%d\n", count)
	os.Exit(6)
}

// ---------------------------------------------------------------------------
// parent

type event struct {
	name string
	f, o int
}

func readEvents(path string) (evs []event, problem string) {
	raw, _ := os.ReadFile(path)
	for _, line := range strings.Split(strings.TrimSpace(string(raw)), "\n") {
		if line == "" {
			continue
		}
		if line[0] == '!' {
			problem = line
			continue
		}
		p := strings.Split(line, "|")
		if len(p) != 3 {
			problem = "garbled event line: " + line
			continue
		}
		f, _ := strconv.Atoi(p[1])
		o, _ := strconv.Atoi(p[2])
		evs = append(evs, event{p[0], f, o})
	}
	return
}

func copyDir(src, dst string) error {
	return filepath.Walk(src, func(p string, info os.FileInfo, err error) error {
		if err != nil {
			return err
		}
		rel, _ := filepath.Rel(src, p)
		t := filepath.Join(dst, rel)
		if info.IsDir() {
			return os.MkdirAll(t, 0755)
		}
		in, err := os.Open(p)
		if err != nil {
			return err
		}
		defer in.Close()
		out, err := os.Create(t)
		if err != nil {
			return err
		}
		defer out.Close()
		_, err = io.Copy(out, in)
		return err
	})
}

// result of one behaviour
type outcome struct {
	viol [][3]interface{} // key, what, case
	mism [][2]interface{}
}

func (o *outcome) violation(key, what string, c interface{}) {
	o.viol = append(o.viol, [3]interface{}{key, what, c})
}
func (o *outcome) mismatch(what string, c interface{}) {
	o.mism = append(o.mism, [2]interface{}{what, c})
}

type seen struct {
	n      int // -1: bucket absent
	keys   map[string]string
	has    map[int]bool
	unread map[int]string // visible blocks that do not read back
	ghost  map[int]string // invisible blocks that are served
	flens  []int
}

func observe(dir string, db database.DB, attempted map[int]int) (s seen, err error) {
	s = seen{n: 0, keys: map[string]string{}, has: map[int]bool{}, unread: map[int]string{}, ghost: map[int]string{}}
	err = db.View(func(tx database.Tx) error {
		b := tx.Metadata().Bucket(bucketName)
		if b != nil {
			if e := b.ForEach(func(k, v []byte) error { s.keys[string(k)] = string(v); return nil }); e != nil {
				return e
			}
		}
		ids := make([]int, 0, len(attempted))
		for id := range attempted {
			ids = append(ids, id)
		}
		sort.Ints(ids)
		for _, id := range ids {
			h := hashOf(id)
			has, e := tx.HasBlock(h)
			if e != nil {
				return e
			}
			s.has[id] = has
			got, e := tx.FetchBlock(&h)
			switch {
			case has && e != nil:
				s.unread[id] = "FetchBlock: " + e.Error()
			case has && !bytes.Equal(got, bodyOf(id, attempted[id])):
				s.unread[id] = fmt.Sprintf("FetchBlock returned %d bytes %x.., stored %d bytes %x..", len(got), clip(got), attempted[id], clip(bodyOf(id, attempted[id])))
			case !has && e == nil:
				s.ghost[id] = fmt.Sprintf("FetchBlock returned %d bytes although HasBlock is false", len(got))
			}
			if has && e == nil && attempted[id] >= 2 {
				a := uint32(attempted[id] / 2)
				rg, e2 := tx.FetchBlockRegion(&database.BlockRegion{Hash: &h, Offset: a, Len: uint32(attempted[id]) - a})
				if e2 != nil || !bytes.Equal(rg, bodyOf(id, attempted[id])[a:]) {
					s.unread[id] = fmt.Sprintf("FetchBlockRegion(off=%d) differs: err=%v", a, e2)
				}
			}
		}
		return nil
	})
	for i := 0; ; i++ {
		st, e := os.Stat(filepath.Join(dir, fmt.Sprintf("%09d.fdb", i)))
		if e != nil {
			break
		}
		s.flens = append(s.flens, int(st.Size()))
	}
	// caller metadata of commit n is exactly {last: n, k<n>: value(n)}; nothing for n = 0
	if len(s.keys) == 0 {
		s.n = 0
	} else {
		n, e := strconv.Atoi(s.keys["last"])
		if e != nil {
			s.n = -1
		} else {
			s.n = n
			if len(s.keys) != 2 || s.keys[fmt.Sprintf("k%d", n)] != string(valOf(n)) {
				s.n = -1
			}
		}
	}
	return
}

func clip(b []byte) []byte {
	if len(b) > 16 {
		return b[:16]
	}
	return b
}

func intsOf(l []interface{}) []int {
	r := make([]int, 0, len(l))
	for _, x := range l {
		r = append(r, int(x.(float64)))
	}
	sort.Ints(r)
	return r
}

func contains(l []int, x int) bool {
	for _, y := range l {
		if y == x {
			return true
		}
	}
	return false
}

// checkStop: the process has stopped; open a copy and compare with the spec.
func checkStop(o *outcome, dir string, st rep.Step, attempted map[int]int, ctx func(extra map[string]interface{}) interface{}, where string) {
	exp := rep.Map(st, "exp")
	checkStopX(o, dir, rep.Int(exp, "n"), intsOf(rep.List(exp, "ids")), intsOf2(rep.List(exp, "flens")), intsOf(rep.List(st, "allowed")),
		nil, attempted, ctx, where)
}

// checkStopX: expN < 0 means "no prediction": any allowed n is accepted and the blocks that belong to it are
// given by idsOfN (record mode; the prediction is then checked by TLC on the recorded trace).  Returns what the
// reopened database showed.
func checkStopX(o *outcome, dir string, expN int, expIDs, expFl, allowed []int, idsOfN func(int) []int, attempted map[int]int,
	ctx func(extra map[string]interface{}) interface{}, where string) (first seen, ok bool) {
	obs := dir + ".obs"
	os.RemoveAll(obs)
	if err := copyDir(dir, obs); err != nil {
		o.mismatch("cannot copy the database directory: "+err.Error(), ctx(nil))
		return
	}
	defer os.RemoveAll(obs)

	var db database.DB
	var err error
	open := func() (e error) {
		defer func() {
			if p := recover(); p != nil {
				e = fmt.Errorf("panic: %v", p)
			}
		}()
		db, e = ffldb.VerifOpen(obs, netID)
		if e == nil {
			ffldb.VerifSetMaxBlockFileSize(db, maxFile)
		}
		return
	}
	if err = open(); err != nil {
		o.violation("C17:reopen:failed", fmt.Sprintf("%s: reopening the database failed: %v", where, err), ctx(nil))
		return
	}
	closed := false
	defer func() {
		if !closed {
			func() { defer func() { recover() }(); db.Close() }()
		}
	}()
	compare := func(phase string, wantN int, wantIDs []int, all map[int]int, wantFl []int, allowedN []int) bool {
		s, err := observe(obs, db, all)
		if err != nil {
			o.violation("C17:read:failed", fmt.Sprintf("%s, %s: reading the reopened database failed: %v", where, phase, err), ctx(nil))
			return false
		}
		x := map[string]interface{}{"phase": phase, "real_n": s.n, "real_keys": s.keys, "spec_n": wantN, "allowed_n": allowedN, "spec_blocks": wantIDs, "real_has": fmt.Sprint(s.has)}
		if s.n < 0 {
			o.violation("C17:metadata:mixture", fmt.Sprintf("%s, %s: the caller's metadata is not that of any single commit: %v", where, phase, s.keys), ctx(x))
			return false
		}
		if !contains(allowedN, s.n) {
			o.violation("C17:state:not-allowed", fmt.Sprintf("%s, %s: the database shows the state of commit %d; the property allows only commits %v "+
				"(completed prefix containing every flushed commit, or the interrupted commit)", where, phase, s.n, allowedN), ctx(x))
			return false
		}
		for id, why := range s.unread {
			o.violation("C17:block:visible-but-unreadable", fmt.Sprintf("%s, %s: block %d (%d bytes) is reported by HasBlock but does not read back: %s",
				where, phase, id, all[id], why), ctx(x))
			return false
		}
		for id, why := range s.ghost {
			o.violation("C17:block:served-without-row", fmt.Sprintf("%s, %s: block %d: %s", where, phase, id, why), ctx(x))
			return false
		}
		if wantN < 0 {
			wantN, wantIDs = s.n, idsOfN(s.n)
			x["spec_blocks"] = wantIDs
		}
		if phase == "reopened" {
			first = s
			expN, expIDs = wantN, wantIDs
		}
		if s.n != wantN {
			o.mismatch(fmt.Sprintf("%s, %s: the database shows commit %d, the spec predicts commit %d (both allowed by the property)", where, phase, s.n, wantN), ctx(x))
			return false
		}
		for id := range all {
			if s.has[id] != contains(wantIDs, id) {
				o.violation("C17:state:mixture", fmt.Sprintf("%s, %s: the database shows the metadata of commit %d but HasBlock(block %d) = %v; "+
					"the blocks of that state are %v", where, phase, s.n, id, s.has[id], wantIDs), ctx(x))
				return false
			}
		}
		if wantFl != nil && fmt.Sprint(s.flens) != fmt.Sprint(wantFl) {
			o.mismatch(fmt.Sprintf("%s, %s: flat file lengths after recovery are %v, the spec predicts %v", where, phase, s.flens, wantFl), ctx(x))
			return false
		}
		return true
	}
	if !compare("reopened", expN, expIDs, attempted, expFl, allowed) {
		return
	}
	// later commits continue to work: one cached commit with a small block, one flushing commit with a block
	// that needs a new file if anything is in the current one
	all := map[int]int{}
	for k, v := range attempted {
		all[k] = v
	}
	ids := append([]int{}, expIDs...)
	for i, c := range []commitSpec{
		{N: expN + 1, Blocks: []blockSpec{{ID: 900001, Sz: 5}}, Flush: false},
		{N: expN + 2, Blocks: []blockSpec{{ID: 900002, Sz: int(maxFile) - 12 - 8}, {ID: 900003, Sz: 3}}, Flush: true},
	} {
		err := func() (e error) {
			defer func() {
				if p := recover(); p != nil {
					e = fmt.Errorf("panic: %v", p)
				}
			}()
			return doCommit(db, c)
		}()
		if err != nil {
			o.violation("C17:later-commit:failed", fmt.Sprintf("%s: commit %d after the reopen failed: %v", where, i+1, err), ctx(nil))
			return
		}
		for _, b := range c.Blocks {
			all[b.ID] = b.Sz
			ids = append(ids, b.ID)
		}
		if !compare(fmt.Sprintf("after later commit %d", i+1), c.N, ids, all, nil, []int{c.N}) {
			return
		}
	}
	// the clean Close + second reopen is done for every third stop (it costs two more leveldb opens)
	// (chosen by a hash of the stop, so the choice does not depend on scheduling)
	if crc32.ChecksumIEEE([]byte(fmt.Sprint(where, expN, expIDs, len(attempted))))%3 != 0 {
		ok = true
		return
	}
	if err := db.Close(); err != nil {
		closed = true
		o.violation("C17:later-close:failed", fmt.Sprintf("%s: Close after the later commits failed: %v", where, err), ctx(nil))
		return
	}
	closed = true
	if err = open(); err != nil {
		o.violation("C17:reopen:failed", fmt.Sprintf("%s: reopening after the later commits and a clean Close failed: %v", where, err), ctx(nil))
		return
	}
	closed = false
	ok = compare("after later commits, Close and reopen", expN+2, ids, all, nil, []int{expN + 2})
	return
}

func intsOf2(l []interface{}) []int { // keeps order
	r := make([]int, 0, len(l))
	for _, x := range l {
		r = append(r, int(x.(float64)))
	}
	return r
}

var self string
var ballast []byte

func runChild(seg segment, segPath string) (killed bool, exit int, stderr string, err error) {
	raw, _ := json.Marshal(seg)
	if err = os.WriteFile(segPath, raw, 0644); err != nil {
		return
	}
	cmd := exec.Command(self, "child", segPath)
	var eb bytes.Buffer
	cmd.Stderr = &eb
	if err = cmd.Start(); err != nil {
		return
	}
	done := make(chan error, 1)
	go func() { done <- cmd.Wait() }()
	var werr error
	select {
	case werr = <-done:
	case <-time.After(60 * time.Second):
		cmd.Process.Kill()
		<-done
		return false, -1, "child timed out", nil
	}
	stderr = eb.String()
	if werr == nil {
		return false, 0, stderr, nil
	}
	if ee, ok := werr.(*exec.ExitError); ok {
		ws := ee.Sys().(syscall.WaitStatus)
		if ws.Signaled() {
			return ws.Signal() == syscall.SIGKILL, -2, stderr, nil
		}
		return false, ws.ExitStatus(), stderr, nil
	}
	return false, -1, stderr, werr
}

// replayOne re-enacts one behaviour.
func replayOne(b rep.Behaviour, idx int) (o *outcome, children int) {
	o = &outcome{}
	root, err := os.MkdirTemp(baseDir, "sflat-sc-")
	if err != nil {
		panic(err)
	}
	defer os.RemoveAll(root)
	dir := filepath.Join(root, "db")
	attempted := map[int]int{}
	create := true
	start := 0
	segNo := 0
	for start < len(b) {
		// one lifetime: entries up to and including the next Crash / Exit
		end := start
		for end < len(b) && b[end].Act() != "Crash" && b[end].Act() != "Exit" {
			end++
		}
		if end == len(b) {
			break // a trailing piece without a stop is not re-enacted
		}
		stop := b[end]
		seg := segment{Dir: dir, Create: create, MaxFile: maxFile, Seed: seed, Events: filepath.Join(root, fmt.Sprintf("events-%d", segNo))}
		var hooks []rep.Step
		for _, st := range b[start:end] {
			if rep.Int(st, "h") == 1 {
				hooks = append(hooks, st)
			}
			switch st.Act() {
			case "commit:begin":
				c := rep.Map(st, "c")
				cs := commitSpec{N: rep.Int(c, "n"), Flush: rep.Bool(c, "flush")}
				for _, x := range rep.List(c, "blocks") {
					m := x.(map[string]interface{})
					cs.Blocks = append(cs.Blocks, blockSpec{ID: rep.Int(m, "id"), Sz: rep.Int(m, "sz")})
					attempted[rep.Int(m, "id")] = rep.Int(m, "sz")
				}
				seg.Commits = append(seg.Commits, cs)
			case "Close":
				seg.Close = true
			}
		}
		if stop.Act() == "Crash" {
			seg.KillAt = len(hooks)
		}
		ctx := func(extra map[string]interface{}) interface{} {
			m := map[string]interface{}{"behaviour": compact(b[:end+1]), "lifetime": segNo, "maxfile": maxFile, "seed": seed}
			for k, v := range extra {
				m[k] = v
			}
			return m
		}
		where := fmt.Sprintf("lifetime %d stopped by %s after step %d (%s)", segNo, stop.Act(), len(hooks), lastName(hooks))
		killed, exit, stderr, err := runChild(seg, filepath.Join(root, fmt.Sprintf("seg-%d.json", segNo)))
		children++
		if err != nil {
			o.mismatch("cannot run the child process: "+err.Error(), ctx(nil))
			return
		}
		evs, problem := readEvents(seg.Events)
		switch {
		case strings.HasPrefix(problem, "!open"):
			o.violation("C17:reopen:failed", fmt.Sprintf("lifetime %d: opening the database after the previous stop failed: %s", segNo, problem), ctx(nil))
			return
		case strings.HasPrefix(problem, "!commit"), strings.HasPrefix(problem, "!close"):
			o.violation("C17:later-commit:failed", fmt.Sprintf("lifetime %d: a commit / close the spec allows failed: %s", segNo, problem), ctx(nil))
			return
		}
		// the steps the real code took vs. the spec's
		evProblem := ""
		for i := 0; i < len(evs) || i < len(hooks); i++ {
			if i >= len(evs) {
				evProblem = fmt.Sprintf("the real code stopped after %d steps, the spec has step %d = %s", len(evs), i+1, hooks[i].Act())
				break
			}
			if i >= len(hooks) {
				evProblem = fmt.Sprintf("the real code took an extra step %d = %s", i+1, evs[i].name)
				break
			}
			at := rep.Map(hooks[i], "at")
			if evs[i].name != hooks[i].Act() || evs[i].f != rep.Int(at, "f") || evs[i].o != rep.Int(at, "o") {
				evProblem = fmt.Sprintf("step %d: real %s with the files ending at (%d,%d), spec %s at (%d,%d)", i+1,
					evs[i].name, evs[i].f, evs[i].o, hooks[i].Act(), rep.Int(at, "f"), rep.Int(at, "o"))
				break
			}
		}
		if stop.Act() == "Crash" && !killed && evProblem == "" {
			evProblem = fmt.Sprintf("the child was not killed (exit %d) %s %s", exit, problem, stderr)
		}
		if stop.Act() == "Exit" && exit != 0 && evProblem == "" {
			evProblem = fmt.Sprintf("the child did not exit cleanly (exit %d) %s %s", exit, problem, stderr)
		}
		// torn write: part of the body just written did not reach the file
		if t := rep.Int(stop, "torn"); t > 0 && evProblem == "" {
			f, sz := scanFiles(dir)
			if err := os.Truncate(filepath.Join(dir, fmt.Sprintf("%09d.fdb", f)), sz-int64(t)); err != nil {
				o.mismatch("cannot tear the last write: "+err.Error(), ctx(nil))
				return
			}
			where += fmt.Sprintf(" with the last %d bytes of the body torn off", t)
		}
		nv := len(o.viol)
		if evProblem == "" || stop.Act() == "Crash" {
			checkStop(o, dir, stop, attempted, ctx, where)
		}
		if evProblem != "" && len(o.viol) == nv {
			o.mismatch(fmt.Sprintf("lifetime %d: %s", segNo, evProblem), ctx(map[string]interface{}{"real_events": fmt.Sprint(evs)}))
		}
		if len(o.viol) > 0 || len(o.mism) > 0 {
			return
		}
		create = false
		start = end + 1
		segNo++
	}
	return
}

func lastName(h []rep.Step) string {
	if len(h) == 0 {
		return "-"
	}
	return h[len(h)-1].Act()
}

// compact form of a behaviour for reports
func compact(b rep.Behaviour) []string {
	var r []string
	for _, st := range b {
		switch st.Act() {
		case "commit:begin":
			c := rep.Map(st, "c")
			var szs []string
			for _, x := range rep.List(c, "blocks") {
				m := x.(map[string]interface{})
				szs = append(szs, fmt.Sprintf("#%d:%dB", rep.Int(m, "id"), rep.Int(m, "sz")))
			}
			r = append(r, fmt.Sprintf("commit:begin(n=%d, blocks=[%s], flush=%v)", rep.Int(c, "n"), strings.Join(szs, " "), rep.Bool(c, "flush")))
		case "Crash", "Exit":
			e := rep.Map(st, "exp")
			t := ""
			if rep.Int(st, "torn") > 0 {
				t = fmt.Sprintf(" torn=%d", rep.Int(st, "torn"))
			}
			r = append(r, fmt.Sprintf("%s%s -> spec: commit %d, blocks %v, files %v, allowed %v", st.Act(), t, rep.Int(e, "n"),
				intsOf(rep.List(e, "ids")), intsOf2(rep.List(e, "flens")), intsOf(rep.List(st, "allowed"))))
		default:
			r = append(r, st.Act())
		}
	}
	return r
}

func setBase() {
	baseDir = os.Getenv("VERIF_DBDIR")
	if baseDir == "" {
		baseDir = os.TempDir()
		if st, err := os.Stat("/dev/shm"); err == nil && st.IsDir() {
			baseDir = "/dev/shm"
		}
	}
}

func replay(path string, workers int) {
	behs := rep.ReadBehaviours(path)
	var wg sync.WaitGroup
	var mu sync.Mutex
	next, agree, children, stops := 0, 0, 0, 0
	var outs []*outcome
	stopNames := map[string]int{}
	for w := 0; w < workers; w++ {
		wg.Add(1)
		go func() {
			defer wg.Done()
			for {
				mu.Lock()
				i := next
				next++
				mu.Unlock()
				if i >= len(behs) {
					return
				}
				o, ch := replayOne(behs[i], i)
				mu.Lock()
				children += ch
				if len(o.viol) == 0 && len(o.mism) == 0 {
					agree++
				} else {
					outs = append(outs, o)
				}
				var prev string
				for _, st := range behs[i] {
					if st.Act() == "Crash" || st.Act() == "Exit" {
						stops++
						stopNames[prev+"|"+st.Act()]++
					}
					if rep.Int(st, "h") == 1 {
						prev = st.Act()
					}
				}
				mu.Unlock()
			}
		}()
	}
	wg.Wait()
	// a property violation is the stronger verdict: differences in the step sequences that accompany it are
	// consequences of the same deviation and are only counted
	nviol, nmism := 0, 0
	for _, o := range outs {
		nviol += len(o.viol)
		nmism += len(o.mism)
	}
	for _, o := range outs {
		for _, v := range o.viol {
			rep.Violation(v[0].(string), v[1].(string), v[2])
		}
		if nviol == 0 {
			for _, m := range o.mism {
				rep.Mismatch(m[0].(string), m[1])
			}
		}
	}
	var sample interface{}
	if len(behs) > 0 {
		sample = compact(behs[len(behs)/2])
	}
	var names []string
	for k := range stopNames {
		names = append(names, k)
	}
	sort.Strings(names)
	cov := map[string]int{}
	for _, k := range names {
		cov[k] = stopNames[k]
	}
	rep.Summary(len(behs), map[string]interface{}{"agree": agree, "child_processes": children, "stops_checked": stops,
		"stops_by_last_step": cov, "step_mismatches_suppressed": func() int {
			if nviol > 0 {
				return nmism
			}
			return 0
		}(), "maxfile": maxFile, "mode": "replay"}, sample)
}

func main() {
	setBase()
	var err error
	self, err = os.Executable()
	if err != nil {
		self = os.Args[0]
	}
	if len(os.Args) >= 3 && os.Args[1] == "child" {
		childMain(os.Args[2])
		return
	}
	seed = rep.Seed()
	// every leveldb open allocates and clears multi-megabyte buffers; an untouched ballast raises the heap
	// goal so that the freed buffers are reused instead of being returned to the OS and faulted in again
	ballast = make([]byte, 512<<20)
	if pf := os.Getenv("VERIF_PROF"); pf != "" {
		f, _ := os.Create(pf)
		pprof.StartCPUProfile(f)
		defer pprof.StopCPUProfile()
	}
	if len(os.Args) >= 4 && os.Args[1] == "replay" {
		mf, _ := strconv.Atoi(os.Args[3])
		maxFile = uint32(mf)
		workers := 16
		if len(os.Args) > 4 {
			workers, _ = strconv.Atoi(os.Args[4])
		}
		replay(os.Args[2], workers)
		rep.Flush()
		return
	}
	if len(os.Args) >= 5 && os.Args[1] == "record" {
		runs, _ := strconv.Atoi(os.Args[2])
		mf, _ := strconv.Atoi(os.Args[3])
		maxFile = uint32(mf)
		record(runs, os.Args[4])
		rep.Flush()
		return
	}
	fmt.Fprintln(os.Stderr, "usage: storecrash replay <behaviours.jsonl> <maxfile> [workers] | record <runs> <maxfile> <out>")
	os.Exit(3)
}
