package main

// record: seeded random scenarios beyond TLC's bounds - several process
// lifetimes per database, 0..3 blocks of any size that fits a file per commit,
// random flush mode, lifetimes ended by a kill at a random crash point, by a
// plain process exit without Close, or by a clean Close.  The steps the real
// code reports through the crash-point hook, and what the reopened database
// shows after every stop, are written as a trace for TraceCrash.tla (the spec
// decides whether that is a behaviour of the protocol and whether the shown
// state is the predicted one).  The driver itself checks the property-level
// facts that need no spec: metadata of one single commit, that commit allowed
// (completed prefix containing all flushed commits, or the interrupted one),
// visible blocks read back, later commits work.

import (
	"bufio"
	"encoding/json"
	"fmt"
	"math/rand"
	"os"
	"path/filepath"
	"sort"

	"verif/harness/internal/rep"
)

func record(runs int, out string) {
	f, err := os.Create(out)
	if err != nil {
		panic(err)
	}
	defer f.Close()
	w := bufio.NewWriterSize(f, 1<<20)
	defer w.Flush()
	enc := json.NewEncoder(w)
	rng := rand.New(rand.NewSource(seed*104729 + int64(maxFile)))
	nEvents, nStops, nChildren := 0, 0, 0
	stepNames := map[string]int{}
	emit := func(m map[string]interface{}) { enc.Encode(m); nEvents++ }

	for run := 0; run < runs; run++ {
		root, err := os.MkdirTemp(baseDir, "sflat-scr-")
		if err != nil {
			panic(err)
		}
		dir := filepath.Join(root, "db")
		emit(map[string]interface{}{"ev": "Reset"})
		attempted := map[int]int{}
		timeline := map[int][]blockSpec{} // commit number -> its blocks (latest attempt)
		idsOfN := func(n int) []int {
			r := []int{}
			for k := 1; k <= n; k++ {
				for _, b := range timeline[k] {
					r = append(r, b.ID)
				}
			}
			sort.Ints(r)
			return r
		}
		nextID, visN := 1, 0
		var hist []string
		o := &outcome{}
		lifetimes := 3 + rng.Intn(3)
		for lt := 0; lt < lifetimes && len(o.viol) == 0 && len(o.mism) == 0; lt++ {
			seg := segment{Dir: dir, Create: lt == 0, MaxFile: maxFile, Seed: seed, Events: filepath.Join(root, fmt.Sprintf("events-%d", lt))}
			nc := 1 + rng.Intn(3) // at least one commit: every lifetime passes a crash point
			mode := rng.Intn(8)   // 0,1: Close; 2: run to the end, exit without Close; else kill
			firstID := []int{}
			for c := 0; c < nc; c++ {
				firstID = append(firstID, nextID)
				cs := commitSpec{N: visN + 1 + c, Flush: rng.Intn(2) == 0}
				for k := rng.Intn(4); k > 0; k-- {
					sz := 1 + rng.Intn(int(maxFile)-12)
					if rng.Intn(3) == 0 {
						sz = []int{1, int(maxFile) - 12, int(maxFile)/2 - 12, int(maxFile)/2 - 11}[rng.Intn(4)]
					}
					cs.Blocks = append(cs.Blocks, blockSpec{ID: nextID, Sz: sz})
					attempted[nextID] = sz
					nextID++
				}
				seg.Commits = append(seg.Commits, cs)
			}
			switch {
			case mode <= 1:
				seg.Close = true
			case mode == 2:
				seg.KillAt = 0
			default:
				seg.KillAt = 1 + rng.Intn(6+nc*14)
			}
			hist = append(hist, fmt.Sprintf("lifetime %d: commits %v close=%v kill_at=%d", lt, seg.Commits, seg.Close, seg.KillAt))
			ctx := func(extra map[string]interface{}) interface{} {
				m := map[string]interface{}{"scenario": hist, "maxfile": maxFile, "seed": seed, "run": run}
				for k, v := range extra {
					m[k] = v
				}
				return m
			}
			killed, exit, stderr, err := runChild(seg, filepath.Join(root, fmt.Sprintf("seg-%d.json", lt)))
			nChildren++
			if err != nil {
				o.mismatch("cannot run the child process: "+err.Error(), ctx(nil))
				break
			}
			evs, problem := readEvents(seg.Events)
			if problem != "" && problem[:4] != "!not" {
				key := "C17:later-commit:failed"
				if problem[:5] == "!open" {
					key = "C17:reopen:failed"
				}
				o.violation(key, fmt.Sprintf("lifetime %d: %s", lt, problem), ctx(nil))
				break
			}
			if !killed && !(exit == 0 && seg.Close) && exit != 6 {
				o.mismatch(fmt.Sprintf("lifetime %d: unexpected end of the child: exit %d %s %s", lt, exit, problem, stderr), ctx(nil))
				break
			}
			// trace events of this lifetime; meanwhile derive the set the property allows at the stop
			if lt > 0 {
				emit(map[string]interface{}{"ev": "Open"})
			}
			durable, completed, inflight := visN, visN, -1
			ci, done := 0, 0
			closeEmitted := false
			for _, e := range evs {
				if seg.Close && done == len(seg.Commits) && !closeEmitted && (e.name == "flush:synced") {
					emit(map[string]interface{}{"ev": "Close"})
					closeEmitted = true
				}
				m := map[string]interface{}{"ev": "Step", "name": e.name, "at": map[string]int{"f": e.f, "o": e.o}}
				switch e.name {
				case "commit:begin":
					if ci < len(seg.Commits) {
						c := seg.Commits[ci]
						bl := make([]map[string]int, 0, len(c.Blocks))
						for _, b := range c.Blocks {
							bl = append(bl, map[string]int{"id": b.ID, "sz": b.Sz})
						}
						m["c"] = map[string]interface{}{"n": c.N, "blocks": bl, "flush": c.Flush}
						timeline[c.N] = c.Blocks
						ci++
					}
				case "commit:staged":
					inflight = seg.Commits[ci-1].N
				case "flush:written":
					durable = completed
				case "cache:tx-cached":
					completed, inflight = seg.Commits[ci-1].N, -1
					done++
				case "cache:tx-written":
					completed, inflight = seg.Commits[ci-1].N, -1
					durable = completed
					done++
				}
				stepNames[e.name]++
				emit(m)
			}
			// block ids are handed out when a commit begins: the ids planned for commits the process never
			// reached are free again
			if ci < len(seg.Commits) {
				for id := firstID[ci]; id < nextID; id++ {
					delete(attempted, id)
				}
				nextID = firstID[ci]
			}
			allowed := []int{}
			for n := durable; n <= completed; n++ {
				allowed = append(allowed, n)
			}
			if inflight >= 0 {
				allowed = append(allowed, inflight)
			}
			stop := "Crash"
			if seg.Close && exit == 0 {
				stop = "Exit"
				allowed = []int{completed}
			}
			where := fmt.Sprintf("run %d lifetime %d stopped by %s after step %d", run, lt, stop, len(evs))
			first, ok := checkStopX(o, dir, -1, nil, nil, allowed, idsOfN, attempted, ctx, where)
			nStops++
			if !ok {
				break
			}
			emit(map[string]interface{}{"ev": stop, "obs": map[string]interface{}{"n": first.n, "ids": idsOfN(first.n), "flens": append([]int{}, first.flens...)}})
			visN = first.n
		}
		os.RemoveAll(root)
		for _, v := range o.viol {
			rep.Violation(v[0].(string), v[1].(string), v[2])
		}
		for _, m := range o.mism {
			rep.Mismatch(m[0].(string), m[1])
		}
		if len(o.viol) > 0 || len(o.mism) > 0 {
			break
		}
	}
	rep.Summary(runs, map[string]interface{}{"events": nEvents, "stops_checked": nStops, "child_processes": nChildren,
		"steps_by_name": stepNames, "maxfile": maxFile, "mode": "record"})
}
