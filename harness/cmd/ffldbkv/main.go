// Replay driver for spec/Store/KV.tla -> database/ffldb (C16).
//
//	ffldbkv replay <behaviours.jsonl> <workdir> <nk> <nb> <variants> [record.ndjson]
//
// Every behaviour TLC printed is run against a REAL ffldb database
// (database.Create("ffldb", dir, net) / database.Open, as the node does), once
// per variant.  A variant is "<cache>[+reopen]":
//
//	always   the write cache is flushed to leveldb by every commit
//	never    nothing is flushed before Close
//	size     flushed when the cache holds more than a few hundred bytes
//	+reopen  additionally the database is closed and reopened after every
//	         step at which no transaction is open (CloseReopen at every position)
//
// After EVERY step the complete visible state of every open transaction and the
// committed state (through DB.View) are read back through the public interface
// (Get, Bucket, ForEach, ForEachBucket, fresh cursors walked forwards, backwards
// and with a turn at every item) and compared with the tree the spec logged.
// With a record file the observed answers are also written as a trace for
// TraceKV.tla (first variant only).
package main

import (
	"bytes"
	"encoding/json"
	"errors"
	"fmt"
	"os"
	"path/filepath"
	"runtime/debug"
	"runtime/pprof"
	"sort"
	"strconv"
	"strings"
	"sync"
	"time"

	"github.com/btcsuite/btcd/wire"
	"github.com/elastos/Elastos.ELA/database"
	"github.com/elastos/Elastos.ELA/database/ffldb"
	"verif/harness/internal/rep"
)

var nk, nb int

const (
	none   = -1
	opaque = 9
)

// name maps a model key / bucket name to bytes: order preserving, key b and
// bucket b are the same bytes, 0 is the empty string, nk+1 / nb+1 are ffldb's
// internal key and bucket of the metadata root.
func keyName(k int) []byte {
	switch {
	case k <= 0:
		return []byte{}
	case k == nk+1:
		return []byte("ffldb-writeloc")
	}
	return plain(k)
}

func bucketName(b int) []byte {
	switch {
	case b <= 0:
		return []byte{}
	case b == nb+1:
		return []byte("ffldb-blockidx")
	}
	return plain(b)
}

func plain(k int) []byte {
	c := byte(0x30 + (k+1)/2)
	if k%2 == 1 {
		return []byte{c}
	}
	return []byte{c, 'a'}
}

func unplain(b []byte) int {
	if len(b) == 0 {
		return 0
	}
	k := (int(b[0])-0x30)*2 - 1
	if len(b) == 2 {
		k++
	}
	if len(b) > 2 || k < 1 || !bytes.Equal(plain(k), b) {
		return -2
	}
	return k
}

func unKey(b []byte) int {
	if string(b) == "ffldb-writeloc" {
		return nk + 1
	}
	return unplain(b)
}

func unBucket(b []byte) int {
	if string(b) == "ffldb-blockidx" {
		return nb + 1
	}
	return unplain(b)
}

// value bytes depend on bucket path, key and value id, so an answer taken from
// the wrong bucket or key is noticed.  Value 0 is the empty value.
func valBytes(path []int, k, v int) []byte {
	if v == 0 {
		if k%2 == 0 {
			return []byte{}
		}
		return nil
	}
	return []byte(fmt.Sprintf("%v/%d=%d", path, k, v))
}

func unVal(path []int, k int, b []byte) int {
	if b == nil {
		return none
	}
	if k == nk+1 && len(path) == 0 {
		return opaque
	}
	if len(b) == 0 {
		return 0
	}
	pre := fmt.Sprintf("%v/%d=", path, k)
	if strings.HasPrefix(string(b), pre) {
		if n, err := strconv.Atoi(string(b[len(pre):])); err == nil {
			return n
		}
	}
	return -3 // foreign bytes
}

func errClass(err error) string {
	if err == nil {
		return "ok"
	}
	var de database.Error
	if errors.As(err, &de) {
		return de.ErrorCode.String()
	}
	return "error:" + err.Error()
}

// ---------------------------------------------------------------------------
// expected / observed tree

type bucketView struct {
	kv []int // index k-1 -> value id or none, length nk+1
	bk []int // nested bucket names, ascending
}

type tree map[string]*bucketView // key: path as "1/2"

func pkey(p []int) string {
	s := make([]string, len(p))
	for i, x := range p {
		s[i] = strconv.Itoa(x)
	}
	return strings.Join(s, "/")
}

func ints(l []interface{}) []int {
	r := make([]int, len(l))
	for i, x := range l {
		r[i] = int(x.(float64))
	}
	return r
}

func parseDump(d []interface{}) (tree, [][]int) {
	t := tree{}
	var paths [][]int
	for _, e := range d {
		m := e.(map[string]interface{})
		p := ints(rep.List(m, "p"))
		t[pkey(p)] = &bucketView{kv: ints(rep.List(m, "kv")), bk: ints(rep.List(m, "bk"))}
		paths = append(paths, p)
	}
	sort.Slice(paths, func(i, j int) bool {
		if len(paths[i]) != len(paths[j]) {
			return len(paths[i]) < len(paths[j])
		}
		return pkey(paths[i]) < pkey(paths[j])
	})
	return t, paths
}

func dumpJSON(t tree) []map[string]interface{} {
	var keys []string
	for k := range t {
		keys = append(keys, k)
	}
	sort.Strings(keys)
	res := []map[string]interface{}{}
	for _, k := range keys {
		p := []int{}
		if k != "" {
			for _, s := range strings.Split(k, "/") {
				n, _ := strconv.Atoi(s)
				p = append(p, n)
			}
		}
		bk := t[k].bk
		if bk == nil {
			bk = []int{}
		}
		res = append(res, map[string]interface{}{"p": p, "kv": t[k].kv, "bk": bk})
	}
	return res
}

type mismatch struct{ aspect, what string }

func resolve(tx database.Tx, p []int) database.Bucket {
	b := tx.Metadata()
	for _, n := range p {
		if b == nil {
			return nil
		}
		b = b.Bucket(bucketName(n))
	}
	return b
}

// observe reads the complete tree a transaction sees through ForEach /
// ForEachBucket (recursively from the metadata root).
func observe(tx database.Tx) (tree, *mismatch) {
	t := tree{}
	var walk func(b database.Bucket, p []int) *mismatch
	walk = func(b database.Bucket, p []int) *mismatch {
		bv := &bucketView{kv: make([]int, nk+1)}
		for i := range bv.kv {
			bv.kv[i] = none
		}
		t[pkey(p)] = bv
		var mm *mismatch
		last := []byte(nil)
		err := b.ForEach(func(k, v []byte) error {
			if last != nil && bytes.Compare(last, k) >= 0 {
				mm = &mismatch{"ForEach", fmt.Sprintf("bucket %v: ForEach out of order: %q after %q", p, k, last)}
			}
			last = append([]byte(nil), k...)
			n := unKey(k)
			if n < 1 || n > nk+1 || (n == nk+1 && len(p) > 0) {
				mm = &mismatch{"ForEach", fmt.Sprintf("bucket %v: ForEach yields foreign key %q", p, k)}
				return nil
			}
			if bv.kv[n-1] != none {
				mm = &mismatch{"ForEach", fmt.Sprintf("bucket %v: ForEach yields key %d twice", p, n)}
			}
			bv.kv[n-1] = unVal(p, n, v)
			if v == nil {
				mm = &mismatch{"ForEach", fmt.Sprintf("bucket %v: ForEach yields key %d with a nil value", p, n)}
			}
			return nil
		})
		if err != nil {
			return &mismatch{"ForEach", fmt.Sprintf("bucket %v: ForEach error %v", p, err)}
		}
		if mm != nil {
			return mm
		}
		err = b.ForEachBucket(func(k []byte) error {
			n := unBucket(k)
			if n < 1 || n > nb+1 || (n == nb+1 && len(p) > 0) {
				mm = &mismatch{"ForEachBucket", fmt.Sprintf("bucket %v: ForEachBucket yields foreign name %q", p, k)}
				return nil
			}
			if len(bv.bk) > 0 && bv.bk[len(bv.bk)-1] >= n {
				mm = &mismatch{"ForEachBucket", fmt.Sprintf("bucket %v: ForEachBucket out of order", p)}
			}
			bv.bk = append(bv.bk, n)
			return nil
		})
		if err != nil {
			return &mismatch{"ForEachBucket", fmt.Sprintf("bucket %v: ForEachBucket error %v", p, err)}
		}
		if mm != nil {
			return mm
		}
		for _, n := range bv.bk {
			c := b.Bucket(bucketName(n))
			if c == nil {
				return &mismatch{"Bucket", fmt.Sprintf("bucket %v: ForEachBucket lists %d but Bucket() returns nil", p, n)}
			}
			if len(p) >= 4 {
				return &mismatch{"Bucket", "bucket nesting deeper than the model allows"}
			}
			if m := walk(c, append(append([]int(nil), p...), n)); m != nil {
				return m
			}
		}
		return nil
	}
	if m := walk(tx.Metadata(), nil); m != nil {
		return t, m
	}
	return t, nil
}

type item struct {
	isb  bool
	name int
	v    int
}

func itemsOf(bv *bucketView) []item {
	var r []item
	for i, v := range bv.kv {
		if v != none {
			r = append(r, item{false, i + 1, v})
		}
	}
	for _, b := range bv.bk {
		r = append(r, item{true, b, none})
	}
	return r
}

// curAt checks Key()/Value() of a cursor against the expected item (nil = exhausted).
func curAt(c database.Cursor, p []int, it *item) string {
	k, v := c.Key(), c.Value()
	if it == nil {
		if k != nil || v != nil {
			return fmt.Sprintf("exhausted cursor has Key()=%q Value()=%q", k, v)
		}
		return ""
	}
	if it.isb {
		if !bytes.Equal(k, bucketName(it.name)) || v != nil {
			return fmt.Sprintf("Key()=%q Value()=%q, want nested bucket %d (%q) with nil value", k, v, it.name, bucketName(it.name))
		}
		return ""
	}
	if !bytes.Equal(k, keyName(it.name)) {
		return fmt.Sprintf("Key()=%q, want key %d (%q)", k, it.name, keyName(it.name))
	}
	if got := unVal(p, it.name, v); got != it.v {
		return fmt.Sprintf("Value()=%q of key %d decodes to %d, want %d", v, it.name, got, it.v)
	}
	return ""
}

// readBack compares everything the interface can tell about tx with exp.
func readBack(tx database.Tx, exp tree, paths [][]int, writable bool) (tree, *mismatch) {
	got, mm := observe(tx)
	if mm != nil {
		return got, mm
	}
	for pk, e := range exp {
		g, ok := got[pk]
		if !ok {
			return got, &mismatch{"ForEachBucket", fmt.Sprintf("bucket [%s] is not reachable, the model has it", pk)}
		}
		if fmt.Sprint(g.bk) != fmt.Sprint(e.bk) {
			return got, &mismatch{"ForEachBucket", fmt.Sprintf("bucket [%s]: nested buckets %v, want %v", pk, g.bk, e.bk)}
		}
		for i := range e.kv {
			if g.kv[i] != e.kv[i] {
				return got, &mismatch{"ForEach", fmt.Sprintf("bucket [%s]: ForEach gives key %d = %d, want %d (-1 = absent)", pk, i+1, g.kv[i], e.kv[i])}
			}
		}
	}
	for pk := range got {
		if _, ok := exp[pk]; !ok {
			return got, &mismatch{"ForEachBucket", fmt.Sprintf("bucket [%s] exists, the model does not have it", pk)}
		}
	}
	for _, p := range paths {
		e := exp[pkey(p)]
		b := resolve(tx, p)
		if b == nil {
			return got, &mismatch{"Bucket", fmt.Sprintf("bucket %v cannot be resolved", p)}
		}
		// Get of every key (and the empty key, and a never used key)
		for k := 0; k <= nk+1; k++ {
			want := none
			if k >= 1 {
				want = e.kv[k-1]
			}
			if k == nk+1 && len(p) > 0 {
				continue
			}
			v := b.Get(keyName(k))
			if g := unVal(p, k, v); g != want {
				return got, &mismatch{"Get", fmt.Sprintf("bucket %v: Get(key %d)=%q decodes to %d, want %d (-1 = nil, 0 = empty non-nil)", p, k, v, g, want)}
			}
		}
		// ForEach / ForEachBucket stop at the first callback error and return it
		nkeys, calls := 0, 0
		for _, v := range e.kv {
			if v != none {
				nkeys++
			}
		}
		err := b.ForEach(func(k, v []byte) error { calls++; return errClosure })
		if (nkeys == 0 && (err != nil || calls != 0)) || (nkeys > 0 && (err != errClosure || calls != 1)) {
			return got, &mismatch{"ForEach", fmt.Sprintf("bucket %v: ForEach with a failing callback made %d calls and returned %v (%d keys)", p, calls, err, nkeys)}
		}
		calls = 0
		err = b.ForEachBucket(func(k []byte) error { calls++; return errClosure })
		if (len(e.bk) == 0 && (err != nil || calls != 0)) || (len(e.bk) > 0 && (err != errClosure || calls != 1)) {
			return got, &mismatch{"ForEachBucket", fmt.Sprintf("bucket %v: ForEachBucket with a failing callback made %d calls and returned %v", p, calls, err)}
		}
		if b.Writable() != writable {
			return got, &mismatch{"Writable", fmt.Sprintf("bucket %v: Writable()=%v", p, b.Writable())}
		}
		if v := b.Get([]byte("zz-never")); v != nil {
			return got, &mismatch{"Get", fmt.Sprintf("bucket %v: Get of a never written key returns %q", p, v)}
		}
		// Bucket of every name
		for n := 0; n <= nb+1; n++ {
			has := false
			for _, x := range e.bk {
				has = has || x == n
			}
			if n == nb+1 && len(p) > 0 {
				continue
			}
			if (b.Bucket(bucketName(n)) != nil) != has {
				return got, &mismatch{"Bucket", fmt.Sprintf("bucket %v: Bucket(name %d) exists = %v, want %v", p, n, !has, has)}
			}
		}
		if len(p) == 1 && p[0] == nb+1 {
			continue // the internal block index bucket: no cursor walks
		}
		// fresh cursors: forwards, backwards, and a turn at every item
		its := itemsOf(e)
		c := b.Cursor()
		if c.Next() || c.Prev() || c.Key() != nil {
			return got, &mismatch{"cursor-new", fmt.Sprintf("bucket %v: an unpositioned cursor moves / has a key", p)}
		}
		for i := 0; i <= len(its); i++ {
			var ok bool
			if i == 0 {
				ok = c.First()
			} else {
				ok = c.Next()
			}
			var it *item
			if i < len(its) {
				it = &its[i]
			}
			if ok != (it != nil) {
				return got, &mismatch{"cursor-forward", fmt.Sprintf("bucket %v: forward walk step %d returned %v (Key()=%q), %d items expected %v", p, i, ok, c.Key(), len(its), its)}
			}
			if s := curAt(c, p, it); s != "" {
				return got, &mismatch{"cursor-forward", fmt.Sprintf("bucket %v: forward walk step %d: %s", p, i, s)}
			}
		}
		c = b.Cursor()
		for i := len(its) - 1; i >= -1; i-- {
			var ok bool
			if i == len(its)-1 {
				ok = c.Last()
			} else {
				ok = c.Prev()
			}
			var it *item
			if i >= 0 {
				it = &its[i]
			}
			if ok != (it != nil) {
				return got, &mismatch{"cursor-backward", fmt.Sprintf("bucket %v: backward walk at index %d returned %v (Key()=%q), items expected %v", p, i, ok, c.Key(), its)}
			}
			if s := curAt(c, p, it); s != "" {
				return got, &mismatch{"cursor-backward", fmt.Sprintf("bucket %v: backward walk at index %d: %s", p, i, s)}
			}
		}
		// turns: go to item i (Seek for keys, walking for buckets), Next then Prev, Prev then Next
		for i := range its {
			for _, fwdFirst := range []bool{true, false} {
				c = b.Cursor()
				ok := c.First()
				for j := 0; j < i && ok; j++ {
					ok = c.Next()
				}
				if !ok {
					return got, &mismatch{"cursor-forward", fmt.Sprintf("bucket %v: cannot walk to item %d", p, i)}
				}
				a, bb := i+1, i
				step1, step2 := c.Next, c.Prev
				dir := "Next-then-Prev"
				if !fwdFirst {
					a = i - 1
					step1, step2 = c.Prev, c.Next
					dir = "Prev-then-Next"
				}
				if a < 0 || a >= len(its) {
					continue // leaving the bucket exhausts the cursor
				}
				if !step1() {
					return got, &mismatch{"cursor-turn", fmt.Sprintf("bucket %v: %s from item %d: first move failed", p, dir, i)}
				}
				if s := curAt(c, p, &its[a]); s != "" {
					return got, &mismatch{"cursor-turn", fmt.Sprintf("bucket %v: %s from item %d: after the first move %s", p, dir, i, s)}
				}
				ok2 := step2()
				if !ok2 {
					return got, &mismatch{"cursor-turn", fmt.Sprintf("bucket %v: %s from item %d of %v: the move back returned false", p, dir, i, its)}
				}
				if s := curAt(c, p, &its[bb]); s != "" {
					return got, &mismatch{"cursor-turn", fmt.Sprintf("bucket %v: %s from item %d of %v: back at %s", p, dir, i, its, s)}
				}
			}
		}
		// Seek of every key
		for k := 0; k <= nk+1; k++ {
			var it *item
			for j := range its {
				if its[j].isb || its[j].name >= k {
					it = &its[j]
					break
				}
			}
			c = b.Cursor()
			if ok := c.Seek(keyName(k)); ok != (it != nil) {
				return got, &mismatch{"cursor-seek", fmt.Sprintf("bucket %v: Seek(key %d) returned %v (Key()=%q), items %v", p, k, ok, c.Key(), its)}
			}
			if s := curAt(c, p, it); s != "" {
				return got, &mismatch{"cursor-seek", fmt.Sprintf("bucket %v: Seek(key %d): %s", p, k, s)}
			}
		}
	}
	return got, nil
}

// ---------------------------------------------------------------------------
// one database under one variant

type variant struct {
	cache  string
	reopen bool
}

func (v variant) String() string {
	if v.reopen {
		return v.cache + "+reopen"
	}
	return v.cache
}

type env struct {
	dir    string
	v      variant
	db     database.DB
	txs    map[string]database.Tx
	closed map[string]database.Tx // handles of finished transactions
	cur    database.Cursor
	curP   []int
	curTx  string
	lastMv string
	wrote  bool // the read-write transaction has written something
	commits int // commits of read-write transactions so far ("odd" / "even" cache variants)
}

func (e *env) knobs() {
	far := 1000 * time.Hour
	switch e.v.cache {
	case "always":
		ffldb.VerifSetCache(e.db, 1<<30, -1)
	case "never":
		ffldb.VerifSetCache(e.db, 1<<30, far)
	case "size":
		ffldb.VerifSetCache(e.db, 400, far)
	case "odd", "even":
		// mixed schedule: every second commit flushes (and, being the flushing commit, writes its
		// own keys straight to leveldb past the cache), the others stay in the write cache
		flush := (e.commits%2 == 0) == (e.v.cache == "even")
		if flush {
			ffldb.VerifSetCache(e.db, 1<<30, -1)
		} else {
			ffldb.VerifSetCache(e.db, 1<<30, far)
		}
	}
}

func (e *env) open(create bool) error {
	var err error
	if create {
		e.db, err = database.Create("ffldb", e.dir, wire.MainNet)
	} else {
		e.db, err = database.Open("ffldb", e.dir, wire.MainNet)
	}
	if err == nil {
		e.knobs()
	}
	return err
}

var errClosure = errors.New("verif: closure fails")

type failure struct {
	key, what string
}

func write(b database.Bucket, p []int, op string, k, v int) string {
	if b == nil {
		return "no-such-bucket"
	}
	switch op {
	case "Put":
		return errClass(b.Put(keyName(k), valBytes(p, k, v)))
	case "Delete":
		return errClass(b.Delete(keyName(k)))
	case "CreateBucket":
		nbk, err := b.CreateBucket(bucketName(k))
		if (nbk == nil) != (err != nil) {
			return "bucket/err inconsistent: " + errClass(err)
		}
		return errClass(err)
	case "CreateBucketIfNotExists":
		nbk, err := b.CreateBucketIfNotExists(bucketName(k))
		if (nbk == nil) != (err != nil) {
			return "bucket/err inconsistent: " + errClass(err)
		}
		return errClass(err)
	case "DeleteBucket":
		return errClass(b.DeleteBucket(bucketName(k)))
	}
	return "unknown write " + op
}

// seed builds the initial committed tree of a behaviour (KV.tla Init) with two
// managed transactions; between them the database is closed and reopened in the
// "size" and "+reopen" variants so that part of the data sits in leveldb and the
// rest in the write cache ("never": all of it in the cache, "always": all in leveldb).
func (e *env) seed(exp tree, paths [][]int) error {
	for part := 0; part < 2; part++ {
		err := e.db.Update(func(tx database.Tx) error {
			n := 0
			skip := func() bool { n++; return part == 0 && n%2 == 0 }
			for _, p := range paths {
				if len(p) == 1 && p[0] == nb+1 {
					continue
				}
				if len(p) > 0 {
					par := resolve(tx, p[:len(p)-1])
					if par == nil || skip() {
						continue // comes with the second part
					}
					if _, err := par.CreateBucketIfNotExists(bucketName(p[len(p)-1])); err != nil {
						return err
					}
				}
				b := resolve(tx, p)
				if b == nil {
					continue
				}
				for i, v := range exp[pkey(p)].kv {
					k := i + 1
					if v == none || k == nk+1 || skip() {
						continue
					}
					if b.Get(keyName(k)) == nil {
						if err := b.Put(keyName(k), valBytes(p, k, v)); err != nil {
							return err
						}
					}
				}
			}
			return nil
		})
		if err != nil {
			return err
		}
		if part == 0 && (e.v.cache == "size" || e.v.reopen) {
			if err := e.db.Close(); err != nil {
				return err
			}
			if err := e.open(false); err != nil {
				return err
			}
		}
	}
	return nil
}

func moveResult(c database.Cursor, p []int, ok bool) map[string]interface{} {
	r := map[string]interface{}{"ok": ok, "isb": false, "name": 0, "v": none}
	k, v := c.Key(), c.Value()
	if k == nil {
		return r
	}
	if v == nil {
		r["isb"], r["name"] = true, unBucket(k)
		return r
	}
	n := unKey(k)
	r["name"], r["v"] = n, unVal(p, n, v)
	return r
}

func sameRes(exp interface{}, got interface{}) bool {
	a, _ := json.Marshal(exp)
	b, _ := json.Marshal(got)
	var x, y interface{}
	json.Unmarshal(a, &x)
	json.Unmarshal(b, &y)
	a, _ = json.Marshal(x)
	b, _ = json.Marshal(y)
	return bytes.Equal(a, b)
}

// step performs one model action; returns the observed result and a failure if
// the result differs from the spec's.
func (e *env) step(st rep.Step) (obs interface{}, fl *failure) {
	act, a := st.Act(), st.Args()
	t := rep.Str(a, "t")
	exp := st["res"]
	kind := "ro"
	if t == "w" {
		kind = "rw"
	}
	check := func(got interface{}, key string) {
		obs = got
		if !sameRes(exp, got) {
			ge, _ := json.Marshal(got)
			ee, _ := json.Marshal(exp)
			fl = &failure{key, fmt.Sprintf("%s %v returned %s, the model says %s", act, a, ge, ee)}
		}
	}
	switch act {
	case "Init":
		obs = "ok"
	case "Begin":
		if t == "w" && (e.v.cache == "odd" || e.v.cache == "even") {
			// the knob takes the database write lock, which a read-write transaction holds: set
			// the schedule of this transaction's commit before it begins
			e.commits++
			e.knobs()
		}
		tx, err := e.db.Begin(t == "w")
		if err == nil {
			e.txs[t] = tx
			if t == "w" {
				e.wrote = false
			}
		}
		check(errClass(err), "C16:result:Begin")
	case "Put", "Delete", "CreateBucket", "CreateBucketIfNotExists", "DeleteBucket":
		p := ints(rep.List(a, "p"))
		got := write(resolve(e.txs[t], p), p, act, rep.Int(a, "k"), rep.Int(a, "v"))
		if t == "w" {
			e.wrote = true
		}
		check(got, fmt.Sprintf("C16:result:%s:%s:%v->%s", act, kind, exp, got))
	case "Cursor":
		e.curP = ints(rep.List(a, "p"))
		e.cur = resolve(e.txs[t], e.curP).Cursor()
		e.curTx, e.lastMv = t, "new"
		obs = "ok"
	case "First", "Last", "Next", "Prev", "Seek":
		var ok bool
		switch act {
		case "First":
			ok = e.cur.First()
		case "Last":
			ok = e.cur.Last()
		case "Next":
			ok = e.cur.Next()
		case "Prev":
			ok = e.cur.Prev()
		case "Seek":
			ok = e.cur.Seek(keyName(rep.Int(a, "k")))
		}
		ckind := "ro"
		if e.curTx == "w" {
			ckind = "rw-clean"
			if e.wrote {
				ckind = "rw-pending"
			}
		}
		key := fmt.Sprintf("C16:cursor:%s:after-%s:%s", act, e.lastMv, ckind)
		e.lastMv = act
		check(moveResult(e.cur, e.curP, ok), key)
	case "CDelete":
		got := errClass(e.cur.Delete())
		ckind := "ro"
		if e.curTx == "w" {
			ckind = "rw"
			e.wrote = true
		}
		e.lastMv = "CDelete"
		check(got, fmt.Sprintf("C16:result:Cursor.Delete:%s:%v->%s", ckind, exp, got))
	case "Commit", "Rollback":
		tx := e.txs[t]
		var err error
		if act == "Commit" {
			err = tx.Commit()
		} else {
			err = tx.Rollback()
		}
		delete(e.txs, t)
		e.closed[t] = tx
		if e.curTx == t {
			e.cur, e.curTx = nil, ""
		}
		check(errClass(err), "C16:result:"+act)
		if fl == nil {
			fl = closedTxRules(tx, act)
		}
	case "Update":
		how := rep.Str(a, "how")
		errs := []string{}
		var ret string
		func() {
			defer func() {
				if r := recover(); r != nil {
					if r == interface{}(errClosure) {
						ret = "panic"
					} else {
						ret = fmt.Sprintf("foreign panic: %v", r)
					}
				}
			}()
			err := e.db.Update(func(tx database.Tx) error {
				for _, w := range rep.List(a, "ws") {
					wm := w.(map[string]interface{})
					p := ints(rep.List(wm, "p"))
					errs = append(errs, write(resolve(tx, p), p, rep.Str(wm, "op"), rep.Int(wm, "k"), rep.Int(wm, "v")))
				}
				switch how {
				case "fail":
					return errClosure
				case "panic":
					panic(errClosure)
				}
				return nil
			})
			switch {
			case err == nil:
				ret = "ok"
			case err == errClosure:
				ret = "fail"
			default:
				ret = errClass(err)
			}
		}()
		check(map[string]interface{}{"errs": errs, "ret": ret}, "C16:result:Update:"+how)
	case "Close":
		var err error
		if e.db == nil {
			err = database.Error{ErrorCode: database.ErrDbNotOpen}
		} else {
			err = e.db.Close()
		}
		check(errClass(err), "C16:result:Close")
	case "Reopen":
		check(errClass(e.open(false)), "C16:result:Reopen")
	default:
		fl = &failure{"C16:harness", "unknown action " + act}
	}
	return
}

// A finished transaction answers ErrTxClosed / nil / false to everything
// (interface.go, every method: "ErrTxClosed if the transaction has already been closed").
func closedTxRules(tx database.Tx, after string) *failure {
	bad := func(what string) *failure {
		return &failure{"C16:closed-tx:" + what, fmt.Sprintf("after %s the finished transaction still answers: %s", after, what)}
	}
	b := tx.Metadata()
	if c := errClass(b.Put([]byte("x"), []byte("y"))); c != "ErrTxClosed" {
		return bad("Put -> " + c)
	}
	if b.Get(plain(1)) != nil {
		return bad("Get returns a value")
	}
	if c := errClass(b.Delete([]byte("x"))); c != "ErrTxClosed" {
		return bad("Delete -> " + c)
	}
	if _, err := b.CreateBucket([]byte("x")); errClass(err) != "ErrTxClosed" {
		return bad("CreateBucket -> " + errClass(err))
	}
	if c := errClass(b.DeleteBucket([]byte("x"))); c != "ErrTxClosed" {
		return bad("DeleteBucket -> " + c)
	}
	if b.Bucket(plain(1)) != nil {
		return bad("Bucket returns a bucket")
	}
	if c := errClass(b.ForEach(func(k, v []byte) error { return nil })); c != "ErrTxClosed" {
		return bad("ForEach -> " + c)
	}
	if c := errClass(b.ForEachBucket(func(k []byte) error { return nil })); c != "ErrTxClosed" {
		return bad("ForEachBucket -> " + c)
	}
	cu := b.Cursor()
	if cu.First() || cu.Last() || cu.Next() || cu.Prev() || cu.Seek(plain(1)) || cu.Key() != nil || cu.Value() != nil {
		return bad("a cursor moves")
	}
	if c := errClass(tx.Commit()); c != "ErrTxClosed" {
		return bad("Commit -> " + c)
	}
	if c := errClass(tx.Rollback()); c != "ErrTxClosed" {
		return bad("Rollback -> " + c)
	}
	return nil
}

// ---------------------------------------------------------------------------

var (
	cacheMu  sync.Mutex
	cacheMax = map[string]int{} // largest write cache seen per cache variant
)

func noteCache(variant string, n int) {
	cacheMu.Lock()
	if n > cacheMax[variant] {
		cacheMax[variant] = n
	}
	cacheMu.Unlock()
}

// recorder collects the observed events of every recorded behaviour; they are
// written in behaviour order at the end, so the trace file does not depend on
// the scheduling of the workers.
type recorder struct {
	mu    sync.Mutex
	byIdx map[int][]map[string]interface{}
	n     int
}

func runOne(idx int, b rep.Behaviour, v variant, dir string, recd *recorder) (fl *failure, at int) {
	e := &env{dir: dir, v: v, txs: map[string]database.Tx{}, closed: map[string]database.Tx{}}
	defer func() {
		if r := recover(); r != nil {
			act := "?"
			if at < len(b) {
				act = b[at].Act()
			}
			fl = &failure{"C16:panic:" + act, fmt.Sprintf("panic: %v", r)}
		}
		for _, tx := range e.txs {
			func() { defer func() { recover() }(); tx.Rollback() }()
		}
		if e.db != nil {
			func() { defer func() { recover() }(); e.db.Close() }()
		}
		os.RemoveAll(dir)
	}()
	if err := e.open(true); err != nil {
		return &failure{"C16:harness", "create: " + err.Error()}, 0
	}
	var events []map[string]interface{}
	isopen := true
	for i, st := range b {
		at = i
		act := st.Act()
		expDB, dbPaths := parseDump(rep.List(st, "db"))
		if act == "Init" {
			if err := e.seed(expDB, dbPaths); err != nil {
				return &failure{"C16:harness", "seed: " + err.Error()}, i
			}
		}
		obs, f := e.step(st)
		if f != nil {
			return f, i
		}
		isopen = rep.Bool(st, "isopen")
		ev := map[string]interface{}{"ev": act, "res": obs}
		for k, x := range st.Args() {
			ev[k] = x
		}
		// read everything back: every open transaction ...
		txs := rep.Map(st, "tx")
		for _, t := range []string{"w", "r1", "r2"} {
			tv := rep.Map(txs, t)
			if !rep.Bool(tv, "open") {
				if _, open := e.txs[t]; open {
					return &failure{"C16:harness", "transaction bookkeeping differs"}, i
				}
				continue
			}
			exp, paths := parseDump(rep.List(tv, "d"))
			got, mm := readBack(e.txs[t], exp, paths, t == "w")
			if mm != nil {
				kind := "ro"
				if t == "w" {
					kind = "rw"
				}
				return &failure{fmt.Sprintf("C16:read:%s:%s:after-%s", kind, mm.aspect, act),
					fmt.Sprintf("transaction %s after %s %v: %s", t, act, st.Args(), mm.what)}, i
			}
			ev["obs_"+t] = dumpJSON(got)
		}
		// ... and the committed state, through a managed read-only transaction
		check := func(when string) *failure {
			var mm *mismatch
			var got tree
			err := e.db.View(func(tx database.Tx) error {
				got, mm = readBack(tx, expDB, dbPaths, false)
				return nil
			})
			if err != nil {
				return &failure{"C16:result:View", "View: " + err.Error()}
			}
			if mm != nil {
				return &failure{fmt.Sprintf("C16:read:committed:%s:after-%s%s", mm.aspect, act, when),
					fmt.Sprintf("committed state after %s %v%s: %s", act, st.Args(), when, mm.what)}
			}
			ev["obs_db"] = dumpJSON(got)
			return nil
		}
		if isopen {
			if f := check(""); f != nil {
				return f, i
			}
			// is the cache knob effective?  "always": nothing may stay in the write cache
			ck, cr := ffldb.VerifCacheLen(e.db)
			noteCache(v.cache, ck+cr)
			if v.cache == "always" && ck+cr != 0 {
				return &failure{"C16:harness", fmt.Sprintf("variant always: %d keys stayed in the write cache", ck+cr)}, i
			}
			if v.reopen && len(e.txs) == 0 {
				if err := e.db.Close(); err != nil {
					return &failure{"C16:result:Close", "Close: " + err.Error()}, i
				}
				if err := e.open(false); err != nil {
					return &failure{"C16:result:Reopen", "Open: " + err.Error()}, i
				}
				if f := check("+reopen"); f != nil {
					return f, i
				}
			}
		} else if err := e.db.View(func(tx database.Tx) error { return nil }); errClass(err) != "ErrDbNotOpen" {
			return &failure{"C16:result:View", "View on a closed database: " + errClass(err)}, i
		}
		events = append(events, ev)
	}
	at = len(b)
	if recd != nil {
		recd.mu.Lock()
		recd.byIdx[idx] = events
		recd.mu.Unlock()
	}
	return nil, len(b)
}

func main() {
	if len(os.Args) < 7 || os.Args[1] != "replay" {
		fmt.Fprintln(os.Stderr, "usage: ffldbkv replay <behaviours.jsonl> <workdir> <nk> <nb> <variants> [record.ndjson]")
		os.Exit(3)
	}
	// every run opens databases (4 MiB leveldb buffers each) and leaves cursors to
	// their finalizers: collect early to keep the driver's footprint small
	debug.SetGCPercent(25)
	if pf := os.Getenv("VERIF_PPROF"); pf != "" {
		f, _ := os.Create(pf)
		pprof.StartCPUProfile(f)
		defer pprof.StopCPUProfile()
	}
	behs := rep.ReadBehaviours(os.Args[2])
	work := os.Args[3]
	nk, _ = strconv.Atoi(os.Args[4])
	nb, _ = strconv.Atoi(os.Args[5])
	var variants []variant
	for _, s := range strings.Split(os.Args[6], ",") {
		v := variant{cache: strings.TrimSuffix(s, "+reopen"), reopen: strings.HasSuffix(s, "+reopen")}
		variants = append(variants, v)
	}
	var recd *recorder
	if len(os.Args) > 7 {
		recd = &recorder{byIdx: map[int][]map[string]interface{}{}}
	}
	os.MkdirAll(work, 0700)
	jobs := make(chan int, 64)
	var wg sync.WaitGroup
	var mu sync.Mutex
	agree, runs, steps := 0, 0, 0
	perVariant := map[string]int{}
	workers := 12
	for w := 0; w < workers; w++ {
		wg.Add(1)
		go func(w int) {
			defer wg.Done()
			for i := range jobs {
				b := behs[i]
				okAll := true
				for vi, v := range variants {
					dir := filepath.Join(work, fmt.Sprintf("db-%d-%d-%d", w, i, vi))
					var rc *recorder
					if vi == 0 {
						rc = recd
					}
					fl, at := runOne(i, b, v, dir, rc)
					mu.Lock()
					runs++
					steps += at
					mu.Unlock()
					if fl != nil {
						okAll = false
						upto := at + 1
						if upto > len(b) {
							upto = len(b)
						}
						var acts []string
						for _, s := range b[:upto] {
							acts = append(acts, fmt.Sprintf("%s%v", s.Act(), s.Args()))
						}
						c := map[string]interface{}{"variant": v.String(), "step": at, "actions": acts, "behaviour": b[:upto]}
						if strings.HasPrefix(fl.key, "C16:harness") {
							rep.Mismatch(fmt.Sprintf("[%s] step %d: %s", v, at, fl.what), c)
						} else {
							rep.Violation(fl.key, fmt.Sprintf("[cache=%s] step %d: %s", v, at, fl.what), c)
						}
					} else {
						mu.Lock()
						perVariant[v.String()]++
						mu.Unlock()
					}
				}
				if okAll {
					mu.Lock()
					agree++
					mu.Unlock()
				}
			}
		}(w)
	}
	for i := range behs {
		jobs <- i
	}
	close(jobs)
	wg.Wait()
	if recd != nil {
		f, err := os.Create(os.Args[7])
		if err != nil {
			panic(err)
		}
		enc := json.NewEncoder(f)
		for i := range behs {
			if evs, ok := recd.byIdx[i]; ok {
				enc.Encode(map[string]interface{}{"ev": "Reset"})
				for _, ev := range evs {
					enc.Encode(ev)
				}
				recd.n += len(evs) + 1
			}
		}
		f.Close()
	}
	var sample interface{}
	if len(behs) > 0 {
		sb := behs[len(behs)/2]
		var acts []string
		for _, s := range sb {
			acts = append(acts, fmt.Sprintf("%s%v->%v", s.Act(), s.Args(), s["res"]))
		}
		sample = map[string]interface{}{"behaviour": acts, "committed": sb[len(sb)-1]["db"]}
	}
	extra := map[string]interface{}{"runs": runs, "steps": steps, "agree": agree, "mode": "replay", "variants": os.Args[6], "ok_per_variant": perVariant,
		"max_cached_keys_per_variant": cacheMax}
	if recd != nil {
		extra["events"] = recd.n
	}
	rep.Summary(len(behs), extra, sample)
	rep.Flush()
}
