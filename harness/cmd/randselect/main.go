// Driver for spec/Consensus/RandSelect.tla (C24) on the real dpos/state arbiter selection.
//
//	randselect replay <behaviours.jsonl> <hashes>
//	    Every interleaving TLC enumerated is replayed with real goroutines for <hashes> block
//	    hashes: the selection runs in its own goroutine and blocks in the verif hook between
//	    seeding and drawing, a second goroutine calls math/rand's top-level functions
//	    (Int63, Uint32, Intn, Perm, Float64, Seed) exactly where the behaviour has its noise
//	    steps.  Targets: getCandidateIndexAtRandom, getSortedProducersWithRandom (the order
//	    the next arbiters are taken from) and getRandomDposV2Producers.  The result must be
//	    the interference-free one: for the candidate index that is
//	    rand.New(rand.NewSource(seed)).Intn(n) computed here from the block hash.
//	    Behaviours of variant "Global" are also run on a transcription of
//	    rand.Seed(seed); rand.Intn(n) kept in this driver: it must deviate exactly as the
//	    model of the global generator predicts, which shows that the gate really places the
//	    noise inside the window.
//	randselect equiv <n>
//	    rand.Seed(s) + top-level draws and rand.New(rand.NewSource(s)) produce the same stream,
//	    for n seeds.
package main

import (
	"fmt"
	"math/rand"
	"os"
	"reflect"
	"strconv"
	"time"

	"github.com/elastos/Elastos.ELA/common"
	"github.com/elastos/Elastos.ELA/common/config"
	"github.com/elastos/Elastos.ELA/core/checkpoint"
	"github.com/elastos/Elastos.ELA/core/types"
	"github.com/elastos/Elastos.ELA/dpos/state"
	"verif/harness/internal/cons"
	"verif/harness/internal/rep"
)

// ---------------------------------------------------------------- noise

const otherSeed = 424242

// one noise operation on the process-global source / on a private generator
// that models it.  k selects the kind of draw.
func noiseGlobal(op string, k int) {
	if op == "NoiseSeed" {
		rand.Seed(otherSeed)
		return
	}
	switch k % 5 {
	case 0:
		rand.Int63() // treap priorities, p2p nonces
	case 1:
		rand.Uint32()
	case 2:
		rand.Intn(1000) // address manager buckets
	case 3:
		rand.Perm(3)
	case 4:
		rand.Float64()
	}
}

func noiseModel(r *rand.Rand, op string, k int) *rand.Rand {
	if op == "NoiseSeed" {
		return rand.New(rand.NewSource(otherSeed))
	}
	switch k % 5 {
	case 0:
		r.Int63()
	case 1:
		r.Uint32()
	case 2:
		r.Intn(1000)
	case 3:
		r.Perm(3)
	case 4:
		r.Float64()
	}
	return r
}

type noiseCmd struct {
	op string
	k  int
}

var noiseCh = make(chan noiseCmd)
var noiseAck = make(chan struct{})

func noiseGoroutine() {
	for c := range noiseCh {
		noiseGlobal(c.op, c.k)
		noiseAck <- struct{}{}
	}
}

func doNoise(op string, k int) {
	noiseCh <- noiseCmd{op, k}
	<-noiseAck
}

// ---------------------------------------------------------------- gate

var entered = make(chan string)
var release = make(chan struct{})
var armed bool

func hook(point string) {
	if armed {
		entered <- point
		<-release
	}
}

// ---------------------------------------------------------------- targets

type target struct {
	name  string
	a     *state.Arbiters
	block *types.Block // what getBlockByHeight returns
	run   func() (interface{}, error)
	// n of Intn(n) for the single-draw target, 0 otherwise
	n int
}

func newArbiters(params *config.Configuration) *state.Arbiters {
	a, err := state.NewArbitrators(params, nil, nil, nil, nil, nil, nil, nil, nil, checkpoint.NewManager(params))
	if err != nil {
		panic(err)
	}
	return a
}

const height = 1000000

func (t *target) register() {
	t.a.RegisterFunction(func() uint32 { return height }, func() *common.Uint256 { return &common.Uint256{} },
		func(h uint32) (*types.Block, error) { return t.block, nil }, nil)
}

func candidateTarget() *target {
	params := config.GetDefaultParams()
	params.DPoSConfiguration.NormalArbitratorsCount = 24
	params.DPoSConfiguration.CandidatesCount = 72
	t := &target{name: "candidate-index", a: newArbiters(params), n: 37}
	t.register()
	// 60 voted producers, none unclaimed: 60 - 0 - 23 = 37 candidates to choose from
	t.run = func() (interface{}, error) { return t.a.VerifCandidateIndexAtRandom(height, 0, 60) }
	return t
}

func sortedTarget() *target {
	params := config.GetDefaultParams()
	params.DPoSConfiguration.NormalArbitratorsCount = 6
	params.DPoSConfiguration.CandidatesCount = 72
	params.DPoSConfiguration.NoCRCDPOSNodeHeight = 10
	t := &target{name: "sorted-producers", a: newArbiters(params)}
	t.register()
	for i := 0; i < 30; i++ {
		t.a.State.VerifAddActiveProducer(cons.DetKey("c24-owner", i).Pub, cons.DetKey("c24-node", i).Pub,
			"p"+strconv.Itoa(i), common.Fixed64(1000+(i%7)*100), 0) // ties: the order must come from the keys
	}
	t.n = 30 - 0 - 5
	t.run = func() (interface{}, error) {
		t.a.LastRandomCandidateHeight = 0
		t.a.LastRandomCandidateOwner = ""
		return t.a.VerifSortedProducersWithRandom(height, 0)
	}
	return t
}

func v2Target() *target {
	params := config.GetDefaultParams()
	params.DPoSConfiguration.NormalArbitratorsCount = 4
	params.DPoSConfiguration.CRCArbiters = params.DPoSConfiguration.CRCArbiters[:2]
	params.DPoSV2EffectiveVotes = 10
	t := &target{name: "dposv2-producers", a: newArbiters(params)}
	t.register()
	for i := 0; i < 14; i++ {
		t.a.State.VerifAddActiveProducer(cons.DetKey("c24v2-owner", i).Pub, cons.DetKey("c24v2-node", i).Pub,
			"q"+strconv.Itoa(i), 0, common.Fixed64(1000+100*(i%5))) // ties as well
	}
	t.run = func() (interface{}, error) {
		return t.a.VerifRandomDposV2Producers(height, 0, map[common.Uint168]state.ArbiterMember{})
	}
	return t
}

// the legacy selection: transcription of getCandidateIndexAtRandom before it
// got a private generator (self-check of gate and model, see header)
func legacyTarget() *target {
	t := &target{name: "legacy-global-transcription", n: 37}
	t.run = func() (interface{}, error) {
		seed := seedOf(t.block.Hash())
		rand.Seed(seed)
		hook("candidate-index")
		return rand.Intn(t.n), nil
	}
	return t
}

func seedOf(h common.Uint256) int64 {
	s, _, _ := state.Readi64(h[24:])
	return s
}

func blockNo(i int) *types.Block {
	b := &types.Block{}
	b.Header.Version = 1
	b.Header.Height = height - 1
	b.Header.Timestamp = uint32(1600000000 + i)
	b.Header.Nonce = uint32(7919 * (i + 1))
	return b
}

// ---------------------------------------------------------------- one interleaving

type result struct {
	v   interface{}
	err error
	pan interface{}
}

// runInterleaved executes target t under the noise schedule of behaviour b and
// returns its result plus the prediction of the global-generator model for a
// single Intn(t.n) (valid for single-draw targets).
func runInterleaved(t *target, b rep.Behaviour, seed int64) (result, int, bool) {
	model := rand.New(rand.NewSource(seed)) // state of g from SelSeed on, if the selection seeds g
	resCh := make(chan result, 1)
	inWindow := false
	var res result
	got := false
	k := 0
	for _, st := range b {
		switch st.Act() {
		case "NoiseDraw", "NoiseSeed":
			doNoise(st.Act(), k)
			if inWindow {
				model = noiseModel(model, st.Act(), k)
			}
			k++
		case "SelSeed":
			armed = true
			go func() {
				var r result
				defer func() {
					if p := recover(); p != nil {
						r.pan = p
					}
					resCh <- r
				}()
				r.v, r.err = t.run()
			}()
			select {
			case <-entered:
				inWindow = true
			case res = <-resCh: // returned without reaching the hook
				got = true
			case <-time.After(20 * time.Second):
				panic("selection did not reach the hook")
			}
		case "SelDraw", "SelDrawInterfered":
			if inWindow {
				armed = false
				release <- struct{}{}
				res = <-resCh
				got = true
				inWindow = false
			}
		}
	}
	openEnded := inWindow
	if inWindow { // behaviour ended inside the window: let the selection finish
		armed = false
		release <- struct{}{}
		res = <-resCh
		got = true
	}
	armed = false
	pred := -1
	if t.n > 0 {
		pred = model.Intn(t.n)
	}
	if !got {
		return result{err: fmt.Errorf("selection not started in this behaviour")}, pred, openEnded
	}
	return res, pred, openEnded
}

func replay(path string, hashes int) {
	behs := rep.ReadBehaviours(path)
	state.VerifHookC24 = hook
	go noiseGoroutine()
	targets := []*target{candidateTarget(), sortedTarget(), v2Target()}
	legacy := legacyTarget()
	runs, legacyRuns, legacyDeviated, devBehaviours := 0, 0, 0, 0
	var sample interface{}
	for _, b := range behs {
		started := false
		for _, st := range b {
			if st.Act() == "SelSeed" {
				started = true
			}
		}
		if !started {
			continue
		}
		last := b[len(b)-1]
		variant := rep.Str(last.Args(), "variant")
		dev := rep.Bool(rep.Map(last, "exp"), "dev")
		if variant == "Global" && dev {
			devBehaviours++
		}
		acts := make([]string, len(b))
		for i, st := range b {
			acts[i] = st.Act()
		}
		for h := 0; h < hashes; h++ {
			blk := blockNo(h)
			for _, t := range targets {
				t.block = blk
				seed := seedOf(blk.Hash())
				if t.name == "dposv2-producers" {
					seed = seedOf(blk.HashWithAux())
				}
				// interference-free reference: same call, nobody else running
				ref := func() (r result) {
					defer func() {
						if p := recover(); p != nil {
							r.pan = p
						}
					}()
					r.v, r.err = t.run()
					return
				}()
				res, globalPred, _ := runInterleaved(t, b, seed)
				runs++
				info := map[string]interface{}{"target": t.name, "interleaving": acts, "block": h, "seed": seed,
					"result": fmt.Sprint(res.v), "interference_free": fmt.Sprint(ref.v)}
				if res.pan != nil || ref.pan != nil || res.err != nil || ref.err != nil {
					rep.Mismatch(fmt.Sprintf("selection failed: %v %v %v %v", res.pan, ref.pan, res.err, ref.err), info)
					continue
				}
				want := ref.v
				if t.name == "candidate-index" {
					// a function of chain data only: the first draw of the stream of the block-hash seed
					want = rand.New(rand.NewSource(seed)).Intn(t.n)
					if ref.v != want {
						rep.Violation("C24:candidate-index:not-seed-determined", fmt.Sprintf("without any interference "+
							"getCandidateIndexAtRandom returns %v, the stream of seed %d starts with %v", ref.v, seed, want), info)
						continue
					}
				}
				if !reflect.DeepEqual(res.v, want) {
					key := "C24:" + t.name + ":interference"
					if t.n > 0 && t.name == "candidate-index" && res.v == globalPred {
						key = "C24:candidate-index:global-rand"
					}
					rep.Violation(key, fmt.Sprintf("%s for the same block hash returns %v when another goroutine uses math/rand "+
						"during the selection (%v) and %v when nothing else runs", t.name, res.v, acts, want), info)
					continue
				}
				if sample == nil && dev && t.name == "candidate-index" {
					sample = map[string]interface{}{"interleaving": acts, "seed": seed, "index": res.v,
						"note": "noise inside the seed..draw window, result unchanged"}
				}
			}
			if variant == "Global" {
				// gate / model self-check on the transcription of the old code
				legacy.block = blk
				seed := seedOf(blk.Hash())
				res, pred, openEnded := runInterleaved(legacy, b, seed)
				legacyRuns++
				free := rand.New(rand.NewSource(seed)).Intn(legacy.n)
				info := map[string]interface{}{"interleaving": acts, "seed": seed, "result": res.v, "global_model": pred, "free": free}
				if res.v != pred {
					rep.Mismatch("the global-generator model does not predict rand.Seed+rand.Intn under this interleaving "+
						"(gate or stream equivalence broken)", info)
				} else if !dev && !openEnded && res.v != free {
					rep.Mismatch("the spec sees no interference in this interleaving but the global transcription deviates", info)
				}
				if res.v != free {
					legacyDeviated++
				}
			}
		}
	}
	rep.Summary(runs, map[string]interface{}{"behaviours": len(behs), "hashes": hashes, "legacy_runs": legacyRuns,
		"legacy_deviated": legacyDeviated, "global_dev_behaviours": devBehaviours}, sample)
}

func equiv(n int) {
	rng := rand.New(rand.NewSource(rep.Seed()*31 + 24))
	bad := 0
	for i := 0; i < n; i++ {
		var s int64
		switch i % 4 {
		case 0:
			s = rng.Int63()
		case 1:
			s = -rng.Int63()
		case 2:
			s = int64(i) - int64(n/2)
		default:
			s = seedOf(blockNo(i).Hash())
		}
		rand.Seed(s)
		r := rand.New(rand.NewSource(s))
		for _, m := range []int{37, 73, 2, 1000, 1 << 20} {
			if g, p := rand.Intn(m), r.Intn(m); g != p {
				bad++
				rep.Mismatch(fmt.Sprintf("seed %d: rand.Seed+rand.Intn(%d)=%d but rand.New(rand.NewSource).Intn=%d", s, m, g, p), nil)
			}
		}
		if g, p := rand.Int63(), r.Int63(); g != p {
			bad++
			rep.Mismatch(fmt.Sprintf("seed %d: streams differ", s), nil)
		}
	}
	rep.Summary(n, map[string]interface{}{"stream_differences": bad},
		map[string]interface{}{"equivalence": "rand.Seed(s)+top-level draws == rand.New(rand.NewSource(s)) draws", "seeds": n})
}

func main() {
	defer rep.Flush()
	if len(os.Args) >= 4 && os.Args[1] == "replay" {
		n, _ := strconv.Atoi(os.Args[3])
		replay(os.Args[2], n)
		return
	}
	if len(os.Args) >= 3 && os.Args[1] == "equiv" {
		n, _ := strconv.Atoi(os.Args[2])
		equiv(n)
		return
	}
	fmt.Fprintln(os.Stderr, "usage: randselect replay <behaviours.jsonl> <hashes> | randselect equiv <n>")
	os.Exit(3)
}
