// Case driver for spec/Chain/Value.tla (C01): every output vector is lifted to
// real Fixed64 amounts (hi * 2^60 + lo * 0.01 ELA), put into a signed transfer
// spending a real 0.1 ELA output, and offered to the node through the
// transaction checks, the mempool and the block checks.
//
//	value run <cases.jsonl>
package main

import (
	"fmt"
	"os"

	"github.com/elastos/Elastos.ELA/common"
	"github.com/elastos/Elastos.ELA/core"
	"github.com/elastos/Elastos.ELA/core/contract"
	"github.com/elastos/Elastos.ELA/core/types"
	common2 "github.com/elastos/Elastos.ELA/core/types/common"
	"github.com/elastos/Elastos.ELA/core/types/functions"
	"github.com/elastos/Elastos.ELA/core/types/interfaces"
	"github.com/elastos/Elastos.ELA/core/types/outputpayload"
	"github.com/elastos/Elastos.ELA/core/types/payload"
	"verif/harness/internal/rep"
	"verif/harness/internal/stack"
)

const unit = common.Fixed64(1000000) // 0.01 ELA
const inUnits = 10

func main() {
	if len(os.Args) < 3 {
		fmt.Fprintln(os.Stderr, "usage: value run <cases.jsonl>")
		os.Exit(3)
	}
	stack.InitGlobals()
	defer stack.CleanupGlobals()
	n, err := stack.New(stack.Options{})
	if err != nil {
		fmt.Fprintln(os.Stderr, err)
		os.Exit(3)
	}
	defer n.Close()
	k, a, bk := stack.KeyFromSeed(400), stack.KeyFromSeed(401), stack.KeyFromSeed(402)
	parent := n.Genesis()
	var prefix []*types.Block
	for i := 0; i < 3; i++ {
		b, err := n.NewBlock(parent, nil, stack.BlockOpts{CoinbaseTo: &k.Hash})
		if err == nil {
			_, _, err = n.Process(b)
		}
		if err != nil {
			fmt.Fprintln(os.Stderr, "prefix:", err)
			os.Exit(3)
		}
		prefix = append(prefix, b)
		parent = b
	}
	// funding transaction: one output of exactly inUnits units
	cb := prefix[0].Transactions[0]
	f1 := common2.OutPoint{TxID: cb.Hash(), Index: 1}
	v1 := cb.Outputs()[1].Value
	fund, err := stack.Transfer([]common2.OutPoint{f1}, []stack.Out{{To: k.Hash, Value: inUnits * unit}, {To: bk.Hash, Value: v1 - inUnits*unit - 10000}},
		[]*stack.Key{k}, 1)
	if err != nil {
		fmt.Fprintln(os.Stderr, err)
		os.Exit(3)
	}
	fb, err := n.NewBlock(parent, []interfaces.Transaction{fund}, stack.BlockOpts{Fees: 10000})
	if err == nil {
		_, _, err = n.Process(fb)
	}
	if err != nil {
		fmt.Fprintln(os.Stderr, "funding block:", err)
		os.Exit(3)
	}
	parent = fb
	src := common2.OutPoint{TxID: fund.Hash(), Index: 0}
	tipNode := n.Chain.GetBestChain()
	cases := rep.ReadCases(os.Args[2])
	agree, wraps, xrej := 0, 0, 0
	n.Params.NewCrossChainStartHeight = 1
	var sample interface{}
	for ci, c := range cases {
		var outs []stack.Out
		var sum common.Fixed64 // wraps like the node's arithmetic
		for _, o := range rep.List(c, "outs") {
			p := o.([]interface{})
			v := common.Fixed64(int64(p[0].(float64)))<<60 + common.Fixed64(int64(p[1].(float64)))*unit
			outs = append(outs, stack.Out{To: a.Hash, Value: v})
			sum += v
		}
		tx, err := stack.Transfer([]common2.OutPoint{src}, outs, []*stack.Key{k}, uint64(1000+ci))
		if err != nil {
			rep.Mismatch("tx factory: "+err.Error(), c)
			continue
		}
		exact := rep.Bool(c, "exact")
		if rep.Bool(c, "wraps") {
			wraps++
		}
		height := n.Chain.GetHeight() + 1
		verdicts := map[string]error{}
		var pan interface{}
		func() {
			defer func() { pan = recover() }()
			// (1) the transaction checks, as AppendToTxPool and checkTxsContext call them
			if e := n.Chain.CheckTransactionSanity(height, tx); e != nil {
				verdicts["tx-checks"] = e
			} else if _, e := n.Chain.CheckTransactionContext(height, tx, 0, 0); e != nil {
				verdicts["tx-checks"] = e
			} else {
				verdicts["tx-checks"] = nil
			}
			// (2) the mempool
			if e := n.Pool.AppendToTxPool(tx); e != nil {
				verdicts["mempool"] = e
			} else {
				verdicts["mempool"] = nil
				n.Pool.CleanSubmittedTransactions(&types.Block{Transactions: []interfaces.Transaction{prefix[1].Transactions[0], tx}})
				if n.Pool.GetTransactionCount() != 0 {
					rep.Mismatch("could not clear the pool between cases", c)
				}
			}
			// (3) a block carrying the transaction; the coinbase claims the fee the node computes
			fee := inUnits*unit - sum
			blk, e := n.NewBlock(parent, []interfaces.Transaction{tx}, stack.BlockOpts{Fees: fee})
			if e != nil {
				verdicts["block"] = e
			} else if e := n.Chain.CheckBlockSanity(blk); e != nil {
				verdicts["block"] = e
			} else if e := n.Chain.CheckBlockContext(blk, tipNode); e != nil {
				verdicts["block"] = e
			} else {
				verdicts["block"] = nil
			}
		}()
		// (4) another transaction type with its own CheckTransactionOutput: a cross-chain
		// transfer (payload v1) carrying the same amounts, first output to a side chain
		func() {
			defer func() {
				if r := recover(); r != nil {
					pan = r
				}
			}()
			var xouts []*common2.Output
			for i, o := range outs {
				if i == 0 {
					var xh common.Uint168
					copy(xh[:], []byte("Kverif-c01-side-chain"))
					xh[0] = byte(contract.PrefixCrossChain)
					xouts = append(xouts, &common2.Output{AssetID: core.ELAAssetID, Value: o.Value, ProgramHash: xh, Type: common2.OTCrossChain,
						Payload: &outputpayload.CrossChainOutput{Version: outputpayload.CrossChainOutputVersion,
							TargetAddress: "EUmAvDLqjLLwHUjXaGDFMV6HKRrnGUhVxD", TargetAmount: o.Value - n.Params.MinCrossChainTxFee}})
				} else {
					xouts = append(xouts, &common2.Output{AssetID: core.ELAAssetID, Value: o.Value, ProgramHash: o.To, Type: common2.OTNone,
						Payload: &outputpayload.DefaultOutput{}})
				}
			}
			attr := common2.NewAttribute(common2.Nonce, []byte(fmt.Sprint("x", ci)))
			xtx := functions.CreateTransaction(common2.TxVersion09, common2.TransferCrossChainAsset, payload.TransferCrossChainVersionV1,
				&payload.TransferCrossChainAsset{}, []*common2.Attribute{&attr}, []*common2.Input{{Previous: src}}, xouts, 0, nil)
			if e := stack.Sign(xtx, []*stack.Key{k}); e != nil {
				return
			}
			if e := n.Chain.CheckTransactionSanity(height, xtx); e != nil {
				verdicts["cross-chain-transfer"] = e
			} else if _, e := n.Chain.CheckTransactionContext(height, xtx, 0, 0); e != nil {
				verdicts["cross-chain-transfer"] = e
			} else {
				verdicts["cross-chain-transfer"] = nil
			}
		}()
		if pan != nil {
			rep.Violation("C03:panic:value-checks", fmt.Sprintf("validation panicked: %v", pan), c)
			continue
		}
		ok := true
		for _, path := range []string{"tx-checks", "mempool", "block", "cross-chain-transfer"} {
			e, ran := verdicts[path]
			if !ran {
				continue
			}
			c2 := map[string]interface{}{"case": c, "path": path, "error": fmt.Sprint(e)}
			switch {
			case e == nil && !exact:
				key := "C01:accepts-value-creation:" + path
				if rep.Bool(c, "wraps") {
					key = "C01:output-sum-overflow:" + path
				}
				rep.Violation(key, fmt.Sprintf("%s accepted outputs %v (hi*2^60 + lo*0.01 ELA) spending 0.1 ELA: exact fee is negative", path, rep.List(c, "outs")), c2)
				ok = false
			case e != nil && exact && path == "cross-chain-transfer":
				xrej++ // refused by a rule of its own (amounts below the cross-chain minimum ...): inconclusive
			case e != nil && exact && path != "block":
				rep.Mismatch(fmt.Sprintf("%s rejected (%v) a transaction whose outputs are covered by its input", path, e), c2)
				ok = false
			case e != nil && exact && path == "block":
				rep.Mismatch(fmt.Sprintf("block checks rejected (%v) a block with a covered transaction", e), c2)
				ok = false
			}
		}
		if ok {
			agree++
		}
		if sample == nil && rep.Bool(c, "wraps") {
			sample = c
		}
	}
	rep.Summary(len(cases), map[string]interface{}{"agree": agree, "overflow_cases": wraps, "cross_chain_rejected_for_own_rules": xrej}, sample)
}
