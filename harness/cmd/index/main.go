// Replay driver for spec/Chain/Index.tla: ChainStore.SaveBlock / RollbackBlock on
// the real store of a full-stack node, all persistent indexes compared after
// every step (C13).
//
//	index replay <behaviours.jsonl> [i n]
package main

import (
	"bytes"
	"fmt"
	"os"
	"sort"
	"strconv"
	"strings"

	"github.com/elastos/Elastos.ELA/blockchain"
	"github.com/elastos/Elastos.ELA/common"
	"github.com/elastos/Elastos.ELA/core"
	pg "github.com/elastos/Elastos.ELA/core/contract/program"
	"github.com/elastos/Elastos.ELA/core/types"
	common2 "github.com/elastos/Elastos.ELA/core/types/common"
	"github.com/elastos/Elastos.ELA/core/types/functions"
	"github.com/elastos/Elastos.ELA/core/types/interfaces"
	"github.com/elastos/Elastos.ELA/core/types/outputpayload"
	"github.com/elastos/Elastos.ELA/core/types/payload"
	"verif/harness/internal/rep"
	"verif/harness/internal/stack"
)

func pubBytes(k *stack.Key) []byte {
	b, _ := k.Acc.PublicKey.EncodePoint(true)
	return b
}

func h256(tag string) common.Uint256 {
	var h common.Uint256
	copy(h[:], []byte("verif-hash-"+tag))
	return h
}

type world struct {
	n     *stack.Node
	keys  map[string]*stack.Key
	ops   map[string]common2.OutPoint
	vals  map[string]common.Fixed64
	txs   map[string]interfaces.Transaction
	nodes []*blockchain.BlockNode // nodes of connected blocks (tip last)
	blks  []*types.Block
	built map[string]*types.Block // block key + parent hash -> block
	nodeOf map[common.Uint256]*blockchain.BlockNode
}

var templates = []string{"P1", "P2", "P3", "W0", "W1", "W2", "W3", "W4", "R1", "CP", "CR1", "CR2", "CT"}
var tx3Hashes = []string{"h1", "h2", "h3", "h4", "h5", "h6"}
var draftHashes = []string{"g1", "g2", "g3", "g4"}
var draftData = map[string][]byte{"g1": []byte("draft one"), "g2": []byte("opinion"), "g3": []byte("message"), "g4": []byte("secretary opinion")}

func out(to common.Uint168, v common.Fixed64) *common2.Output {
	return &common2.Output{AssetID: core.ELAAssetID, Value: v, ProgramHash: to, Type: common2.OTNone, Payload: &outputpayload.DefaultOutput{}}
}

func newWorld() (*world, error) {
	n, err := stack.New(stack.Options{})
	if err != nil {
		return nil, err
	}
	w := &world{n: n, keys: map[string]*stack.Key{}, ops: map[string]common2.OutPoint{}, vals: map[string]common.Fixed64{},
		txs: map[string]interfaces.Transaction{}, built: map[string]*types.Block{}, nodeOf: map[common.Uint256]*blockchain.BlockNode{}}
	for i, k := range []string{"K", "A", "B"} {
		w.keys[k] = stack.KeyFromSeed(uint64(200 + i))
	}
	parent := n.Genesis()
	var prefix []*types.Block
	for i := 0; i < 3; i++ {
		b, err := n.NewBlock(parent, nil, stack.BlockOpts{CoinbaseTo: &w.keys["K"].Hash})
		if err == nil {
			_, _, err = n.Process(b)
		}
		if err != nil {
			return nil, fmt.Errorf("prefix: %v", err)
		}
		prefix = append(prefix, b)
		parent = b
	}
	for i, f := range []string{"F1:0", "F2:0"} {
		cb := prefix[i].Transactions[0]
		w.ops[f] = common2.OutPoint{TxID: cb.Hash(), Index: 1}
		w.vals[f] = cb.Outputs()[1].Value
	}
	A, B := w.keys["A"].Hash, w.keys["B"].Hash
	mk := func(name string, typ common2.TxType, pv byte, pl interfaces.Payload, ins []string, outs []*common2.Output) {
		var inputs []*common2.Input
		for _, in := range ins {
			inputs = append(inputs, &common2.Input{Previous: w.ops[in]})
		}
		attr := common2.NewAttribute(common2.Nonce, []byte("nonce-"+name))
		tx := functions.CreateTransaction(common2.TxVersion09, typ, pv, pl, []*common2.Attribute{&attr}, inputs, outs, 0,
			[]*pg.Program{{Code: w.keys["K"].Code, Parameter: []byte{1, 2}}})
		w.txs[name] = tx
		for i, o := range outs {
			k := fmt.Sprintf("%s:%d", name, i)
			w.ops[k] = common2.OutPoint{TxID: tx.Hash(), Index: uint16(i)}
			w.vals[k] = o.Value
		}
	}
	mk("P1", common2.TransferAsset, 0, &payload.TransferAsset{}, []string{"F1:0"}, []*common2.Output{out(A, 1000), out(B, 2000)})
	mk("P2", common2.TransferAsset, 0, &payload.TransferAsset{}, []string{"P1:0"}, []*common2.Output{out(A, 900), out(A, 0)})
	mk("P3", common2.TransferAsset, 0, &payload.TransferAsset{}, []string{"F2:0", "P1:1"}, []*common2.Output{out(B, 3000)})
	mk("W0", common2.WithdrawFromSideChain, payload.WithdrawFromSideChainVersion, &payload.WithdrawFromSideChain{
		BlockHeight: 7, GenesisBlockAddress: "XKUh4GLhFJiqAMTF6HyWQrV9pK9HcGUdfJ", SideChainTransactionHashes: []common.Uint256{h256("h1"), h256("h2")}},
		nil, []*common2.Output{out(A, 101)})
	wout := func(tag string, v common.Fixed64) *common2.Output {
		return &common2.Output{AssetID: core.ELAAssetID, Value: v, ProgramHash: A, Type: common2.OTWithdrawFromSideChain,
			Payload: &outputpayload.Withdraw{Version: 0, GenesisBlockAddress: "XKUh4GLhFJiqAMTF6HyWQrV9pK9HcGUdfJ", SideChainTransactionHash: h256(tag), TargetData: []byte{1}}}
	}
	mk("W1", common2.WithdrawFromSideChain, payload.WithdrawFromSideChainVersionV1, &payload.WithdrawFromSideChain{}, nil, []*common2.Output{wout("h3", 102)})
	mk("W2", common2.WithdrawFromSideChain, payload.WithdrawFromSideChainVersionV2, &payload.WithdrawFromSideChain{Signers: []uint8{0, 1, 2}}, nil, []*common2.Output{wout("h4", 103)})
	mk("W3", common2.WithdrawFromSideChain, payload.WithdrawFromSideChainVersionV1, &payload.WithdrawFromSideChain{}, nil,
		[]*common2.Output{out(B, 110), wout("h5", 111)})
	mk("W4", common2.WithdrawFromSideChain, payload.WithdrawFromSideChainVersionV2, &payload.WithdrawFromSideChain{Signers: []uint8{0, 1, 2}}, nil,
		[]*common2.Output{out(B, 112), wout("h6", 113)})
	mk("R1", common2.ReturnSideChainDepositCoin, 0, &payload.ReturnSideChainDepositCoin{}, nil, []*common2.Output{{
		AssetID: core.ELAAssetID, Value: 104, ProgramHash: A, Type: common2.OTReturnSideChainDepositCoin,
		Payload: &outputpayload.ReturnSideChainDeposit{Version: 0, GenesisBlockAddress: "XKUh4GLhFJiqAMTF6HyWQrV9pK9HcGUdfJ", DepositTransactionHash: h256("d1")}}})
	mk("CP", common2.CRCProposal, payload.CRCProposalVersion01, &payload.CRCProposal{ProposalType: payload.Normal, OwnerKey: pubBytes(w.keys["K"]),
		DraftHash: h256("g1"), DraftData: draftData["g1"], Budgets: []payload.Budget{{Type: payload.Imprest, Stage: 0, Amount: 10}}, Recipient: A,
		Signature: []byte{1}, CRCouncilMemberSignature: []byte{2}}, nil, []*common2.Output{out(A, 105)})
	mk("CR1", common2.CRCProposalReview, payload.CRCProposalReviewVersion01, &payload.CRCProposalReview{ProposalHash: h256("p"), VoteResult: payload.Approve,
		OpinionHash: h256("g2"), OpinionData: draftData["g2"], DID: A, Signature: []byte{3}}, nil, []*common2.Output{out(A, 106)})
	mk("CR2", common2.CRCProposalReview, payload.CRCProposalReviewVersion01, &payload.CRCProposalReview{ProposalHash: h256("p"), VoteResult: payload.Approve,
		OpinionHash: h256("g2"), OpinionData: draftData["g2"], DID: B, Signature: []byte{4}}, nil, []*common2.Output{out(A, 107)})
	mk("CT", common2.CRCProposalTracking, payload.CRCProposalTrackingVersion01, &payload.CRCProposalTracking{ProposalHash: h256("p"),
		MessageHash: h256("g3"), MessageData: draftData["g3"], Stage: 1, OwnerKey: pubBytes(w.keys["K"]), OwnerSignature: []byte{5},
		ProposalTrackingType: payload.Progress, SecretaryGeneralOpinionHash: h256("g4"), SecretaryGeneralOpinionData: draftData["g4"],
		SecretaryGeneralSignature: []byte{6}}, nil, []*common2.Output{out(A, 108)})
	tip := n.Chain.GetBestChain()
	w.nodes = []*blockchain.BlockNode{tip}
	w.blks = []*types.Block{parent}
	return w, nil
}

func blockKey(ts []interface{}) string {
	var s []string
	for _, t := range ts {
		s = append(s, t.(string))
	}
	return strings.Join(s, ",")
}

func (w *world) connect(ts []interface{}) error {
	parent := w.blks[len(w.blks)-1]
	pn := w.nodes[len(w.nodes)-1]
	key := blockKey(ts) + "@" + parent.Hash().String()
	b, ok := w.built[key]
	if !ok {
		var txs []interfaces.Transaction
		for _, t := range ts {
			txs = append(txs, w.txs[t.(string)])
		}
		var err error
		b, err = w.n.NewBlock(parent, txs, stack.BlockOpts{})
		if err != nil {
			return err
		}
		w.built[key] = b
	}
	hash := b.Hash()
	node := w.nodeOf[hash]
	if node == nil {
		node = blockchain.NewBlockNode(&b.Header, &hash)
		node.Parent = pn
		node.Height = b.Height
		node.WorkSum.Add(pn.WorkSum, node.WorkSum)
		w.nodeOf[hash] = node
	}
	if err := w.n.Store.SaveBlock(b, node, nil, blockchain.CalcPastMedianTime(pn)); err != nil {
		return err
	}
	w.nodes = append(w.nodes, node)
	w.blks = append(w.blks, b)
	return nil
}

func (w *world) disconnect() error {
	node := w.nodes[len(w.nodes)-1]
	b := w.blks[len(w.blks)-1]
	if err := w.n.Store.RollbackBlock(b, node, nil, blockchain.CalcPastMedianTime(node.Parent)); err != nil {
		return err
	}
	w.nodes = w.nodes[:len(w.nodes)-1]
	w.blks = w.blks[:len(w.blks)-1]
	return nil
}

type proj struct {
	Utxo   []string
	Addr   map[string][]string
	Tx3    []string
	RetDep []string
	Drafts []string
	TxH    map[string]int
	Notes  []string
}

func (w *world) project() proj {
	p := proj{Addr: map[string][]string{}, TxH: map[string]int{}, Utxo: []string{}, Tx3: []string{}, RetDep: []string{}, Drafts: []string{}}
	db := w.n.Store.GetFFLDB()
	var names []string
	for k := range w.ops {
		names = append(names, k)
	}
	sort.Strings(names)
	rev := map[common2.OutPoint]string{}
	for _, k := range names {
		op := w.ops[k]
		rev[op] = k
		idxs, err := db.GetUnspent(op.TxID)
		if err != nil {
			continue
		}
		c := 0
		for _, i := range idxs {
			if i == op.Index {
				c++
			}
		}
		if c > 1 {
			p.Notes = append(p.Notes, "GetUnspent lists "+k+" more than once")
		}
		if c > 0 {
			p.Utxo = append(p.Utxo, k)
		}
	}
	for _, a := range []string{"A", "B", "K"} {
		us, err := db.GetUTXO(&w.keys[a].Hash)
		if err != nil {
			p.Notes = append(p.Notes, "GetUTXO: "+err.Error())
		}
		lst := []string{}
		for _, u := range us {
			k, ok := rev[common2.OutPoint{TxID: u.TxID, Index: u.Index}]
			if !ok {
				continue // coinbase outputs of the prefix / of the behaviour's own blocks
			}
			if u.Value != w.vals[k] {
				p.Notes = append(p.Notes, fmt.Sprintf("GetUTXO value of %s is %d, output value %d", k, u.Value, w.vals[k]))
			}
			if u.Value == 0 {
				p.Notes = append(p.Notes, "zero-value output "+k+" listed for address "+a)
			}
			lst = append(lst, k)
		}
		sort.Strings(lst)
		for i := 1; i < len(lst); i++ {
			if lst[i] == lst[i-1] {
				p.Notes = append(p.Notes, "GetUTXO lists "+lst[i]+" twice")
			}
		}
		p.Addr[a] = lst
	}
	for _, h := range tx3Hashes {
		hh := h256(h)
		if db.IsTx3Exist(&hh) {
			p.Tx3 = append(p.Tx3, h)
		}
	}
	d1 := h256("d1")
	if db.IsSideChainReturnDepositExist(&d1) {
		p.RetDep = append(p.RetDep, "d1")
	}
	for _, g := range draftHashes {
		hh := h256(g)
		data, err := db.GetProposalDraftDataByDraftHash(&hh)
		if err == nil && len(data) > 0 {
			if !bytes.Equal(data, draftData[g]) {
				p.Notes = append(p.Notes, "draft data of "+g+" differs from what was stored")
			}
			p.Drafts = append(p.Drafts, g)
		}
	}
	base := int(w.blks[0].Height)
	for _, t := range templates {
		tx, hgt, err := db.GetTransaction(w.txs[t].Hash())
		if err != nil || tx == nil {
			p.TxH[t] = 0
			continue
		}
		if tx.Hash() != w.txs[t].Hash() {
			p.Notes = append(p.Notes, "GetTransaction returned another transaction for "+t)
		}
		var b1, b2 bytes.Buffer
		tx.Serialize(&b1)
		w.txs[t].Serialize(&b2)
		if !bytes.Equal(b1.Bytes(), b2.Bytes()) {
			p.Notes = append(p.Notes, "GetTransaction("+t+") does not serialize to the stored bytes")
		}
		p.TxH[t] = int(hgt) - base
	}
	return p
}

func strs(v []interface{}) []string {
	r := []string{}
	for _, x := range v {
		switch y := x.(type) {
		case string:
			r = append(r, y)
		case []interface{}:
			r = append(r, fmt.Sprintf("%v:%v", y[0], int(y[1].(float64))))
		}
	}
	sort.Strings(r)
	return r
}

func eq(a, b []string) bool { return strings.Join(a, ",") == strings.Join(b, ",") }

func replayOne(b rep.Behaviour) bool {
	w, err := newWorld()
	if err != nil {
		rep.Mismatch("cannot build node: "+err.Error(), nil)
		return false
	}
	defer w.n.Close()
	for i, st := range b {
		var err error
		var pan interface{}
		func() {
			defer func() { pan = recover() }()
			if st.Act() == "Connect" {
				err = w.connect(rep.List(st, "block"))
			} else {
				err = w.disconnect()
			}
		}()
		c := map[string]interface{}{"behaviour": b[:i+1]}
		if pan != nil {
			rep.Violation("C03:panic:"+st.Act(), fmt.Sprintf("%s panicked: %v", st.Act(), pan), c)
			return false
		}
		if err != nil {
			rep.Mismatch(fmt.Sprintf("%s failed: %v", st.Act(), err), c)
			return false
		}
		p := w.project()
		c["real"] = p
		kinds := blockKey(rep.List(st, "block"))
		tag := st.Act() + ":" + kinds
		bad := func(index, d string) bool {
			key := "C13:" + index + ":" + tag
			if index == "tx3" && os.Getenv("VERIF_INDEX_FOR") == "C33" {
				// run on behalf of C33 (a withdrawn hash is recorded for as long as it is on the active chain)
				key = "C33:withdrawn-hash-record:" + tag
			}
			rep.Violation(key, fmt.Sprintf("after %s %v (step %d): %s", st.Act(), rep.List(st, "block"), i, d), c)
			return false
		}
		if e := strs(rep.List(st, "utxo")); !eq(e, p.Utxo) {
			return bad("unspent", fmt.Sprintf("unspent outputs real %v, spec %v", p.Utxo, e))
		}
		for _, a := range []string{"A", "B", "K"} {
			if e := strs(rep.List(st, "addr"+a)); !eq(e, p.Addr[a]) {
				return bad("addr-utxo", fmt.Sprintf("per-address UTXO of %s real %v, spec %v", a, p.Addr[a], e))
			}
		}
		if e := strs(rep.List(st, "tx3")); !eq(e, p.Tx3) {
			return bad("tx3", fmt.Sprintf("recorded side-chain withdrawal hashes real %v, spec %v", p.Tx3, e))
		}
		if e := strs(rep.List(st, "retdep")); !eq(e, p.RetDep) {
			return bad("return-deposit", fmt.Sprintf("recorded deposit returns real %v, spec %v", p.RetDep, e))
		}
		// draft store: `drafts` is what the model of the code keeps; `lost` are hashes the
		// code-as-is variant drops although a transaction still on the chain carries them
		lost := strs(rep.List(st, "lost"))
		if e := strs(rep.List(st, "drafts")); !eq(e, p.Drafts) {
			return bad("drafts", fmt.Sprintf("stored proposal drafts real %v, spec %v", p.Drafts, e))
		}
		if len(lost) > 0 {
			rep.Violation("C13:drafts-shared-hash-removed", fmt.Sprintf(
				"after Disconnect %v: draft data %v is gone although a transaction still on the chain stored the same hash",
				rep.List(st, "block"), lost), c)
		}
		eh := rep.Map(st, "txh")
		for t := range eh {
			if rep.Int(eh, t) != p.TxH[t] {
				return bad("tx-location", fmt.Sprintf("location of %s real height %d, spec %d", t, p.TxH[t], rep.Int(eh, t)))
			}
		}
		if len(p.Notes) > 0 {
			return bad("query-consistency", strings.Join(p.Notes, "; "))
		}
	}
	return true
}

func main() {
	if len(os.Args) < 3 {
		fmt.Fprintln(os.Stderr, "usage: index replay <file> [i n]")
		os.Exit(3)
	}
	stack.InitGlobals()
	defer stack.CleanupGlobals()
	behs := rep.ReadBehaviours(os.Args[2])
	si, sn := 0, 1
	if len(os.Args) >= 5 {
		si, _ = strconv.Atoi(os.Args[3])
		sn, _ = strconv.Atoi(os.Args[4])
	}
	okN, cases, steps := 0, 0, 0
	var sample interface{}
	for i, b := range behs {
		if i%sn != si {
			continue
		}
		cases++
		steps += len(b)
		if replayOne(b) {
			okN++
		}
		if sample == nil && len(b) >= 3 {
			sample = b
		}
	}
	rep.Summary(cases, map[string]interface{}{"steps": steps, "agree": okN}, sample)
}
