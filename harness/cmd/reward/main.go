// Driver for spec/Consensus/Reward.tla (C27) on the real
// dpos/state (*Arbiters).distributeDPOSReward (verif export).
//
//	reward replay <cases.jsonl>   every case TLC enumerated: the three facts of the property are
//	                              evaluated on the real return values, per-payee amounts are
//	                              compared with the spec's exact arithmetic (float64 may lose
//	                              one sela per vote share)
//	reward random <n>             seeded random rounds of realistic size (up to 12 CRC + 24 DPoS
//	                              arbiters, 72 candidates, votes and rewards of mainnet magnitude,
//	                              zero-vote producers): the three facts only
package main

import (
	"encoding/hex"
	"fmt"
	"math/rand"
	"os"
	"reflect"
	"sort"
	"strconv"

	"github.com/elastos/Elastos.ELA/common"
	"github.com/elastos/Elastos.ELA/common/config"
	"github.com/elastos/Elastos.ELA/core/checkpoint"
	crstate "github.com/elastos/Elastos.ELA/cr/state"
	"github.com/elastos/Elastos.ELA/dpos/state"
	"verif/harness/internal/cons"
	"verif/harness/internal/rep"
)

const (
	hCommittee = 1000 // CRCommitteeStartHeight
	hClaim     = 2000 // CRClaimDPOSNodeStartHeight
	hNewCR     = 3000 // ChangeCommitteeNewCRHeight
)

type env struct {
	a      *state.Arbiters
	params *config.Configuration
	keys   map[string]cons.Key
	origin map[string]state.ArbiterMember // immutable members, built once
	crcs   map[string]state.ArbiterMember
	hashes map[string]common.Uint168
}

func (e *env) originArbiter(tag string, i int) state.ArbiterMember {
	k := tag + strconv.Itoa(i)
	if m, ok := e.origin[k]; ok {
		return m
	}
	m, err := state.NewOriginArbiter(e.key(tag, i).Pub)
	if err != nil {
		panic(err)
	}
	e.origin[k] = m
	return m
}

func (e *env) hashOf(tag string, i int) common.Uint168 {
	k := tag + strconv.Itoa(i)
	if h, ok := e.hashes[k]; ok {
		return h
	}
	h := progHash(e.key(tag, i).Pub)
	e.hashes[k] = h
	return h
}

func newEnv() *env {
	params := config.GetDefaultParams()
	params.CRConfiguration.CRCommitteeStartHeight = hCommittee
	params.CRConfiguration.CRClaimDPOSNodeStartHeight = hClaim
	params.CRConfiguration.ChangeCommitteeNewCRHeight = hNewCR
	a, err := state.NewArbitrators(params, nil, nil, nil, nil, nil, nil, nil, nil, checkpoint.NewManager(params))
	if err != nil {
		panic(err)
	}
	return &env{a: a, params: params, keys: map[string]cons.Key{}, origin: map[string]state.ArbiterMember{},
		crcs: map[string]state.ArbiterMember{}, hashes: map[string]common.Uint168{}}
}

func (e *env) key(tag string, i int) cons.Key {
	k := tag + strconv.Itoa(i)
	if v, ok := e.keys[k]; ok {
		return v
	}
	v := cons.DetKey("c27-"+tag, i)
	e.keys[k] = v
	return v
}

func progHash(pk []byte) common.Uint168 {
	h, err := state.GetOwnerKeyStandardProgramHash(pk)
	if err != nil {
		panic(err)
	}
	return *h
}

// a round as the driver builds it
type crcMember struct {
	votes            int64
	elected, claimed bool
}

type round struct {
	era              int
	pow              bool
	cfgCRC, cfgNorm  int
	crc              []crcMember
	dpos, cands      []int64
	reward           int64
	crcKey, dposKey  []common.Uint168 // payee of member i
	candKey          []common.Uint168
	fund, destroy    common.Uint168
	total            int64
	arbiters, cmembs []state.ArbiterMember
	rd               state.RewardData
}

func (e *env) build(r *round) {
	e.params.DPoSConfiguration.CRCArbiters = make([]string, r.cfgCRC)
	e.params.DPoSConfiguration.NormalArbitratorsCount = r.cfgNorm
	r.fund = *e.params.CRConfiguration.CRCProgramHash
	r.destroy = *e.params.DestroyELAProgramHash
	r.rd = state.RewardData{OwnerVotesInRound: map[common.Uint168]common.Fixed64{}}
	r.arbiters, r.cmembs = nil, nil
	r.crcKey, r.dposKey, r.candKey = nil, nil, nil
	for i, m := range r.crc {
		node := e.key("crcnode", i)
		payee := e.hashOf("crcowner", i)
		if !m.claimed {
			// the member runs on the node of a registered producer
			prod := e.key("crcproducer", i)
			e.a.State.NodeOwnerKeys[hex.EncodeToString(node.Pub)] = hex.EncodeToString(prod.Pub)
			if r.era == 3 {
				payee = e.hashOf("crcproducer", i)
				r.rd.OwnerVotesInRound[payee] = common.Fixed64(m.votes)
				r.rd.TotalVotesInRound += common.Fixed64(m.votes)
			}
		}
		ck := fmt.Sprintf("%d/%v/%v", i, m.elected, m.claimed)
		ar, ok := e.crcs[ck]
		if !ok {
			owner := e.key("crcowner", i)
			cm := &crstate.CRMember{MemberState: crstate.MemberElected}
			if !m.elected {
				cm.MemberState = crstate.MemberImpeached
			}
			cm.Info.Code = append(append([]byte{byte(len(owner.Pub))}, owner.Pub...), 0xac)
			if m.claimed {
				cm.DPOSPublicKey = node.Pub
			}
			var err error
			if ar, err = state.NewCRCArbiter(node.Pub, owner.Pub, cm, true); err != nil {
				panic(err)
			}
			e.crcs[ck] = ar
		}
		r.arbiters = append(r.arbiters, ar)
		r.crcKey = append(r.crcKey, payee)
	}
	for i, v := range r.dpos {
		ar := e.originArbiter("dpos", i)
		r.arbiters = append(r.arbiters, ar)
		h := ar.GetOwnerProgramHash()
		r.dposKey = append(r.dposKey, h)
		r.rd.OwnerVotesInRound[h] = common.Fixed64(v)
		r.rd.TotalVotesInRound += common.Fixed64(v)
	}
	for i, v := range r.cands {
		ar := e.originArbiter("cand", i)
		r.cmembs = append(r.cmembs, ar)
		h := ar.GetOwnerProgramHash()
		r.candKey = append(r.candKey, h)
		r.rd.OwnerVotesInRound[h] = common.Fixed64(v)
		r.rd.TotalVotesInRound += common.Fixed64(v)
	}
	r.total = int64(r.rd.TotalVotesInRound)
	e.a.VerifInstallRound(r.arbiters, r.cmembs, r.rd, r.pow)
}

// heights at both ends of the era (the rule is chosen by height alone)
func heights(era, n int) []uint32 {
	lo := []int{1, hCommittee, hClaim, hNewCR}[era]
	hi := []int{hCommittee, hClaim, hNewCR, 2 * hNewCR}[era]
	if era > 0 {
		lo += 2 * n
	}
	if era < 3 {
		hi += 2*n - 1
	}
	return []uint32{uint32(lo), uint32(hi)}
}

type outcome struct {
	m      map[common.Uint168]common.Fixed64
	change common.Fixed64
	err    error
	pan    interface{}
}

func (e *env) call(h uint32, reward int64) (o outcome) {
	defer func() {
		if p := recover(); p != nil {
			o.pan = p
		}
	}()
	o.m, o.change, o.err = e.a.VerifDistributeDPOSReward(h, common.Fixed64(reward))
	return
}

// facts evaluates the three facts of C27 on real return values; returns the
// violation key suffix ("" = all hold) and a description.
func facts(o outcome, reward int64) (string, string) {
	var keys []string
	for k := range o.m {
		keys = append(keys, k.String())
	}
	sort.Strings(keys)
	sum := int64(0)
	overflow := false
	for k, v := range o.m {
		if v < 0 {
			return "negative-payout", fmt.Sprintf("payout %d to %s is negative", int64(v), k.String())
		}
		if sum+int64(v) < sum {
			overflow = true
		}
		sum += int64(v)
	}
	if overflow || sum > reward {
		return "paid-exceeds-reward", fmt.Sprintf("the round-reward map attributes %d of a reward of %d", sum, reward)
	}
	if o.change < 0 {
		return "negative-change", fmt.Sprintf("change %d is negative", int64(o.change))
	}
	return "", ""
}

func mapJSON(m map[common.Uint168]common.Fixed64, names map[common.Uint168]string) map[string]int64 {
	r := map[string]int64{}
	for k, v := range m {
		n, ok := names[k]
		if !ok {
			n = k.String()
		}
		r[n] = int64(v)
	}
	return r
}

func (r *round) names() map[common.Uint168]string {
	n := map[common.Uint168]string{r.fund: "crc-fund", r.destroy: "destroy"}
	for i, k := range r.crcKey {
		n[k] = "crc" + strconv.Itoa(i+1)
	}
	for i, k := range r.dposKey {
		n[k] = "dpos" + strconv.Itoa(i+1)
	}
	for i, k := range r.candKey {
		n[k] = "cand" + strconv.Itoa(i+1)
	}
	return n
}

func ints(l []interface{}) []int64 {
	var r []int64
	for _, x := range l {
		r = append(r, int64(x.(float64)))
	}
	return r
}

func abs(x int64) int64 {
	if x < 0 {
		return -x
	}
	return x
}

func replay(path string) {
	behs := rep.ReadBehaviours(path)
	e := newEnv()
	n, nErr, nZero, nOver := 0, 0, 0, 0
	maxDiff := int64(0)
	var sample, overSample interface{}
	for _, b := range behs {
		for _, st := range b {
			n++
			a, exp := st.Args(), rep.Map(st, "exp")
			r := &round{era: rep.Int(a, "era"), pow: rep.Bool(a, "pow"), cfgCRC: rep.Int(a, "cfgCRC"),
				cfgNorm: rep.Int(a, "cfgNormal"), dpos: ints(rep.List(a, "dpos")), cands: ints(rep.List(a, "cands")),
				reward: int64(a["reward"].(float64))}
			for _, c := range ints(rep.List(a, "crc")) {
				r.crc = append(r.crc, crcMember{votes: c / 4, elected: (c/2)%2 == 1, claimed: c%2 == 1})
			}
			e.build(r)
			if r.total != int64(rep.Int(a, "total")) {
				rep.Mismatch(fmt.Sprintf("harness built a round with %d total votes, the spec says %d", r.total, rep.Int(a, "total")), st)
				continue
			}
			if r.total == 0 {
				nZero++
			}
			shape := ""
			if r.total == 0 {
				shape = ":total-votes-zero"
			}
			names := r.names()
			var first outcome
			bad := false
			hs := heights(r.era, len(r.arbiters))
			for hi, h := range hs {
				o := e.call(h, r.reward)
				mkinfo := func() map[string]interface{} {
					info := map[string]interface{}{"case": a, "height": h, "spec": exp}
					if o.err == nil {
						info["real"] = map[string]interface{}{"roundReward": mapJSON(o.m, names), "change": int64(o.change)}
					} else {
						info["real"] = map[string]interface{}{"err": o.err.Error()}
					}
					return info
				}
				if o.pan != nil {
					rep.Violation("C27:panic"+shape, fmt.Sprintf("distributeDPOSReward panicked: %v", o.pan),
						map[string]interface{}{"case": a, "height": h, "spec": exp})
					bad = true
					break
				}
				if o.err == nil {
					if k, what := facts(o, r.reward); k != "" {
						rep.Violation("C27:"+k+shape, fmt.Sprintf("era %d, reward %d, %d total votes: %s", r.era, r.reward, r.total, what), mkinfo())
						bad = true
						break
					}
				}
				if hi == 0 {
					first = o
				} else if (o.err == nil) != (first.err == nil) || o.change != first.change || !reflect.DeepEqual(o.m, first.m) {
					rep.Mismatch(fmt.Sprintf("heights %v of era %d give different results", hs, r.era), mkinfo())
					bad = true
					break
				}
			}
			if bad {
				continue
			}
			o := first
			mkinfo := func() map[string]interface{} {
				info := map[string]interface{}{"case": a, "spec": exp}
				if o.err != nil {
					info["real"] = map[string]interface{}{"err": o.err.Error()}
				} else {
					info["real"] = map[string]interface{}{"roundReward": mapJSON(o.m, names), "change": int64(o.change)}
				}
				return info
			}
			if rep.Bool(exp, "err") != (o.err != nil) {
				rep.Mismatch(fmt.Sprintf("real err=%v, spec err=%v", o.err, rep.Bool(exp, "err")), mkinfo())
				continue
			}
			if o.err != nil {
				nErr++
				continue
			}
			// per-payee comparison with the exact arithmetic of the spec
			want := map[common.Uint168]int64{}
			want[r.fund] += int64(exp["fund"].(float64))
			want[r.destroy] += int64(exp["destroy"].(float64))
			for i, v := range ints(rep.List(exp, "crc")) {
				want[r.crcKey[i]] += v
			}
			for i, v := range ints(rep.List(exp, "dpos")) {
				want[r.dposKey[i]] += v
			}
			for i, v := range ints(rep.List(exp, "cands")) {
				want[r.candKey[i]] += v
			}
			off := false
			lost := int64(0) // sela lost to float64 rounding over all payees
			for k, v := range want {
				lost += v - int64(o.m[k])
				d := abs(int64(o.m[k]) - v)
				if d > maxDiff {
					maxDiff = d
				}
				if d > 1 {
					off = true
				}
			}
			for k, v := range o.m {
				if _, ok := want[k]; !ok && v != 0 {
					off = true
				}
			}
			// change = reward - paid: it must exceed the spec's by exactly what the payees lost
			if int64(o.change)-int64(exp["change"].(float64)) != lost {
				off = true
			}
			if off {
				rep.Mismatch("real payouts differ from Reward.tla by more than float64 rounding (1 sela per vote share)", mkinfo())
				continue
			}
			sum := int64(0)
			for _, v := range o.m {
				sum += int64(v)
			}
			if sum+int64(o.change) > r.reward {
				nOver++
				if overSample == nil {
					overSample = map[string]interface{}{"observation": "attributed + change exceeds the reward (not part of C27)",
						"case": a, "attributed": sum, "change": int64(o.change), "reward": r.reward}
				}
			}
			if sample == nil && r.era == 3 && len(r.crc) > 0 && len(r.dpos) > 0 && r.reward > 100 && r.total > 0 {
				sample = map[string]interface{}{"case": a, "roundReward": mapJSON(o.m, names), "change": int64(o.change)}
			}
		}
	}
	rep.Summary(n, map[string]interface{}{"errors_agreed": nErr, "zero_total_vote_cases": nZero,
		"max_payee_diff_sela": maxDiff, "attributed_plus_change_exceeds_reward": nOver}, sample, overSample)
}

func random(n int) {
	rng := rand.New(rand.NewSource(rep.Seed()*104729 + 27))
	e := newEnv()
	nZero, nErr := 0, 0
	var sample interface{}
	for c := 0; c < n; c++ {
		r := &round{era: rng.Intn(4), cfgCRC: []int{0, 2, 12}[rng.Intn(3)], cfgNorm: []int{1, 4, 24}[rng.Intn(3)]}
		r.pow = r.era == 3 && rng.Intn(8) == 0
		voteGen := func() int64 {
			switch rng.Intn(5) {
			case 0:
				return 0
			case 1:
				return int64(rng.Intn(10))
			case 2:
				return int64(rng.Intn(1000000)) * 100000000
			default:
				return rng.Int63n(400000000000000)
			}
		}
		allZero := rng.Intn(6) == 0
		if allZero {
			voteGen = func() int64 { return 0 }
		}
		for i, k := 0, rng.Intn(r.cfgCRC+1); i < k; i++ {
			r.crc = append(r.crc, crcMember{votes: voteGen(), elected: rng.Intn(4) > 0, claimed: rng.Intn(2) == 0})
		}
		for i, k := 0, rng.Intn(r.cfgNorm+2); i < k; i++ {
			r.dpos = append(r.dpos, voteGen())
		}
		for i, k := 0, rng.Intn(73); i < k; i++ {
			r.cands = append(r.cands, voteGen())
		}
		switch rng.Intn(4) {
		case 0:
			r.reward = int64(rng.Intn(1000))
		case 1:
			r.reward = 17599999 * int64(1+rng.Intn(72)) // ~ one round of mainnet DPoS rewards
		default:
			r.reward = rng.Int63n(10000000000000)
		}
		e.build(r)
		shape := ""
		if r.total == 0 {
			nZero++
			shape = ":total-votes-zero"
		}
		h := heights(r.era, len(r.arbiters))[rng.Intn(2)]
		o := e.call(h, r.reward)
		info := map[string]interface{}{"era": r.era, "pow": r.pow, "cfgCRC": r.cfgCRC, "cfgNormal": r.cfgNorm,
			"crc": fmt.Sprint(r.crc), "dpos": r.dpos, "cands": r.cands, "reward": r.reward, "height": h, "total": r.total}
		if o.pan != nil {
			rep.Violation("C27:panic"+shape, fmt.Sprintf("distributeDPOSReward panicked: %v", o.pan), info)
			continue
		}
		if o.err != nil {
			nErr++
			continue
		}
		info["real"] = map[string]interface{}{"roundReward": mapJSON(o.m, r.names()), "change": int64(o.change)}
		if k, what := facts(o, r.reward); k != "" {
			rep.Violation("C27:"+k+shape, fmt.Sprintf("era %d, reward %d, %d total votes: %s", r.era, r.reward, r.total, what), info)
			continue
		}
		if sample == nil && len(r.arbiters) > 10 && r.total > 0 {
			sample = map[string]interface{}{"era": r.era, "arbiters": len(r.arbiters), "candidates": len(r.cands),
				"reward": r.reward, "change": int64(o.change), "payees": len(o.m)}
		}
	}
	rep.Summary(n, map[string]interface{}{"zero_total_vote_cases": nZero, "errors": nErr}, sample)
}

func main() {
	defer rep.Flush()
	if len(os.Args) >= 3 && os.Args[1] == "replay" {
		replay(os.Args[2])
		return
	}
	if len(os.Args) >= 3 && os.Args[1] == "random" {
		n, _ := strconv.Atoi(os.Args[2])
		random(n)
		return
	}
	fmt.Fprintln(os.Stderr, "usage: reward replay <cases.jsonl> | reward random <n>")
	os.Exit(3)
}
