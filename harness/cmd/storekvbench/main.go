package main

import (
	"fmt"
	"os"
	"runtime/pprof"
	"time"

	"github.com/btcsuite/btcd/wire"
	"github.com/elastos/Elastos.ELA/database"
	_ "github.com/elastos/Elastos.ELA/database/ffldb"
)

func main() {
	base := os.Args[1]
	f, _ := os.Create(os.Args[2])
	pprof.StartCPUProfile(f)
	t0 := time.Now()
	n := 200
	var tc, tu, tcl time.Duration
	for i := 0; i < n; i++ {
		dir := fmt.Sprintf("%s/b%d", base, i)
		a := time.Now()
		db, err := database.Create("ffldb", dir, wire.MainNet)
		if err != nil {
			panic(err)
		}
		b := time.Now()
		db.Update(func(tx database.Tx) error { return tx.Metadata().Put([]byte("a"), []byte("b")) })
		c := time.Now()
		db.Close()
		d := time.Now()
		tc += b.Sub(a); tu += c.Sub(b); tcl += d.Sub(c)
		os.RemoveAll(dir)
	}
	pprof.StopCPUProfile()
	fmt.Println("create+update+close:", time.Since(t0)/time.Duration(n), "create", tc/time.Duration(n), "update", tu/time.Duration(n), "close", tcl/time.Duration(n))
}
