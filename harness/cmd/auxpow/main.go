// Driver for spec/Edge/AuxPow.tla -> auxpow.AuxPow.Check / GetMerkleRoot / GetExpectedIndex (C10).
//
//	auxpow replay <cases.jsonl>
//
// Every proof TLC enumerated (a valid merged-mining proof per aux-branch length and nonce, and
// every single-field mutation of it) is built for real: symbolic hashes are bound to concrete
// ones (leaves random, ["H",l,r] = sha256d(l||r), ["rev",x] = byte reversal, ["cb",tokens] = hash
// of the bitcoin coinbase carrying that script), the script tokens become bytes, and the real
// AuxPow.Check is called.  VIOLATION = the real code accepts a proof that, by the spec's
// Commits, does not commit to the block (or panics).
package main

import (
	"bytes"
	"crypto/sha256"
	"encoding/binary"
	"encoding/hex"
	"fmt"
	"math/rand"
	"os"
	"strings"

	"github.com/elastos/Elastos.ELA/auxpow"
	"github.com/elastos/Elastos.ELA/common"

	"verif/harness/internal/rep"
)

var rng *rand.Rand

type env struct {
	leaves map[string]common.Uint256
}

func sha256d(b []byte) common.Uint256 {
	a := sha256.Sum256(b)
	return common.Uint256(sha256.Sum256(a[:]))
}

func (e *env) leaf(key string) common.Uint256 {
	if h, ok := e.leaves[key]; ok {
		return h
	}
	var h common.Uint256
	rng.Read(h[:])
	e.leaves[key] = h
	return h
}

// eval binds a symbolic hash term.
func (e *env) eval(v interface{}) (common.Uint256, error) {
	a, ok := v.([]interface{})
	if !ok || len(a) < 1 {
		return common.Uint256{}, fmt.Errorf("bad term %v", v)
	}
	tag, _ := a[0].(string)
	switch tag {
	case "blk", "sib", "psib", "junk":
		return e.leaf(fmt.Sprintf("%s%v", tag, a[1])), nil
	case "zero":
		return common.Uint256{}, nil
	case "rev":
		x, err := e.eval(a[1])
		if err != nil {
			return x, err
		}
		var r common.Uint256
		for i := range x {
			r[i] = x[len(x)-1-i]
		}
		return r, nil
	case "H":
		l, err := e.eval(a[1])
		if err != nil {
			return l, err
		}
		r, err := e.eval(a[2])
		if err != nil {
			return r, err
		}
		return sha256d(append(append([]byte{}, l[:]...), r[:]...)), nil
	case "cb":
		toks, _ := a[1].([]interface{})
		script, err := e.script(toks)
		if err != nil {
			return common.Uint256{}, err
		}
		return coinbase(script, true).Hash(), nil
	case "cbnoin":
		return coinbase(nil, false).Hash(), nil
	}
	return common.Uint256{}, fmt.Errorf("bad term tag %q", tag)
}

// scriptDigits renders the token sequence as hex digits.
func (e *env) scriptDigits(toks []interface{}) (string, error) {
	var sb strings.Builder
	for _, t := range toks {
		m, ok := t.(map[string]interface{})
		if !ok {
			return "", fmt.Errorf("bad token %v", t)
		}
		switch rep.Str(m, "t") {
		case "mark":
			sb.WriteString("fabe6d6d")
		case "root":
			h, err := e.eval(m["h"])
			if err != nil {
				return "", err
			}
			sb.WriteString(hex.EncodeToString(h[:]))
		case "u32":
			for _, b := range rep.List(m, "b") {
				fmt.Fprintf(&sb, "%02x", int(b.(float64)))
			}
		case "fill":
			sb.WriteString(strings.Repeat("11", rep.Int(m, "k")))
		case "nib":
			for _, d := range rep.List(m, "n") {
				fmt.Fprintf(&sb, "%x", int(d.(float64)))
			}
		default:
			return "", fmt.Errorf("bad token kind %v", m)
		}
	}
	return sb.String(), nil
}

func (e *env) script(toks []interface{}) ([]byte, error) {
	d, err := e.scriptDigits(toks)
	if err != nil {
		return nil, err
	}
	if len(d)%2 != 0 {
		return nil, fmt.Errorf("script with an odd number of hex digits")
	}
	return hex.DecodeString(d)
}

// coinbase is a bitcoin coinbase transaction as a merged-mining pool would produce it.
func coinbase(script []byte, hasIn bool) *auxpow.BtcTx {
	tx := &auxpow.BtcTx{Version: 1, TxIn: []*auxpow.BtcTxIn{}, LockTime: 0,
		TxOut: []*auxpow.BtcTxOut{{Value: 5000000000, PkScript: []byte{0x76, 0xa9, 0x14, 1, 2, 3, 0x88, 0xac}}}}
	if hasIn {
		tx.TxIn = append(tx.TxIn, &auxpow.BtcTxIn{
			PreviousOutPoint: auxpow.BtcOutPoint{Hash: common.EmptyHash, Index: 0xffffffff},
			SignatureScript:  script, Sequence: 0xffffffff})
	}
	return tx
}

func evalList(e *env, l []interface{}) ([]common.Uint256, error) {
	res := make([]common.Uint256, 0, len(l))
	for _, x := range l {
		h, err := e.eval(x)
		if err != nil {
			return nil, err
		}
		res = append(res, h)
	}
	return res, nil
}

func u32of(l []interface{}) uint32 {
	var b [4]byte
	for i := 0; i < 4 && i < len(l); i++ {
		b[i] = byte(int(l[i].(float64)))
	}
	return binary.LittleEndian.Uint32(b[:])
}

func safeCheck(ap *auxpow.AuxPow, blk common.Uint256, chain int) (ok bool, pan interface{}) {
	defer func() {
		if x := recover(); x != nil {
			pan = x
		}
	}()
	h := blk
	ok = ap.Check(&h, chain)
	return
}

func safeIndex(nonce uint32, chain, h int) (idx int, pan interface{}) {
	defer func() {
		if x := recover(); x != nil {
			pan = x
		}
	}()
	idx = auxpow.GetExpectedIndex(nonce, chain, h)
	return
}

func main() {
	if len(os.Args) < 3 || os.Args[1] != "replay" {
		fmt.Fprintln(os.Stderr, "usage: auxpow replay <cases.jsonl>")
		os.Exit(3)
	}
	rng = rand.New(rand.NewSource(rep.Seed()*104729 + 10))
	behs := rep.ReadBehaviours(os.Args[2])
	n := 0
	verdicts := map[string]int{}
	muts := map[string]int{}
	var samples []interface{}
	for _, b := range behs {
		for _, st := range b {
			if st.Act() != "Case" {
				continue
			}
			n++
			runCase(st, verdicts, muts, &samples)
		}
	}
	rep.Summary(n, map[string]interface{}{"verdicts": verdicts, "mutations": muts}, samples...)
}

func runCase(st rep.Step, verdicts, muts map[string]int, samples *[]interface{}) {
	a := st.Args()
	exp := rep.Map(st, "exp")
	mut := rep.Str(a, "mut")
	muts[mut]++
	h := rep.Int(a, "h")
	last := rep.Int(a, "last")
	proof := rep.Map(exp, "proof")
	toks := rep.List(proof, "script")
	hasIn := rep.Bool(proof, "hasIn")
	chain := rep.Int(exp, "chain")
	specCheck := rep.Str(exp, "check")
	commits := rep.Bool(exp, "commits")

	// bind the leaves so that the committed aux root ends in the case's last hex digit and the
	// concrete hex string has exactly the marker occurrences of the model
	var e *env
	var digits string
	ok := false
	for try := 0; try < 4000 && !ok; try++ {
		e = &env{leaves: map[string]common.Uint256{}}
		vr, err := e.eval(exp["validroot"])
		if err != nil {
			rep.Mismatch("validroot: "+err.Error(), a)
			return
		}
		if int(vr[31]&0x0f) != last {
			continue
		}
		if hasIn {
			digits, err = e.scriptDigits(toks)
			if err != nil {
				rep.Mismatch("script: "+err.Error(), a)
				return
			}
			if countOverlapping(digits, "fabe6d6d") != rep.Int(exp, "markhits") {
				continue
			}
		}
		ok = true
	}
	if !ok {
		rep.Mismatch("could not bind the symbolic hashes of the case", a)
		return
	}

	var script []byte
	var err error
	if hasIn {
		if script, err = hex.DecodeString(digits); err != nil {
			rep.Mismatch("script digits: "+err.Error(), a)
			return
		}
	}
	auxBranch, err1 := evalList(e, rep.List(proof, "auxBranch"))
	parBranch, err2 := evalList(e, rep.List(proof, "parBranch"))
	parRoot, err3 := e.eval(proof["parRoot"])
	blk, err4 := e.eval(exp["blk"])
	for _, er := range []error{err1, err2, err3, err4} {
		if er != nil {
			rep.Mismatch("binding: "+er.Error(), a)
			return
		}
	}
	ap := &auxpow.AuxPow{
		AuxMerkleBranch:   auxBranch,
		AuxMerkleIndex:    rep.Int(proof, "auxIndex"),
		ParCoinbaseTx:     *coinbase(script, hasIn),
		ParCoinBaseMerkle: parBranch,
		ParMerkleIndex:    rep.Int(proof, "parIndex"),
		ParBlockHeader:    auxpow.BtcHeader{Version: 0x20000000, MerkleRoot: parRoot, Timestamp: 1600000000, Bits: 0x1d00ffff},
	}

	if mut == "parindex_wire_allones" {
		// the proof as a peer sends it: index field 0xffffffff, decoded by the node itself
		ap.ParMerkleIndex = 0xffffffff
		buf := new(bytes.Buffer)
		if err := ap.Serialize(buf); err != nil {
			rep.Mismatch("serialize proof: "+err.Error(), a)
			return
		}
		dec := &auxpow.AuxPow{}
		if err := dec.Deserialize(buf); err != nil {
			rep.Mismatch("deserialize proof: "+err.Error(), a)
			return
		}
		ap = dec
	}

	// slot derivation
	if h < 32 {
		nonce := u32of(rep.List(a, "nonce"))
		idx, pan := safeIndex(nonce, chain, h)
		if pan != nil {
			rep.Violation("C10:panic:GetExpectedIndex", fmt.Sprintf("GetExpectedIndex(%d, %d, %d) panicked: %v", nonce, chain, h, pan), a)
		} else if idx != rep.Int(exp, "expidx") {
			rep.Violation("C10:slot:differs", fmt.Sprintf("GetExpectedIndex(%d, %d, %d) = %d, the merged-mining slot formula gives %d",
				nonce, chain, h, idx, rep.Int(exp, "expidx")), a)
		}
	}

	acc, pan := safeCheck(ap, blk, chain)
	desc := fmt.Sprintf("mutation %s(arg %d) of the valid proof for aux branch length %d, nonce %v, root last digit %x; script %s",
		mut, rep.Int(a, "arg"), h, rep.List(a, "nonce"), last, digits)
	switch {
	case pan != nil:
		where := "unexpected"
		if strings.HasPrefix(specCheck, "panic:") {
			where = strings.TrimPrefix(specCheck, "panic:")
		}
		rep.Violation("C10:panic:"+where, fmt.Sprintf("AuxPow.Check panicked (%v) on %s", pan, desc), a)
		verdicts["panic"]++
	case acc && !commits:
		rep.Violation("C10:accepts:"+mut, fmt.Sprintf("AuxPow.Check accepts a proof that does not commit to the block: %s (spec procedure: %s)",
			desc, specCheck), a)
		verdicts["accept-not-committing"]++
	case acc && specCheck != "accept":
		rep.Mismatch(fmt.Sprintf("AuxPow.Check accepts where the transcribed procedure says %s: %s", specCheck, desc), a)
	case !acc && strings.HasPrefix(specCheck, "panic:"):
		// the out-of-range read the transcription predicts has been guarded: refusing is right
		verdicts["reject-guarded"]++
	case !acc && specCheck != "reject":
		rep.Mismatch(fmt.Sprintf("AuxPow.Check rejects where the transcribed procedure says %s: %s", specCheck, desc), a)
	case acc:
		verdicts["accept"]++
	default:
		verdicts["reject"]++
	}
	if len(*samples) < 4 && (mut == "none" || mut == "shift_crafted") {
		*samples = append(*samples, map[string]interface{}{"mutation": mut, "h": h, "script": digits, "real_accepts": acc, "commits": commits})
	}
}

func countOverlapping(s, pat string) int {
	n := 0
	for i := 0; i+len(pat) <= len(s); i++ {
		if s[i:i+len(pat)] == pat {
			n++
		}
	}
	return n
}
