// Replay driver for spec/Edge/Sig.tla (C05, C37).
//
//	sig c05 <cases.jsonl>   every case is materialised with real keys, scripts,
//	                        transactions and signatures (package crypto) and given to
//	                        the signature stage of the node (checkTransactionSignature ->
//	                        GetTxProgramHashes -> sort -> RunPrograms)
//	sig c37 <cases.jsonl>   the signatures are produced by the wallet functions of
//	                        package account, then the same verifier
//	sig e2e <cases.jsonl>   the spent outputs are created on a real regnet node and the
//	                        transaction goes through CheckTransactionSanity +
//	                        CheckTransactionContext
//
// A case is the record Sig.tla logs in Submit / SubmitFallthrough.
package main

import (
	"encoding/json"
	"fmt"
	"math/rand"
	"os"
	"sort"
	"strings"

	"github.com/elastos/Elastos.ELA/blockchain"
	"github.com/elastos/Elastos.ELA/common"
	"github.com/elastos/Elastos.ELA/common/config"
	"github.com/elastos/Elastos.ELA/core"
	pg "github.com/elastos/Elastos.ELA/core/contract/program"
	"github.com/elastos/Elastos.ELA/core/transaction"
	common2 "github.com/elastos/Elastos.ELA/core/types/common"
	"github.com/elastos/Elastos.ELA/core/types/interfaces"
	elaerr "github.com/elastos/Elastos.ELA/errors"

	"verif/harness/internal/rep"
	"verif/harness/internal/sigkit"
	"verif/harness/internal/stack"
)

type addr struct {
	Pfx string `json:"pfx"`
	H   int    `json:"h"`
}

type sigJ struct {
	K []int `json:"k"`
	V int   `json:"v"`
	W bool  `json:"w"`
}

type progJ struct {
	Code int    `json:"code"`
	Sigs []sigJ `json:"sigs"`
}

type codeJ struct {
	ID  int `json:"id"`
	Def struct {
		Kind string  `json:"kind"`
		M    int     `json:"m"`
		Keys [][]int `json:"keys"`
	} `json:"def"`
}

type caseJ struct {
	Act  string `json:"act"`
	Args struct {
		Inputs []addr  `json:"inputs"`
		Attrs  []addr  `json:"attrs"`
		Progs  []progJ `json:"progs"`
		Ver    int     `json:"ver"`
		Tamper string  `json:"tamper"`
		Codes  []codeJ `json:"codes"`
	} `json:"args"`
	Exp        bool   `json:"exp"`
	Why        string `json:"why"`
	Dev        bool   `json:"dev"`
	Authorised bool   `json:"authorised"`
	Wallet     bool   `json:"wallet"`
}

func readCases(path string) []caseJ {
	var res []caseJ
	for _, b := range rep.ReadBehaviours(path) {
		for _, st := range b {
			raw, _ := json.Marshal(st)
			var c caseJ
			if err := json.Unmarshal(raw, &c); err != nil || c.Act != "Case" {
				fmt.Fprintln(os.Stderr, "bad case:", err, string(raw))
				os.Exit(3)
			}
			res = append(res, c)
		}
	}
	return res
}

// materialised case
type mat struct {
	c       *caseJ
	defs    map[int]sigkit.CodeDef
	bind    sigkit.Binding
	codes   map[int][]byte
	inAddrs []common.Uint168
	scripts []common.Uint168
}

var bindCache = map[string]struct {
	b sigkit.Binding
	c map[int][]byte
}{}

func materialise(c *caseJ, pool *sigkit.Pool, rng *rand.Rand) (*mat, error) {
	m := &mat{c: c, defs: map[int]sigkit.CodeDef{}}
	for _, cd := range c.Args.Codes {
		m.defs[cd.ID] = sigkit.CodeDef{Kind: cd.Def.Kind, M: cd.Def.M, Keys: cd.Def.Keys}
	}
	key, _ := json.Marshal(c.Args.Codes)
	if e, ok := bindCache[string(key)]; ok {
		m.bind, m.codes = e.b, e.c
	} else {
		b, codes, err := sigkit.Realise(m.defs, pool, rng)
		if err != nil {
			return nil, err
		}
		m.bind, m.codes = b, codes
		bindCache[string(key)] = struct {
			b sigkit.Binding
			c map[int][]byte
		}{b, codes}
	}
	for _, a := range c.Args.Inputs {
		h, err := sigkit.Address(a.Pfx, a.H, m.codes)
		if err != nil {
			return nil, err
		}
		m.inAddrs = append(m.inAddrs, h)
	}
	attrs := append([]addr(nil), c.Args.Attrs...)
	sort.Slice(attrs, func(i, j int) bool { return attrs[i].H < attrs[j].H })
	for _, a := range attrs {
		h, err := sigkit.Address(a.Pfx, a.H, m.codes)
		if err != nil {
			return nil, err
		}
		m.scripts = append(m.scripts, h)
	}
	return m, nil
}

// versions builds the transaction at every content version 0..ver: version 0
// is the shape as given, the last one has the tamper class applied.
func (m *mat) versions(base sigkit.TxShape, sub int, gentle bool) ([]sigkit.TxShape, error) {
	vs := []sigkit.TxShape{base}
	if m.c.Args.Ver >= 1 {
		t, err := sigkit.Tamper(base, m.c.Args.Tamper, sub, gentle)
		if err != nil {
			return nil, err
		}
		vs = append(vs, t)
	}
	return vs, nil
}

// programs builds the real programs of the case for the given versions.
func (m *mat) programs(shapes []sigkit.TxShape, wallet bool, rng *rand.Rand) ([]*pg.Program, error) {
	var txs []interfaces.Transaction
	var data [][]byte
	for _, s := range shapes {
		tx, _ := s.Build()
		txs = append(txs, tx)
		data = append(data, sigkit.Unsigned(tx))
	}
	// (if a tamper class does not change the signed bytes the stale signatures
	// still verify and the replay reports the acceptance as a violation)
	var progs []*pg.Program
	for _, p := range m.c.Args.Progs {
		def := m.defs[p.Code]
		var items []sigkit.SigItem
		for _, s := range p.Sigs {
			items = append(items, sigkit.SigItem{Key: s.K, Ver: s.V, Wallet: s.W})
		}
		var param []byte
		var err error
		if wallet {
			param, err = sigkit.WalletParameter(def, m.codes[p.Code], items, m.bind, txs)
		} else {
			param, err = sigkit.Parameter(def.Kind, items, m.bind, data, rng)
		}
		if err != nil {
			return nil, err
		}
		progs = append(progs, &pg.Program{Code: append([]byte(nil), m.codes[p.Code]...), Parameter: param})
	}
	return progs, nil
}

func kinds(m *mat) string {
	set := map[string]bool{}
	for _, p := range m.c.Args.Progs {
		set[m.defs[p.Code].Kind] = true
	}
	var ks []string
	for k := range set {
		ks = append(ks, k)
	}
	sort.Strings(ks)
	return strings.Join(ks, "+")
}

// judge applies the verdict rule of the property.
//
// C05 ("accepted only if ..."): VIOLATION = the real code accepts a
// transaction that not every spent address authorised (the model's
// `authorised`, which is the property itself and says nothing about how the
// verifier works).  Any other difference between the real answer and the
// reference verifier of the model (the real code refuses more, or accepts an
// authorised transaction the transcribed verifier refuses) is a MISMATCH.
//
// C37: the wallet half is an equivalence: a wallet-signed transaction the
// model accepts must verify, one it rejects (unfinished, signed twice by one
// holder, content changed afterwards) must not.
func judge(mode string, m *mat, accepted bool, errStr string, how string) {
	c := m.c
	desc := fmt.Sprintf("%s: real=%v spec=%v (%s) authorised=%v err=%q", how, accepted, c.Exp, c.Why, c.Authorised, errStr)
	if mode == "c37" {
		if accepted == c.Exp {
			return
		}
		if accepted {
			rep.Violation("C37:accepts:"+c.Why+":tamper-"+c.Args.Tamper,
				"wallet-signed transaction accepted although "+c.Why+"; "+desc, c)
		} else {
			rep.Violation("C37:wallet-signed-rejected:"+kinds(m), "wallet-signed transaction rejected; "+desc, c)
		}
		return
	}
	if accepted && !c.Authorised {
		rep.Violation("C05:accepts:"+c.Why, "transaction accepted although "+c.Why+"; "+desc, c)
		return
	}
	if accepted != c.Exp {
		rep.Mismatch("real code and reference verifier differ (no violation of the property); "+desc, c)
	}
}

func direct(mode string, cases []caseJ) {
	pool := sigkit.NewPool(rep.Seed(), 24)
	rng := rand.New(rand.NewSource(rep.Seed()))
	payTo := pool.Accs[23].ProgramHash
	n, acc, panics := 0, 0, 0
	perWhy := map[string]int{}
	var sample interface{}
	for i := range cases {
		c := &cases[i]
		m, err := materialise(c, pool, rng)
		if err != nil {
			rep.Mismatch("cannot materialise: "+err.Error(), c)
			continue
		}
		base := sigkit.BaseShape(uint64(i)+1, len(m.inAddrs), payTo)
		base.Scripts = m.scripts
		shapes, err := m.versions(base, rng.Intn(1<<16), false)
		if err != nil {
			rep.Mismatch("cannot tamper: "+err.Error(), c)
			continue
		}
		progs, err := m.programs(shapes, mode == "c37", rng)
		if err != nil {
			rep.Mismatch("cannot sign: "+err.Error(), c)
			continue
		}
		tx, ins := shapes[len(shapes)-1].Build()
		tx.SetPrograms(progs)
		refs := map[*common2.Input]common2.Output{}
		for k, in := range ins {
			refs[in] = common2.Output{AssetID: core.ELAAssetID, Value: 2000, ProgramHash: m.inAddrs[k]}
		}
		ok, errStr, panicked := verify(tx, refs)
		if panicked {
			// a crash is not an acceptance (crashes are the subject of C03)
			panics++
			errStr = "PANIC: " + errStr
		}
		n++
		if ok {
			acc++
		}
		perWhy[c.Why]++
		judge(mode, m, ok, errStr, "checkTransactionSignature")
		if sample == nil && ok && len(c.Args.Progs) > 0 {
			sample = map[string]interface{}{"case": c, "real": "accepted", "txid": tx.Hash().String()}
		}
	}
	rep.Summary(n, map[string]interface{}{"mode": mode, "accepted": acc, "panics": panics, "by_reason": perWhy}, sample)
}

func verify(tx interfaces.Transaction, refs map[*common2.Input]common2.Output) (ok bool, errStr string, panicked bool) {
	defer func() {
		if r := recover(); r != nil {
			ok, panicked, errStr = false, true, fmt.Sprint(r)
		}
	}()
	if err := transaction.VerifCheckTransactionSignature(tx, refs); err != nil {
		return false, err.Error(), false
	}
	return true, "", false
}

// ---------------------------------------------------------------------------
// end to end

func e2e(cases []caseJ) {
	pool := sigkit.NewPool(rep.Seed(), 24)
	rng := rand.New(rand.NewSource(rep.Seed()))
	payTo := pool.Accs[23].ProgramHash
	node, err := stack.New(stack.Options{Tweak: func(p *config.Configuration) {
		p.NormalSchnorrStartHeight = 0
	}})
	if err != nil {
		fmt.Fprintln(os.Stderr, "node:", err)
		os.Exit(3)
	}
	defer stack.CleanupGlobals()
	defer node.Close()
	sigkit.Silence()
	miner := &stack.Key{Acc: node.Miner, Code: node.Miner.RedeemScript, Hash: node.Miner.ProgramHash}

	var mats []*mat
	for i := range cases {
		m, err := materialise(&cases[i], pool, rng)
		if err != nil {
			rep.Mismatch("cannot materialise: "+err.Error(), &cases[i])
			continue
		}
		mats = append(mats, m)
	}
	const perOut = common.Fixed64(5000)
	const batch = 400
	n, acc := 0, 0
	var sample interface{}
	nonce := uint64(1)
	for lo := 0; lo < len(mats); lo += batch {
		hi := lo + batch
		if hi > len(mats) {
			hi = len(mats)
		}
		// a matured coinbase of the miner pays one output per spent address
		b1, err := node.MineOn(nil, 0)
		if err != nil {
			fmt.Fprintln(os.Stderr, "mine:", err)
			os.Exit(3)
		}
		if _, err = node.MineOn(nil, 0); err != nil {
			fmt.Fprintln(os.Stderr, "mine:", err)
			os.Exit(3)
		}
		cb := b1.Transactions[0]
		var outs []stack.Out
		for _, m := range mats[lo:hi] {
			for _, a := range m.inAddrs {
				outs = append(outs, stack.Out{To: a, Value: perOut})
			}
		}
		fee := common.Fixed64(10000)
		change := cb.Outputs()[1].Value - perOut*common.Fixed64(len(outs)) - fee
		if change < 0 {
			fmt.Fprintln(os.Stderr, "coinbase too small for the batch")
			os.Exit(3)
		}
		outs = append(outs, stack.Out{To: miner.Hash, Value: change})
		nonce++
		fund, err := stack.Transfer([]common2.OutPoint{{TxID: cb.Hash(), Index: 1}}, outs, []*stack.Key{miner}, nonce)
		if err != nil {
			fmt.Fprintln(os.Stderr, "fund:", err)
			os.Exit(3)
		}
		if _, err = node.MineOn([]interfaces.Transaction{fund}, fee); err != nil {
			rep.Mismatch("funding block rejected: "+err.Error(), nil)
			break
		}
		height := node.Chain.GetHeight() + 1
		idx := 0
		for k, m := range mats[lo:hi] {
			c := m.c
			base := sigkit.BaseShape(uint64(lo+k)+1000, 0, payTo)
			base.Scripts = m.scripts
			for range m.inAddrs {
				base.Inputs = append(base.Inputs, common2.Input{
					Previous: common2.OutPoint{TxID: fund.Hash(), Index: uint16(idx)}, Sequence: 0})
				idx++
			}
			base.Outputs[0].Value = perOut*common.Fixed64(len(m.inAddrs)) - 1000
			shapes, err := m.versions(base, rng.Intn(1<<16), true)
			if err != nil {
				rep.Mismatch("cannot tamper: "+err.Error(), c)
				continue
			}
			progs, err := m.programs(shapes, false, rng)
			if err != nil {
				rep.Mismatch("cannot sign: "+err.Error(), c)
				continue
			}
			tx, _ := shapes[len(shapes)-1].Build()
			tx.SetPrograms(progs)
			ok, stage, errStr, panicked := nodeCheck(node.Chain, height, tx)
			if panicked {
				errStr, stage = "PANIC: "+errStr, "signature"
			}
			n++
			if ok {
				acc++
			}
			if !ok && c.Exp && stage != "signature" {
				rep.Mismatch(fmt.Sprintf("end-to-end: transaction refused before/after the signature stage (%s): %s", stage, errStr), c)
				continue
			}
			judge("c05", m, ok, errStr, "end-to-end CheckTransactionSanity+CheckTransactionContext at height "+fmt.Sprint(height))
			if sample == nil && ok {
				sample = map[string]interface{}{"case": c, "real": "accepted by CheckTransactionContext", "txid": tx.Hash().String()}
			}
		}
	}
	rep.Summary(n, map[string]interface{}{"mode": "e2e", "accepted": acc}, sample)
}

func nodeCheck(chain *blockchain.BlockChain, height uint32, tx interfaces.Transaction) (ok bool, stage, errStr string, panicked bool) {
	defer func() {
		if r := recover(); r != nil {
			ok, panicked, errStr = false, true, fmt.Sprint(r)
		}
	}()
	if err := chain.CheckTransactionSanity(height, tx); err != nil {
		return false, "sanity", err.Error(), false
	}
	if _, err := chain.CheckTransactionContext(height, tx, 0, 0); err != nil {
		st := "context"
		if err.Code() == elaerr.ErrTxSignature {
			st = "signature"
		}
		return false, st, err.Error(), false
	}
	return true, "", "", false
}

func main() {
	if len(os.Args) < 3 {
		fmt.Fprintln(os.Stderr, "usage: sig c05|c37|e2e <cases.jsonl>")
		os.Exit(3)
	}
	sigkit.Init()
	cases := readCases(os.Args[2])
	switch os.Args[1] {
	case "c05", "c37":
		sigkit.Silence()
		direct(os.Args[1], cases)
	case "e2e":
		e2e(cases)
	default:
		fmt.Fprintln(os.Stderr, "unknown mode")
		os.Exit(3)
	}
	sigkit.Cleanup()
	rep.Flush()
}
