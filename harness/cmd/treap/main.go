// Replay / record driver for spec/Store/Treap.tla -> database/internal/treap (C19),
// reached through the verif re-export package database/treapverif.
//
//	treap replay <behaviours.jsonl> <nk>        step every behaviour TLC printed through the real
//	                                            treaps; after EVERY step re-query the mutable treap
//	                                            and ALL retained immutable versions completely
//	treap record <runs> <len> <nk> <out.ndjson> seeded random runs far beyond TLC's bounds, recorded
//	                                            as a trace for TraceTreap.tla (the driver also
//	                                            re-queries everything itself)
package main

import (
	"bytes"
	"encoding/json"
	"fmt"
	"math/rand"
	"os"
	"strconv"

	tv "github.com/elastos/Elastos.ELA/database/treapverif"
	"verif/harness/internal/rep"
)

const overhead = 72 // treap/common.go nodeFieldsSize; Treap.tla Overhead

// keyBytes maps the model key k (1..) order-preservingly to a byte string of
// length 1 (odd k) or 2 (even k): Treap.tla KeyLen.
func keyBytes(k int) []byte {
	if k <= 0 {
		return nil
	}
	b := byte(0x30 + (k+1)/2)
	if k%2 == 1 {
		return []byte{b}
	}
	return []byte{b, 'a'}
}

// valBytes: a model value is its length; the content depends on the key so a
// value handed out for the wrong key is noticed.  Length 0 is passed as nil.
func valBytes(k, v int) []byte {
	if v <= 0 {
		return nil
	}
	return bytes.Repeat([]byte{byte(0x41 + (k*7+v)%57)}, v)
}

// reader is the read side shared by *treap.Mutable and *treap.Immutable.
type reader interface {
	Get(key []byte) []byte
	Has(key []byte) bool
	Len() int
	Size() uint64
	ForEach(fn func(k, v []byte) bool)
	Iterator(startKey, limitKey []byte) *tv.Iterator
}

// ---------------------------------------------------------------------------
// complete re-query of one treap against an expected ordered map

type pair struct{ k, v int }

type expMap struct {
	mp   []int // index k-1 -> value length or -1
	cnt  int
	size int
	asc  []pair
}

func mapFromValues(mp []int) expMap {
	e := expMap{mp: mp}
	for i, v := range mp {
		if v >= 0 {
			k := i + 1
			e.cnt++
			e.size += overhead + len(keyBytes(k)) + v
			e.asc = append(e.asc, pair{k, v})
		}
	}
	return e
}

func parseExp(o map[string]interface{}) expMap {
	var e expMap
	for _, x := range rep.List(o, "mp") {
		e.mp = append(e.mp, int(x.(float64)))
	}
	e.cnt = rep.Int(o, "cnt")
	e.size = rep.Int(o, "size")
	for _, x := range rep.List(o, "asc") {
		p := x.([]interface{})
		e.asc = append(e.asc, pair{int(p[0].(float64)), int(p[1].(float64))})
	}
	return e
}

func inRange(k, lo, hi int) bool { return (lo == 0 || k >= lo) && (hi == 0 || k < hi) }

func okVal(got []byte, k, v int) bool {
	if v < 0 {
		return got == nil
	}
	if v == 0 {
		return got != nil && len(got) == 0 // stored as an empty, non-nil slice
	}
	return bytes.Equal(got, valBytes(k, v))
}

func itAt(it *tv.Iterator, ok bool, k, v int) string {
	if it.Valid() != ok {
		return fmt.Sprintf("Valid()=%v want %v", it.Valid(), ok)
	}
	if !ok {
		if it.Key() != nil || it.Value() != nil {
			return fmt.Sprintf("exhausted iterator has Key()=%q Value()=%q", it.Key(), it.Value())
		}
		return ""
	}
	if !bytes.Equal(it.Key(), keyBytes(k)) {
		return fmt.Sprintf("Key()=%q want %q (key %d)", it.Key(), keyBytes(k), k)
	}
	if !okVal(it.Value(), k, v) {
		return fmt.Sprintf("Value()=%q of key %d want length %d", it.Value(), k, v)
	}
	return ""
}

// query asks the treap everything the public API offers and returns the first
// disagreement with the expected map as (aspect, description).
func query(t reader, e expMap, nk int) (string, string) {
	if t.Len() != e.cnt {
		return "Len", fmt.Sprintf("Len()=%d want %d", t.Len(), e.cnt)
	}
	if t.Size() != uint64(e.size) {
		return "Size", fmt.Sprintf("Size()=%d want %d", t.Size(), e.size)
	}
	for k := 1; k <= nk; k++ {
		got := t.Get(keyBytes(k))
		if !okVal(got, k, e.mp[k-1]) {
			return "Get", fmt.Sprintf("Get(key %d)=%q(nil=%v) want length %d", k, got, got == nil, e.mp[k-1])
		}
		if t.Has(keyBytes(k)) != (e.mp[k-1] >= 0) {
			return "Has", fmt.Sprintf("Has(key %d)=%v", k, t.Has(keyBytes(k)))
		}
	}
	// keys outside the universe: never inserted, and the empty key
	for _, kb := range [][]byte{keyBytes(nk + 1), {}, {0x20}} {
		if t.Get(kb) != nil || t.Has(kb) {
			return "Get", fmt.Sprintf("never inserted key %q is present", kb)
		}
	}
	// ForEach: complete, and stopped by the callback after the first pair
	var got []pair
	bad := ""
	t.ForEach(func(k, v []byte) bool {
		i := len(got)
		if i < len(e.asc) && (!bytes.Equal(k, keyBytes(e.asc[i].k)) || !okVal(v, e.asc[i].k, e.asc[i].v)) {
			bad = fmt.Sprintf("ForEach item %d is %q=%q, want key %d length %d", i, k, v, e.asc[i].k, e.asc[i].v)
		}
		got = append(got, pair{})
		return true
	})
	if bad != "" || len(got) != len(e.asc) {
		return "ForEach", fmt.Sprintf("ForEach visited %d pairs want %d %s", len(got), len(e.asc), bad)
	}
	n := 0
	t.ForEach(func(k, v []byte) bool { n++; return false })
	if (len(e.asc) == 0 && n != 0) || (len(e.asc) > 0 && n != 1) {
		return "ForEach", fmt.Sprintf("ForEach did not stop when the callback returned false (%d calls)", n)
	}
	// iterators over every range [lo, hi): forward, backward, First, Last, Seek.
	// For large key spaces only a sample of bounds is used.
	bounds := []int{0}
	if nk <= 6 {
		for k := 1; k <= nk+1; k++ {
			bounds = append(bounds, k)
		}
	} else {
		bounds = append(bounds, 1, nk/3, nk/2, nk, nk+1)
	}
	for _, lo := range bounds {
		for _, hi := range bounds {
			var vis []pair
			for _, p := range e.asc {
				if inRange(p.k, lo, hi) {
					vis = append(vis, p)
				}
			}
			shape := map[bool]string{false: "", true: "lo"}[lo != 0] + map[bool]string{false: "", true: "hi"}[hi != 0]
			if shape == "" {
				shape = "unbounded"
			}
			rng := fmt.Sprintf("range[%d,%d)", lo, hi)
			it := t.Iterator(keyBytes(lo), keyBytes(hi))
			if it.Valid() {
				return "iter:new:" + shape, rng + " new iterator is Valid()"
			}
			for i := 0; i <= len(vis); i++ {
				ok := it.Next()
				if ok != (i < len(vis)) {
					return "iter:Next:" + shape, fmt.Sprintf("%s forward walk: Next() #%d = %v, %d pairs expected", rng, i+1, ok, len(vis))
				}
				var p pair
				if ok {
					p = vis[i]
				}
				if s := itAt(it, ok, p.k, p.v); s != "" {
					return "iter:Next:" + shape, rng + " forward walk: " + s
				}
			}
			it = t.Iterator(keyBytes(lo), keyBytes(hi))
			for i := len(vis) - 1; i >= -1; i-- {
				ok := it.Prev()
				if ok != (i >= 0) {
					return "iter:Prev:" + shape, fmt.Sprintf("%s backward walk: Prev() = %v at index %d of %d", rng, ok, i, len(vis))
				}
				var p pair
				if ok {
					p = vis[i]
				}
				if s := itAt(it, ok, p.k, p.v); s != "" {
					return "iter:Prev:" + shape, rng + " backward walk: " + s
				}
			}
			it = t.Iterator(keyBytes(lo), keyBytes(hi))
			var f, l pair
			if len(vis) > 0 {
				f, l = vis[0], vis[len(vis)-1]
			}
			if ok := it.First(); ok != (len(vis) > 0) {
				return "iter:First:" + shape, fmt.Sprintf("%s First()=%v with %d pairs in range (Key()=%q)", rng, ok, len(vis), it.Key())
			}
			if s := itAt(it, len(vis) > 0, f.k, f.v); s != "" {
				return "iter:First:" + shape, rng + " First(): " + s
			}
			if ok := it.Last(); ok != (len(vis) > 0) {
				return "iter:Last:" + shape, fmt.Sprintf("%s Last()=%v with %d pairs in range (Key()=%q)", rng, ok, len(vis), it.Key())
			}
			if s := itAt(it, len(vis) > 0, l.k, l.v); s != "" {
				return "iter:Last:" + shape, rng + " Last(): " + s
			}
			seeks := bounds[1:]
			for _, sk := range seeks {
				// Seek(k) = first pair of the whole treap with key >= k, exhausted
				// when that pair is outside the iterator's range (Treap.tla ItSeek)
				var want pair
				found := false
				for _, p := range e.asc {
					if p.k >= sk {
						if inRange(p.k, lo, hi) {
							want, found = p, true
						}
						break
					}
				}
				rel := "inside"
				if lo != 0 && sk < lo {
					rel = "below-lo"
				} else if hi != 0 && sk >= hi {
					rel = "at-or-above-hi"
				}
				if ok := it.Seek(keyBytes(sk)); ok != found {
					return "iter:Seek:" + shape + ":" + rel, fmt.Sprintf("%s Seek(key %d)=%v, want %v (first pair >= key: %v)", rng, sk, ok, found, want)
				}
				if s := itAt(it, found, want.k, want.v); s != "" {
					return "iter:Seek:" + shape + ":" + rel, fmt.Sprintf("%s Seek(key %d): %s", rng, sk, s)
				}
			}
		}
	}
	return "", ""
}

// ---------------------------------------------------------------------------
// the objects of one run

type run struct {
	nk    int
	mode  string
	m     *tv.Mutable
	vers  []*tv.Immutable
	it    *tv.Iterator
	live  bool   // iterator walks the mutable treap
	itLo  int
	itHi  int
	last  string // class of the previous action, for violation keys
	dirty bool
}

func newRun(mode string, nk, slots int) *run {
	r := &run{nk: nk, mode: mode, m: tv.NewMutable()}
	for i := 0; i < slots; i++ {
		r.vers = append(r.vers, tv.NewImmutable())
	}
	return r
}

type moveRes struct {
	ok   bool
	k, v int
}

// apply performs one model action on the real objects.  same reports, for
// IDelete, whether the very same treap came back.
func (r *run) apply(act string, a map[string]interface{}) (mv *moveRes, same bool, panicked interface{}) {
	defer func() {
		if p := recover(); p != nil {
			panicked = p
		}
	}()
	k, v := rep.Int(a, "k"), rep.Int(a, "v")
	i, j := rep.Int(a, "i")-1, rep.Int(a, "j")-1
	reseek := func() {
		if r.it != nil && r.live {
			r.it.ForceReseek() // the documented protocol after mutating under an iterator
			r.dirty = true
		}
	}
	move := func(ok bool) {
		mv = &moveRes{ok: ok}
		if r.it.Valid() {
			mv.k = unkey(r.it.Key())
		}
		r.dirty = false
	}
	switch act {
	case "MPut":
		r.m.Put(keyBytes(k), valBytes(k, v))
		reseek()
	case "MDelete":
		r.m.Delete(keyBytes(k))
		reseek()
	case "MReset":
		r.m.Reset()
		reseek()
	case "IPut":
		r.vers[j] = r.vers[i].Put(keyBytes(k), valBytes(k, v))
	case "IDelete":
		nv := r.vers[i].Delete(keyBytes(k))
		same = nv == r.vers[i]
		r.vers[j] = nv
	case "MIter":
		r.itLo, r.itHi = rep.Int(a, "lo"), rep.Int(a, "hi")
		r.it = r.m.Iterator(keyBytes(r.itLo), keyBytes(r.itHi))
		r.live, r.dirty = true, false
	case "IIter":
		r.itLo, r.itHi = rep.Int(a, "lo"), rep.Int(a, "hi")
		r.it = r.vers[i].Iterator(keyBytes(r.itLo), keyBytes(r.itHi))
		r.live, r.dirty = false, false
	case "First":
		move(r.it.First())
	case "Last":
		move(r.it.Last())
	case "Next":
		move(r.it.Next())
	case "Prev":
		move(r.it.Prev())
	case "Seek":
		move(r.it.Seek(keyBytes(k)))
	default:
		panic("unknown action " + act)
	}
	return
}

func unkey(b []byte) int {
	if len(b) == 0 {
		return 0
	}
	k := (int(b[0])-0x30)*2 - 1
	if len(b) == 2 {
		k++
	}
	return k
}

func isMove(act string) bool {
	switch act {
	case "First", "Last", "Next", "Prev", "Seek":
		return true
	}
	return false
}

func actClass(act string) string {
	switch {
	case isMove(act):
		return "move"
	case act == "MIter" || act == "IIter":
		return "new"
	}
	return "update"
}

func (r *run) boundsShape() string {
	s := ""
	if r.itLo != 0 {
		s += "lo"
	}
	if r.itHi != 0 {
		s += "hi"
	}
	if s == "" {
		s = "unbounded"
	}
	return s
}

// ---------------------------------------------------------------------------
// replay of TLC behaviours

func replayOne(b rep.Behaviour, nk int) bool {
	if len(b) == 0 {
		return true
	}
	slots := len(rep.List(b[0], "vers"))
	r := newRun(rep.Str(b[0], "mode"), nk, slots)
	fail := func(i int, key, what string) bool {
		rep.Violation(key, fmt.Sprintf("step %d (%s %v): %s", i, b[i].Act(), b[i].Args(), what),
			map[string]interface{}{"behaviour": b[:i+1], "nk": nk})
		return false
	}
	for i, st := range b {
		act := st.Act()
		wasDirty, prev := r.dirty, r.last
		mv, same, p := r.apply(act, st.Args())
		if p != nil {
			return fail(i, "C19:panic:"+act, fmt.Sprintf("panic: %v", p))
		}
		if isMove(act) {
			res := rep.Map(st, "res")
			eok, ek, ev := rep.Bool(res, "ok"), rep.Int(res, "k"), rep.Int(res, "v")
			ctx := prev
			if wasDirty {
				ctx = "reseek"
			}
			key := fmt.Sprintf("C19:%s:iter:%s:%s:after-%s", r.mode, act, r.boundsShape(), ctx)
			if mv.ok != eok {
				return fail(i, key, fmt.Sprintf("%s() returned %v (at key %d), the ordered map says %v (key %d)", act, mv.ok, mv.k, eok, ek))
			}
			if s := itAt(r.it, eok, ek, ev); s != "" {
				return fail(i, key, act+"(): "+s)
			}
		}
		if act == "IDelete" {
			if want, _ := st["res"].(bool); want != same {
				return fail(i, "C19:imm:Delete:same-treap", fmt.Sprintf("Delete returned the same treap: %v, key was absent: %v", same, want))
			}
		}
		r.last = actClass(act)
		// complete re-query of the mutable treap and of ALL retained versions
		if r.mode == "mut" {
			if asp, what := query(r.m, parseExp(rep.Map(st, "m")), nk); asp != "" {
				return fail(i, "C19:mut:"+asp, "mutable treap: "+what)
			}
		} else {
			target := rep.Int(st.Args(), "j") - 1
			for s, o := range rep.List(st, "vers") {
				if asp, what := query(r.vers[s], parseExp(o.(map[string]interface{})), nk); asp != "" {
					if (act == "IPut" || act == "IDelete") && s != target {
						return fail(i, "C19:imm:version-disturbed:"+asp, fmt.Sprintf("retained version %d changed by an update of another version: %s", s+1, what))
					}
					return fail(i, "C19:imm:"+asp, fmt.Sprintf("version %d: %s", s+1, what))
				}
			}
		}
	}
	return true
}

// ---------------------------------------------------------------------------
// record: long random runs, written as events for TraceTreap.tla

func record(runs, length, nk int, out string) {
	f, err := os.Create(out)
	if err != nil {
		panic(err)
	}
	defer f.Close()
	enc := json.NewEncoder(f)
	rng := rand.New(rand.NewSource(rep.Seed()))
	const slots = 4
	events := 0
	emit := func(m map[string]interface{}) { enc.Encode(m); events++ }
	ascOf := func(t reader) [][]int {
		res := [][]int{}
		t.ForEach(func(k, v []byte) bool { res = append(res, []int{unkey(k), len(v)}); return true })
		return res
	}
	for n := 0; n < runs; n++ {
		mode := []string{"mut", "imm"}[n%2]
		r := newRun(mode, nk, slots)
		emit(map[string]interface{}{"ev": "Reset", "mode": mode})
		// the driver's own oracle (for the complete re-query at check points)
		mm := make([]int, nk)
		for i := range mm {
			mm[i] = -1
		}
		vv := make([][]int, slots)
		for s := range vv {
			vv[s] = append([]int(nil), mm...)
		}
		// a hot window keeps the treap small enough for deletes/overwrites to matter
		pick := func() int { return 1 + rng.Intn(nk) }
		stop := false
		for i := 0; i < length && !stop; i++ {
			c := rng.Intn(100)
			var act string
			a := map[string]interface{}{}
			switch {
			case c < 34:
				act = "Put"
				a["k"], a["v"] = float64(pick()), float64(rng.Intn(4))
			case c < 52:
				act = "Delete"
				a["k"] = float64(pick())
			case c < 53 && mode == "mut":
				act = "MReset"
			case c < 60:
				act = "Iter"
				lo, hi := 0, 0
				if rng.Intn(2) == 0 {
					lo = pick()
				}
				if rng.Intn(2) == 0 {
					hi = pick()
				}
				a["lo"], a["hi"] = float64(lo), float64(hi)
			case c < 66:
				act = "Seek"
				a["k"] = float64(pick())
			case c < 70:
				act = "First"
			case c < 74:
				act = "Last"
			case c < 88:
				act = "Next"
			default:
				act = "Prev"
			}
			if isMove(act) && r.it == nil {
				continue
			}
			if act == "MReset" && r.m.Len() == 0 {
				continue
			}
			si, sj := rng.Intn(slots), rng.Intn(slots)
			if act == "Put" || act == "Delete" || act == "Iter" {
				if mode == "mut" {
					act = "M" + act
				} else {
					act = "I" + act
					a["i"], a["j"] = float64(si+1), float64(sj+1)
				}
			}
			mv, same, p := r.apply(act, a)
			ev := map[string]interface{}{"ev": act}
			for k, v := range a {
				ev[k] = v
			}
			if p != nil {
				ev["ev"], ev["op"], ev["panic"] = "Panic", act, fmt.Sprint(p)
				emit(ev)
				break
			}
			k, v := rep.Int(a, "k"), rep.Int(a, "v")
			switch act {
			case "MPut":
				mm[k-1] = v
			case "MDelete":
				mm[k-1] = -1
			case "MReset":
				for x := range mm {
					mm[x] = -1
				}
			case "IPut":
				nv := append([]int(nil), vv[si]...)
				nv[k-1] = v
				vv[sj] = nv
			case "IDelete":
				nv := append([]int(nil), vv[si]...)
				nv[k-1] = -1
				vv[sj] = nv
				ev["same"] = same
			}
			if mv != nil {
				ev["rok"], ev["rk"] = mv.ok, mv.k
				ev["rv"] = -1
				if mv.ok {
					ev["rv"] = len(r.it.Value())
				}
			}
			if mode == "mut" {
				ev["cnt"], ev["size"] = r.m.Len(), r.m.Size()
			} else if act == "IPut" || act == "IDelete" {
				ev["cnt"], ev["size"] = r.vers[sj].Len(), r.vers[sj].Size()
			}
			emit(ev)
			// check points: the observed ascending content of every treap goes into the
			// trace, and the driver re-queries everything against its own oracle
			if i%16 == 15 || i == length-1 {
				if mode == "mut" {
					emit(map[string]interface{}{"ev": "Check", "slot": 0, "asc": ascOf(r.m)})
					if asp, what := query(r.m, mapFromValues(mm), nk); asp != "" {
						rep.Violation("C19:mut:"+asp, fmt.Sprintf("random run %d after %d operations: %s", n, i+1, what), map[string]interface{}{"run": n, "op": i})
						stop = true
					}
				} else {
					for s := 0; s < slots; s++ {
						emit(map[string]interface{}{"ev": "Check", "slot": s + 1, "asc": ascOf(r.vers[s])})
						if asp, what := query(r.vers[s], mapFromValues(vv[s]), nk); asp != "" {
							rep.Violation("C19:imm:"+asp, fmt.Sprintf("random run %d after %d operations, version %d: %s", n, i+1, s+1, what), map[string]interface{}{"run": n, "op": i})
							stop = true
						}
					}
				}
			}
		}
	}
	rep.Summary(runs, map[string]interface{}{"events": events, "mode": "record", "nk": nk})
}

func main() {
	if len(os.Args) < 4 {
		fmt.Fprintln(os.Stderr, "usage: treap replay <file> <nk> | record <runs> <len> <nk> <out>")
		os.Exit(3)
	}
	switch os.Args[1] {
	case "replay":
		nk, _ := strconv.Atoi(os.Args[3])
		behs := rep.ReadBehaviours(os.Args[2])
		okN, steps := 0, 0
		for _, b := range behs {
			if replayOne(b, nk) {
				okN++
			}
			steps += len(b)
		}
		var sample interface{}
		if len(behs) > 0 {
			sb := behs[len(behs)/2]
			var acts []string
			for _, s := range sb {
				acts = append(acts, fmt.Sprintf("%s%v", s.Act(), s.Args()))
			}
			sample = map[string]interface{}{"behaviour": acts, "final": sb[len(sb)-1]}
		}
		rep.Summary(len(behs), map[string]interface{}{"steps": steps, "agree": okN, "mode": "replay"}, sample)
	case "record":
		runs, _ := strconv.Atoi(os.Args[2])
		l, _ := strconv.Atoi(os.Args[3])
		nk, _ := strconv.Atoi(os.Args[4])
		record(runs, l, nk, os.Args[5])
	}
	rep.Flush()
}
