package main

// Canonical, order independent dump of the whole committee state (KeyFrame,
// StateKeyFrame, ProposalKeyFrame) by reflection over every exported field,
// used by the differential oracle of C22.  Maps are walked in the order of
// their canonical keys, nil and empty containers are the same, every container
// contributes its length (an empty inner map is state: it is serialized).

import (
	"encoding/hex"
	"fmt"
	"reflect"
	"sort"
	"strings"
)

type flat map[string]string

// dumpUnexported makes dumpValue walk unexported fields too (C23); func, chan
// and sync fields are always skipped.
var dumpUnexported = false

func dumpValue(path string, v reflect.Value, out flat) {
	switch v.Kind() {
	case reflect.Func, reflect.Chan, reflect.UnsafePointer:
		return
	case reflect.Ptr, reflect.Interface:
		if v.IsNil() {
			out[path] = "nil"
			return
		}
		dumpValue(path, v.Elem(), out)
	case reflect.Struct:
		t := v.Type()
		for i := 0; i < v.NumField(); i++ {
			f := t.Field(i)
			if f.PkgPath != "" && !dumpUnexported { // unexported (caches)
				continue
			}
			if f.Type.PkgPath() == "sync" || (f.Type.Kind() == reflect.Ptr && f.Type.Elem().PkgPath() == "sync") {
				continue
			}
			dumpValue(path+"."+f.Name, v.Field(i), out)
		}
	case reflect.Map:
		if v.Len() == 0 {
			out[path+".#"] = "0"
			return
		}
		out[path+".#"] = fmt.Sprint(v.Len())
		type kv struct {
			k string
			v reflect.Value
		}
		var ks []kv
		it := v.MapRange()
		for it.Next() {
			ks = append(ks, kv{scalar(it.Key()), it.Value()})
		}
		sort.Slice(ks, func(i, j int) bool { return ks[i].k < ks[j].k })
		for _, e := range ks {
			if e.v.Kind() == reflect.Struct && e.v.NumField() == 0 {
				out[path+"["+e.k+"]"] = "present" // a set: the key is the content
				continue
			}
			dumpValue(path+"["+e.k+"]", e.v, out)
		}
	case reflect.Slice, reflect.Array:
		if v.Type().Elem().Kind() == reflect.Uint8 {
			out[path] = scalar(v)
			return
		}
		out[path+".#"] = fmt.Sprint(v.Len())
		for i := 0; i < v.Len(); i++ {
			dumpValue(fmt.Sprintf("%s[%d]", path, i), v.Index(i), out)
		}
	default:
		out[path] = scalar(v)
	}
}

func scalar(v reflect.Value) string {
	switch v.Kind() {
	case reflect.Slice, reflect.Array:
		if v.Type().Elem().Kind() == reflect.Uint8 {
			b := make([]byte, v.Len())
			for i := range b {
				b[i] = byte(v.Index(i).Uint())
			}
			return hex.EncodeToString(b)
		}
	case reflect.String:
		return v.String()
	case reflect.Bool:
		return fmt.Sprint(v.Bool())
	case reflect.Int, reflect.Int8, reflect.Int16, reflect.Int32, reflect.Int64:
		return fmt.Sprint(v.Int())
	case reflect.Uint, reflect.Uint8, reflect.Uint16, reflect.Uint32, reflect.Uint64:
		return fmt.Sprint(v.Uint())
	case reflect.Float32, reflect.Float64:
		return fmt.Sprint(v.Float())
	case reflect.Struct:
		f := flat{}
		dumpValue("", v, f)
		var ks []string
		for k := range f {
			ks = append(ks, k)
		}
		sort.Strings(ks)
		var sb strings.Builder
		for _, k := range ks {
			sb.WriteString(k + "=" + f[k] + ";")
		}
		return sb.String()
	}
	return fmt.Sprintf("%v", v)
}

// Canon dumps the live state of the instance's committee.
func (in *Inst) Canon() flat {
	out := flat{}
	dumpValue("KeyFrame", reflect.ValueOf(in.comm.KeyFrame), out)
	dumpValue("StateKeyFrame", reflect.ValueOf(in.comm.GetState().StateKeyFrame), out)
	dumpValue("ProposalKeyFrame", reflect.ValueOf(in.comm.GetProposalManager().ProposalKeyFrame), out)
	return out
}

// fieldOf strips the map keys / indexes of a path: the name of the field.
func fieldOf(path string) string {
	var sb strings.Builder
	depth := 0
	for _, r := range path {
		switch {
		case r == '[':
			depth++
		case r == ']':
			depth--
		case depth == 0:
			sb.WriteRune(r)
		}
	}
	return strings.TrimSuffix(sb.String(), ".#")
}

type diffEntry struct {
	Path, A, B string
}

// diffFlat returns the differing paths (sorted) grouped by field.
func diffFlat(a, b flat) (fields []string, entries []diffEntry) {
	seen := map[string]bool{}
	var paths []string
	for k := range a {
		paths = append(paths, k)
	}
	for k := range b {
		if _, ok := a[k]; !ok {
			paths = append(paths, k)
		}
	}
	sort.Strings(paths)
	for _, p := range paths {
		va, oka := a[p]
		vb, okb := b[p]
		if oka && okb && va == vb {
			continue
		}
		if !oka {
			va = "<absent>"
		}
		if !okb {
			vb = "<absent>"
		}
		entries = append(entries, diffEntry{p, va, vb})
		f := fieldOf(p)
		if !seen[f] {
			seen[f] = true
			fields = append(fields, f)
		}
	}
	sort.Strings(fields)
	return
}
