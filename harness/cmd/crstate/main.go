// Conformance driver for spec/Gov/CR.tla + Proposal.tla (C22, C29).
//
//	crstate replay <cfg.json> <behaviours.jsonl> [sweep [shard n]]
//	crstate budget <cfg.json> <cases.jsonl>                          (decision table of BudgetTable.tla)
//	crstate checkpoint <cfg.json> <behaviours.jsonl> [0 [shard n]]   (C23, CR part: see checkpoint.go)
//	crstate fields <n> <seed>                                        (C23, CR part: generated checkpoints, see fields.go)
//
// Every behaviour TLC printed is replayed block by block on a real
// crstate.Committee (instance A) that is fed and rolled back through its
// checkpoint.Manager, as in the node.  After every step
//
//	C22 (i)  differential oracle on the real code: A (which went through the
//	         behaviour's rollbacks, and through a rollback sweep to earlier heights
//	         -- the bounds CRVotingStartHeight+1 / CRVotingStartHeight /
//	         CRVotingStartHeight-1 of the rollback path among them -- and back)
//	         against instance B that processed only the blocks of the current
//	         chain: canonical dump of KeyFrame/StateKeyFrame/ProposalKeyFrame
//	C22 (ii) the spec's state record against the projection of A
//	C28      (CR side) the deposit balance invariant of CR.tla on the real
//	         DepositInfo and the deposit addresses' outputs, after every block
//	C29      the real checkers (SpecialContextCheck of CRCProposal, review,
//	         tracking, withdraw -- both payload versions --, real withdraw,
//	         appropriation; CheckDuplicateTx on the block) against the spec's
//	         verdicts, on the block's transactions and on probe transactions around
//	         the budget limits; the budget invariants (payable set included) on
//	         the real state, also right after a rollback that left something behind.
package main

import (
	"encoding/json"
	"fmt"
	"os"
	"strconv"

	"verif/harness/internal/rep"
	"verif/harness/internal/stack"
)

func main() {
	if len(os.Args) < 4 {
		fmt.Fprintln(os.Stderr, "usage: crstate replay <cfg.json> <behaviours.jsonl> [sweep=0|1|2] [shard i n]")
		os.Exit(3)
	}
	defer stack.CleanupGlobals()
	if os.Args[1] == "fields" {
		// crstate fields <n> <seed>: generated checkpoints (fields.go)
		n, _ := strconv.Atoi(os.Args[2])
		seed, _ := strconv.ParseInt(os.Args[3], 10, 64)
		fieldsMode(n, seed)
		rep.Flush()
		return
	}
	var cfg Cfg
	raw, err := os.ReadFile(os.Args[2])
	if err != nil || json.Unmarshal(raw, &cfg) != nil {
		fmt.Fprintln(os.Stderr, "bad cfg", err)
		os.Exit(3)
	}
	sweep := 1
	if len(os.Args) > 4 {
		sweep, _ = strconv.Atoi(os.Args[4])
	}
	shard, nshard := 0, 1
	if len(os.Args) > 6 {
		shard, _ = strconv.Atoi(os.Args[5])
		nshard, _ = strconv.Atoi(os.Args[6])
	}
	switch os.Args[1] {
	case "replay":
		behs := rep.ReadBehaviours(os.Args[3])
		env := NewEnv(cfg)
		st := &stats{}
		n := 0
		var sample interface{}
		summary := func() {
			rep.Summary(n, map[string]interface{}{"mode": "replay", "steps": st.steps, "blocks": st.blocks, "rollbacks": st.rollbacks,
				"sweep_rollbacks": st.sweeps, "diff_compares": st.compares, "checker_verdicts": st.verdicts,
				"probe_verdicts": st.probes, "double_withdraw_probes": st.doubleProbes, "txs": st.txs, "agree": st.agree}, sample)
		}
		// a rollback that does not return is reported; the rest of this shard is not replayed
		onHang = func() {
			summary()
			rep.Flush()
			stack.CleanupGlobals()
			os.Exit(0)
		}
		for i, b := range behs {
			if i%nshard != shard {
				continue
			}
			n++
			r := newRunner(env, sweep, st)
			r.replay(b)
			if sample == nil && len(b) > 2 {
				sample = compactBehaviour(b)
			}
		}
		summary()
	case "budget":
		var cases []map[string]interface{}
		for _, b := range rep.ReadBehaviours(os.Args[3]) {
			cases = append(cases, map[string]interface{}{"log": []interface{}{map[string]interface{}(b[0])}})
		}
		budgetMode(NewEnv(cfg), cases)
	case "checkpoint":
		checkpointMode(NewEnv(cfg), rep.ReadBehaviours(os.Args[3]), shard, nshard)
	default:
		fmt.Fprintln(os.Stderr, "unknown mode")
		os.Exit(3)
	}
	rep.Flush()
}

// compactBehaviour keeps actions and arguments only (evidence sample).
func compactBehaviour(b rep.Behaviour) interface{} {
	var out []interface{}
	for _, s := range b {
		out = append(out, map[string]interface{}{"act": s.Act(), "args": s.Args()})
	}
	return out
}
