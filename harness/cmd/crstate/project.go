package main

// Projection of the real committee onto the state record of spec/Gov/CR.tla and
// the C29 invariants evaluated on the real state.

import (
	"bytes"
	"fmt"
	"sort"
	"strings"

	"github.com/elastos/Elastos.ELA/common"
	"github.com/elastos/Elastos.ELA/core/types/payload"
	crstate "github.com/elastos/Elastos.ELA/cr/state"
)

type obj = map[string]interface{}
type arr = []interface{}

var candStates = map[crstate.CandidateState]string{crstate.Pending: "Pending", crstate.Active: "Active",
	crstate.Canceled: "Canceled", crstate.Returned: "Returned"}
var memStates = map[crstate.MemberState]string{crstate.MemberElected: "Elected", crstate.MemberImpeached: "Impeached",
	crstate.MemberTerminated: "Terminated", crstate.MemberReturned: "Returned", crstate.MemberInactive: "Inactive",
	crstate.MemberIllegal: "Illegal"}
var propStates = map[crstate.ProposalStatus]string{crstate.Registered: "Registered", crstate.CRAgreed: "CRAgreed",
	crstate.VoterAgreed: "VoterAgreed", crstate.Finished: "Finished", crstate.CRCanceled: "CRCanceled",
	crstate.VoterCanceled: "VoterCanceled", crstate.Terminated: "Terminated", crstate.Aborted: "Aborted"}
var budStates = map[crstate.BudgetStatus]string{crstate.Unfinished: "Unfinished", crstate.Withdrawable: "Withdrawable",
	crstate.Withdrawn: "Withdrawn", crstate.Rejected: "Rejected", crstate.Closed: "Closed"}

// units converts an amount to spec units; amounts that are not whole units are
// reported (the projection would be meaningless).
func units(v, unit common.Fixed64, what string, bad *[]string) int {
	if v%unit != 0 {
		*bad = append(*bad, fmt.Sprintf("%s = %d is not a multiple of the unit %d", what, int64(v), int64(unit)))
	}
	return int(v / unit)
}

// orderOwner: withdraw transaction hash -> proposal index (the order itself only
// carries recipient and amount)
type tracker struct {
	orderProp map[common.Uint256]int
}

func (in *Inst) Project(tr *tracker, maxSession int) (obj, []string) {
	e := in.env
	var bad []string
	st := in.comm.GetState()
	pm := in.comm.GetProposalManager()
	kf := &in.comm.KeyFrame
	n := len(e.crs) - 1
	res := obj{"h": int(in.height)}

	cand, dep, mem, next := arr{}, arr{}, arr{}, arr{}
	for c := 1; c <= n; c++ {
		k := e.crs[c]
		if cd, ok := st.Candidates[k.cid]; ok {
			nick := 0
			fmt.Sscanf(strings.TrimPrefix(cd.Info.NickName, nickPrefix(c)), "%d", &nick)
			cand = append(cand, obj{"st": candStates[cd.State], "votes": units(cd.Votes, ELA, "candidate votes", &bad),
				"regH": int(cd.RegisterHeight), "cancelH": int(cd.CancelHeight), "nick": nick})
		} else {
			cand = append(cand, obj{"st": "None", "votes": 0, "regH": 0, "cancelH": 0, "nick": 0})
		}
		if di, ok := st.DepositInfo[k.cid]; ok {
			dep = append(dep, obj{"known": true, "locked": units(di.DepositAmount, crstate.MinDepositAmount, "deposit amount", &bad)})
		} else {
			dep = append(dep, obj{"known": false, "locked": 0})
		}
		if m, ok := kf.Members[k.did]; ok {
			mem = append(mem, obj{"st": memStates[m.MemberState], "imp": units(m.ImpeachmentVotes, BigVote, "impeachment votes", &bad),
				"key": len(m.DPOSPublicKey) > 0, "pbc": int(m.PenaltyBlockCount)})
		} else {
			mem = append(mem, obj{"st": "None", "imp": 0, "key": false, "pbc": 0})
		}
		if m, ok := kf.NextMembers[k.did]; ok {
			next = append(next, obj{"in": true, "key": len(m.DPOSPublicKey) > 0})
		} else {
			next = append(next, obj{"in": false, "key": false})
		}
	}
	res["cand"], res["dep"], res["mem"], res["next"] = cand, dep, mem, next

	hmem, hcand := obj{}, obj{}
	for i := 0; i <= maxSession; i++ {
		hm, hc := arr{}, arr{}
		for c := 1; c <= n; c++ {
			k := e.crs[c]
			s1, s2 := "None", "None"
			if m, ok := kf.HistoryMembers[uint64(i)][k.cid]; ok {
				s1 = memStates[m.MemberState]
			}
			if cd, ok := st.HistoryCandidates[uint64(i)][k.cid]; ok {
				s2 = candStates[cd.State]
			}
			hm, hc = append(hm, s1), append(hc, s2)
		}
		hmem[fmt.Sprint(i)], hcand[fmt.Sprint(i)] = hm, hc
	}
	for s := range kf.HistoryMembers {
		if int(s) > maxSession {
			bad = append(bad, fmt.Sprintf("history members of session %d beyond MaxSession", s))
		}
	}
	res["hmem"], res["hcand"] = hmem, hcand

	res["lch"], res["lvsh"] = int(kf.LastCommitteeHeight), int(kf.LastVotingStartHeight)
	res["inElect"], res["session"], res["needApp"] = kf.InElectionPeriod, int(st.CurrentSession), kf.NeedAppropriation
	res["fbal"] = units(kf.CRCFoundationBalance, ELA, "CRCFoundationBalance", &bad)
	res["cbal"] = units(kf.CRCCommitteeBalance, ELA, "CRCCommitteeBalance", &bad)
	res["used"] = units(kf.CRCCommitteeUsedAmount, ELA, "CRCCommitteeUsedAmount", &bad)
	res["stage"] = units(kf.CRCCurrentStageAmount, ELA, "CRCCurrentStageAmount", &bad)
	res["approp"] = units(kf.AppropriationAmount, ELA, "AppropriationAmount", &bad)
	res["usedSnap"] = units(kf.CommitteeUsedAmount, ELA, "CommitteeUsedAmount", &bad)

	// proposals
	np := e.cfg.NProps
	hashOf := map[common.Uint256]int{}
	pss := make([]*crstate.ProposalState, np+1)
	for p := 1; p <= np; p++ {
		pss[p] = in.proposal(p)
		if pss[p] != nil {
			hashOf[pss[p].Proposal.Hash] = p
		}
	}
	if len(pm.Proposals) != len(hashOf) {
		bad = append(bad, fmt.Sprintf("%d proposals in the real committee, %d known to the driver", len(pm.Proposals), len(hashOf)))
	}
	votesOf := func(m map[common.Uint168][]payload.VotesWithLockTime, v int, unit common.Fixed64, idx func([]byte) int, size int, what string) arr {
		r := make(arr, size)
		for i := range r {
			r[i] = 0
		}
		for _, vi := range m[e.stake[v]] {
			i := idx(vi.Candidate)
			if i < 1 || i > size {
				bad = append(bad, what+": vote for an unknown subject")
				continue
			}
			r[i-1] = r[i-1].(int) + units(vi.Votes, unit, what, &bad)
		}
		return r
	}
	cidIdx := func(b []byte) int {
		for c := 1; c <= n; c++ {
			if bytes.Equal(e.crs[c].cid.Bytes(), b) {
				return c
			}
		}
		return 0
	}
	propIdx := func(b []byte) int {
		h, err := common.Uint256FromBytes(b)
		if err != nil {
			return 0
		}
		return hashOf[*h]
	}
	uCR, uImp, uRej := arr{}, arr{}, arr{}
	for v := 1; v < len(e.voters); v++ {
		uCR = append(uCR, votesOf(st.UsedCRVotes, v, ELA, cidIdx, n, "UsedCRVotes"))
		uImp = append(uImp, votesOf(st.UsedCRImpeachmentVotes, v, BigVote, cidIdx, n, "UsedCRImpeachmentVotes"))
		uRej = append(uRej, votesOf(st.UsedCRCProposalVotes, v, BigVote, propIdx, np, "UsedCRCProposalVotes"))
	}
	res["uCR"], res["uImp"], res["uRej"] = uCR, uImp, uRej

	props := arr{}
	for p := 1; p <= np; p++ {
		ps := pss[p]
		if ps == nil {
			props = append(props, obj{"st": "None", "kind": "normal", "target": 0, "bud": arr{0, 0, 0}, "bst": arr{"NA", "NA", "NA"},
				"wable": arr{}, "wdrawn": arr{}, "owner": 0, "sponsor": 0, "crv": noneVotes(n), "rej": 0, "regH": 0, "vsH": 0,
				"tcount": 0, "fps": false, "termH": 0, "sess": 0})
			continue
		}
		o := obj{"st": propStates[ps.Status], "rej": units(ps.VotersRejectAmount, BigVote, "VotersRejectAmount", &bad),
			"regH": int(ps.RegisterHeight), "vsH": int(ps.VoteStartHeight), "tcount": int(ps.TrackingCount),
			"fps": ps.FinalPaymentStatus, "termH": int(ps.TerminatedHeight)}
		switch ps.Proposal.ProposalType {
		case payload.Normal:
			o["kind"], o["target"] = "normal", 0
		case payload.CloseProposal:
			o["kind"], o["target"] = "close", hashOf[ps.Proposal.TargetProposalHash]
		default:
			o["kind"], o["target"] = "?", 0
		}
		bud, bst := arr{0, 0, 0}, arr{"NA", "NA", "NA"}
		for _, b := range ps.Proposal.Budgets {
			if int(b.Stage) < 3 {
				bud[b.Stage] = units(b.Amount, ELA, "budget", &bad)
			}
		}
		for s, v := range ps.BudgetsStatus {
			if int(s) < 3 {
				bst[s] = budStates[v]
			}
		}
		o["bud"], o["bst"] = bud, bst
		o["wable"], o["wdrawn"] = stageSet(ps.WithdrawableBudgets), stageSet(ps.WithdrawnBudgets)
		o["owner"], o["sponsor"] = 0, 0
		for i := 1; i < len(e.owners); i++ {
			if bytes.Equal(e.owners[i].pub, ps.ProposalOwner) {
				o["owner"] = i
			}
		}
		crv := noneVotes(n)
		for c := 1; c <= n; c++ {
			if e.crs[c].did.IsEqual(ps.Proposal.CRCouncilMemberDID) {
				o["sponsor"] = c
			}
			if r, ok := ps.CRVotes[e.crs[c].did]; ok {
				crv[c-1] = map[payload.VoteResult]string{payload.Approve: "approve", payload.Reject: "reject", payload.Abstain: "abstain"}[r]
			}
		}
		o["crv"] = crv
		o["sess"] = -1
		for s, hs := range pm.ProposalSession {
			for _, h := range hs {
				if h.IsEqual(ps.Proposal.Hash) {
					o["sess"] = int(s)
				}
			}
		}
		props = append(props, o)
	}
	res["prop"] = props

	// pending withdraw orders as sorted (proposal, amount) pairs
	var pend []string
	for h, oi := range pm.WithdrawableTxInfo {
		pend = append(pend, fmt.Sprintf("%d:%d", tr.orderProp[h], units(oi.Amount, ELA, "order amount", &bad)))
	}
	sort.Strings(pend)
	pa := arr{}
	for _, s := range pend {
		pa = append(pa, s)
	}
	res["pend"] = pa
	return res, bad
}

func noneVotes(n int) arr {
	r := make(arr, n)
	for i := range r {
		r[i] = "none"
	}
	return r
}

func stageSet(m map[uint8]common.Fixed64) arr {
	var ks []int
	for k := range m {
		ks = append(ks, int(k)+1)
	}
	sort.Ints(ks)
	r := arr{}
	for _, k := range ks {
		r = append(r, k)
	}
	return r
}

// specState decodes the positional state record logged by the spec (Compact in
// CR.tla) into the shape of Project.
func specState(st map[string]interface{}) obj {
	named := func(v interface{}, names ...string) arr {
		out := arr{}
		for _, row := range v.([]interface{}) {
			cols := row.([]interface{})
			o := obj{}
			for i, n := range names {
				if i < len(cols) {
					o[n] = cols[i]
				}
			}
			out = append(out, o)
		}
		return out
	}
	sortedInts := func(v interface{}) arr {
		var xs []int
		for _, x := range v.([]interface{}) {
			xs = append(xs, int(x.(float64)))
		}
		sort.Ints(xs)
		a := arr{}
		for _, x := range xs {
			a = append(a, x)
		}
		return a
	}
	r := obj{"h": st["h"], "hmem": st["hmem"], "hcand": st["hcand"], "uCR": st["uCR"], "uImp": st["uImp"], "uRej": st["uRej"]}
	r["cand"] = named(st["cand"], "st", "votes", "regH", "cancelH", "nick")
	r["dep"] = named(st["dep"], "known", "locked")
	r["mem"] = named(st["mem"], "st", "imp", "key", "pbc")
	r["next"] = named(st["next"], "in", "key")
	per := st["per"].([]interface{})
	for i, n := range []string{"lch", "lvsh", "inElect", "session", "needApp"} {
		r[n] = per[i]
	}
	fund := st["fund"].([]interface{})
	for i, n := range []string{"fbal", "cbal", "used", "stage", "approp", "usedSnap"} {
		r[n] = fund[i]
	}
	props := named(st["prop"], "st", "kind", "target", "bud", "bst", "wable", "wdrawn", "owner", "sponsor", "crv", "rej",
		"regH", "vsH", "tcount", "fps", "termH", "sess")
	for _, p := range props {
		q := p.(obj)
		q["wable"], q["wdrawn"] = sortedInts(q["wable"]), sortedInts(q["wdrawn"])
	}
	r["prop"] = props
	var pend []string
	for _, o := range st["pend"].([]interface{}) {
		t := o.([]interface{})
		pend = append(pend, fmt.Sprintf("%d:%d", int(t[1].(float64)), int(t[2].(float64))))
	}
	sort.Strings(pend)
	pa := arr{}
	for _, s := range pend {
		pa = append(pa, s)
	}
	r["pend"] = pa
	return r
}

func flatten(prefix string, v interface{}, out flat) {
	switch x := v.(type) {
	case map[string]interface{}:
		for k, vv := range x {
			flatten(prefix+"."+k, vv, out)
		}
	case []interface{}:
		out[prefix+".#"] = fmt.Sprint(len(x))
		for i, vv := range x {
			flatten(fmt.Sprintf("%s[%d]", prefix, i+1), vv, out)
		}
	case float64:
		out[prefix] = fmt.Sprint(int64(x))
	case int:
		out[prefix] = fmt.Sprint(x)
	case bool:
		out[prefix] = fmt.Sprint(x)
	case string:
		out[prefix] = x
	default:
		out[prefix] = fmt.Sprintf("%v", x)
	}
}

// ---------------------------------------------------------------------------
// C28 (CR side) on the real state: CRDepositBalance of CR.tla

type c28Finding struct {
	key, what string
	cr        int
	known     bool // the spec's named deviation ReleasedTwice
}

// checkC28: per CID no part of the deposit bookkeeping is negative, what
// ReturnCRDepositCoin may take (GetAvailableDepositAmount) is total - locked -
// penalty and never more than the deposit address holds, and the total is what
// the address holds (the ledger of the driver).
func (in *Inst) checkC28(led *ledger, kd map[int]bool) []c28Finding {
	var fs []c28Finding
	st := in.comm.GetState()
	kf := &in.comm.KeyFrame
	for c := 1; c < len(in.env.crs); c++ {
		k := in.env.crs[c]
		di, ok := st.DepositInfo[k.cid]
		if !ok {
			continue
		}
		var onAddress common.Fixed64
		for _, u := range led.deposit[c] {
			onAddress += u.val
		}
		avail := in.comm.GetAvailableDepositAmount(k.cid)
		if di.DepositAmount < 0 {
			shape, known := "", false
			switch {
			case kd[c]:
				shape, known = "released-twice-at-committee-change", true
			default:
				shape = in.depositRole(k)
			}
			fs = append(fs, c28Finding{"C28:cr-deposit-negative:" + shape, fmt.Sprintf("the locked deposit (DepositInfo.DepositAmount) of CR %d is %s: "+
				"it was released more often than it was locked, GetAvailableDepositAmount answers %s with %s on the deposit address "+
				"(penalty %s)", c, di.DepositAmount, avail, di.TotalAmount, di.Penalty), c, known})
			continue
		}
		if di.Penalty < 0 || di.TotalAmount < 0 {
			fs = append(fs, c28Finding{"C28:cr-deposit-part-negative", fmt.Sprintf("CR %d: TotalAmount %s, Penalty %s", c, di.TotalAmount, di.Penalty), c, false})
		}
		if avail > di.TotalAmount-di.DepositAmount-di.Penalty {
			fs = append(fs, c28Finding{"C28:cr-available-exceeds-balance", fmt.Sprintf("CR %d: GetAvailableDepositAmount answers %s, total %s - locked %s - "+
				"penalty %s allows %s", c, avail, di.TotalAmount, di.DepositAmount, di.Penalty, di.TotalAmount-di.DepositAmount-di.Penalty), c, false})
		}
		if di.TotalAmount != onAddress {
			fs = append(fs, c28Finding{"C28:cr-total-differs-from-address", fmt.Sprintf("CR %d: DepositInfo.TotalAmount is %s, the unspent outputs of "+
				"the deposit address are worth %s", c, di.TotalAmount, onAddress), c, false})
		} else if avail > onAddress {
			fs = append(fs, c28Finding{"C28:cr-available-exceeds-address", fmt.Sprintf("CR %d: %s may be returned, the deposit address holds %s", c, avail, onAddress), c, false})
		}
	}
	_ = kf
	return fs
}

// depositRole names what the CR is (or last was) for the key of a finding.
func (in *Inst) depositRole(k *crKey) string {
	st := in.comm.GetState()
	kf := &in.comm.KeyFrame
	if cd, ok := st.Candidates[k.cid]; ok {
		return "candidate-" + candStates[cd.State]
	}
	if m, ok := kf.Members[k.did]; ok {
		return "member-" + memStates[m.MemberState]
	}
	for s := int(st.CurrentSession); s >= 0; s-- {
		if cd, ok := st.HistoryCandidates[uint64(s)][k.cid]; ok {
			return "former-candidate-" + candStates[cd.State]
		}
		if m, ok := kf.HistoryMembers[uint64(s)][k.cid]; ok {
			return "former-member-" + memStates[m.MemberState]
		}
	}
	return "unknown"
}

// ---------------------------------------------------------------------------
// C29 on the real state

type c29Finding struct{ key, what string }

// paidOut[p]: what pending orders plus executed real withdrawals pay to p
func (in *Inst) checkC29(tr *tracker, realPaid map[int]common.Fixed64) []c29Finding {
	var fs []c29Finding
	pm := in.comm.GetProposalManager()
	kf := &in.comm.KeyFrame
	pending := map[int]common.Fixed64{}
	for h, oi := range pm.WithdrawableTxInfo {
		pending[tr.orderProp[h]] += oi.Amount
	}
	if n := pending[0]; n > 0 {
		fs = append(fs, c29Finding{"C29:payable-unknown-order",
			fmt.Sprintf("WithdrawableTxInfo holds orders worth %s that belong to no withdrawal of the current chain", n)})
	}
	var outstanding common.Fixed64
	for p := 1; p <= in.env.cfg.NProps; p++ {
		ps := in.proposal(p)
		if ps == nil {
			continue
		}
		amount := map[uint8]common.Fixed64{}
		for _, b := range ps.Proposal.Budgets {
			amount[b.Stage] = b.Amount
		}
		var approved, withdrawn common.Fixed64
		for s := range ps.WithdrawableBudgets {
			approved += amount[s]
		}
		for s := range ps.WithdrawnBudgets {
			withdrawn += amount[s]
			if _, ok := ps.WithdrawableBudgets[s]; !ok {
				fs = append(fs, c29Finding{"C29:withdrawn-not-withdrawable",
					fmt.Sprintf("proposal %d stage %d is in WithdrawnBudgets but never became withdrawable", p, s)})
			}
		}
		for s, b := range ps.BudgetsStatus {
			if _, ok := ps.WithdrawnBudgets[s]; b == crstate.Withdrawn && !ok {
				fs = append(fs, c29Finding{"C29:status-withdrawn-not-paid",
					fmt.Sprintf("proposal %d stage %d has status Withdrawn without a withdrawal", p, s)})
			}
		}
		paid := pending[p] + realPaid[p]
		if pending[p] > withdrawn {
			fs = append(fs, c29Finding{"C29:payable-exceeds-withdrawn",
				fmt.Sprintf("proposal %d: the pending withdraw orders (WithdrawableTxInfo) are worth %s, the stages marked withdrawn %s: "+
					"an order outlived its withdrawal or a stage is ordered twice", p, pending[p], withdrawn)})
		}
		if paid > approved {
			fs = append(fs, c29Finding{"C29:paid-exceeds-approved",
				fmt.Sprintf("proposal %d: %s ordered/paid out but only %s of budget stages approved", p, paid, approved)})
		}
		if paid > withdrawn {
			fs = append(fs, c29Finding{"C29:stage-paid-twice",
				fmt.Sprintf("proposal %d: %s ordered/paid out for stages worth %s (a stage is paid more than once)", p, paid, withdrawn)})
		}
		switch ps.Status {
		case crstate.CRCanceled, crstate.VoterCanceled, crstate.Aborted:
		case crstate.Terminated, crstate.Finished:
			for s := range ps.WithdrawableBudgets {
				if _, ok := ps.WithdrawnBudgets[s]; !ok {
					outstanding += amount[s]
				}
			}
		default:
			for s, a := range amount {
				if _, ok := ps.WithdrawnBudgets[s]; !ok {
					outstanding += a
				}
			}
		}
	}
	if outstanding > kf.CRCCommitteeUsedAmount {
		fs = append(fs, c29Finding{"C29:committed-exceeds-bookkeeping",
			fmt.Sprintf("%s still owed to live proposals but CRCCommitteeUsedAmount is %s", outstanding, kf.CRCCommitteeUsedAmount)})
	}
	if kf.CRCCommitteeUsedAmount > kf.CRCCurrentStageAmount {
		fs = append(fs, c29Finding{"C29:committed-exceeds-available",
			fmt.Sprintf("CRCCommitteeUsedAmount %s exceeds CRCCurrentStageAmount %s", kf.CRCCommitteeUsedAmount, kf.CRCCurrentStageAmount)})
	}
	return fs
}
