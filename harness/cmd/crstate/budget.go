package main

// Decision table of spec/Gov/BudgetTable.tla on the real CRCProposal checker:
// the committee's funds fields are set on a real committee that is in its duty
// period (start state "duty"), the proposal asks for case.total units with
// case.inBlock units asked earlier in the block.

import (
	"fmt"

	"github.com/elastos/Elastos.ELA/common"
	"verif/harness/internal/rep"
)

func budgetMode(env *Env, cases []map[string]interface{}) {
	st := &stats{}
	r := newRunner(env, 0, st)
	r.quiet = true
	r.replay(rep.Behaviour{rep.Step{"act": "Start", "args": map[string]interface{}{"scenario": "duty"}}})
	if r.failed {
		rep.Mismatch("cannot reach the duty start state", nil)
		rep.Summary(0, map[string]interface{}{"mode": "budget"})
		return
	}
	in := r.A
	kf := &in.comm.KeyFrame
	sponsor := 0
	for c := 1; c < len(env.crs); c++ {
		if m := in.comm.GetMember(env.crs[c].did); m != nil && memStates[m.MemberState] == "Elected" {
			sponsor = c
			break
		}
	}
	if sponsor == 0 {
		rep.Mismatch("no elected member in the duty start state", nil)
		rep.Summary(0, map[string]interface{}{"mode": "budget"})
		return
	}
	n, accepted := 0, 0
	var sample interface{}
	for _, c := range cases {
		log, _ := c["log"].([]interface{})
		if len(log) != 1 {
			continue
		}
		e, _ := log[0].(map[string]interface{})
		a := rep.Map(e, "args")
		exp := rep.Bool(e, "exp")
		kf.CRCCurrentStageAmount = common.Fixed64(rep.Int(a, "stage")) * ELA
		kf.CommitteeUsedAmount = common.Fixed64(rep.Int(a, "usedSnap")) * ELA
		kf.CRCCommitteeUsedAmount = common.Fixed64(rep.Int(a, "used")) * ELA
		total := rep.Int(a, "total")
		bt, err := env.Build(in, r.top().led, Tx{K: "Proposal", P: 99, C: sponsor, O: 1, Bud: []int{total - 2, 1, 1}}, in.height+1)
		if err != nil {
			rep.Mismatch("cannot build the proposal: "+err.Error(), a)
			continue
		}
		cerr, _ := in.Check(bt, in.height+1, common.Fixed64(rep.Int(a, "inBlock"))*ELA)
		n++
		if cerr == nil {
			accepted++
		}
		if sample == nil && exp {
			sample = e
		}
		if cerr == nil && !exp {
			rep.Violation("C29:proposal-over-budget", fmt.Sprintf("the checker accepts a proposal of %d units with stage amount %d, used at start of term %d, "+
				"used now %d and %d units asked earlier in the block (10%% cap %d, room %d)", total, rep.Int(a, "stage"), rep.Int(a, "usedSnap"),
				rep.Int(a, "used"), rep.Int(a, "inBlock"), rep.Int(e, "cap"), rep.Int(e, "room")), e)
		} else if cerr != nil && exp {
			rep.Mismatch(fmt.Sprintf("the checker refuses a proposal the budget rule allows: %v", cerr), e)
		}
	}
	rep.Summary(n, map[string]interface{}{"mode": "budget", "accepted": accepted}, sample)
}
