package main

// The world of the crstate driver: chain parameters matching the constants of
// spec/Gov/CR.tla, deterministic keys, a real crstate.Committee per instance and
// builders that turn the spec's abstract transactions into real ones (modelled
// on test/unit/committeerollback_test.go and core/transaction/*_test.go).

import (
	"bytes"
	"encoding/binary"
	"encoding/hex"
	"fmt"
	"sort"
	"time"

	"github.com/elastos/Elastos.ELA/blockchain"
	"github.com/elastos/Elastos.ELA/common"
	"github.com/elastos/Elastos.ELA/common/config"
	"github.com/elastos/Elastos.ELA/core"
	"github.com/elastos/Elastos.ELA/core/checkpoint"
	"github.com/elastos/Elastos.ELA/core/contract"
	pg "github.com/elastos/Elastos.ELA/core/contract/program"
	"github.com/elastos/Elastos.ELA/core/transaction"
	"github.com/elastos/Elastos.ELA/core/types"
	common2 "github.com/elastos/Elastos.ELA/core/types/common"
	"github.com/elastos/Elastos.ELA/core/types/functions"
	"github.com/elastos/Elastos.ELA/core/types/interfaces"
	"github.com/elastos/Elastos.ELA/core/types/outputpayload"
	"github.com/elastos/Elastos.ELA/core/types/payload"
	crstate "github.com/elastos/Elastos.ELA/cr/state"
	"verif/harness/internal/stack"
)

const ELA = common.Fixed64(100000000)

// BigVote is one unit of impeachment / proposal-reject votes.  The threshold of
// the code is VoterRejectPercentage (10 %) of the circulation (about 33 M ELA
// here): one unit stays below it, two units reach it (RejectThreshold = 2).
const BigVote = 2000000 * ELA

// Cfg mirrors the CONSTANTS of CR.tla / Proposal.tla.
type Cfg struct {
	NCR, NProps, NOwners, NVoters            int
	MemberCount, AgreeCount                  int
	VotingPeriod, ClaimPeriod, DutyPeriod    int
	Lockup, PropCRVote, PropPubVote          int
	VotingStart, CommitteeStart, MaxTracking int
	RejectThreshold                          int
	WithdrawV1Height                         int // CRCProposalWithdrawPayloadV1Height: withdrawals below it carry payload version 0
	DupRule                                  bool
	Preambles                                map[string][][]Tx
}

// Tx is an abstract transaction of the spec (record BaseTx).
type Tx struct {
	K   string `json:"k"`
	C   int    `json:"c"`
	P   int    `json:"p"`
	T   int    `json:"t"`
	V   int    `json:"v"`
	O   int    `json:"o"`
	O2  int    `json:"o2"`
	X   string `json:"x"`
	N   int    `json:"n"`
	Bud []int  `json:"bud"`
	Pat []int  `json:"pat"`
}

type crKey struct {
	*stack.Key
	pub     []byte
	cid     common.Uint168
	did     common.Uint168
	deposit common.Uint168
}

type Env struct {
	cfg      Cfg
	params   *config.Configuration
	crs      []*crKey // 1-based
	owners   []*crKey
	voters   []*crKey
	stake    []common.Uint168
	sg       *crKey
	miner    *crKey
	assets   common.Uint168
	expenses common.Uint168
	nonce    uint64
	// what the chain's UTXO set holds on the CR assets address once the block is saved (the
	// node's CreateCRCAppropriationTransaction reads it when the committee changes)
	assetsOf map[*types.Block]common.Fixed64
}

func pubBytes(k *stack.Key) []byte {
	b, _ := k.Acc.PublicKey.EncodePoint(true)
	return b
}

func newCRKey(seed uint64) *crKey {
	k := stack.KeyFromSeed(seed)
	ck := &crKey{Key: k, pub: pubBytes(k)}
	if cid, err := crstate.GetCIDByCode(k.Code); err == nil {
		ck.cid = *cid
	}
	if did, err := crstate.GetDIDByCode(k.Code); err == nil {
		ck.did = *did
	}
	if ct, err := contract.CreateDepositContractByCode(k.Code); err == nil {
		ck.deposit = *ct.ToProgramHash()
	}
	return ck
}

func NewEnv(cfg Cfg) *Env {
	stack.InitGlobals()
	e := &Env{cfg: cfg, assetsOf: map[*types.Block]common.Fixed64{}}
	p := config.GetDefaultParams()
	p.DPoSV2StartHeight = 0
	cr := &p.CRConfiguration
	cr.MemberCount = uint32(cfg.MemberCount)
	cr.CRAgreementCount = uint32(cfg.AgreeCount)
	cr.VotingPeriod = uint32(cfg.VotingPeriod)
	cr.DutyPeriod = uint32(cfg.DutyPeriod)
	cr.CRClaimPeriod = uint32(cfg.ClaimPeriod)
	cr.DepositLockupBlocks = uint32(cfg.Lockup)
	cr.CRVotingStartHeight = uint32(cfg.VotingStart)
	cr.CRCommitteeStartHeight = uint32(cfg.CommitteeStart)
	cr.ProposalCRVotingPeriod = uint32(cfg.PropCRVote)
	cr.ProposalPublicVotingPeriod = uint32(cfg.PropPubVote)
	cr.MaxProposalTrackingCount = uint8(cfg.MaxTracking)
	cr.CRCProposalWithdrawPayloadV1Height = uint32(cfg.WithdrawV1Height)
	// blocks and rollbacks go through the checkpoint manager (as in the node); nothing is written to disk
	p.CheckPointConfiguration.NeedSave = false
	cr.CRCProposalV1Height = 0
	cr.CRCProposalDraftDataStartHeight = 0
	cr.ChangeCommitteeNewCRHeight = 0
	cr.CRAssetsRectifyTransactionHeight = 1 << 30
	p.CrossChainMonitorStartHeight = 1 << 30
	e.sg = newCRKey(900)
	cr.SecretaryGeneral = hex.EncodeToString(e.sg.pub)
	e.params = p
	e.assets = *cr.CRAssetsProgramHash
	e.expenses = *cr.CRExpensesProgramHash
	e.miner = newCRKey(901)

	// CR keys named in the order getActiveAndExistDIDCRCandidatesDesc breaks ties
	// (ascending code hash), which is the order of the identities in the spec.
	var ks []*crKey
	for i := 0; i < cfg.NCR; i++ {
		ks = append(ks, newCRKey(uint64(100+i)))
	}
	sort.Slice(ks, func(i, j int) bool {
		a, b := common.ToCodeHash(ks[i].Code), common.ToCodeHash(ks[j].Code)
		return a.Compare(*b) < 0
	})
	e.crs = append([]*crKey{nil}, ks...)
	e.owners = []*crKey{nil}
	for i := 0; i < cfg.NOwners; i++ {
		e.owners = append(e.owners, newCRKey(uint64(200+i)))
	}
	e.voters = []*crKey{nil}
	e.stake = []common.Uint168{{}}
	for i := 0; i < cfg.NVoters; i++ {
		k := newCRKey(uint64(300 + i))
		e.voters = append(e.voters, k)
		ct, _ := contract.CreateStakeContractByCode(k.Code)
		e.stake = append(e.stake, *ct.ToProgramHash())
	}
	return e
}

// ---------------------------------------------------------------------------
// instances

type Inst struct {
	env    *Env
	comm   *crstate.Committee
	bc     *blockchain.BlockChain
	ckp    *checkpoint.Manager
	height uint32
	tip    uint32 // what GetHeight() answers: the height of the block being processed
	assets common.Fixed64 // unspent outputs of the CR assets address, the block being processed included
}

func (e *Env) NewInst() *Inst {
	in := &Inst{env: e}
	in.ckp = checkpoint.NewManager(e.params)
	in.comm = crstate.NewCommittee(e.params, in.ckp)
	in.comm.RegisterFuncitons(&crstate.CommitteeFuncsConfig{
		GetTxReference: func(tx interfaces.Transaction) (map[*common2.Input]common2.Output, error) {
			return map[*common2.Input]common2.Output{}, nil
		},
		GetHeight: func() uint32 { return in.tip },
		// blockchain.CreateCRCAppropriationTransaction: no transaction when 10 % of what the CR assets
		// address holds is nothing (the committee then drops NeedAppropriation again, through the
		// appropriation history); no locked outputs here
		CreateCRAppropriationTransaction: func() (interfaces.Transaction, common.Fixed64, error) {
			amount := common.Fixed64(float64(in.assets) * e.params.CRConfiguration.CRCAppropriatePercentage / 100.0)
			if amount <= 0 {
				return nil, 0, nil
			}
			return functions.CreateTransaction(common2.TxVersion09, common2.CRCAppropriation, 0, &payload.CRCAppropriation{},
				[]*common2.Attribute{}, []*common2.Input{}, []*common2.Output{out(e.expenses, amount)}, 0, []*pg.Program{}), 0, nil
		},
	})
	// the checkers of the proposal transaction family read nothing but the
	// committee through TransactionParameters.BlockChain
	in.bc = &blockchain.BlockChain{}
	in.bc.SetCRCommittee(in.comm)
	return in
}

// Process hands the block to the committee the way the chain does after it has
// saved a block: checkpoint.Manager.OnBlockSaved -> (start height / checkpoint
// height filters) -> cr Checkpoint.OnBlockSaved -> Committee.ProcessBlock.
func (in *Inst) Process(b *types.Block) (pan interface{}) {
	defer func() {
		if r := recover(); r != nil {
			pan = r
		}
	}()
	in.tip = b.Height
	in.assets = in.env.assetsOf[b]
	in.ckp.OnBlockSaved(&types.DposBlock{Block: b}, nil, false, 0, false)
	in.height = b.Height
	return nil
}

// Rollback takes the committee back to height t the way the chain does when it
// disconnects blocks (blockchain.ReorganizeChain): one
// checkpoint.Manager.OnRollbackTo(block.Height-1) per disconnected block, tip
// first, which reaches cr Checkpoint.OnRollbackTo (reset below
// CRVotingStartHeight, Committee.RollbackTo otherwise).  With oneCall the
// manager is asked for t directly (a jump over several heights: the loop of
// Committee.RollbackTo); that form is used for targets from CRVotingStartHeight
// on only, the node itself never jumps.
func (in *Inst) Rollback(t uint32, oneCall bool) (pan interface{}) {
	// a rollback that does not come back (Committee.RollbackTo(0) is such a call: uint32 loop bound; the
	// checkpoint keeps the node away from it) must not hang the driver: it is reported and the run ends
	done := make(chan interface{}, 1)
	go func() {
		defer func() {
			if r := recover(); r != nil {
				done <- r
			}
		}()
		if oneCall && t >= in.env.params.CRConfiguration.CRVotingStartHeight {
			if err := in.ckp.OnRollbackTo(t, false); err != nil {
				done <- err
				return
			}
		} else {
			for x := in.height; x > t; x-- {
				if err := in.ckp.OnRollbackTo(x-1, false); err != nil {
					done <- err
					return
				}
			}
		}
		done <- nil
	}()
	select {
	case pan = <-done:
		if pan != nil {
			return pan
		}
	case <-time.After(hangAfter):
		return hung{fmt.Sprintf("the rollback from %d to %d has not returned after %s", in.height, t, hangAfter)}
	}
	in.height = t
	in.tip = t
	return nil
}

// hung is what Rollback answers for a call that does not return; the committee
// (its mutex is held) cannot be used any more.
type hung struct{ what string }

const hangAfter = 120 * time.Second

// onHang ends the run in an orderly way (set by main: summary, flush, exit).
var onHang = func() {}

// ---------------------------------------------------------------------------
// what a wallet / the chain knows besides the committee: unspent outputs of the
// CR addresses and of the deposit addresses.  Versioned by height so that it
// follows rollbacks.

type utxo struct {
	op  common2.OutPoint
	val common.Fixed64
}

type ledger struct {
	assets   []utxo
	expenses []utxo
	deposit  map[int][]utxo
	nick     map[int]int // nickname versions handed out per CR
}

func newLedger() *ledger { return &ledger{deposit: map[int][]utxo{}, nick: map[int]int{}} }

func (l *ledger) clone() *ledger {
	n := &ledger{assets: append([]utxo(nil), l.assets...), expenses: append([]utxo(nil), l.expenses...),
		deposit: map[int][]utxo{}, nick: map[int]int{}}
	for k, v := range l.deposit {
		n.deposit[k] = append([]utxo(nil), v...)
	}
	for k, v := range l.nick {
		n.nick[k] = v
	}
	return n
}

// builtTx is a real transaction with what the checkers need besides the tx.
type builtTx struct {
	abs  Tx
	tx   interfaces.Transaction
	refs map[*common2.Input]common2.Output
}

func (e *Env) nonceAttr() *common2.Attribute {
	e.nonce++
	nb := make([]byte, 8)
	binary.BigEndian.PutUint64(nb, e.nonce)
	a := common2.NewAttribute(common2.Nonce, nb)
	return &a
}

func out(to common.Uint168, v common.Fixed64) *common2.Output {
	return &common2.Output{AssetID: core.ELAAssetID, Value: v, ProgramHash: to, Type: common2.OTNone,
		Payload: &outputpayload.DefaultOutput{}}
}

// feeInput is an ordinary input paying the fee of a payload-only transaction.
func (e *Env) feeInput(owner common.Uint168, val common.Fixed64) (*common2.Input, common2.Output) {
	e.nonce++
	var h common.Uint256
	binary.BigEndian.PutUint64(h[:8], e.nonce)
	h[31] = 0xfe
	in := &common2.Input{Previous: common2.OutPoint{TxID: h, Index: 0}, Sequence: 0}
	return in, *out(owner, val)
}

func sign(k *crKey, data []byte) []byte {
	sig, err := k.Acc.Sign(data)
	if err != nil {
		panic(err)
	}
	return sig
}

func (e *Env) mk(t common2.TxType, pv byte, p interfaces.Payload, ins []*common2.Input, outs []*common2.Output,
	progs []*pg.Program) interfaces.Transaction {
	if ins == nil {
		ins = []*common2.Input{}
	}
	if outs == nil {
		outs = []*common2.Output{}
	}
	if progs == nil {
		progs = []*pg.Program{}
	}
	return functions.CreateTransaction(common2.TxVersion09, t, pv, p, []*common2.Attribute{e.nonceAttr()}, ins, outs, 0, progs)
}

func draftOf(p int) []byte { return []byte(fmt.Sprintf("draft-of-proposal-%d", p)) }

// proposal identities are draft hashes
func (in *Inst) proposal(p int) *crstate.ProposalState {
	return in.comm.GetProposalByDraftHash(common.Hash(draftOf(p)))
}

func (e *Env) coinbase(h uint32) interfaces.Transaction {
	content := make([]byte, 4)
	binary.BigEndian.PutUint32(content, h)
	return functions.CreateTransaction(common2.TxVersion09, common2.CoinBase, 0, &payload.CoinBase{Content: content},
		[]*common2.Attribute{}, []*common2.Input{{Previous: common2.OutPoint{Index: 0xffff}, Sequence: 0xffffffff}},
		[]*common2.Output{out(e.miner.Hash, 1*ELA)}, h, []*pg.Program{})
}

// Build turns an abstract transaction into a real one, reading what a wallet
// would read from the instance (proposal hashes, pending orders, amounts).
func (e *Env) Build(in *Inst, led *ledger, a Tx, h uint32) (*builtTx, error) {
	bt := &builtTx{abs: a, refs: map[*common2.Input]common2.Output{}}
	stdProg := func(k *crKey) []*pg.Program { return []*pg.Program{{Code: k.Code, Parameter: []byte{}}} }
	withFee := func(k *crKey) []*common2.Input {
		i, o := e.feeInput(k.Hash, 1000)
		bt.refs[i] = o
		return []*common2.Input{i}
	}
	switch a.K {
	case "RegisterCR", "UpdateCR":
		k := e.crs[a.C]
		ver := led.nick[a.C] + 1 // the spec hands out nickname versions 1, 2, ... per CR
		info := &payload.CRInfo{Code: k.Code, CID: k.cid, DID: k.did, NickName: fmt.Sprintf("%s%d", nickPrefix(a.C), ver),
			Url: "http://verif.example", Location: 1}
		buf := new(bytes.Buffer)
		info.SerializeUnsigned(buf, payload.CRInfoDIDVersion)
		info.Signature = sign(k, buf.Bytes())
		if a.K == "RegisterCR" {
			bt.tx = e.mk(common2.RegisterCR, payload.CRInfoDIDVersion, info, withFee(k),
				[]*common2.Output{out(k.deposit, crstate.MinDepositAmount)}, stdProg(k))
		} else {
			bt.tx = e.mk(common2.UpdateCR, payload.CRInfoDIDVersion, info, withFee(k), nil, stdProg(k))
		}
	case "UnregisterCR":
		k := e.crs[a.C]
		pl := &payload.UnregisterCR{CID: k.cid}
		buf := new(bytes.Buffer)
		pl.SerializeUnsigned(buf, payload.UnregisterCRVersion)
		pl.Signature = sign(k, buf.Bytes())
		bt.tx = e.mk(common2.UnregisterCR, payload.UnregisterCRVersion, pl, withFee(k), nil, stdProg(k))
	case "VoteCR", "Impeach", "Reject":
		k := e.voters[a.V]
		var vt outputpayload.VoteType
		var infos []payload.VotesWithLockTime
		switch a.K {
		case "VoteCR":
			vt = outputpayload.CRC
			for i, n := range a.Pat {
				if n > 0 {
					infos = append(infos, payload.VotesWithLockTime{Candidate: e.crs[i+1].cid.Bytes(), Votes: common.Fixed64(n) * ELA})
				}
			}
		case "Impeach":
			vt = outputpayload.CRCImpeachment
			infos = append(infos, payload.VotesWithLockTime{Candidate: e.crs[a.C].cid.Bytes(), Votes: common.Fixed64(a.N) * BigVote})
		case "Reject":
			vt = outputpayload.CRCProposal
			ps := in.proposal(a.P)
			if ps == nil {
				return nil, fmt.Errorf("Reject: proposal %d unknown to the real committee", a.P)
			}
			hash := ps.Proposal.Hash
			infos = append(infos, payload.VotesWithLockTime{Candidate: hash.Bytes(), Votes: common.Fixed64(a.N) * BigVote})
		}
		pl := &payload.Voting{Contents: []payload.VotesContent{{VoteType: vt, VotesInfo: infos}}}
		bt.tx = e.mk(common2.Voting, payload.VoteVersion, pl, withFee(k), nil, stdProg(k))
	case "Proposal", "Close":
		tx, err := e.proposalTx(in, a)
		if err != nil {
			return nil, err
		}
		bt.tx = tx
		i, o := e.feeInput(e.owners[a.O].Hash, 1000)
		bt.refs[i] = o
		bt.tx.SetInputs([]*common2.Input{i})
	case "Review":
		ps := in.proposal(a.P)
		if ps == nil {
			return nil, fmt.Errorf("Review: proposal %d unknown to the real committee", a.P)
		}
		k := e.crs[a.C]
		res := map[string]payload.VoteResult{"approve": payload.Approve, "reject": payload.Reject, "abstain": payload.Abstain}[a.X]
		opinion := []byte(fmt.Sprintf("opinion-%d-%d-%d", a.P, a.C, e.nonce))
		pl := &payload.CRCProposalReview{ProposalHash: ps.Proposal.Hash, VoteResult: res, OpinionHash: common.Hash(opinion),
			OpinionData: opinion, DID: k.did}
		buf := new(bytes.Buffer)
		pl.SerializeUnsigned(buf, payload.CRCProposalReviewVersion01)
		pl.Signature = sign(k, buf.Bytes())
		bt.tx = e.mk(common2.CRCProposalReview, payload.CRCProposalReviewVersion01, pl, withFee(k), nil, stdProg(k))
	case "Tracking":
		ps := in.proposal(a.P)
		if ps == nil {
			return nil, fmt.Errorf("Tracking: proposal %d unknown to the real committee", a.P)
		}
		bt.tx = e.trackingTx(ps.Proposal.Hash, a)
		i, o := e.feeInput(e.owners[a.O].Hash, 1000)
		bt.refs[i] = o
		bt.tx.SetInputs([]*common2.Input{i})
	case "Withdraw":
		ps := in.proposal(a.P)
		if ps == nil {
			return nil, fmt.Errorf("Withdraw: proposal %d unknown to the real committee", a.P)
		}
		amount := common.Fixed64(a.N) * ELA
		// the payload version the height asks for (X = "otherVersion": the one it refuses, for probes)
		legacy := h < e.params.CRConfiguration.CRCProposalWithdrawPayloadV1Height
		if a.X == "otherVersion" {
			legacy = !legacy
		}
		if legacy {
			// payload version 0: the transaction spends outputs of the CR expenses
			// address itself (recipient first, change back to the address)
			var ins []*common2.Input
			var got common.Fixed64
			for _, u := range led.expenses {
				if got >= amount {
					break
				}
				i := &common2.Input{Previous: u.op}
				ins = append(ins, i)
				bt.refs[i] = *out(e.expenses, u.val)
				got += u.val
			}
			if got < amount {
				return nil, fmt.Errorf("Withdraw (payload v0): expenses address holds %s, %s wanted", got, amount)
			}
			fee := e.params.MinTransactionFee
			outs := []*common2.Output{out(ps.Recipient, amount-fee)}
			if got > amount {
				outs = append(outs, out(e.expenses, got-amount))
			}
			bt.tx = e.withdrawTxV0(ps.Proposal.Hash, a.O, ins, outs)
			break
		}
		bt.tx = e.withdrawTx(ps.Proposal.Hash, ps.Recipient, a.O, amount)
		i, o := e.feeInput(e.owners[a.O].Hash, 1000)
		bt.refs[i] = o
		bt.tx.SetInputs([]*common2.Input{i})
	case "RealWithdraw":
		orders := in.comm.GetRealWithdrawTransactions()
		var hashes []common.Uint256
		for hsh := range orders {
			hashes = append(hashes, hsh)
		}
		sort.Slice(hashes, func(i, j int) bool { return hashes[i].Compare(hashes[j]) < 0 })
		fee := e.params.CRConfiguration.RealWithdrawSingleFee
		var outs []*common2.Output
		var need common.Fixed64
		for _, hsh := range hashes {
			outs = append(outs, out(orders[hsh].Recipient, orders[hsh].Amount-fee))
			need += orders[hsh].Amount
		}
		var ins []*common2.Input
		var got common.Fixed64
		for _, u := range led.expenses {
			if got >= need {
				break
			}
			i := &common2.Input{Previous: u.op}
			ins = append(ins, i)
			bt.refs[i] = *out(e.expenses, u.val)
			got += u.val
		}
		if got < need {
			return nil, fmt.Errorf("RealWithdraw: expenses address holds %s, orders need %s", got, need)
		}
		if got > need {
			outs = append(outs, out(e.expenses, got-need))
		}
		bt.tx = functions.CreateTransaction(common2.TxVersion09, common2.CRCProposalRealWithdraw, 0,
			&payload.CRCProposalRealWithdraw{WithdrawTransactionHashes: hashes}, []*common2.Attribute{}, ins, outs, 0, []*pg.Program{})
	case "Approp":
		amount := in.comm.AppropriationAmount
		var ins []*common2.Input
		var got common.Fixed64
		for _, u := range led.assets {
			i := &common2.Input{Previous: u.op}
			ins = append(ins, i)
			bt.refs[i] = *out(e.assets, u.val)
			got += u.val
		}
		if got < amount {
			return nil, fmt.Errorf("Approp: assets address holds %s, appropriation is %s", got, amount)
		}
		bt.tx = functions.CreateTransaction(common2.TxVersion09, common2.CRCAppropriation, 0, &payload.CRCAppropriation{},
			[]*common2.Attribute{}, ins, []*common2.Output{out(e.expenses, amount), out(e.assets, got-amount)}, 0, []*pg.Program{})
	case "Fund":
		i, o := e.feeInput(e.miner.Hash, common.Fixed64(a.N)*ELA+1000)
		bt.refs[i] = o
		bt.tx = e.mk(common2.TransferAsset, 0, &payload.TransferAsset{}, []*common2.Input{i},
			[]*common2.Output{out(e.assets, common.Fixed64(a.N)*ELA)}, stdProg(e.miner))
	case "Claim":
		k := e.crs[a.C]
		node := newCRKey(uint64(1000 + 10*a.C + int(h%10))) // a fresh DPoS node key
		pl := &payload.CRCouncilMemberClaimNode{NodePublicKey: node.pub, CRCouncilCommitteeDID: k.did}
		buf := new(bytes.Buffer)
		pl.SerializeUnsigned(buf, payload.CurrentCRClaimDPoSNodeVersion)
		pl.CRCouncilCommitteeSignature = sign(k, buf.Bytes())
		ver := payload.CurrentCRClaimDPoSNodeVersion
		if a.X == "next" {
			ver = payload.NextCRClaimDPoSNodeVersion
		}
		bt.tx = e.mk(common2.CRCouncilMemberClaimNode, ver, pl, withFee(k), nil, stdProg(k))
	case "ReturnDeposit":
		k := e.crs[a.C]
		avail := in.comm.GetAvailableDepositAmount(k.cid)
		var ins []*common2.Input
		var got common.Fixed64
		for _, u := range led.deposit[a.C] {
			i := &common2.Input{Previous: u.op}
			ins = append(ins, i)
			bt.refs[i] = *out(k.deposit, u.val)
			got += u.val
		}
		fee := e.params.MinTransactionFee
		if avail <= fee || got < avail {
			return nil, fmt.Errorf("ReturnDeposit of CR %d: available %s, deposit outputs %s", a.C, avail, got)
		}
		outs := []*common2.Output{out(k.Hash, avail-fee)}
		if got > avail {
			outs = append(outs, out(k.deposit, got-avail))
		}
		bt.tx = e.mk(common2.ReturnCRDepositCoin, 0, &payload.ReturnDepositCoin{}, ins, outs, stdProg(k))
	default:
		return nil, fmt.Errorf("unknown transaction kind %q", a.K)
	}
	return bt, nil
}

func nickPrefix(c int) string { return fmt.Sprintf("cr%d-", c) }

func (e *Env) proposalTx(in *Inst, a Tx) (interfaces.Transaction, error) {
	owner := e.owners[a.O]
	sponsor := e.crs[a.C]
	draft := draftOf(a.P)
	pl := &payload.CRCProposal{ProposalType: payload.Normal, CategoryData: "verif", OwnerKey: owner.pub,
		DraftHash: common.Hash(draft), DraftData: draft, CRCouncilMemberDID: sponsor.did}
	if a.K == "Close" {
		t := in.proposal(a.T)
		if t == nil {
			return nil, fmt.Errorf("Close: target proposal %d unknown to the real committee", a.T)
		}
		pl.ProposalType = payload.CloseProposal
		pl.TargetProposalHash = t.Proposal.Hash
		pl.Budgets = []payload.Budget{}
	} else {
		pl.Recipient = owner.Hash
		for i, n := range a.Bud {
			pl.Budgets = append(pl.Budgets, payload.Budget{Type: payload.InstallmentType(i), Stage: byte(i), Amount: common.Fixed64(n) * ELA})
		}
	}
	buf := new(bytes.Buffer)
	if err := pl.SerializeUnsigned(buf, payload.CRCProposalVersion01); err != nil {
		return nil, err
	}
	pl.Signature = sign(owner, buf.Bytes())
	common.WriteVarBytes(buf, pl.Signature)
	pl.CRCouncilMemberDID.Serialize(buf)
	pl.CRCouncilMemberSignature = sign(sponsor, buf.Bytes())
	return e.mk(common2.CRCProposal, payload.CRCProposalVersion01, pl, nil, nil,
		[]*pg.Program{{Code: owner.Code, Parameter: []byte{}}}), nil
}

var trackTypes = map[string]payload.CRCProposalTrackingType{"Common": payload.Common, "Progress": payload.Progress,
	"Rejected": payload.Rejected, "Terminated": payload.Terminated, "ChangeOwner": payload.ChangeOwner, "Finalized": payload.Finalized}

func (e *Env) trackingTx(hash common.Uint256, a Tx) interfaces.Transaction {
	owner := e.owners[a.O]
	stage := uint8(0)
	if a.N > 0 {
		stage = uint8(a.N - 1) // spec stages 1..3 are the code's 0..2
	}
	msg := []byte(fmt.Sprintf("message-%d-%s-%d", a.P, a.X, e.nonce))
	op := []byte(fmt.Sprintf("sg-opinion-%d-%s-%d", a.P, a.X, e.nonce))
	pl := &payload.CRCProposalTracking{ProposalTrackingType: trackTypes[a.X], ProposalHash: hash, Stage: stage,
		MessageHash: common.Hash(msg), MessageData: msg, OwnerKey: owner.pub,
		SecretaryGeneralOpinionHash: common.Hash(op), SecretaryGeneralOpinionData: op}
	if a.X == "ChangeOwner" {
		pl.NewOwnerKey = e.owners[a.O2].pub
	}
	ver := payload.CRCProposalTrackingVersion01
	buf := new(bytes.Buffer)
	pl.SerializeUnsigned(buf, ver)
	pl.OwnerSignature = sign(owner, buf.Bytes())
	common.WriteVarBytes(buf, pl.OwnerSignature)
	if a.X == "ChangeOwner" {
		pl.NewOwnerSignature = sign(e.owners[a.O2], buf.Bytes())
	}
	common.WriteVarBytes(buf, pl.NewOwnerSignature)
	buf.Write([]byte{byte(pl.ProposalTrackingType)})
	pl.SecretaryGeneralOpinionHash.Serialize(buf)
	common.WriteVarBytes(buf, pl.SecretaryGeneralOpinionData)
	pl.SecretaryGeneralSignature = sign(e.sg, buf.Bytes())
	return e.mk(common2.CRCProposalTracking, ver, pl, nil, nil, []*pg.Program{{Code: owner.Code, Parameter: []byte{}}})
}

func (e *Env) withdrawTx(hash common.Uint256, recipient common.Uint168, o int, amount common.Fixed64) interfaces.Transaction {
	owner := e.owners[o]
	pl := &payload.CRCProposalWithdraw{ProposalHash: hash, OwnerKey: owner.pub, Recipient: recipient, Amount: amount}
	buf := new(bytes.Buffer)
	pl.SerializeUnsigned(buf, payload.CRCProposalWithdrawVersion01)
	pl.Signature = sign(owner, buf.Bytes())
	return e.mk(common2.CRCProposalWithdraw, payload.CRCProposalWithdrawVersion01, pl, nil, nil,
		[]*pg.Program{{Code: owner.Code, Parameter: []byte{}}})
}

// withdrawTxV0: CRCProposalWithdraw with the default payload version (proposal
// hash, owner key, signature; no recipient / amount, no programs).
func (e *Env) withdrawTxV0(hash common.Uint256, o int, ins []*common2.Input, outs []*common2.Output) interfaces.Transaction {
	owner := e.owners[o]
	pl := &payload.CRCProposalWithdraw{ProposalHash: hash, OwnerKey: owner.pub}
	buf := new(bytes.Buffer)
	pl.SerializeUnsigned(buf, payload.CRCProposalWithdrawDefault)
	pl.Signature = sign(owner, buf.Bytes())
	return e.mk(common2.CRCProposalWithdraw, payload.CRCProposalWithdrawDefault, pl, ins, outs, nil)
}

// Check runs the real SpecialContextCheck of a transaction of the proposal
// family against the instance's committee (the state before the block).
func (in *Inst) Check(bt *builtTx, h uint32, inBlock common.Fixed64) (err error, checked bool) {
	switch bt.tx.TxType() {
	case common2.CRCProposal, common2.CRCProposalReview, common2.CRCProposalTracking, common2.CRCProposalWithdraw,
		common2.CRCProposalRealWithdraw, common2.CRCAppropriation:
	default:
		return nil, false
	}
	defer func() {
		if r := recover(); r != nil {
			err = fmt.Errorf("checker panicked: %v", r)
			checked = true
		}
	}()
	bt.tx.SetParameters(&transaction.TransactionParameters{Transaction: bt.tx, BlockHeight: h, TimeStamp: 0,
		Config: in.env.params, BlockChain: in.bc, ProposalsUsedAmount: inBlock})
	bt.tx.SetReferences(bt.refs)
	if bt.tx.TxType() == common2.CRCProposalWithdraw {
		// which payload version a height admits is decided before the context check
		if herr := bt.tx.HeightVersionCheck(); herr != nil {
			return herr, true
		}
	}
	e, _ := bt.tx.SpecialContextCheck()
	if e != nil {
		return e, true
	}
	return nil, true
}

// applyLedger records the outputs a block creates / spends on the CR related
// addresses.
func (e *Env) applyLedger(l *ledger, txs []*builtTx) {
	for _, bt := range txs {
		if bt.abs.K == "RegisterCR" || bt.abs.K == "UpdateCR" {
			l.nick[bt.abs.C]++
		}
		spent := map[common2.OutPoint]bool{}
		for _, i := range bt.tx.Inputs() {
			spent[i.Previous] = true
		}
		filter := func(us []utxo) []utxo {
			var r []utxo
			for _, u := range us {
				if !spent[u.op] {
					r = append(r, u)
				}
			}
			return r
		}
		l.assets, l.expenses = filter(l.assets), filter(l.expenses)
		for k := range l.deposit {
			l.deposit[k] = filter(l.deposit[k])
		}
		for i, o := range bt.tx.Outputs() {
			u := utxo{op: common2.OutPoint{TxID: bt.tx.Hash(), Index: uint16(i)}, val: o.Value}
			switch {
			case o.ProgramHash.IsEqual(e.assets):
				l.assets = append(l.assets, u)
			case o.ProgramHash.IsEqual(e.expenses):
				l.expenses = append(l.expenses, u)
			default:
				for c := 1; c < len(e.crs); c++ {
					if o.ProgramHash.IsEqual(e.crs[c].deposit) {
						l.deposit[c] = append(l.deposit[c], u)
					}
				}
			}
		}
	}
}

func (e *Env) block(h uint32, txs []*builtTx) *types.Block {
	b := &types.Block{Header: common2.Header{Height: h}}
	b.Transactions = append(b.Transactions, e.coinbase(h))
	for _, bt := range txs {
		b.Transactions = append(b.Transactions, bt.tx)
	}
	return b
}
