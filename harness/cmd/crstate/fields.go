package main

// C23, CR part, complementary sweep:  crstate fields <n> <seed>
//
// The behaviours of CR.tla leave many containers of the CR checkpoint empty or
// with one entry (custom-ID and side-chain registrations, several heights of
// RegisteredSideChainPayloadInfo, ...).  Here the checkpoint is GENERATED field by
// field with reflect: every scalar non-zero and distinct from its neighbours,
// every map with >= 2 entries at every nesting level, every slice with >= 2
// elements, every pointer non-nil, byte strings of the lengths their decoders
// accept (public keys and codes are real ones).  For every generated instance
//
//	(a) Serialize -> Deserialize into a fresh Checkpoint must give the same
//	    canonical field-by-field dump (every field, exported or not, reflect), the
//	    same through Checkpoint.Generator(); then containers of the RESTORED
//	    object are mutated one at a time (a key added to a map, an element of a
//	    slice / an object behind a pointer changed): nothing outside the mutated
//	    container may change (shared sub-objects);
//	(b) the path of the node: the frames are given to a live Committee, its
//	    registered Checkpoint is taken as the checkpoint manager does
//	    (Snapshot = initFromCommittee + Serialize + Deserialize), written out,
//	    read into the registered Checkpoint of a fresh Committee and recovered
//	    (OnInit -> Committee.Recover): the live frames of that committee must equal
//	    the generated ones, and the first committee must be untouched.
//
// What does not come back is C23:cr-checkpoint-field:<field> (a shared
// sub-object: ...:shared); the registration signature of candidates / members,
// which the checkpoint is known not to carry, keeps its key
// C23:cr-checkpoint:<...>.Info.Signature.  Fields that are not part of the
// checkpoint on purpose are listed in notInCheckpoint with the reason.

import (
	"bytes"
	"encoding/hex"
	"fmt"
	"math/rand"
	"os"
	"reflect"
	"sort"
	"strings"

	"github.com/elastos/Elastos.ELA/common"
	"github.com/elastos/Elastos.ELA/core/types/payload"
	crstate "github.com/elastos/Elastos.ELA/cr/state"
	"verif/harness/internal/rep"
)

// notInCheckpoint: fields of crstate.Checkpoint (and below) that Serialize leaves
// out on purpose.
var notInCheckpoint = map[string]string{
	"Checkpoint.committee": "back pointer to the live Committee the checkpoint belongs to (set by NewCheckpoint), not state",
}

// what the dump covers of crstate.Checkpoint itself
var checkpointParts = map[string]bool{"KeyFrame": true, "StateKeyFrame": true, "ProposalKeyFrame": true, "Height": true}

var proposalTypes = []payload.CRCProposalType{payload.Normal, payload.ELIP, payload.FLOWELIP, payload.INFOELIP,
	payload.MainChainUpgradeCode, payload.DIDUpgradeCode, payload.ETHUpgradeCode, payload.SecretaryGeneral,
	payload.ChangeProposalOwner, payload.CloseProposal, payload.RegisterSideChain, payload.ReserveCustomID,
	payload.ReceiveCustomID, payload.ChangeCustomIDFee}

type gen struct {
	rng   *rand.Rand
	n     uint64 // counter: consecutive values differ
	first bool   // instance 0: minimal sizes, every bool true
	keys  []*crKey
	bad   []string
}

func (g *gen) next() uint64 { g.n++; return g.n }

func (g *gen) size() int {
	if g.first {
		return 2
	}
	return 2 + g.rng.Intn(2)
}

func (g *gen) bytesFor(name string) []byte {
	k := g.keys[int(g.next())%len(g.keys)]
	switch {
	case name == "Code":
		return append([]byte(nil), k.Code...) // a standard program code
	case strings.Contains(name, "PublicKey") || strings.Contains(name, "OwnerKey") || name == "ProposalOwner":
		return append([]byte(nil), k.pub...) // a compressed public key (decoders take at most 33 bytes)
	case name == "Candidate":
		return k.cid.Bytes()
	case name == "Signature":
		b := make([]byte, 64)
		g.rng.Read(b)
		return b
	}
	b := make([]byte, 20)
	g.rng.Read(b)
	b[0] = byte(g.next()%250) + 1
	return b
}

// fill populates v (settable) of the field called name.
func (g *gen) fill(path, name string, v reflect.Value) {
	switch v.Kind() {
	case reflect.Bool:
		v.SetBool(g.first || g.rng.Intn(4) != 0)
	case reflect.Uint8:
		v.SetUint(g.next()%250 + 1)
	case reflect.Uint16:
		if v.Type() == reflect.TypeOf(payload.CRCProposalType(0)) {
			v.SetUint(uint64(proposalTypes[int(g.next())%len(proposalTypes)]))
		} else {
			v.SetUint(g.next()%60000 + 1)
		}
	case reflect.Uint32, reflect.Uint, reflect.Uint64:
		v.SetUint(g.next() + 1000)
	case reflect.Int8:
		v.SetInt(int64(g.next()%100) + 1)
	case reflect.Int16, reflect.Int32, reflect.Int, reflect.Int64:
		v.SetInt(int64(g.next())*1000 + 7)
	case reflect.String:
		if strings.Contains(name, "PublicKey") {
			v.SetString(hex.EncodeToString(g.keys[int(g.next())%len(g.keys)].pub))
		} else {
			v.SetString(fmt.Sprintf("%s-%d", name, g.next()))
		}
	case reflect.Array:
		if v.Type().Elem().Kind() == reflect.Uint8 {
			for i := 0; i < v.Len(); i++ {
				v.Index(i).SetUint(uint64(g.rng.Intn(256)))
			}
			c := g.next()
			v.Index(0).SetUint(c%250 + 1)
			if v.Len() > 1 {
				v.Index(1).SetUint((c / 250) % 256)
			}
			return
		}
		for i := 0; i < v.Len(); i++ {
			g.fill(fmt.Sprintf("%s[%d]", path, i), name, v.Index(i))
		}
	case reflect.Slice:
		if v.Type().Elem().Kind() == reflect.Uint8 {
			v.SetBytes(g.bytesFor(name))
			return
		}
		n := g.size()
		s := reflect.MakeSlice(v.Type(), n, n)
		for i := 0; i < n; i++ {
			g.fill(fmt.Sprintf("%s[%d]", path, i), name, s.Index(i))
		}
		v.Set(s)
	case reflect.Map:
		n := g.size()
		m := reflect.MakeMapWithSize(v.Type(), n)
		for m.Len() < n {
			k := reflect.New(v.Type().Key()).Elem()
			g.fill(path+"[key]", name, k)
			e := reflect.New(v.Type().Elem()).Elem()
			g.fill(path+"[]", name, e)
			m.SetMapIndex(k, e)
		}
		v.Set(m)
	case reflect.Ptr:
		p := reflect.New(v.Type().Elem())
		g.fill(path, name, p.Elem())
		v.Set(p)
	case reflect.Struct:
		t := v.Type()
		for i := 0; i < v.NumField(); i++ {
			f := t.Field(i)
			fp := path + "." + f.Name
			if !v.Field(i).CanSet() {
				if _, ok := notInCheckpoint[fp]; !ok {
					g.bad = append(g.bad, "field "+fp+" cannot be generated (unexported) and is not on the exclusion list")
				}
				continue
			}
			g.fill(fp, f.Name, v.Field(i))
		}
	default:
		g.bad = append(g.bad, fmt.Sprintf("%s: kind %s is not generated", path, v.Kind()))
	}
}

func dumpCheckpoint(cp *crstate.Checkpoint) flat {
	d := dumpFrames(&cp.KeyFrame, &cp.StateKeyFrame, &cp.ProposalKeyFrame, true)
	d["Height"] = fmt.Sprint(cp.Height)
	return d
}

// spot is a container of the restored object that can be mutated in place.
type spot struct {
	path string
	v    reflect.Value
}

// spots walks v with the path names of dumpValue and collects maps, slices of
// non-bytes and pointers to structs.
func spots(path string, v reflect.Value, out *[]spot) {
	switch v.Kind() {
	case reflect.Ptr:
		if v.IsNil() {
			return
		}
		if v.Elem().Kind() == reflect.Struct {
			*out = append(*out, spot{path, v})
		}
		spots(path, v.Elem(), out)
	case reflect.Struct:
		t := v.Type()
		for i := 0; i < v.NumField(); i++ {
			if t.Field(i).PkgPath != "" {
				continue
			}
			spots(path+"."+t.Field(i).Name, v.Field(i), out)
		}
	case reflect.Map:
		if v.Len() == 0 {
			return
		}
		*out = append(*out, spot{path, v})
		it := v.MapRange()
		for it.Next() {
			spots(path+"["+scalar(it.Key())+"]", it.Value(), out)
		}
	case reflect.Slice:
		if v.Type().Elem().Kind() == reflect.Uint8 || v.Len() == 0 {
			return
		}
		*out = append(*out, spot{path, v})
		for i := 0; i < v.Len(); i++ {
			spots(fmt.Sprintf("%s[%d]", path, i), v.Index(i), out)
		}
	}
}

// bump changes the first scalar it finds in v (settable) and says whether it did.
func (g *gen) bump(v reflect.Value) bool {
	switch v.Kind() {
	case reflect.Bool:
		v.SetBool(!v.Bool())
		return true
	case reflect.Uint8, reflect.Uint16, reflect.Uint32, reflect.Uint, reflect.Uint64:
		v.SetUint(v.Uint() ^ 1)
		return true
	case reflect.Int8, reflect.Int16, reflect.Int32, reflect.Int, reflect.Int64:
		v.SetInt(v.Int() ^ 1)
		return true
	case reflect.String:
		v.SetString(v.String() + "'")
		return true
	case reflect.Array:
		if v.Len() > 0 {
			return g.bump(v.Index(v.Len() - 1))
		}
	case reflect.Struct:
		for i := 0; i < v.NumField(); i++ {
			if v.Field(i).CanSet() && g.bump(v.Field(i)) {
				return true
			}
		}
	}
	return false
}

// mutate changes the container in place; false when it cannot.
func (g *gen) mutate(s spot) bool {
	switch s.v.Kind() {
	case reflect.Map:
		k := reflect.New(s.v.Type().Key()).Elem()
		g.fill(s.path+"[key]", "mutation", k)
		e := reflect.New(s.v.Type().Elem()).Elem()
		g.fill(s.path+"[]", "mutation", e)
		s.v.SetMapIndex(k, e)
		return true
	case reflect.Slice:
		return g.bump(s.v.Index(0))
	case reflect.Ptr:
		return g.bump(s.v.Elem())
	}
	return false
}

type fieldStats struct {
	reported  map[string]int
	populated map[string]bool
	compares  int
	mutations int
	mutated   map[string]bool
}

func (fs *fieldStats) violation(key, what string, c interface{}) {
	fs.reported[key]++
	if fs.reported[key] == 1 {
		rep.Violation(key, what, c)
	}
}

// compare reports every field in which got differs from want.
func (fs *fieldStats) compare(got, want flat, how string, inst int) {
	fs.compares++
	fields, entries := diffFlat(got, want)
	for _, f := range fields {
		var es []diffEntry
		for _, e := range entries {
			if fieldOf(e.Path) == f && len(es) < 4 {
				es = append(es, e)
			}
		}
		key := "C23:cr-checkpoint-field:" + f
		if strings.HasSuffix(f, ".Info.Signature") {
			key = "C23:cr-checkpoint:" + f // the known finding: CRInfo is written unsigned
		}
		fs.violation(key, fmt.Sprintf("generated checkpoint #%d, %s: %s does not come back as it was", inst, how, f),
			map[string]interface{}{"instance": inst, "diff(restored,generated)": es})
	}
}

func fieldsMode(n int, seed int64) {
	fs := &fieldStats{reported: map[string]int{}, populated: map[string]bool{}, mutated: map[string]bool{}}
	// every field of crstate.Checkpoint is either dumped or excluded with a reason
	ct := reflect.TypeOf(crstate.Checkpoint{})
	for i := 0; i < ct.NumField(); i++ {
		name := ct.Field(i).Name
		if _, ex := notInCheckpoint["Checkpoint."+name]; !checkpointParts[name] && !ex {
			rep.Mismatch("crstate.Checkpoint has a field the sweep neither generates nor excludes: "+name, nil)
		}
	}
	env := NewEnv(Cfg{NCR: 1, NProps: 1, NOwners: 1, NVoters: 1, MemberCount: 1, AgreeCount: 1, VotingPeriod: 8, ClaimPeriod: 1,
		DutyPeriod: 16, Lockup: 2, PropCRVote: 1, PropPubVote: 1, VotingStart: 1, CommitteeStart: 9, MaxTracking: 4, RejectThreshold: 2})
	var keys []*crKey
	for i := 0; i < 48; i++ {
		keys = append(keys, newCRKey(uint64(5000+i)))
	}
	var sample interface{}
	for inst := 0; inst < n; inst++ {
		g := &gen{rng: rand.New(rand.NewSource(seed*1000003 + int64(inst))), n: uint64(inst) * 7, first: inst == 0, keys: keys}
		orig := &crstate.Checkpoint{}
		g.fill("Checkpoint", "Checkpoint", reflect.ValueOf(orig).Elem())
		for _, b := range g.bad {
			rep.Mismatch(b, nil)
		}
		if len(g.bad) > 0 {
			break
		}
		want := dumpCheckpoint(orig)
		for path, v := range want {
			if !zeroValue(v) {
				fs.populated[fieldOf(path)] = true
			}
		}
		if sample == nil {
			sample = map[string]interface{}{"instance": inst, "dump_entries": len(want),
				"RegisteredSideChainPayloadInfo_heights": len(orig.RegisteredSideChainPayloadInfo)}
		}

		// (a) Serialize -> Deserialize into a fresh object
		buf := new(bytes.Buffer)
		if err := orig.Serialize(buf); err != nil {
			fs.violation("C23:cr-checkpoint:serialize-error", err.Error(), map[string]interface{}{"instance": inst})
			continue
		}
		raw := append([]byte(nil), buf.Bytes()...)
		back := &crstate.Checkpoint{}
		rd := bytes.NewReader(raw)
		if err := back.Deserialize(rd); err != nil {
			fs.violation("C23:cr-checkpoint:deserialize-error", err.Error(), map[string]interface{}{"instance": inst})
			continue
		}
		if rd.Len() != 0 {
			fs.violation("C23:cr-checkpoint:bytes-left", fmt.Sprintf("%d of %d bytes are not consumed by Deserialize", rd.Len(), len(raw)),
				map[string]interface{}{"instance": inst})
		}
		if os.Getenv("CRSTATE_SELFTEST") == "alias" && inst == 0 {
			// binding self-test: two outer keys sharing one inner map must be noticed
			var first map[common.Uint168]*crstate.Candidate
			for k, m := range back.HistoryCandidates {
				if first == nil {
					first = m
				} else {
					back.HistoryCandidates[k] = first
				}
			}
		}
		fs.compare(dumpCheckpoint(back), want, "Serialize -> Deserialize", inst)
		if gc, ok := orig.Generator()(raw).(*crstate.Checkpoint); ok && gc != nil {
			fs.compare(dumpCheckpoint(gc), want, "Checkpoint.Generator()", inst)
		} else {
			fs.violation("C23:cr-checkpoint:generator-failed", "Checkpoint.Generator() returns no checkpoint for the serialized bytes",
				map[string]interface{}{"instance": inst})
		}
		// the generated object itself must not have been touched by all that
		fs.compare(dumpCheckpoint(orig), want, "the serialized object after Serialize", inst)

		// shared sub-objects of the restored object
		var sp []spot
		spots("KeyFrame", reflect.ValueOf(&back.KeyFrame).Elem(), &sp)
		spots("StateKeyFrame", reflect.ValueOf(&back.StateKeyFrame).Elem(), &sp)
		spots("ProposalKeyFrame", reflect.ValueOf(&back.ProposalKeyFrame).Elem(), &sp)
		sort.Slice(sp, func(i, j int) bool { return sp[i].path < sp[j].path })
		prev := dumpCheckpoint(back)
		nm := 6
		if inst == 0 {
			nm = len(sp) // once everything
		}
		for k := 0; k < nm && len(sp) > 0; k++ {
			s := sp[(inst*7+k*13)%len(sp)]
			if inst == 0 {
				s = sp[k]
			}
			if !g.mutate(s) {
				continue
			}
			fs.mutations++
			fs.mutated[fieldOf(s.path)] = true
			now := dumpCheckpoint(back)
			_, entries := diffFlat(now, prev)
			for _, e := range entries {
				if e.Path == s.path || strings.HasPrefix(e.Path, s.path+"[") || strings.HasPrefix(e.Path, s.path+".") {
					continue
				}
				fs.violation("C23:cr-checkpoint-field:"+fieldOf(e.Path)+":shared",
					fmt.Sprintf("generated checkpoint #%d restored from its bytes: changing %s changes %s as well (a shared sub-object)",
						inst, s.path, e.Path), map[string]interface{}{"instance": inst, "mutated": s.path, "also_changed": e})
				break
			}
			prev = now
		}

		// (b) the node's path: live committee -> Snapshot -> bytes -> registered checkpoint of a fresh committee -> Recover
		src := &crstate.Checkpoint{}
		if err := src.Deserialize(bytes.NewReader(raw)); err != nil {
			continue
		}
		A := env.NewInst()
		A.comm.KeyFrame = src.KeyFrame
		A.comm.GetState().StateKeyFrame = src.StateKeyFrame
		A.comm.GetProposalManager().ProposalKeyFrame = src.ProposalKeyFrame
		live := func(in *Inst) flat {
			d := dumpFrames(&in.comm.KeyFrame, &in.comm.GetState().StateKeyFrame, &in.comm.GetProposalManager().ProposalKeyFrame, true)
			d["Height"] = want["Height"]
			return d
		}
		// (what the live committee holds is what Deserialize gave: the signature is gone already; compare with that)
		wantLive := live(A)
		cpA := A.registered()
		cpA.SetHeight(orig.Height)
		snap, _ := cpA.Snapshot().(*crstate.Checkpoint)
		if snap == nil {
			fs.violation("C23:cr-checkpoint:snapshot-failed", "Checkpoint.Snapshot() of a committee holding the generated frames failed",
				map[string]interface{}{"instance": inst})
			continue
		}
		fs.compare(dumpCheckpoint(snap), wantLive, "Checkpoint.Snapshot() of a live committee", inst)
		fs.compare(live(A), wantLive, "the live committee after Checkpoint.Snapshot()", inst)
		out := new(bytes.Buffer)
		if err := snap.Serialize(out); err != nil {
			fs.violation("C23:cr-checkpoint:serialize-error", err.Error(), map[string]interface{}{"instance": inst})
			continue
		}
		R := env.NewInst()
		cpR := R.registered()
		if err := cpR.Deserialize(bytes.NewReader(out.Bytes())); err != nil {
			fs.violation("C23:cr-checkpoint:deserialize-error", err.Error(), map[string]interface{}{"instance": inst})
			continue
		}
		cpR.OnInit()
		if cpR.GetHeight() != orig.Height {
			fs.violation("C23:cr-checkpoint-field:Height", fmt.Sprintf("height %d restored as %d", orig.Height, cpR.GetHeight()),
				map[string]interface{}{"instance": inst})
		}
		fs.compare(live(R), wantLive, "Committee.Recover from the restored checkpoint", inst)
	}
	var never []string
	for _, f := range allFields() {
		if !fs.populated[f] {
			never = append(never, f)
		}
	}
	if len(never) > 0 {
		rep.Mismatch("fields of the CR checkpoint the generator never populates: "+strings.Join(never, ", "), nil)
	}
	var mutated []string
	for f := range fs.mutated {
		mutated = append(mutated, f)
	}
	sort.Strings(mutated)
	rep.Summary(n, map[string]interface{}{"mode": "fields", "compares": fs.compares, "mutations": fs.mutations,
		"mutated_containers": len(mutated), "never_populated": never, "violation_counts": fs.reported,
		"excluded": notInCheckpoint}, sample)
}
