package main

// C23, CR part: the committee checkpoint (cr/state/checkpoint.go) is lossless.
//
// For every behaviour the final chain (after the behaviour's rollbacks) is
// processed by an uninterrupted committee U.  At every height h
//
//	(a) the checkpoint registered with the checkpoint manager is taken the way
//	    the manager does (Snapshot: state -> Serialize -> Deserialize into a fresh
//	    Checkpoint) and compared with the live key frames over every field,
//	    exported or not, by reflection; serializing the restored object again
//	    must give the same bytes up to map order;
//	(b) a fresh committee restored from those bytes (Deserialize into its own
//	    registered checkpoint, OnInit -> Committee.Recover: the manager's Restore
//	    path) processes the remaining blocks and must end in the state of U.

import (
	"bytes"
	"fmt"
	"math"
	"reflect"
	"sort"
	"strings"

	crstate "github.com/elastos/Elastos.ELA/cr/state"
	"verif/harness/internal/rep"
)

func (in *Inst) registered() *crstate.Checkpoint {
	cp, ok := in.ckp.GetCheckpoint("cp_cr", math.MaxUint32)
	if !ok || cp == nil {
		return nil
	}
	c, _ := cp.(*crstate.Checkpoint)
	return c
}

func dumpFrames(kf *crstate.KeyFrame, sf *crstate.StateKeyFrame, pf *crstate.ProposalKeyFrame, unexported bool) flat {
	old := dumpUnexported
	dumpUnexported = unexported
	defer func() { dumpUnexported = old }()
	out := flat{}
	dumpValue("KeyFrame", reflect.ValueOf(kf).Elem(), out)
	dumpValue("StateKeyFrame", reflect.ValueOf(sf).Elem(), out)
	dumpValue("ProposalKeyFrame", reflect.ValueOf(pf).Elem(), out)
	return out
}

// allFields lists every struct field path (map keys / indexes dropped) of the
// key frames, from the types.
func allFields() []string {
	seen := map[string]bool{}
	var walk func(path string, t reflect.Type, depth int)
	walk = func(path string, t reflect.Type, depth int) {
		if depth > 12 {
			return
		}
		switch t.Kind() {
		case reflect.Ptr:
			walk(path, t.Elem(), depth+1)
		case reflect.Struct:
			if t.PkgPath() == "sync" {
				return
			}
			for i := 0; i < t.NumField(); i++ {
				f := t.Field(i)
				if f.Type.Kind() == reflect.Func || f.Type.Kind() == reflect.Chan {
					continue
				}
				walk(path+"."+f.Name, f.Type, depth+1)
			}
		case reflect.Map:
			seen[path] = true
			walk(path, t.Elem(), depth+1)
		case reflect.Slice, reflect.Array:
			if t.Elem().Kind() == reflect.Uint8 {
				seen[path] = true
				return
			}
			seen[path] = true
			walk(path, t.Elem(), depth+1)
		default:
			seen[path] = true
		}
	}
	walk("KeyFrame", reflect.TypeOf(crstate.KeyFrame{}), 0)
	walk("StateKeyFrame", reflect.TypeOf(crstate.StateKeyFrame{}), 0)
	walk("ProposalKeyFrame", reflect.TypeOf(crstate.ProposalKeyFrame{}), 0)
	var r []string
	for k := range seen {
		r = append(r, k)
	}
	sort.Strings(r)
	return r
}

func zeroValue(s string) bool {
	if s == "" || s == "0" || s == "false" || s == "nil" {
		return true
	}
	return strings.Trim(s, "0") == "" // all-zero hash / key
}

type ckStats struct {
	snapshots, restores, blocks int
	populated                   map[string]bool
	reported                    map[string]int // violation key -> occurrences (each key is reported once per run)
}

func (cs *ckStats) violation(key, what string, c interface{}) {
	cs.reported[key]++
	if cs.reported[key] == 1 {
		rep.Violation(key, what, c)
	}
}

func byteHistogram(b []byte) [256]int {
	var h [256]int
	for _, x := range b {
		h[x]++
	}
	return h
}

// checkpointBehaviour runs the C23 procedure on the final chain of one behaviour.
func checkpointBehaviour(env *Env, b rep.Behaviour, cs *ckStats) {
	st := &stats{}
	r := newRunner(env, 0, st)
	r.quiet = true
	r.replay(b)
	if r.failed {
		return // the behaviour itself does not replay: reported by the replay mode
	}
	chain := r.levels[1:]
	ctx := func(h uint32) map[string]interface{} {
		return map[string]interface{}{"behaviour": compactBehaviour(b), "height": h, "chain_length": len(chain)}
	}
	U := env.NewInst()
	var finalU flat
	type snap struct {
		h     uint32
		bytes []byte
	}
	var snaps []snap
	for _, lv := range chain {
		if p := U.Process(lv.block); p != nil {
			rep.Violation("C23:cr-panic", fmt.Sprintf("ProcessBlock(%d) panicked: %v", lv.h, p), ctx(lv.h))
			return
		}
		cs.blocks++
		cp := U.registered()
		if cp == nil {
			rep.Mismatch("no CR checkpoint registered with the checkpoint manager", nil)
			return
		}
		// (a) the manager's snapshot
		s0 := cp.Snapshot()
		restored, _ := s0.(*crstate.Checkpoint)
		if restored == nil {
			rep.Violation("C23:cr-checkpoint:snapshot-failed", fmt.Sprintf("height %d: Checkpoint.Snapshot() failed (serialize / deserialize error)", lv.h), ctx(lv.h))
			return
		}
		cs.snapshots++
		live := dumpFrames(&U.comm.KeyFrame, &U.comm.GetState().StateKeyFrame, &U.comm.GetProposalManager().ProposalKeyFrame, true)
		for path, v := range live {
			if !zeroValue(v) {
				cs.populated[fieldOf(path)] = true
			}
		}
		got := dumpFrames(&restored.KeyFrame, &restored.StateKeyFrame, &restored.ProposalKeyFrame, true)
		if fields, entries := diffFlat(got, live); len(fields) > 0 {
			// every lossy field is its own finding
			for _, f := range fields {
				var es []diffEntry
				for _, e := range entries {
					if fieldOf(e.Path) == f && len(es) < 4 {
						es = append(es, e)
					}
				}
				c := ctx(lv.h)
				c["diff(restored,live)"] = es
				cs.violation("C23:cr-checkpoint:"+f, fmt.Sprintf("height %d: the checkpoint restored from its serialized form differs from the "+
					"live committee in %s", lv.h, f), c)
			}
		}
		b1, b2 := new(bytes.Buffer), new(bytes.Buffer)
		restored.SetHeight(lv.h)
		if err := restored.Serialize(b1); err != nil {
			rep.Violation("C23:cr-checkpoint:serialize-error", fmt.Sprintf("height %d: %v", lv.h, err), ctx(lv.h))
			return
		}
		again := &crstate.Checkpoint{}
		if err := again.Deserialize(bytes.NewReader(b1.Bytes())); err != nil {
			rep.Violation("C23:cr-checkpoint:deserialize-error", fmt.Sprintf("height %d: %v", lv.h, err), ctx(lv.h))
			return
		}
		again.Serialize(b2)
		if b1.Len() != b2.Len() || byteHistogram(b1.Bytes()) != byteHistogram(b2.Bytes()) {
			rep.Violation("C23:cr-checkpoint:reserialize-bytes", fmt.Sprintf("height %d: serializing the restored checkpoint again gives %d bytes, "+
				"first time %d (or different content)", lv.h, b2.Len(), b1.Len()), ctx(lv.h))
			return
		}
		snaps = append(snaps, snap{lv.h, b1.Bytes()})
		finalU = U.Canon()
	}
	// (b) restore at every height and continue
	for _, sn := range snaps {
		R := env.NewInst()
		cp := R.registered()
		if err := cp.Deserialize(bytes.NewReader(sn.bytes)); err != nil {
			rep.Violation("C23:cr-checkpoint:deserialize-error", fmt.Sprintf("height %d: %v", sn.h, err), ctx(sn.h))
			return
		}
		cp.OnInit()
		R.height, R.tip = sn.h, sn.h
		cs.restores++
		for _, lv := range chain {
			if lv.h <= sn.h {
				continue
			}
			if p := R.Process(lv.block); p != nil {
				rep.Violation("C23:cr-restore-panic", fmt.Sprintf("restored at %d, ProcessBlock(%d) panicked: %v", sn.h, lv.h, p), ctx(sn.h))
				return
			}
			cs.blocks++
		}
		if fields, entries := diffFlat(R.Canon(), finalU); len(fields) > 0 {
			for _, f := range fields {
				var es []diffEntry
				for _, e := range entries {
					if fieldOf(e.Path) == f && len(es) < 4 {
						es = append(es, e)
					}
				}
				c := ctx(sn.h)
				c["diff(restored-run,uninterrupted)"] = es
				cs.violation("C23:cr-restore-diverges:"+f, fmt.Sprintf("a committee restored from the checkpoint of height %d and fed the remaining "+
					"%d blocks ends in a different state than the uninterrupted one in %s", sn.h, int(chain[len(chain)-1].h-sn.h), f), c)
			}
		}
	}
}

func checkpointMode(env *Env, behs []rep.Behaviour, shard, nshard int) {
	cs := &ckStats{populated: map[string]bool{}, reported: map[string]int{}}
	n := 0
	for i, b := range behs {
		if i%nshard != shard {
			continue
		}
		n++
		checkpointBehaviour(env, b, cs)
	}
	var never []string
	for _, f := range allFields() {
		if !cs.populated[f] {
			never = append(never, f)
		}
	}
	rep.Summary(n, map[string]interface{}{"mode": "checkpoint", "snapshots": cs.snapshots, "restores": cs.restores,
		"blocks": cs.blocks, "never_populated": never, "violation_counts": cs.reported})
}
