package main

import (
	"bytes"
	"encoding/json"
	"fmt"
	"os"
	"sort"
	"strings"

	"github.com/elastos/Elastos.ELA/blockchain"
	"github.com/elastos/Elastos.ELA/common"
	"github.com/elastos/Elastos.ELA/core/types"
	common2 "github.com/elastos/Elastos.ELA/core/types/common"
	"github.com/elastos/Elastos.ELA/core/types/payload"
	crstate "github.com/elastos/Elastos.ELA/cr/state"
	"verif/harness/internal/rep"
)

type stats struct {
	steps, blocks, rollbacks, sweeps, compares, verdicts, probes, doubleProbes, txs, agree int
}

// per height bookkeeping of the current chain
type level struct {
	h        uint32
	block    *types.Block
	led      *ledger
	realPaid map[int]common.Fixed64 // paid out by executed real withdrawals, per proposal
	canonB   flat                   // dump of the direct instance after this height
}

type runner struct {
	env       *Env
	sweep     int
	st        *stats
	A, B      *Inst
	levels    []*level // levels[h], levels[0] = genesis
	tr        *tracker
	beh       rep.Behaviour
	upto      int
	failed    bool
	perturbed bool
	base      uint32 // lowest height A can be rolled back to (height of the last restore)
	diffKey   string
	quiet     bool // build and process only (used by the checkpoint mode)
	kd        map[int]bool // CRs whose deposit the spec's named deviation ReleasedTwice has released a second time
	kdSeen    map[int]bool // ... already reported for this behaviour
}

const maxSession = 3

func newRunner(env *Env, sweep int, st *stats) *runner {
	r := &runner{env: env, sweep: sweep, st: st, diffKey: "C22:rollback-diff:", tr: &tracker{orderProp: map[common.Uint256]int{}}}
	r.A, r.B = env.NewInst(), env.NewInst()
	r.levels = []*level{{h: 0, led: newLedger(), realPaid: map[int]common.Fixed64{}, canonB: r.B.Canon()}}
	return r
}

func (r *runner) top() *level { return r.levels[len(r.levels)-1] }

func (r *runner) ctx(extra map[string]interface{}) map[string]interface{} {
	m := map[string]interface{}{"behaviour": compactBehaviour(r.beh[:r.upto+1])}
	for k, v := range extra {
		m[k] = v
	}
	return m
}

func (r *runner) violation(key, what string, extra map[string]interface{}) {
	if !r.quiet {
		rep.Violation(key, what, r.ctx(extra))
	}
	r.failed = true
}

func (r *runner) mismatch(what string, extra map[string]interface{}) {
	if !r.quiet {
		rep.Mismatch(what, r.ctx(extra))
	}
	r.failed = true
}

func parseTxs(v interface{}) []Tx {
	raw, _ := json.Marshal(v)
	var txs []Tx
	json.Unmarshal(raw, &txs)
	return txs
}

func (r *runner) replay(b rep.Behaviour) {
	r.beh = b
	for i, st := range b {
		r.upto = i
		r.st.steps++
		r.kd = map[int]bool{}
		for _, c := range ints(st["kd"]) {
			r.kd[c] = true
		}
		switch st.Act() {
		case "Start":
			scn := rep.Str(st.Args(), "scenario")
			pre, ok := r.env.cfg.Preambles[scn]
			if !ok {
				r.mismatch("no preamble for scenario "+scn, nil)
				return
			}
			for _, blk := range pre {
				r.applyBlock(blk, nil, false)
				if r.failed {
					return
				}
			}
		case "Block":
			txs := parseTxs(st.Args()["txs"])
			var ok []bool
			for _, x := range rep.List(st.Args(), "ok") {
				b, _ := x.(bool)
				ok = append(ok, b)
			}
			if int(r.A.height)+1 != rep.Int(st.Args(), "h") {
				r.mismatch(fmt.Sprintf("height: driver at %d, spec block %d", r.A.height, rep.Int(st.Args(), "h")), nil)
				return
			}
			r.st.blocks++
			r.applyBlock(txs, ok, true)
		case "Checkpoint":
			r.checkpointRestore()
		case "Rollback":
			r.st.rollbacks++
			r.rollback(uint32(rep.Int(st.Args(), "t")), "Rollback")
		default:
			r.mismatch("unknown action "+st.Act(), nil)
		}
		if r.failed {
			return
		}
		if r.quiet {
			continue
		}
		r.afterStep(st)
		if r.failed {
			return
		}
	}
	r.st.agree++
}

// applyBlock builds, admits and processes one block on A and on the direct
// instance B.
func (r *runner) applyBlock(abs []Tx, ok []bool, explored bool) {
	h := r.A.height + 1
	prev := r.top()
	led := prev.led.clone()
	var built []*builtTx
	for _, a := range abs {
		bt, err := r.env.Build(r.A, prev.led, a, h)
		if err != nil {
			r.mismatch("cannot build a transaction the spec offers: "+err.Error(), map[string]interface{}{"tx": a, "h": h})
			return
		}
		built = append(built, bt)
		if a.K == "Withdraw" {
			r.tr.orderProp[bt.tx.Hash()] = a.P
		}
	}
	blk := r.env.block(h, built)
	// admission as the node does it: CheckDuplicateTx on the block, every
	// transaction against the state before the block
	dupErr := blockchain.CheckDuplicateTx(blk)
	var inBlock common.Fixed64
	for i, bt := range built {
		err, checked := r.A.Check(bt, h, inBlock)
		if bt.abs.K == "Proposal" {
			for _, n := range bt.abs.Bud {
				inBlock += common.Fixed64(n) * ELA
			}
		}
		if !checked {
			continue
		}
		r.st.verdicts++
		accepted := err == nil && dupErr == nil
		ruleOK := ok == nil || i >= len(ok) || ok[i]
		if accepted && !ruleOK {
			key, what := "C29:double-withdraw-in-block", "pays budget stages an earlier withdrawal of the same block already pays"
			if bt.abs.K == "Tracking" {
				key, what = "C29:double-tracking-in-block", "gives back / releases budget computed from the same pre-block state as an earlier tracking of the same block"
			}
			r.violation(key, fmt.Sprintf("block %d: %s #%d of proposal %d is accepted although it %s (each transaction is checked against the "+
				"state before the block and CheckDuplicateTx has no rule for it)", h, bt.abs.K, i+1, bt.abs.P, what),
				map[string]interface{}{"txs": abs})
			r.failed = false // keep going: the spec models what the code does next
		}
		if !accepted {
			why := fmt.Sprint(err)
			if dupErr != nil {
				why = dupErr.Error()
			}
			r.mismatch(fmt.Sprintf("block %d: the real node refuses %s which the spec admits: %s", h, bt.abs.K, why),
				map[string]interface{}{"tx": bt.abs})
			return
		}
	}
	if dupErr != nil {
		r.mismatch(fmt.Sprintf("block %d refused by CheckDuplicateTx but admitted by the spec: %v", h, dupErr), map[string]interface{}{"txs": abs})
		return
	}
	r.st.txs += len(built)
	realPaid := map[int]common.Fixed64{}
	for k, v := range prev.realPaid {
		realPaid[k] = v
	}
	for _, bt := range built {
		if bt.abs.K == "RealWithdraw" {
			for hsh, oi := range r.A.comm.GetRealWithdrawTransactions() {
				realPaid[r.tr.orderProp[hsh]] += oi.Amount
			}
		}
		if bt.abs.K == "Withdraw" && bt.tx.PayloadVersion() == payload.CRCProposalWithdrawDefault {
			// payload version 0 pays at once: what leaves the expenses address
			var spent, back common.Fixed64
			for _, o := range bt.refs {
				spent += o.Value
			}
			for _, o := range bt.tx.Outputs() {
				if o.ProgramHash.IsEqual(r.env.expenses) {
					back += o.Value
				}
			}
			realPaid[bt.abs.P] += spent - back
		}
	}
	r.env.applyLedger(led, built)
	var onAssets common.Fixed64
	for _, u := range led.assets {
		onAssets += u.val
	}
	r.env.assetsOf[blk] = onAssets
	if p := r.A.Process(blk); p != nil {
		r.violation("C22:panic:ProcessBlock", fmt.Sprintf("ProcessBlock(%d) panicked: %v", h, p), map[string]interface{}{"txs": abs})
		return
	}
	if p := r.B.Process(blk); p != nil {
		r.violation("C22:panic:ProcessBlock", fmt.Sprintf("ProcessBlock(%d) panicked on the direct instance: %v", h, p), nil)
		return
	}
	r.levels = append(r.levels, &level{h: h, block: blk, led: led, realPaid: realPaid, canonB: r.B.Canon()})
	r.compareAB(fmt.Sprintf("after block %d", h))
	if r.failed {
		return
	}
	// C28, CR side: the deposit balance invariant on the real committee after every block
	r.checkDeposits(fmt.Sprintf("after block %d", h))
	if r.failed || !explored || r.sweep == 0 {
		return
	}
	// rollback sweep: back to earlier heights of the current chain and forward again
	targets, bounds := r.sweepTargets(h)
	for _, t := range targets {
		if !r.sweepTo(h, []uint32{t}) {
			return
		}
	}
	// the bounds of the rollback path in one descent: CRVotingStartHeight+1, CRVotingStartHeight (the lowest height
	// Committee.RollbackTo serves; its block is part of the state), CRVotingStartHeight-1 (Checkpoint.OnRollbackTo
	// resets the committee), a comparison at each landing, then every block again
	if len(bounds) > 0 {
		r.sweepTo(h, bounds)
	}
}

// sweepTo rolls the committee back from h to the (descending) heights ts, one
// after the other, comparing at each landing, processes the blocks up to h again
// and compares once more.
func (r *runner) sweepTo(h uint32, ts []uint32) bool {
	cur := h
	for _, t := range ts {
		if t >= cur || t < r.base || (t == r.base && r.base > 0 && h == r.base) {
			continue
		}
		r.st.sweeps++
		if p := r.A.Rollback(t, (h+t)%2 == 0); p != nil {
			r.rollbackFailed(p, t, cur)
			return false
		}
		if os.Getenv("CRSTATE_SELFTEST") == "perturb" && !r.perturbed {
			// binding self-test: a rollback that leaves one field behind must be noticed
			r.perturbed = true
			r.A.comm.KeyFrame.CirculationAmount++
		}
		r.compareTo(r.levels[t].canonB, fmt.Sprintf("sweep: rolled back from %d to %d", cur, t), t, t)
		if r.failed {
			return false
		}
		cur = t
	}
	if cur == h {
		return true
	}
	for x := cur + 1; x <= h; x++ {
		if p := r.A.Process(r.levels[x].block); p != nil {
			r.violation("C22:panic:ProcessBlock", fmt.Sprintf("re-processing block %d after the rollback to %d: %v", x, cur, p), nil)
			return false
		}
	}
	r.compareTo(r.levels[h].canonB, fmt.Sprintf("sweep: rolled back from %d to %d and re-processed", h, cur), h, cur)
	return !r.failed
}

// sweepTargets: the heights the committee is rolled back to (and forward again)
// after block h, and the bounds of the rollback path visited in one descent (at
// low heights and at the end of every behaviour).
func (r *runner) sweepTargets(h uint32) (ts, bounds []uint32) {
	seen := map[uint32]bool{}
	add := func(t uint32) {
		if t < h && !seen[t] {
			seen[t] = true
			ts = append(ts, t)
		}
	}
	vs := uint32(r.env.cfg.VotingStart)
	last := r.upto == len(r.beh)-1
	switch r.sweep {
	case 1: // the three preceding heights and one deep one
		for t := h - 1; t >= 1 && t+3 >= h; t-- {
			add(t)
		}
		if h > 8 {
			add(h / 2)
		}
		if h > vs+4 && !last {
			return ts, nil
		}
	default: // every height of the chain
		for t := h - 1; t >= 1; t-- {
			add(t)
		}
	}
	for _, t := range []uint32{vs + 1, vs} {
		if t < h {
			bounds = append(bounds, t)
		}
	}
	if vs > 0 && vs-1 < h {
		bounds = append(bounds, vs-1)
	}
	return ts, bounds
}

// checkpointRestore replaces A by a committee restored from A's checkpoint (the
// checkpoint manager's Snapshot / Restore path).  From here on a difference to
// the direct instance is a loss of the checkpoint (C23), not of a rollback.
func (r *runner) checkpointRestore() {
	cp := r.A.registered()
	snap := cp.Snapshot()
	if snap == nil {
		r.violation("C23:cr-checkpoint:snapshot-failed", "Checkpoint.Snapshot() failed", nil)
		return
	}
	snap.SetHeight(r.A.height)
	buf := new(bytes.Buffer)
	snap.Serialize(buf)
	R := r.env.NewInst()
	if err := R.registered().Deserialize(buf); err != nil {
		r.violation("C23:cr-checkpoint:deserialize-error", err.Error(), nil)
		return
	}
	R.registered().OnInit()
	R.height, R.tip = r.A.height, r.A.height
	r.A = R
	r.base = R.height
	r.diffKey = "C23:cr-restore-diverges:"
	r.compareAB("after checkpoint / restore")
}

// rollback is a Rollback step of the behaviour.
func (r *runner) rollback(t uint32, why string) {
	from := r.A.height
	if p := r.A.Rollback(t, (from+t)%2 == 0); p != nil {
		r.rollbackFailed(p, t, from)
		return
	}
	r.levels = r.levels[:t+1]
	// the direct instance for the shortened chain
	r.B = r.env.NewInst()
	for x := uint32(1); x <= t; x++ {
		if p := r.B.Process(r.levels[x].block); p != nil {
			r.violation("C22:panic:ProcessBlock", fmt.Sprintf("direct instance, block %d: %v", x, p), nil)
			return
		}
	}
	r.compareTo(r.levels[t].canonB, fmt.Sprintf("%s from %d to %d", why, from, t), t, t)
	if r.failed && !r.quiet {
		// what the difference means for the budgets (C29) and the deposits (C28) is reported as well
		for _, f := range r.A.checkC29(r.tr, r.top().realPaid) {
			r.violation(f.key, fmt.Sprintf("after step %d (%s): %s", r.upto, why, f.what), nil)
		}
		r.checkDeposits(fmt.Sprintf("after the rollback from %d to %d", from, t))
	}
}

// rollbackFailed reports a rollback that panicked, returned an error or did not return.
func (r *runner) rollbackFailed(p interface{}, t, from uint32) {
	if h, ok := p.(hung); ok {
		r.violation("C22:hang:RollbackTo", h.what+" (checkpoint.Manager.OnRollbackTo)", nil)
		onHang()
		return
	}
	r.violation("C22:panic:RollbackTo", fmt.Sprintf("rollback to %d from %d: %v", t, from, p), nil)
}

// checkDeposits evaluates CRDepositBalance of CR.tla on the real committee.  The
// named deviation of the spec (ReleasedTwice) is reported once per CR and
// behaviour and the replay goes on (the spec models what the code does next).
func (r *runner) checkDeposits(when string) {
	if r.quiet {
		return
	}
	failed := r.failed
	if os.Getenv("CRSTATE_SELFTEST") == "deposit" && !r.perturbed {
		// binding self-test: a deposit released once too often must be noticed
		for _, di := range r.A.comm.GetState().DepositInfo {
			if di.DepositAmount >= crstate.MinDepositAmount {
				r.perturbed = true
				di.DepositAmount -= 2 * crstate.MinDepositAmount
				defer func() { di.DepositAmount += 2 * crstate.MinDepositAmount }()
				break
			}
		}
	}
	for _, f := range r.A.checkC28(r.top().led, r.kd) {
		if f.known {
			if r.kdSeen == nil {
				r.kdSeen = map[int]bool{}
			}
			if r.kdSeen[f.cr] {
				continue
			}
			r.kdSeen[f.cr] = true
			r.violation(f.key, when+": "+f.what, nil)
			r.failed = failed
			continue
		}
		r.violation(f.key, when+": "+f.what, nil)
		failed = true
	}
}

func (r *runner) compareAB(when string) { r.compareTo(r.top().canonB, when, r.A.height, r.A.height) }

// compareTo: the committee under test against the dump of the direct one after
// block upto; target is the height the last rollback went to (= upto when none).
func (r *runner) compareTo(want flat, when string, upto, target uint32) {
	r.st.compares++
	got := r.A.Canon()
	fields, entries := diffFlat(got, want)
	if len(fields) == 0 {
		return
	}
	if len(entries) > 12 {
		entries = entries[:12]
	}
	key := r.diffKey
	if key == "C22:rollback-diff:" && target < uint32(r.env.cfg.VotingStart) {
		// the rollback went below CRVotingStartHeight: Checkpoint.OnRollbackTo reset the committee (another code path
		// than Committee.RollbackTo; what it leaves behind shows here or after the blocks are processed again)
		key = "C22:rollback-reset-diff:"
	}
	r.violation(key+fields[0],
		fmt.Sprintf("%s: the committee that went through the rollback(s) differs from the one that processed only the blocks up to %d in %s",
			when, upto, strings.Join(fields, ", ")),
		map[string]interface{}{"diff(rolled-back,direct)": entries})
}

// afterStep: spec projection, C29 on the real state, checker probes.
func (r *runner) afterStep(st rep.Step) {
	exp, _ := st["st"].(map[string]interface{})
	if exp == nil {
		r.mismatch("step without a state record", nil)
		return
	}
	got, bad := r.A.Project(r.tr, maxSession)
	if len(bad) > 0 {
		r.mismatch("projection: "+strings.Join(bad, "; "), nil)
		return
	}
	// the budget invariants first: a broken invariant is a verdict about the code,
	// a difference to the spec alone is not
	if os.Getenv("CRSTATE_SELFTEST") == "payable" && !r.perturbed && r.upto > 0 {
		// binding self-test: a withdraw order nobody issued must be noticed
		r.perturbed = true
		bogus := common.Uint256{0xbe, 0xef}
		info := r.A.comm.GetProposalManager().WithdrawableTxInfo
		info[bogus] = common2.OutputInfo{Amount: ELA}
		defer delete(info, bogus)
	}
	for _, f := range r.A.checkC29(r.tr, r.top().realPaid) {
		r.violation(f.key, fmt.Sprintf("after step %d (%s): %s", r.upto, st.Act(), f.what), nil)
	}
	if r.failed {
		return
	}
	fg, fe := flat{}, flat{}
	flatten("s", got, fg)
	flatten("s", specState(exp), fe)
	fields, entries := diffFlat(fg, fe)
	if len(fields) > 0 {
		if len(entries) > 12 {
			entries = entries[:12]
		}
		what := fmt.Sprintf("after step %d (%s): real committee and spec state differ in %s", r.upto, st.Act(), strings.Join(fields, ", "))
		if st.Act() == "Rollback" {
			r.violation("C22:rollback-spec:"+fields[0], what, map[string]interface{}{"diff(real,spec)": entries})
		} else {
			r.mismatch(what, map[string]interface{}{"diff(real,spec)": entries})
		}
		return
	}
	if vd, _ := st["vd"].(map[string]interface{}); vd != nil {
		r.probe(vd)
	}
}

func ints(v interface{}) []int {
	var r []int
	if a, ok := v.([]interface{}); ok {
		for _, x := range a {
			f, _ := x.(float64)
			r = append(r, int(f))
		}
	}
	return r
}

// probe asks the real checkers about transactions around the budget limits in
// the current state (nothing is processed).
func (r *runner) probe(vd map[string]interface{}) {
	h := r.A.height + 1
	avail := ints(vd["avail"])
	capU, room := rep.Int(vd, "cap"), rep.Int(vd, "room")
	for p := 1; p <= r.env.cfg.NProps && p <= len(avail); p++ {
		ps := r.A.proposal(p)
		if ps == nil {
			continue
		}
		owner := 0
		for i := 1; i < len(r.env.owners); i++ {
			if string(r.env.owners[i].pub) == string(ps.ProposalOwner) {
				owner = i
			}
		}
		if owner == 0 {
			continue
		}
		av := avail[p-1]
		amounts := []int{av + 1}
		if av > 0 {
			amounts = append(amounts, av)
			if av > 1 {
				amounts = append(amounts, av-1)
			}
		}
		for _, a := range amounts {
			bt, err := r.env.Build(r.A, r.top().led, Tx{K: "Withdraw", P: p, O: owner, N: a}, h)
			if err != nil {
				continue
			}
			cerr, _ := r.A.Check(bt, h, 0)
			r.st.probes++
			want := av > 0 && a == av
			if cerr == nil && !want {
				r.violation("C29:withdraw-accepted", fmt.Sprintf("height %d: the checker accepts a withdrawal of %d units of proposal %d, "+
					"the budget rule allows %d (status %s)", h, a, p, av, propStates[ps.Status]), nil)
				return
			}
			if cerr != nil && want {
				r.mismatch(fmt.Sprintf("height %d: the checker refuses the withdrawal of the %d available units of proposal %d: %v", h, a, p, cerr), nil)
				return
			}
		}
		if av > 0 {
			// the payload version the height does not admit (HeightVersionCheck)
			if bt, err := r.env.Build(r.A, r.top().led, Tx{K: "Withdraw", P: p, O: owner, N: av, X: "otherVersion"}, h); err == nil {
				cerr, _ := r.A.Check(bt, h, 0)
				r.st.probes++
				if cerr == nil {
					r.violation("C29:withdraw-version-accepted", fmt.Sprintf("height %d (CRCProposalWithdrawPayloadV1Height %d): a withdrawal "+
						"with payload version %d passes the height / version check and the withdraw checker", h,
						r.env.cfg.WithdrawV1Height, bt.tx.PayloadVersion()), nil)
					return
				}
			}
			// two withdrawals of the same stages in one block
			r.st.doubleProbes++
			b1, _ := r.env.Build(r.A, r.top().led, Tx{K: "Withdraw", P: p, O: owner, N: av}, h)
			b2, _ := r.env.Build(r.A, r.top().led, Tx{K: "Withdraw", P: p, O: owner, N: av}, h)
			blk := r.env.block(h, []*builtTx{b1, b2})
			e0 := blockchain.CheckDuplicateTx(blk)
			e1, _ := r.A.Check(b1, h, 0)
			e2, _ := r.A.Check(b2, h, 0)
			if e0 == nil && e1 == nil && e2 == nil {
				r.violation("C29:double-withdraw-in-block", fmt.Sprintf("height %d: a block with two withdrawals of the same %d units of proposal %d "+
					"passes CheckDuplicateTx and both pass the withdraw checker (each is checked against the state before the block): "+
					"the stage would be paid twice", h, av, p), map[string]interface{}{"probe": "double-withdraw"})
				r.failed = false
			}
		}
	}
	// two trackings of one proposal in one block (terminate + progress)
	for p := 1; p <= r.env.cfg.NProps; p++ {
		ps := r.A.proposal(p)
		if ps == nil || propStates[ps.Status] != "VoterAgreed" || len(ps.Proposal.Budgets) == 0 {
			continue
		}
		if _, done := ps.WithdrawableBudgets[1]; done || int(ps.TrackingCount) >= r.env.cfg.MaxTracking {
			continue
		}
		owner := 0
		for i := 1; i < len(r.env.owners); i++ {
			if string(r.env.owners[i].pub) == string(ps.ProposalOwner) {
				owner = i
			}
		}
		if owner == 0 {
			continue
		}
		r.st.doubleProbes++
		b1, _ := r.env.Build(r.A, r.top().led, Tx{K: "Tracking", P: p, O: owner, X: "Terminated"}, h)
		b2, _ := r.env.Build(r.A, r.top().led, Tx{K: "Tracking", P: p, O: owner, X: "Progress", N: 2}, h)
		blk := r.env.block(h, []*builtTx{b1, b2})
		e0 := blockchain.CheckDuplicateTx(blk)
		e1, _ := r.A.Check(b1, h, 0)
		e2, _ := r.A.Check(b2, h, 0)
		if e0 == nil && e1 == nil && e2 == nil {
			r.violation("C29:double-tracking-in-block", fmt.Sprintf("height %d: a block terminating proposal %d and releasing its stage 1 passes "+
				"CheckDuplicateTx and both trackings pass the checker: the stage's budget is given back to the committee and stays withdrawable", h, p),
				map[string]interface{}{"probe": "double-tracking"})
			r.failed = false
		}
	}
	// proposal registration around the two budget limits
	sponsor := 0
	for c := 1; c < len(r.env.crs); c++ {
		if m := r.A.comm.GetMember(r.env.crs[c].did); m != nil && memStates[m.MemberState] == "Elected" {
			sponsor = c
			break
		}
	}
	if sponsor == 0 {
		return
	}
	totals := map[int]bool{}
	for _, t := range []int{capU, capU + 1, room, room + 1, 3} {
		if t >= 3 && t < 1000 {
			totals[t] = true
		}
	}
	var ts []int
	for t := range totals {
		ts = append(ts, t)
	}
	sort.Ints(ts)
	for _, t := range ts {
		for _, k := range []int{0, 2} {
			bt, err := r.env.Build(r.A, r.top().led, Tx{K: "Proposal", P: 99, C: sponsor, O: 1, Bud: []int{t - 2, 1, 1}}, h)
			if err != nil {
				continue
			}
			cerr, _ := r.A.Check(bt, h, common.Fixed64(k)*ELA)
			r.st.probes++
			want := t <= capU && t <= room-k
			if cerr == nil && !want {
				r.violation("C29:proposal-over-budget", fmt.Sprintf("height %d: the checker accepts a proposal asking for %d units (with %d units asked "+
					"earlier in the block); limits: 10%% cap %d, room %d", h, t, k, capU, room), nil)
				return
			}
			if cerr != nil && want {
				r.mismatch(fmt.Sprintf("height %d: the checker refuses a proposal of %d units (in-block %d, cap %d, room %d): %v", h, t, k, capU, room, cerr), nil)
				return
			}
		}
	}
}
