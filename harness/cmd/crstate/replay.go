package main

import (
	"bytes"
	"encoding/json"
	"fmt"
	"os"
	"sort"
	"strings"

	"github.com/elastos/Elastos.ELA/blockchain"
	"github.com/elastos/Elastos.ELA/common"
	"github.com/elastos/Elastos.ELA/core/types"
	"verif/harness/internal/rep"
)

type stats struct {
	steps, blocks, rollbacks, sweeps, compares, verdicts, probes, doubleProbes, txs, agree int
}

// per height bookkeeping of the current chain
type level struct {
	h        uint32
	block    *types.Block
	led      *ledger
	realPaid map[int]common.Fixed64 // paid out by executed real withdrawals, per proposal
	canonB   flat                   // dump of the direct instance after this height
}

type runner struct {
	env       *Env
	sweep     int
	st        *stats
	A, B      *Inst
	levels    []*level // levels[h], levels[0] = genesis
	tr        *tracker
	beh       rep.Behaviour
	upto      int
	failed    bool
	perturbed bool
	base      uint32 // lowest height A can be rolled back to (height of the last restore)
	diffKey   string
	quiet     bool // build and process only (used by the checkpoint mode)
}

const maxSession = 3

func newRunner(env *Env, sweep int, st *stats) *runner {
	r := &runner{env: env, sweep: sweep, st: st, diffKey: "C22:rollback-diff:", tr: &tracker{orderProp: map[common.Uint256]int{}}}
	r.A, r.B = env.NewInst(), env.NewInst()
	r.levels = []*level{{h: 0, led: newLedger(), realPaid: map[int]common.Fixed64{}, canonB: r.B.Canon()}}
	return r
}

func (r *runner) top() *level { return r.levels[len(r.levels)-1] }

func (r *runner) ctx(extra map[string]interface{}) map[string]interface{} {
	m := map[string]interface{}{"behaviour": compactBehaviour(r.beh[:r.upto+1])}
	for k, v := range extra {
		m[k] = v
	}
	return m
}

func (r *runner) violation(key, what string, extra map[string]interface{}) {
	if !r.quiet {
		rep.Violation(key, what, r.ctx(extra))
	}
	r.failed = true
}

func (r *runner) mismatch(what string, extra map[string]interface{}) {
	if !r.quiet {
		rep.Mismatch(what, r.ctx(extra))
	}
	r.failed = true
}

func parseTxs(v interface{}) []Tx {
	raw, _ := json.Marshal(v)
	var txs []Tx
	json.Unmarshal(raw, &txs)
	return txs
}

func (r *runner) replay(b rep.Behaviour) {
	r.beh = b
	for i, st := range b {
		r.upto = i
		r.st.steps++
		switch st.Act() {
		case "Start":
			scn := rep.Str(st.Args(), "scenario")
			pre, ok := r.env.cfg.Preambles[scn]
			if !ok {
				r.mismatch("no preamble for scenario "+scn, nil)
				return
			}
			for _, blk := range pre {
				r.applyBlock(blk, nil, false)
				if r.failed {
					return
				}
			}
		case "Block":
			txs := parseTxs(st.Args()["txs"])
			var ok []bool
			for _, x := range rep.List(st.Args(), "ok") {
				b, _ := x.(bool)
				ok = append(ok, b)
			}
			if int(r.A.height)+1 != rep.Int(st.Args(), "h") {
				r.mismatch(fmt.Sprintf("height: driver at %d, spec block %d", r.A.height, rep.Int(st.Args(), "h")), nil)
				return
			}
			r.st.blocks++
			r.applyBlock(txs, ok, true)
		case "Checkpoint":
			r.checkpointRestore()
		case "Rollback":
			r.st.rollbacks++
			r.rollback(uint32(rep.Int(st.Args(), "t")), "Rollback")
		default:
			r.mismatch("unknown action "+st.Act(), nil)
		}
		if r.failed {
			return
		}
		if r.quiet {
			continue
		}
		r.afterStep(st)
		if r.failed {
			return
		}
	}
	r.st.agree++
}

// applyBlock builds, admits and processes one block on A and on the direct
// instance B.
func (r *runner) applyBlock(abs []Tx, ok []bool, explored bool) {
	h := r.A.height + 1
	prev := r.top()
	led := prev.led.clone()
	var built []*builtTx
	for _, a := range abs {
		bt, err := r.env.Build(r.A, prev.led, a, h)
		if err != nil {
			r.mismatch("cannot build a transaction the spec offers: "+err.Error(), map[string]interface{}{"tx": a, "h": h})
			return
		}
		built = append(built, bt)
		if a.K == "Withdraw" {
			r.tr.orderProp[bt.tx.Hash()] = a.P
		}
	}
	blk := r.env.block(h, built)
	// admission as the node does it: CheckDuplicateTx on the block, every
	// transaction against the state before the block
	dupErr := blockchain.CheckDuplicateTx(blk)
	var inBlock common.Fixed64
	for i, bt := range built {
		err, checked := r.A.Check(bt, h, inBlock)
		if bt.abs.K == "Proposal" {
			for _, n := range bt.abs.Bud {
				inBlock += common.Fixed64(n) * ELA
			}
		}
		if !checked {
			continue
		}
		r.st.verdicts++
		accepted := err == nil && dupErr == nil
		ruleOK := ok == nil || i >= len(ok) || ok[i]
		if accepted && !ruleOK {
			key, what := "C29:double-withdraw-in-block", "pays budget stages an earlier withdrawal of the same block already pays"
			if bt.abs.K == "Tracking" {
				key, what = "C29:double-tracking-in-block", "gives back / releases budget computed from the same pre-block state as an earlier tracking of the same block"
			}
			r.violation(key, fmt.Sprintf("block %d: %s #%d of proposal %d is accepted although it %s (each transaction is checked against the "+
				"state before the block and CheckDuplicateTx has no rule for it)", h, bt.abs.K, i+1, bt.abs.P, what),
				map[string]interface{}{"txs": abs})
			r.failed = false // keep going: the spec models what the code does next
		}
		if !accepted {
			why := fmt.Sprint(err)
			if dupErr != nil {
				why = dupErr.Error()
			}
			r.mismatch(fmt.Sprintf("block %d: the real node refuses %s which the spec admits: %s", h, bt.abs.K, why),
				map[string]interface{}{"tx": bt.abs})
			return
		}
	}
	if dupErr != nil {
		r.mismatch(fmt.Sprintf("block %d refused by CheckDuplicateTx but admitted by the spec: %v", h, dupErr), map[string]interface{}{"txs": abs})
		return
	}
	r.st.txs += len(built)
	realPaid := map[int]common.Fixed64{}
	for k, v := range prev.realPaid {
		realPaid[k] = v
	}
	for _, bt := range built {
		if bt.abs.K == "RealWithdraw" {
			for hsh, oi := range r.A.comm.GetRealWithdrawTransactions() {
				realPaid[r.tr.orderProp[hsh]] += oi.Amount
			}
		}
	}
	if p := r.A.Process(blk); p != nil {
		r.violation("C22:panic:ProcessBlock", fmt.Sprintf("ProcessBlock(%d) panicked: %v", h, p), map[string]interface{}{"txs": abs})
		return
	}
	if p := r.B.Process(blk); p != nil {
		r.violation("C22:panic:ProcessBlock", fmt.Sprintf("ProcessBlock(%d) panicked on the direct instance: %v", h, p), nil)
		return
	}
	r.env.applyLedger(led, built)
	r.levels = append(r.levels, &level{h: h, block: blk, led: led, realPaid: realPaid, canonB: r.B.Canon()})
	r.compareAB(fmt.Sprintf("after block %d", h))
	if r.failed || !explored || r.sweep == 0 {
		return
	}
	// rollback sweep: back to earlier heights of the current chain and forward again
	for _, t := range r.sweepTargets(h) {
		if t < r.base || (t == r.base && r.base > 0 && h == r.base) {
			continue
		}
		r.st.sweeps++
		if p := r.A.Rollback(t); p != nil {
			r.violation("C22:panic:RollbackTo", fmt.Sprintf("RollbackTo(%d) from %d: %v", t, h, p), nil)
			return
		}
		if os.Getenv("CRSTATE_SELFTEST") == "perturb" && !r.perturbed {
			// binding self-test: a rollback that leaves one field behind must be noticed
			r.perturbed = true
			r.A.comm.KeyFrame.CirculationAmount++
		}
		r.compareTo(r.levels[t].canonB, fmt.Sprintf("sweep: rolled back from %d to %d", h, t), t)
		if r.failed {
			return
		}
		for x := t + 1; x <= h; x++ {
			if p := r.A.Process(r.levels[x].block); p != nil {
				r.violation("C22:panic:ProcessBlock", fmt.Sprintf("re-processing block %d after RollbackTo(%d): %v", x, t, p), nil)
				return
			}
		}
		r.compareTo(r.levels[h].canonB, fmt.Sprintf("sweep: rolled back from %d to %d and re-processed", h, t), t)
		if r.failed {
			return
		}
	}
}

func (r *runner) sweepTargets(h uint32) []uint32 {
	var ts []uint32
	lo := uint32(1)
	switch r.sweep {
	case 1: // the three preceding heights and one deep one
		for t := h - 1; t >= 1 && t+3 >= h; t-- {
			ts = append(ts, t)
		}
		if h > 8 {
			ts = append(ts, h/2)
		}
	default: // every height of the chain
		for t := h - 1; t >= lo; t-- {
			ts = append(ts, t)
		}
	}
	return ts
}

// checkpointRestore replaces A by a committee restored from A's checkpoint (the
// checkpoint manager's Snapshot / Restore path).  From here on a difference to
// the direct instance is a loss of the checkpoint (C23), not of a rollback.
func (r *runner) checkpointRestore() {
	cp := r.A.registered()
	snap := cp.Snapshot()
	if snap == nil {
		r.violation("C23:cr-checkpoint:snapshot-failed", "Checkpoint.Snapshot() failed", nil)
		return
	}
	snap.SetHeight(r.A.height)
	buf := new(bytes.Buffer)
	snap.Serialize(buf)
	R := r.env.NewInst()
	if err := R.registered().Deserialize(buf); err != nil {
		r.violation("C23:cr-checkpoint:deserialize-error", err.Error(), nil)
		return
	}
	R.registered().OnInit()
	R.height, R.tip = r.A.height, r.A.height
	r.A = R
	r.base = R.height
	r.diffKey = "C23:cr-restore-diverges:"
	r.compareAB("after checkpoint / restore")
}

// rollback is a RollbackTo step of the behaviour.
func (r *runner) rollback(t uint32, why string) {
	from := r.A.height
	if p := r.A.Rollback(t); p != nil {
		r.violation("C22:panic:RollbackTo", fmt.Sprintf("RollbackTo(%d) from %d: %v", t, from, p), nil)
		return
	}
	r.levels = r.levels[:t+1]
	// the direct instance for the shortened chain
	r.B = r.env.NewInst()
	for x := uint32(1); x <= t; x++ {
		if p := r.B.Process(r.levels[x].block); p != nil {
			r.violation("C22:panic:ProcessBlock", fmt.Sprintf("direct instance, block %d: %v", x, p), nil)
			return
		}
	}
	r.compareTo(r.levels[t].canonB, fmt.Sprintf("%s from %d to %d", why, from, t), t)
}

func (r *runner) compareAB(when string) { r.compareTo(r.top().canonB, when, r.A.height) }

func (r *runner) compareTo(want flat, when string, t uint32) {
	r.st.compares++
	got := r.A.Canon()
	fields, entries := diffFlat(got, want)
	if len(fields) == 0 {
		return
	}
	if len(entries) > 12 {
		entries = entries[:12]
	}
	r.violation(r.diffKey+fields[0],
		fmt.Sprintf("%s: the committee that went through the rollback(s) differs from the one that processed only the blocks up to %d in %s",
			when, t, strings.Join(fields, ", ")),
		map[string]interface{}{"diff(rolled-back,direct)": entries})
}

// afterStep: spec projection, C29 on the real state, checker probes.
func (r *runner) afterStep(st rep.Step) {
	exp, _ := st["st"].(map[string]interface{})
	if exp == nil {
		r.mismatch("step without a state record", nil)
		return
	}
	got, bad := r.A.Project(r.tr, maxSession)
	if len(bad) > 0 {
		r.mismatch("projection: "+strings.Join(bad, "; "), nil)
		return
	}
	// the budget invariants first: a broken invariant is a verdict about the code,
	// a difference to the spec alone is not
	for _, f := range r.A.checkC29(r.tr, r.top().realPaid) {
		r.violation(f.key, fmt.Sprintf("after step %d (%s): %s", r.upto, st.Act(), f.what), nil)
	}
	if r.failed {
		return
	}
	fg, fe := flat{}, flat{}
	flatten("s", got, fg)
	flatten("s", specState(exp), fe)
	fields, entries := diffFlat(fg, fe)
	if len(fields) > 0 {
		if len(entries) > 12 {
			entries = entries[:12]
		}
		what := fmt.Sprintf("after step %d (%s): real committee and spec state differ in %s", r.upto, st.Act(), strings.Join(fields, ", "))
		if st.Act() == "Rollback" {
			r.violation("C22:rollback-spec:"+fields[0], what, map[string]interface{}{"diff(real,spec)": entries})
		} else {
			r.mismatch(what, map[string]interface{}{"diff(real,spec)": entries})
		}
		return
	}
	if vd, _ := st["vd"].(map[string]interface{}); vd != nil {
		r.probe(vd)
	}
}

func ints(v interface{}) []int {
	var r []int
	if a, ok := v.([]interface{}); ok {
		for _, x := range a {
			f, _ := x.(float64)
			r = append(r, int(f))
		}
	}
	return r
}

// probe asks the real checkers about transactions around the budget limits in
// the current state (nothing is processed).
func (r *runner) probe(vd map[string]interface{}) {
	h := r.A.height + 1
	avail := ints(vd["avail"])
	capU, room := rep.Int(vd, "cap"), rep.Int(vd, "room")
	for p := 1; p <= r.env.cfg.NProps && p <= len(avail); p++ {
		ps := r.A.proposal(p)
		if ps == nil {
			continue
		}
		owner := 0
		for i := 1; i < len(r.env.owners); i++ {
			if string(r.env.owners[i].pub) == string(ps.ProposalOwner) {
				owner = i
			}
		}
		if owner == 0 {
			continue
		}
		av := avail[p-1]
		amounts := []int{av + 1}
		if av > 0 {
			amounts = append(amounts, av)
			if av > 1 {
				amounts = append(amounts, av-1)
			}
		}
		for _, a := range amounts {
			bt, err := r.env.Build(r.A, r.top().led, Tx{K: "Withdraw", P: p, O: owner, N: a}, h)
			if err != nil {
				continue
			}
			cerr, _ := r.A.Check(bt, h, 0)
			r.st.probes++
			want := av > 0 && a == av
			if cerr == nil && !want {
				r.violation("C29:withdraw-accepted", fmt.Sprintf("height %d: the checker accepts a withdrawal of %d units of proposal %d, "+
					"the budget rule allows %d (status %s)", h, a, p, av, propStates[ps.Status]), nil)
				return
			}
			if cerr != nil && want {
				r.mismatch(fmt.Sprintf("height %d: the checker refuses the withdrawal of the %d available units of proposal %d: %v", h, a, p, cerr), nil)
				return
			}
		}
		if av > 0 {
			// two withdrawals of the same stages in one block
			r.st.doubleProbes++
			b1, _ := r.env.Build(r.A, r.top().led, Tx{K: "Withdraw", P: p, O: owner, N: av}, h)
			b2, _ := r.env.Build(r.A, r.top().led, Tx{K: "Withdraw", P: p, O: owner, N: av}, h)
			blk := r.env.block(h, []*builtTx{b1, b2})
			e0 := blockchain.CheckDuplicateTx(blk)
			e1, _ := r.A.Check(b1, h, 0)
			e2, _ := r.A.Check(b2, h, 0)
			if e0 == nil && e1 == nil && e2 == nil {
				r.violation("C29:double-withdraw-in-block", fmt.Sprintf("height %d: a block with two withdrawals of the same %d units of proposal %d "+
					"passes CheckDuplicateTx and both pass the withdraw checker (each is checked against the state before the block): "+
					"the stage would be paid twice", h, av, p), map[string]interface{}{"probe": "double-withdraw"})
				r.failed = false
			}
		}
	}
	// two trackings of one proposal in one block (terminate + progress)
	for p := 1; p <= r.env.cfg.NProps; p++ {
		ps := r.A.proposal(p)
		if ps == nil || propStates[ps.Status] != "VoterAgreed" || len(ps.Proposal.Budgets) == 0 {
			continue
		}
		if _, done := ps.WithdrawableBudgets[1]; done || int(ps.TrackingCount) >= r.env.cfg.MaxTracking {
			continue
		}
		owner := 0
		for i := 1; i < len(r.env.owners); i++ {
			if string(r.env.owners[i].pub) == string(ps.ProposalOwner) {
				owner = i
			}
		}
		if owner == 0 {
			continue
		}
		r.st.doubleProbes++
		b1, _ := r.env.Build(r.A, r.top().led, Tx{K: "Tracking", P: p, O: owner, X: "Terminated"}, h)
		b2, _ := r.env.Build(r.A, r.top().led, Tx{K: "Tracking", P: p, O: owner, X: "Progress", N: 2}, h)
		blk := r.env.block(h, []*builtTx{b1, b2})
		e0 := blockchain.CheckDuplicateTx(blk)
		e1, _ := r.A.Check(b1, h, 0)
		e2, _ := r.A.Check(b2, h, 0)
		if e0 == nil && e1 == nil && e2 == nil {
			r.violation("C29:double-tracking-in-block", fmt.Sprintf("height %d: a block terminating proposal %d and releasing its stage 1 passes "+
				"CheckDuplicateTx and both trackings pass the checker: the stage's budget is given back to the committee and stays withdrawable", h, p),
				map[string]interface{}{"probe": "double-tracking"})
			r.failed = false
		}
	}
	// proposal registration around the two budget limits
	sponsor := 0
	for c := 1; c < len(r.env.crs); c++ {
		if m := r.A.comm.GetMember(r.env.crs[c].did); m != nil && memStates[m.MemberState] == "Elected" {
			sponsor = c
			break
		}
	}
	if sponsor == 0 {
		return
	}
	totals := map[int]bool{}
	for _, t := range []int{capU, capU + 1, room, room + 1, 3} {
		if t >= 3 && t < 1000 {
			totals[t] = true
		}
	}
	var ts []int
	for t := range totals {
		ts = append(ts, t)
	}
	sort.Ints(ts)
	for _, t := range ts {
		for _, k := range []int{0, 2} {
			bt, err := r.env.Build(r.A, r.top().led, Tx{K: "Proposal", P: 99, C: sponsor, O: 1, Bud: []int{t - 2, 1, 1}}, h)
			if err != nil {
				continue
			}
			cerr, _ := r.A.Check(bt, h, common.Fixed64(k)*ELA)
			r.st.probes++
			want := t <= capU && t <= room-k
			if cerr == nil && !want {
				r.violation("C29:proposal-over-budget", fmt.Sprintf("height %d: the checker accepts a proposal asking for %d units (with %d units asked "+
					"earlier in the block); limits: 10%% cap %d, room %d", h, t, k, capU, room), nil)
				return
			}
			if cerr != nil && want {
				r.mismatch(fmt.Sprintf("height %d: the checker refuses a proposal of %d units (in-block %d, cap %d, room %d): %v", h, t, k, capU, room, cerr), nil)
				return
			}
		}
	}
}
