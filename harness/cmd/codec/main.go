// Driver for spec/Edge/Codec.tla (C37, amount and address strings).
//
//	codec run <cases.jsonl>
//
// Every case of the decision table is executed on common.Fixed64.String /
// common.StringToFixed64 and on common.Uint168.ToAddress / Uint168FromAddress.
package main

import (
	"fmt"
	"math/big"
	"math/rand"
	"os"

	"github.com/elastos/Elastos.ELA/common"
	"verif/harness/internal/rep"
)

func amountClass(neg bool, ip, fr string) string {
	c := "pos"
	if neg {
		c = "neg"
	}
	switch {
	case ip == "0" && fr == "00000000":
		c += ":zero"
	case ip == "0":
		c += ":fraction-only"
	case fr == "00000000":
		c += fmt.Sprintf(":integer-%d-digits", len(ip))
	default:
		c += fmt.Sprintf(":%d-digits-and-fraction", len(ip))
	}
	return c
}

func amount(st rep.Step) {
	a := st.Args()
	exp := rep.Map(st, "exp")
	neg, ip, fr := rep.Bool(a, "neg"), rep.Str(a, "ip"), rep.Str(a, "fr")
	n, ok1 := new(big.Int).SetString(ip, 10)
	f, ok2 := new(big.Int).SetString(fr, 10)
	if !ok1 || !ok2 {
		rep.Mismatch("bad digits in case", a)
		return
	}
	n.Mul(n, big.NewInt(100000000)).Add(n, f)
	if neg {
		n.Neg(n)
	}
	if !n.IsInt64() {
		rep.Mismatch("case does not fit int64", a)
		return
	}
	v := common.Fixed64(n.Int64())
	cls := amountClass(neg, ip, fr)
	var text string
	var back *common.Fixed64
	var perr error
	var pan interface{}
	func() {
		defer func() { pan = recover() }()
		text = v.String()
		back, perr = common.StringToFixed64(text)
	}()
	c := map[string]interface{}{"case": a, "value": n.String(), "text": text}
	if pan != nil {
		rep.Violation("C03:panic:fixed64-codec", fmt.Sprintf("amount codec panicked on %s: %v", n.String(), pan), c)
		return
	}
	if want := rep.Str(exp, "text"); text != want {
		rep.Violation("C37:amount-text:"+cls, fmt.Sprintf("Fixed64(%s).String() = %q, the format gives %q", n.String(), text, want), c)
		return
	}
	if perr != nil || back == nil {
		rep.Violation("C37:amount-roundtrip:"+cls, fmt.Sprintf("StringToFixed64(%q) fails (%v); the string was produced by Fixed64(%s).String()", text, perr, n.String()), c)
		return
	}
	if *back != v {
		rep.Violation("C37:amount-roundtrip:"+cls, fmt.Sprintf("StringToFixed64(%q) = %d, the string was produced from %s", text, int64(*back), n.String()), c)
	}
}

func pattern(p string, rng *rand.Rand) (h common.Uint160) {
	switch p {
	case "zero":
	case "ones":
		for i := range h {
			h[i] = 0xff
		}
	case "low":
		h[19] = 1
	case "high":
		h[0] = 0x80
	default:
		rng.Read(h[:])
	}
	return
}

func address(st rep.Step, rng *rand.Rand) {
	a := st.Args()
	exp := rep.Map(st, "exp")
	ph := common.Uint168FromCodeHash(byte(rep.Int(a, "prefix")), pattern(rep.Str(a, "pattern"), rng))
	name := rep.Str(a, "name")
	var addr string
	var back *common.Uint168
	var e1, e2 error
	var pan interface{}
	func() {
		defer func() { pan = recover() }()
		addr, e1 = ph.ToAddress()
		if e1 == nil {
			back, e2 = common.Uint168FromAddress(addr)
		}
	}()
	c := map[string]interface{}{"case": a, "program_hash": ph.String(), "address": addr}
	switch {
	case pan != nil:
		rep.Violation("C03:panic:address-codec", fmt.Sprintf("address codec panicked on %s: %v", ph.String(), pan), c)
	case e1 != nil:
		rep.Violation("C37:address-text:"+name, fmt.Sprintf("ToAddress fails for a %s program hash: %v", name, e1), c)
	case len(addr) != rep.Int(exp, "len") || addr[:1] != rep.Str(exp, "first"):
		rep.Violation("C37:address-text:"+name, fmt.Sprintf("address of a %s program hash is %q; expected %d characters starting with %q",
			name, addr, rep.Int(exp, "len"), rep.Str(exp, "first")), c)
	case e2 != nil || back == nil:
		rep.Violation("C37:address-roundtrip:"+name, fmt.Sprintf("Uint168FromAddress(%q) fails: %v", addr, e2), c)
	case *back != ph:
		rep.Violation("C37:address-roundtrip:"+name, fmt.Sprintf("Uint168FromAddress(%q) = %s, produced from %s", addr, back.String(), ph.String()), c)
	}
}

func main() {
	if len(os.Args) < 3 || os.Args[1] != "run" {
		fmt.Fprintln(os.Stderr, "usage: codec run <cases.jsonl>")
		os.Exit(3)
	}
	rng := rand.New(rand.NewSource(rep.Seed()*7919 + 37))
	behs := rep.ReadBehaviours(os.Args[2])
	na, nd := 0, 0
	var sample interface{}
	for _, b := range behs {
		for _, st := range b {
			switch st.Act() {
			case "Amount":
				na++
				amount(st)
			case "Address":
				nd++
				address(st, rng)
				if sample == nil {
					sample = st.Args()
				}
			}
		}
	}
	rep.Summary(na+nd, map[string]interface{}{"amount_cases": na, "address_cases": nd}, sample)
}
