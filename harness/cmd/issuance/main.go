// Case driver for spec/Chain/Issuance.tla (C11).
//
//	issuance run <cases.jsonl> <newH> <halvH> <interval> <maxH>
//
// Part 1: GetBlockReward is swept over the scaled schedule of the model and over
// the mainnet schedule and compared with the model's closed form (exact rational
// arithmetic), non-negativity and monotonicity are evaluated on the real values.
// Part 2: every coinbase case is materialised as a solved block on a full-stack
// node with DPoS v2 active and passed to CheckBlockSanity + CheckBlockContext.
package main

import (
	"fmt"
	"math/big"
	"os"
	"sort"
	"strconv"

	"github.com/elastos/Elastos.ELA/common"
	"github.com/elastos/Elastos.ELA/common/config"
	"github.com/elastos/Elastos.ELA/core"
	"github.com/elastos/Elastos.ELA/core/types"
	common2 "github.com/elastos/Elastos.ELA/core/types/common"
	"github.com/elastos/Elastos.ELA/core/types/interfaces"
	"github.com/elastos/Elastos.ELA/core/types/outputpayload"
	"github.com/elastos/Elastos.ELA/dpos/state"
	"verif/harness/internal/rep"
	"verif/harness/internal/stack"
)

// closed form of the model, exact: trunc(newInflationPerYear / blocksPerYear / 2^(factor-1))
func closedForm(p *config.Configuration, h uint32) common.Fixed64 {
	if h < p.NewELAIssuanceHeight {
		return p.PowConfiguration.RewardPerBlock
	}
	factor := uint32(1)
	if h >= p.HalvingRewardHeight {
		factor = 2 + (h-p.HalvingRewardHeight)/p.HalvingRewardInterval
	}
	num := big.NewInt(2000 * 10000 * 100000000 / 100 * 4) // AfterBurnIssuanceAmount * 4%
	den := new(big.Int).Mul(big.NewInt(365*24*60*60/120), new(big.Int).Lsh(big.NewInt(1), uint(factor-1)))
	q := new(big.Int).Quo(num, den)
	return common.Fixed64(q.Int64())
}

func sweep(p *config.Configuration, label string, heights []uint32) int {
	n := 0
	var prev common.Fixed64
	var prevH uint32
	havePrev := false
	for _, h := range heights {
		r := p.GetBlockReward(h)
		n++
		c := map[string]interface{}{"schedule": label, "height": h, "reward": int64(r)}
		if r < 0 {
			rep.Violation("C11:subsidy-negative", fmt.Sprintf("GetBlockReward(%d) = %d on the %s schedule", h, r, label), c)
		}
		if exp := closedForm(p, h); r != exp {
			// float64 division may differ from the exact quotient by one sela
			d := int64(r - exp)
			if d < -1 || d > 1 {
				rep.Violation("C11:subsidy-schedule", fmt.Sprintf("GetBlockReward(%d) = %d, schedule says %d (%s)", h, r, exp, label), c)
			}
		}
		if havePrev && prevH >= p.NewELAIssuanceHeight && h > prevH && r > prev {
			rep.Violation("C11:subsidy-increases", fmt.Sprintf("GetBlockReward rises from %d at height %d to %d at height %d (%s)", prev, prevH, r, h, label), c)
		}
		prev, prevH, havePrev = r, h, true
	}
	return n
}

func boundaryHeights(p *config.Configuration, halvings uint32) []uint32 {
	set := map[uint32]bool{}
	add := func(h uint32) {
		for d := uint32(0); d <= 2; d++ {
			set[h+d] = true
			if h >= d {
				set[h-d] = true
			}
		}
	}
	add(0)
	add(p.NewELAIssuanceHeight)
	for i := uint32(0); i <= halvings; i++ {
		add(p.HalvingRewardHeight + i*p.HalvingRewardInterval)
	}
	var hs []uint32
	for h := range set {
		hs = append(hs, h)
	}
	sort.Slice(hs, func(i, j int) bool { return hs[i] < hs[j] })
	return hs
}

func atoi(s string) uint32 { v, _ := strconv.Atoi(s); return uint32(v) }

func main() {
	if len(os.Args) < 7 {
		fmt.Fprintln(os.Stderr, "usage: issuance run <cases.jsonl> <newH> <halvH> <interval> <maxH>")
		os.Exit(3)
	}
	newH, halvH, interval, maxH := atoi(os.Args[3]), atoi(os.Args[4]), atoi(os.Args[5]), atoi(os.Args[6])
	stack.InitGlobals()
	defer stack.CleanupGlobals()
	n, err := stack.New(stack.Options{Tweak: func(p *config.Configuration) {
		p.NewELAIssuanceHeight = newH
		p.HalvingRewardHeight = halvH
		p.HalvingRewardInterval = interval
		// DPoS v2 is only ever active after the CR committee started: the coinbase's
		// first output then goes to the CR assets address
		p.CRConfiguration.CRCommitteeStartHeight = 1
	}})
	if err != nil {
		fmt.Fprintln(os.Stderr, err)
		os.Exit(3)
	}
	defer n.Close()
	// ---- part 1: the schedule ----
	evals := 0
	var all []uint32
	for h := uint32(0); h <= halvH+70*interval; h++ {
		all = append(all, h)
	}
	evals += sweep(n.Params, "scaled", all)
	main := config.GetDefaultParams()
	evals += sweep(main, "mainnet", boundaryHeights(main, 70))
	for h := main.NewELAIssuanceHeight - 5000; h < main.HalvingRewardHeight+5000; h += 7 {
		all = append(all[:0], h)
		evals += sweep(main, "mainnet", all)
	}

	// ---- part 2: coinbase cases ----
	n.Arbiters.State.DPoSV2ActiveHeight = 0 // reached by configuration shortcut (exported field)
	k, other := stack.KeyFromSeed(500), stack.KeyFromSeed(501)
	parent := n.Genesis()
	var prefix []*types.Block
	for i := 0; i < 3; i++ {
		b, err := n.NewBlock(parent, nil, stack.BlockOpts{CoinbaseTo: &k.Hash})
		if err == nil {
			_, _, err = n.Process(b)
		}
		if err != nil {
			fmt.Fprintln(os.Stderr, "prefix:", err)
			os.Exit(3)
		}
		prefix = append(prefix, b)
		parent = b
	}
	// funding: one transaction with many small outputs, one per later fee-paying transfer
	cb := prefix[0].Transactions[0]
	const nFund = 40
	var fouts []stack.Out
	each := (cb.Outputs()[1].Value - 20000) / nFund
	for i := 0; i < nFund; i++ {
		fouts = append(fouts, stack.Out{To: k.Hash, Value: each})
	}
	fund, _ := stack.Transfer([]common2.OutPoint{{TxID: cb.Hash(), Index: 1}}, fouts, []*stack.Key{k}, 9)
	fundFee := cb.Outputs()[1].Value - each*nFund
	fb, err := n.NewBlock(parent, []interfaces.Transaction{fund}, stack.BlockOpts{Fees: fundFee})
	if err == nil {
		_, _, err = n.Process(fb)
	}
	if err != nil {
		fmt.Fprintln(os.Stderr, "funding block:", err)
		os.Exit(3)
	}
	parent = fb
	nextFund := 0
	const feeAmount = common.Fixed64(10001)
	feeTx := func() interfaces.Transaction {
		tx, _ := stack.Transfer([]common2.OutPoint{{TxID: fund.Hash(), Index: uint16(nextFund)}},
			[]stack.Out{{To: other.Hash, Value: each - feeAmount}}, []*stack.Key{k}, uint64(7000+nextFund))
		return tx
	}
	cases := rep.ReadCases(os.Args[2])
	byH := map[uint32][]map[string]interface{}{}
	for _, c := range cases {
		byH[uint32(rep.Int(c, "h"))] = append(byH[uint32(rep.Int(c, "h"))], c)
	}
	addr := func(name string) common.Uint168 {
		switch name {
		case "cr":
			return *n.Params.CRConfiguration.CRAssetsProgramHash
		case "dpos":
			return *n.Params.DPoSConfiguration.DPoSV2RewardAccumulateProgramHash
		case "destroy":
			return *n.Params.DestroyELAProgramHash
		case "miner":
			return n.Miner.ProgramHash
		}
		return other.Hash
	}
	agree, skipped, ran, skippedPow := 0, 0, 0, 0
	var sample interface{}
	origMode := n.Arbiters.State.ConsensusAlgorithm
	for h := parent.Height + 1; h <= maxH; h++ {
		tipNode := n.Chain.GetBestChain()
		ftx := feeTx()
		if os.Getenv("VERIF_DEBUG") != "" {
			_, e := n.Chain.CheckTransactionContext(h, ftx, 0, 0)
			fmt.Fprintln(os.Stderr, "debug fee tx context:", h, e)
		}
		for _, c := range byH[h] {
			if rep.Str(c, "mode") == "POW" && rep.Int(c, "fee") != 0 {
				// plain transfers are not allowed in blocks while the consensus is POW
				skippedPow++
				continue
			}
			ran++
			mode := state.DPOS
			if rep.Str(c, "mode") == "POW" {
				mode = state.POW
			}
			n.Arbiters.State.ConsensusAlgorithm = mode
			var txs []interfaces.Transaction
			fees := common.Fixed64(0)
			if rep.Int(c, "fee") != 0 {
				txs = []interfaces.Transaction{ftx}
				fees = feeAmount
			}
			blk, err := n.NewBlock(parent, txs, stack.BlockOpts{Fees: fees, NoSolve: true})
			if err != nil {
				rep.Mismatch("block factory: "+err.Error(), c)
				continue
			}
			outs := blk.Transactions[0].Outputs()
			if len(outs) != 3 {
				rep.Mismatch(fmt.Sprintf("the node's own miner built a coinbase with %d outputs", len(outs)), c)
				continue
			}
			// the correct coinbase, evaluated against the property on real numbers
			total := n.Params.GetBlockReward(h) + fees
			if outs[0].Value+outs[1].Value+outs[2].Value != total {
				rep.Violation("C11:miner-total", fmt.Sprintf("the node's own coinbase at height %d pays %d, subsidy+fees is %d",
					h, outs[0].Value+outs[1].Value+outs[2].Value, total), c)
			}
			// apply the case's deviations
			outs[0].Value += common.Fixed64(rep.Int(c, "dcr"))
			outs[1].Value += common.Fixed64(rep.Int(c, "dminer"))
			outs[2].Value += common.Fixed64(rep.Int(c, "ddp"))
			outs[0].ProgramHash = addr(rep.Str(c, "acr"))
			outs[1].ProgramHash = addr(rep.Str(c, "aminer"))
			outs[2].ProgramHash = addr(rep.Str(c, "adp"))
			switch rep.Int(c, "nout") {
			case 2:
				outs = outs[:2]
			case 4:
				outs = append(outs, &common2.Output{AssetID: core.ELAAssetID, Value: 1, ProgramHash: other.Hash,
					Type: common2.OTNone, Payload: &outputpayload.DefaultOutput{}})
			}
			blk.Transactions[0].SetOutputs(outs)
			n.Seal(blk, stack.BlockOpts{})
			var verr error
			var pan interface{}
			func() {
				defer func() { pan = recover() }()
				if verr = n.Chain.CheckBlockSanity(blk); verr == nil {
					verr = n.Chain.CheckBlockContext(blk, tipNode)
				}
			}()
			if pan != nil {
				rep.Violation("C03:panic:coinbase-check", fmt.Sprintf("block validation panicked: %v", pan), c)
				continue
			}
			exp := rep.Bool(c, "accept")
			c2 := map[string]interface{}{"case": c, "error": fmt.Sprint(verr), "total": int64(total)}
			switch {
			case verr == nil && !exp:
				what := "value"
				if rep.Int(c, "dcr") == 0 && rep.Int(c, "dminer") == 0 && rep.Int(c, "ddp") == 0 {
					what = "address-or-count"
				}
				rep.Violation("C11:accepts-wrong-coinbase:"+what, fmt.Sprintf(
					"height %d mode %s fee %d: accepted coinbase offsets (%d,%d,%d) addresses (%s,%s,%s) outputs %d",
					h, rep.Str(c, "mode"), fees, rep.Int(c, "dcr"), rep.Int(c, "dminer"), rep.Int(c, "ddp"),
					rep.Str(c, "acr"), rep.Str(c, "aminer"), rep.Str(c, "adp"), rep.Int(c, "nout")), c2)
			case verr != nil && exp:
				rep.Mismatch(fmt.Sprintf("height %d: the correct coinbase was rejected: %v", h, verr), c2)
			default:
				agree++
			}
			if sample == nil && !exp {
				sample = c
			}
		}
		// advance the chain with a correct block (alternating with / without the fee transaction)
		n.Arbiters.State.ConsensusAlgorithm = origMode
		var txs []interfaces.Transaction
		fees := common.Fixed64(0)
		if h%2 == 0 {
			txs = []interfaces.Transaction{ftx}
			fees = feeAmount
		}
		nextFund++
		nb, err := n.NewBlock(parent, txs, stack.BlockOpts{Fees: fees})
		if err == nil {
			_, _, err = n.Process(nb)
		}
		if err != nil {
			rep.Mismatch(fmt.Sprintf("cannot advance to height %d: %v", h, err), nil)
			break
		}
		parent = nb
	}
	for h, cs := range byH {
		if h <= fb.Height || h > maxH {
			skipped += len(cs)
		}
	}
	rep.Summary(ran, map[string]interface{}{"agree": agree, "skipped_low_heights": skipped, "skipped_pow_mode_with_fee_tx": skippedPow, "schedule_evaluations": evals}, sample)
}
