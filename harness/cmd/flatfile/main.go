// Replay driver for spec/Store/FlatFile.tla -> database/ffldb (C18).
//
//	flatfile replay <behaviours.jsonl> <table.jsonl> <maxfile> <wrap> [workers]
//	flatfile record <runs> <ops> <maxfile> <out.ndjson>
//
// record: seeded random histories far beyond TLC's bounds (any block size that
// fits a file, dozens of files so that the open-file LRU evicts, many blocks per
// transaction); the observed layout after every call is written as a trace for
// TraceFlatFile.tla, and every read is compared on the spot with the reference
// semantics (whole block, header, random regions inside and beyond the block).
//
// replay: every behaviour TLC enumerated (Store / Commit / Abort / Reopen) is executed on
// a fresh real ffldb database whose maximum block-file size is lowered to the
// model's MaxFile.  After every step, for every block ever stored, the driver
// compares with the spec:
//
//   - HasBlock, FetchBlock (exact bytes), FetchBlockHeader,
//   - FetchBlockRegion for every (off,len) case of the spec's region decision
//     table for that block size (reference verdict ok/err; ok => bytes are
//     body[off:off+len]),
//   - the batch calls FetchBlocks / FetchBlockHeaders / FetchBlockRegions,
//   - (mechanism) the block location row, the write cursor and the length of
//     every flat file on disk.
//
// Reads run inside the open read-write transaction while blocks are pending and
// in a read-only transaction otherwise.
package main

import (
	"bufio"
	"bytes"
	"crypto/sha256"
	"encoding/json"
	"fmt"
	"math/rand"
	"os"
	"path/filepath"
	"runtime/debug"
	"sort"
	"strconv"
	"sync"

	"github.com/elastos/Elastos.ELA/common"
	"github.com/elastos/Elastos.ELA/database"
	"github.com/elastos/Elastos.ELA/database/ffldb"
	"verif/harness/internal/rep"
)

const netID = uint32(0x56455246) // any constant; written in front of every record

type tcase struct {
	off, length uint32
	moff, mlen  int
	ok          bool
}

var (
	table   = map[int][]tcase{}
	maxFile uint32
	wrap    int
	baseDir string
)

// model number -> uint32 (numbers within 64 Ki of Wrap stand for 2^32-(Wrap-v))
func u32(v int) uint32 {
	if v >= wrap-65536 {
		return uint32((int64(1) << 32) - int64(wrap-v))
	}
	return uint32(v)
}

func hashOf(id int) common.Uint256 {
	return common.Uint256(sha256.Sum256([]byte(fmt.Sprintf("verif-block-%d", id))))
}

// body bytes of block id: a seeded xorshift stream, never constant
func bodyOf(id, sz int) []byte {
	x := uint64(rep.Seed())*0x9E3779B97F4A7C15 + uint64(id)*0xD1B54A32D192ED03 + 0x2545F4914F6CDD1D
	b := make([]byte, sz)
	for i := range b {
		x ^= x << 13
		x ^= x >> 7
		x ^= x << 17
		b[i] = byte(x >> 24)
	}
	return b
}

func errCode(err error) string {
	if err == nil {
		return ""
	}
	if de, ok := err.(database.Error); ok {
		return de.ErrorCode.String()
	}
	return "other:" + err.Error()
}

type run struct {
	beh   rep.Behaviour
	step  int
	dir   string
	db    database.DB
	tx    database.Tx // open read-write transaction or nil
	nid   int
	bad   bool
	calls int
}

func (r *run) ctx(extra map[string]interface{}) map[string]interface{} {
	m := map[string]interface{}{"behaviour": r.beh[:r.step+1], "maxfile": maxFile, "seed": rep.Seed()}
	for k, v := range extra {
		m[k] = v
	}
	return m
}

// A property violation is the stronger verdict: layout differences from the
// model (mismatches) found in the same run are most likely consequences of the
// same deviation, so they are held back and only reported when no violation
// was found.
var (
	vmu     sync.Mutex
	nViol   int
	heldMis [][2]interface{}
)

func noteViolation() { vmu.Lock(); nViol++; vmu.Unlock() }

func holdMismatch(what string, c interface{}) {
	vmu.Lock()
	if len(heldMis) < 200 {
		heldMis = append(heldMis, [2]interface{}{what, c})
	}
	vmu.Unlock()
}

func releaseMismatches() int {
	if nViol > 0 {
		return len(heldMis)
	}
	for _, m := range heldMis {
		rep.Mismatch(m[0].(string), m[1])
	}
	return 0
}

func (r *run) violation(key, what string, extra map[string]interface{}) {
	r.bad = true
	noteViolation()
	rep.Violation(key, fmt.Sprintf("step %d (%s): %s", r.step, r.beh[r.step].Act(), what), r.ctx(extra))
}

func (r *run) mismatch(what string, extra map[string]interface{}) {
	r.bad = true
	holdMismatch(fmt.Sprintf("step %d (%s): %s", r.step, r.beh[r.step].Act(), what), r.ctx(extra))
}

func (r *run) open(create bool) error {
	var err error
	if create {
		r.db, err = ffldb.VerifCreate(r.dir, netID) // = database.Create("ffldb", dir, net)
	} else {
		r.db, err = ffldb.VerifOpen(r.dir, netID) // = database.Open("ffldb", dir, net): openDB -> reconcileDB
	}
	if err != nil {
		return err
	}
	ffldb.VerifSetMaxBlockFileSize(r.db, maxFile)
	return nil
}

// apply executes one step; a panic of the real code is returned, not propagated.
func (r *run) apply(st rep.Step) (err error, panicked interface{}) {
	defer func() {
		if p := recover(); p != nil {
			panicked = p
		}
	}()
	switch st.Act() {
	case "Store":
		if r.tx == nil {
			if r.tx, err = r.db.Begin(true); err != nil {
				return
			}
		}
		r.nid++
		err = r.tx.StoreBlock(hashOf(r.nid), bodyOf(r.nid, rep.Int(st.Args(), "sz")))
	case "Commit":
		err = r.tx.Commit()
		r.tx = nil
	case "Abort":
		err = r.tx.Rollback()
		r.tx = nil
	case "Reopen":
		if err = r.db.Close(); err != nil {
			return
		}
		err = r.open(false)
	default:
		panic("unknown action " + st.Act())
	}
	return
}

type blk struct {
	id, sz int
	st     string
	f, o   int
}

// Regions with a length near 2^32 are rejected by a correct store before
// anything is allocated.  A store that wrongly accepts one allocates a 4 GiB
// buffer per call; after the first such violation the remaining huge-length
// cases of the run are skipped (the violation is established) so that a broken
// build cannot exhaust the machine's memory.  The calls are serialised.
var (
	hugeMu     sync.Mutex
	hugeBroken bool
)

func (r *run) checkRegion(tx database.Tx, b blk, body []byte, h *common.Uint256, c tcase) {
	if c.length >= 1<<31 {
		hugeMu.Lock()
		defer hugeMu.Unlock()
		if hugeBroken {
			return
		}
	}
	r.calls++
	got, err := tx.FetchBlockRegion(&database.BlockRegion{Hash: h, Offset: c.off, Len: c.length})
	if c.length >= 1<<31 && errCode(err) != "ErrBlockRegionInvalid" {
		// served, or failed only after allocating and reading: either way the bound check let it through
		hugeBroken = true
		defer debug.FreeOSMemory()
	}
	q := map[string]interface{}{"block": b.id, "size": b.sz, "state": b.st, "off": c.off, "len": c.length}
	switch {
	case c.ok && err != nil:
		r.violation("C18:region:rejected-valid", fmt.Sprintf("FetchBlockRegion(block %d of %d bytes [%s], off=%d, len=%d) failed: %v; "+
			"the region lies inside the block", b.id, b.sz, b.st, c.off, c.length, err), q)
	case c.ok:
		want := body[c.off : c.off+c.length]
		if !bytes.Equal(got, want) {
			r.violation("C18:region:bytes-differ", fmt.Sprintf("FetchBlockRegion(block %d of %d bytes [%s], off=%d, len=%d) returned "+
				"%x, stored bytes there are %x", b.id, b.sz, b.st, c.off, c.length, clip(got), clip(want)), q)
		}
	case err == nil:
		r.violation("C18:region:served-beyond-block", fmt.Sprintf("FetchBlockRegion(block %d of %d bytes [%s], off=%d, len=%d) "+
			"returned %d bytes (%x) although the region ends %d bytes past the block; the spec demands ErrBlockRegionInvalid",
			b.id, b.sz, b.st, c.off, c.length, len(got), clip(got), int64(c.off)+int64(c.length)-int64(b.sz)), q)
	case errCode(err) != "ErrBlockRegionInvalid":
		r.violation("C18:region:wrong-error", fmt.Sprintf("FetchBlockRegion(block %d of %d bytes [%s], off=%d, len=%d) beyond the "+
			"block failed with %s, the contract says ErrBlockRegionInvalid: %v", b.id, b.sz, b.st, c.off, c.length, errCode(err), err), q)
	}
}

func clip(b []byte) []byte {
	if len(b) > 24 {
		return b[:24]
	}
	return b
}

// observe compares everything visible through tx with the spec's `shown`.
func (r *run) observe(tx database.Tx, shown map[string]interface{}) {
	var blocks []blk
	for i, x := range rep.List(shown, "blocks") {
		m := x.(map[string]interface{})
		blocks = append(blocks, blk{id: i + 1, sz: rep.Int(m, "sz"), st: rep.Str(m, "st"), f: rep.Int(m, "f"), o: rep.Int(m, "o")})
	}
	var visHashes []common.Uint256
	var visBodies [][]byte
	var visBlk []blk
	for _, b := range blocks {
		h := hashOf(b.id)
		body := bodyOf(b.id, b.sz)
		q := map[string]interface{}{"block": b.id, "size": b.sz, "state": b.st}
		has, err := tx.HasBlock(h)
		if err != nil || has != (b.st != "absent") {
			r.violation("C18:hasblock", fmt.Sprintf("HasBlock(block %d) = %v, %v; the spec says the block is %s", b.id, has, err, b.st), q)
		}
		got, err := tx.FetchBlock(&h)
		f, o, l, hasRow := ffldb.VerifBlockLocation(tx, &h)
		if b.st == "absent" {
			if err == nil || errCode(err) != "ErrBlockNotFound" {
				r.violation("C18:fetchblock:absent-served", fmt.Sprintf("FetchBlock(block %d) of a block that was never committed "+
					"returned %d bytes, err=%v", b.id, len(got), err), q)
			}
			_, err = tx.FetchBlockRegion(&database.BlockRegion{Hash: &h, Offset: 0, Len: 1})
			if err == nil || errCode(err) != "ErrBlockNotFound" {
				r.violation("C18:region:absent-served", fmt.Sprintf("FetchBlockRegion(block %d) of a block that was never committed: err=%v", b.id, err), q)
			}
			if hasRow {
				r.mismatch(fmt.Sprintf("block %d has an index row but the spec says it is absent", b.id), q)
			}
			continue
		}
		if err != nil {
			r.violation("C18:fetchblock:error", fmt.Sprintf("FetchBlock(block %d of %d bytes [%s]) failed: %v", b.id, b.sz, b.st, err), q)
		} else if !bytes.Equal(got, body) {
			r.violation("C18:fetchblock:bytes-differ", fmt.Sprintf("FetchBlock(block %d of %d bytes [%s]) returned %d bytes %x.., stored %x..",
				b.id, b.sz, b.st, len(got), clip(got), clip(body)), q)
		}
		// header = region (0, Hdr)
		hd, err := tx.FetchBlockHeader(&h)
		if b.sz >= ffldb.VerifHeaderSize {
			if err != nil {
				r.violation("C18:header:rejected-valid", fmt.Sprintf("FetchBlockHeader(block %d of %d bytes [%s]) failed: %v", b.id, b.sz, b.st, err), q)
			} else if !bytes.Equal(hd, body[:ffldb.VerifHeaderSize]) {
				r.violation("C18:header:bytes-differ", fmt.Sprintf("FetchBlockHeader(block %d of %d bytes [%s]) returned %x..", b.id, b.sz, b.st, clip(hd)), q)
			}
		} else if err == nil {
			r.violation("C18:header:served-beyond-block", fmt.Sprintf("FetchBlockHeader(block %d of only %d bytes [%s]) returned %d bytes",
				b.id, b.sz, b.st, len(hd)), q)
		} else if errCode(err) != "ErrBlockRegionInvalid" {
			r.violation("C18:header:wrong-error", fmt.Sprintf("FetchBlockHeader(block %d of only %d bytes [%s]) failed with %s", b.id, b.sz, b.st, errCode(err)), q)
		}
		cases, okT := table[b.sz]
		if !okT {
			r.mismatch(fmt.Sprintf("no region table for block size %d", b.sz), nil)
		}
		for _, c := range cases {
			r.checkRegion(tx, b, body, &h, c)
		}
		// mechanism: location row
		if b.st == "stored" {
			if !hasRow || int(f) != b.f || int(o) != b.o || int(l) != b.sz+ffldb.VerifRecordOverhead {
				r.mismatch(fmt.Sprintf("block %d: index row (file %d, offset %d, len %d, present=%v), spec layout (file %d, offset %d, len %d)",
					b.id, f, o, l, hasRow, b.f, b.o, b.sz+ffldb.VerifRecordOverhead), q)
			}
		} else if hasRow {
			r.mismatch(fmt.Sprintf("pending block %d already has an index row", b.id), q)
		}
		visHashes = append(visHashes, h)
		visBodies = append(visBodies, body)
		visBlk = append(visBlk, b)
	}
	r.batch(tx, visBlk, visHashes, visBodies)

	// mechanism: cursor and files
	cf, co := ffldb.VerifWriteCursor(r.db)
	cur := rep.Map(shown, "cur")
	if int(cf) != rep.Int(cur, "f") || int(co) != rep.Int(cur, "o") {
		r.mismatch(fmt.Sprintf("write cursor is (file %d, offset %d), spec (file %d, offset %d)", cf, co, rep.Int(cur, "f"), rep.Int(cur, "o")), nil)
	}
	fl := rep.List(shown, "flens")
	for i := 0; i <= len(fl); i++ {
		st, err := os.Stat(filepath.Join(r.dir, fmt.Sprintf("%09d.fdb", i)))
		if i == len(fl) {
			if err == nil {
				r.mismatch(fmt.Sprintf("flat file %d exists (%d bytes), the spec has only %d files", i, st.Size(), len(fl)), nil)
			}
			break
		}
		want := int(fl[i].(float64))
		if err != nil || int(st.Size()) != want {
			r.mismatch(fmt.Sprintf("flat file %d: %v / size %v, spec %d bytes", i, err, st, want), nil)
		}
	}
}

// batch calls: FetchBlocks, FetchBlockHeaders, FetchBlockRegions (all-valid in
// reverse order of ids so that the by-location sort has something to do, then
// with one invalid region which must fail the whole call)
func (r *run) batch(tx database.Tx, bs []blk, hs []common.Uint256, bodies [][]byte) {
	if len(bs) == 0 {
		return
	}
	got, err := tx.FetchBlocks(hs)
	if err != nil || len(got) != len(hs) {
		r.violation("C18:fetchblocks:error", fmt.Sprintf("FetchBlocks of %d visible blocks: %v", len(hs), err), nil)
	} else {
		for i := range got {
			if !bytes.Equal(got[i], bodies[i]) {
				r.violation("C18:fetchblocks:bytes-differ", fmt.Sprintf("FetchBlocks[%d] (block %d) differs from the stored bytes", i, bs[i].id), nil)
			}
		}
	}
	var big []common.Uint256
	var bigBodies [][]byte
	for i, b := range bs {
		if b.sz >= ffldb.VerifHeaderSize {
			big = append(big, hs[i])
			bigBodies = append(bigBodies, bodies[i])
		}
	}
	if len(big) > 0 {
		hd, err := tx.FetchBlockHeaders(big)
		if err != nil || len(hd) != len(big) {
			r.violation("C18:headers:error", fmt.Sprintf("FetchBlockHeaders of %d blocks: %v", len(big), err), nil)
		} else {
			for i := range hd {
				if !bytes.Equal(hd[i], bigBodies[i][:ffldb.VerifHeaderSize]) {
					r.violation("C18:headers:bytes-differ", fmt.Sprintf("FetchBlockHeaders[%d] differs from the stored bytes", i), nil)
				}
			}
		}
	}
	// regions: two valid regions per block, highest id first
	var regs []database.BlockRegion
	var want [][]byte
	for i := len(bs) - 1; i >= 0; i-- {
		sz := uint32(bs[i].sz)
		a := sz / 3
		regs = append(regs, database.BlockRegion{Hash: &hs[i], Offset: a, Len: sz - a})
		want = append(want, bodies[i][a:])
		regs = append(regs, database.BlockRegion{Hash: &hs[i], Offset: 0, Len: (sz + 1) / 2})
		want = append(want, bodies[i][:(sz+1)/2])
	}
	rg, err := tx.FetchBlockRegions(regs)
	if err != nil || len(rg) != len(regs) {
		r.violation("C18:regions:rejected-valid", fmt.Sprintf("FetchBlockRegions of %d valid regions failed: %v", len(regs), err), nil)
	} else {
		for i := range rg {
			if !bytes.Equal(rg[i], want[i]) {
				r.violation("C18:regions:bytes-differ", fmt.Sprintf("FetchBlockRegions[%d] (block of %d bytes, off=%d, len=%d) returned %x.., stored %x..",
					i, len(bodies[len(bs)-1-i/2]), regs[i].Offset, regs[i].Len, clip(rg[i]), clip(want[i])), nil)
			}
		}
	}
	// the same batch with one region ending 1 and one ending 12 bytes past its block
	for _, over := range []uint32{1, 12} {
		k := (r.step + int(over)) % len(bs)
		bad := append(append([]database.BlockRegion{}, regs...), database.BlockRegion{Hash: &hs[k], Offset: 1, Len: uint32(bs[k].sz) + over - 1})
		rg, err = tx.FetchBlockRegions(bad)
		q := map[string]interface{}{"block": bs[k].id, "size": bs[k].sz, "state": bs[k].st, "off": 1, "len": uint32(bs[k].sz) + over - 1}
		if err == nil {
			r.violation("C18:regions:served-beyond-block", fmt.Sprintf("FetchBlockRegions with a region (block %d of %d bytes [%s], off=1, len=%d) "+
				"ending %d bytes past the block succeeded", bs[k].id, bs[k].sz, bs[k].st, uint32(bs[k].sz)+over-1, over), q)
		} else if errCode(err) != "ErrBlockRegionInvalid" {
			r.violation("C18:regions:wrong-error", fmt.Sprintf("FetchBlockRegions with a region (block %d of %d bytes [%s]) ending %d bytes past the block "+
				"failed with %s, the contract says ErrBlockRegionInvalid", bs[k].id, bs[k].sz, bs[k].st, over, errCode(err)), q)
		}
	}
}

func (r *run) observeSafe(shown map[string]interface{}) {
	defer func() {
		if p := recover(); p != nil {
			r.violation("C18:panic:read", fmt.Sprintf("a read call panicked: %v", p), nil)
		}
	}()
	if r.tx != nil {
		r.observe(r.tx, shown)
		return
	}
	err := r.db.View(func(tx database.Tx) error { r.observe(tx, shown); return nil })
	if err != nil {
		r.mismatch(fmt.Sprintf("View failed: %v", err), nil)
	}
}

func replayOne(b rep.Behaviour, idx int) (ok bool, calls int) {
	dir, err := os.MkdirTemp(baseDir, "sflat-ff-")
	if err != nil {
		panic(err)
	}
	defer os.RemoveAll(dir)
	r := &run{beh: b, dir: filepath.Join(dir, "db")}
	if err := r.open(true); err != nil {
		rep.Mismatch("cannot create database: "+err.Error(), nil)
		return false, 0
	}
	defer func() {
		defer func() { recover() }()
		if r.tx != nil {
			r.tx.Rollback()
		}
		if r.db != nil {
			r.db.Close()
		}
	}()
	for i, st := range b {
		r.step = i
		err, p := r.apply(st)
		if p != nil {
			r.violation("C18:panic:"+st.Act(), fmt.Sprintf("%s panicked: %v", st.Act(), p), nil)
			return false, r.calls
		}
		if err != nil {
			r.violation("C18:"+st.Act()+":failed", fmt.Sprintf("%s failed in a history the spec allows: %v", st.Act(), err), nil)
			return false, r.calls
		}
		r.observeSafe(rep.Map(st, "shown"))
		if r.bad {
			return false, r.calls
		}
	}
	return true, r.calls
}

// ---------------------------------------------------------------------------
// record

type rblk struct {
	sz int
	st string // pending / stored / absent
}

func setBase() {
	baseDir = os.Getenv("VERIF_DBDIR")
	if baseDir == "" {
		baseDir = os.TempDir()
		if st, err := os.Stat("/dev/shm"); err == nil && st.IsDir() {
			baseDir = "/dev/shm"
		}
	}
}

// shownReal builds the observable record of the spec (Shown) from the real database.
func (r *run) shownReal(tx database.Tx, blocks []rblk) map[string]interface{} {
	bl := make([]interface{}, 0, len(blocks))
	for i, b := range blocks {
		h := hashOf(i + 1)
		has, _ := tx.HasBlock(h)
		f, o, _, hasRow := ffldb.VerifBlockLocation(tx, &h)
		st := "absent"
		if hasRow {
			st = "stored"
		} else if has {
			st = "pending"
			f, o = 0, 0
		} else {
			f, o = 0, 0
		}
		bl = append(bl, map[string]interface{}{"sz": b.sz, "st": st, "f": int(f), "o": int(o)})
	}
	cf, co := ffldb.VerifWriteCursor(r.db)
	fl := []interface{}{}
	for i := 0; ; i++ {
		st, err := os.Stat(filepath.Join(r.dir, fmt.Sprintf("%09d.fdb", i)))
		if err != nil {
			break
		}
		fl = append(fl, int(st.Size()))
	}
	return map[string]interface{}{"blocks": bl, "cur": map[string]interface{}{"f": int(cf), "o": int(co)}, "flens": fl}
}

// readsReal compares the reads of every block with the reference semantics.
func (r *run) readsReal(tx database.Tx, blocks []rblk, rng *rand.Rand, hist []string) {
	viol := func(key, what string) {
		r.bad = true
		noteViolation()
		rep.Violation(key, what, map[string]interface{}{"history": hist, "maxfile": maxFile, "seed": rep.Seed()})
	}
	for i, b := range blocks {
		id := i + 1
		h := hashOf(id)
		body := bodyOf(id, b.sz)
		got, err := tx.FetchBlock(&h)
		has, _ := tx.HasBlock(h)
		if b.st == "absent" {
			if err == nil || has {
				viol("C18:fetchblock:absent-served", fmt.Sprintf("block %d was never committed but HasBlock=%v FetchBlock err=%v", id, has, err))
			}
			continue
		}
		if !has {
			viol("C18:hasblock", fmt.Sprintf("HasBlock(block %d [%s]) = false", id, b.st))
		}
		if err != nil {
			viol("C18:fetchblock:error", fmt.Sprintf("FetchBlock(block %d of %d bytes [%s]) failed: %v", id, b.sz, b.st, err))
			continue
		}
		if !bytes.Equal(got, body) {
			viol("C18:fetchblock:bytes-differ", fmt.Sprintf("FetchBlock(block %d of %d bytes [%s]) returned %d bytes %x.., stored %x..", id, b.sz, b.st, len(got), clip(got), clip(body)))
		}
		hd, err := tx.FetchBlockHeader(&h)
		if b.sz >= ffldb.VerifHeaderSize {
			if err != nil || !bytes.Equal(hd, body[:ffldb.VerifHeaderSize]) {
				viol("C18:header:bytes-differ", fmt.Sprintf("FetchBlockHeader(block %d of %d bytes [%s]): err=%v", id, b.sz, b.st, err))
			}
		} else if err == nil {
			viol("C18:header:served-beyond-block", fmt.Sprintf("FetchBlockHeader(block %d of only %d bytes [%s]) returned %d bytes", id, b.sz, b.st, len(hd)))
		}
		for k := 0; k < 6; k++ {
			off := rng.Intn(b.sz + 2)
			ln := rng.Intn(b.sz + 14)
			if k == 0 {
				off, ln = rng.Intn(b.sz+1), 0
				ln = b.sz - off // up to the last byte
			}
			if k == 1 {
				off = rng.Intn(b.sz + 1)
				ln = b.sz - off + 1 + rng.Intn(12) // 1..12 bytes past the end
			}
			r.checkRegion2(tx, blk{id: id, sz: b.sz, st: b.st}, body, &h, uint32(off), uint32(ln), viol)
		}
	}
}

func (r *run) checkRegion2(tx database.Tx, b blk, body []byte, h *common.Uint256, off, ln uint32, viol func(string, string)) {
	r.calls++
	got, err := tx.FetchBlockRegion(&database.BlockRegion{Hash: h, Offset: off, Len: ln})
	valid := uint64(off)+uint64(ln) <= uint64(b.sz)
	switch {
	case valid && err != nil:
		viol("C18:region:rejected-valid", fmt.Sprintf("FetchBlockRegion(block %d of %d bytes [%s], off=%d, len=%d) failed: %v", b.id, b.sz, b.st, off, ln, err))
	case valid && !bytes.Equal(got, body[off:off+ln]):
		viol("C18:region:bytes-differ", fmt.Sprintf("FetchBlockRegion(block %d of %d bytes [%s], off=%d, len=%d) returned %x.., stored %x..", b.id, b.sz, b.st, off, ln, clip(got), clip(body[off:off+ln])))
	case !valid && err == nil:
		viol("C18:region:served-beyond-block", fmt.Sprintf("FetchBlockRegion(block %d of %d bytes [%s], off=%d, len=%d) returned %d bytes although the region ends %d bytes past the block",
			b.id, b.sz, b.st, off, ln, len(got), uint64(off)+uint64(ln)-uint64(b.sz)))
	case !valid && errCode(err) != "ErrBlockRegionInvalid":
		viol("C18:region:wrong-error", fmt.Sprintf("FetchBlockRegion(block %d of %d bytes [%s], off=%d, len=%d) beyond the block failed with %s", b.id, b.sz, b.st, off, ln, errCode(err)))
	}
}

func record(runs, ops int, out string) {
	f, err := os.Create(out)
	if err != nil {
		panic(err)
	}
	defer f.Close()
	w := bufio.NewWriterSize(f, 1<<20)
	defer w.Flush()
	enc := json.NewEncoder(w)
	rng := rand.New(rand.NewSource(rep.Seed()*7919 + int64(maxFile)))
	events, maxFiles := 0, 0
	for t := 0; t < runs; t++ {
		dir, err := os.MkdirTemp(baseDir, "sflat-ffr-")
		if err != nil {
			panic(err)
		}
		r := &run{dir: filepath.Join(dir, "db")}
		if err := r.open(true); err != nil {
			rep.Mismatch("cannot create database: "+err.Error(), nil)
			return
		}
		enc.Encode(map[string]interface{}{"ev": "Reset"})
		events++
		var blocks []rblk
		var hist []string
		dirty := false
		npend := 0
		bigBias := t%2 == 1 // every other run prefers big blocks: one file per block or two
		func() {
			defer func() {
				if p := recover(); p != nil {
					rep.Violation("C18:panic:record", fmt.Sprintf("the real code panicked: %v", p), map[string]interface{}{"history": hist})
				}
			}()
			for i := 0; i < ops && !r.bad; i++ {
				ev := map[string]interface{}{}
				c := rng.Intn(10)
				switch {
				case c < 6: // store
					var sz int
					switch k := rng.Intn(6); {
					case k == 0:
						sz = []int{1, 2, ffldb.VerifHeaderSize - 1, ffldb.VerifHeaderSize, ffldb.VerifHeaderSize + 1, int(maxFile) - 12, int(maxFile) - 13}[rng.Intn(7)]
					case bigBias && k < 4:
						sz = int(maxFile)/2 - 14 + rng.Intn(int(maxFile)/2+3)
					default:
						sz = 1 + rng.Intn(int(maxFile)-12)
					}
					if sz < 1 {
						sz = 1
					}
					if r.tx == nil {
						if r.tx, err = r.db.Begin(true); err != nil {
							panic(err)
						}
					}
					id := len(blocks) + 1
					if err := r.tx.StoreBlock(hashOf(id), bodyOf(id, sz)); err != nil {
						rep.Violation("C18:Store:failed", "StoreBlock failed: "+err.Error(), map[string]interface{}{"history": hist})
						r.bad = true
						return
					}
					blocks = append(blocks, rblk{sz, "pending"})
					npend++
					ev["ev"], ev["sz"] = "Store", sz
					hist = append(hist, fmt.Sprintf("Store(%d)", sz))
				case c < 8: // commit
					if npend == 0 {
						continue
					}
					if err := r.tx.Commit(); err != nil {
						rep.Violation("C18:Commit:failed", "Commit failed: "+err.Error(), map[string]interface{}{"history": hist})
						r.bad = true
						return
					}
					r.tx = nil
					for k := range blocks {
						if blocks[k].st == "pending" {
							blocks[k].st = "stored"
						}
					}
					npend, dirty = 0, true
					ev["ev"] = "Commit"
					hist = append(hist, "Commit")
				case c == 8: // abort
					if npend == 0 {
						continue
					}
					r.tx.Rollback()
					r.tx = nil
					for k := range blocks {
						if blocks[k].st == "pending" {
							blocks[k].st = "absent"
						}
					}
					npend = 0
					ev["ev"] = "Abort"
					hist = append(hist, "Abort")
				default: // reopen
					if npend > 0 || !dirty {
						continue
					}
					if r.tx != nil {
						r.tx.Rollback()
						r.tx = nil
					}
					if err := r.db.Close(); err != nil {
						panic(err)
					}
					if err := r.open(false); err != nil {
						rep.Violation("C18:Reopen:failed", "reopening the database failed: "+err.Error(), map[string]interface{}{"history": hist})
						r.bad = true
						return
					}
					dirty = false
					ev["ev"] = "Reopen"
					hist = append(hist, "Reopen")
				}
				obs := func(tx database.Tx) error {
					ev["shown"] = r.shownReal(tx, blocks)
					r.readsReal(tx, blocks, rng, hist)
					return nil
				}
				if r.tx != nil {
					obs(r.tx)
				} else {
					r.db.View(obs)
				}
				if n := len(ev["shown"].(map[string]interface{})["flens"].([]interface{})); n > maxFiles {
					maxFiles = n
				}
				enc.Encode(ev)
				events++
			}
		}()
		func() {
			defer func() { recover() }()
			if r.tx != nil {
				r.tx.Rollback()
			}
			r.db.Close()
		}()
		os.RemoveAll(dir)
		if r.bad {
			break
		}
	}
	releaseMismatches()
	rep.Summary(runs, map[string]interface{}{"events": events, "mode": "record", "max_files": maxFiles, "maxfile": maxFile})
}

func main() {
	setBase()
	if len(os.Args) == 6 && os.Args[1] == "record" {
		runs, _ := strconv.Atoi(os.Args[2])
		ops, _ := strconv.Atoi(os.Args[3])
		mf, _ := strconv.Atoi(os.Args[4])
		maxFile = uint32(mf)
		record(runs, ops, os.Args[5])
		rep.Flush()
		return
	}
	if len(os.Args) < 6 || os.Args[1] != "replay" {
		fmt.Fprintln(os.Stderr, "usage: flatfile replay <behaviours.jsonl> <table.jsonl> <maxfile> <wrap> [workers] | record <runs> <ops> <maxfile> <out>")
		os.Exit(3)
	}
	behs := rep.ReadBehaviours(os.Args[2])
	mf, _ := strconv.Atoi(os.Args[4])
	maxFile = uint32(mf)
	wrap, _ = strconv.Atoi(os.Args[5])
	workers := 16
	if len(os.Args) > 6 {
		workers, _ = strconv.Atoi(os.Args[6])
	}
	for _, tb := range rep.ReadBehaviours(os.Args[3]) {
		for _, st := range tb {
			if st.Act() != "Case" {
				continue
			}
			a := st.Args()
			sz := rep.Int(a, "sz")
			table[sz] = append(table[sz], tcase{off: u32(rep.Int(a, "off")), length: u32(rep.Int(a, "len")),
				moff: rep.Int(a, "off"), mlen: rep.Int(a, "len"), ok: rep.Str(st, "exp") == "ok"})
		}
	}
	nCases := 0
	for sz := range table {
		c := table[sz]
		sort.Slice(c, func(i, j int) bool {
			if c[i].moff != c[j].moff {
				return c[i].moff < c[j].moff
			}
			return c[i].mlen < c[j].mlen
		})
		nCases += len(c)
	}
	var wg sync.WaitGroup
	var mu sync.Mutex
	agree, steps, calls := 0, 0, 0
	next := 0
	for w := 0; w < workers; w++ {
		wg.Add(1)
		go func() {
			defer wg.Done()
			for {
				mu.Lock()
				i := next
				next++
				mu.Unlock()
				if i >= len(behs) {
					return
				}
				ok, c := replayOne(behs[i], i)
				mu.Lock()
				if ok {
					agree++
				}
				steps += len(behs[i])
				calls += c
				mu.Unlock()
			}
		}()
	}
	wg.Wait()
	var sample interface{}
	if len(behs) > 0 {
		b := behs[len(behs)/2]
		var acts []string
		for _, st := range b {
			acts = append(acts, fmt.Sprintf("%s%v", st.Act(), st.Args()))
		}
		sample = map[string]interface{}{"history": acts, "final": b[len(b)-1]["shown"]}
	}
	held := releaseMismatches()
	rep.Summary(len(behs), map[string]interface{}{"steps": steps, "agree": agree, "region_reads": calls,
		"table_cases": nCases, "maxfile": maxFile, "mode": "replay", "layout_mismatches_suppressed": held}, sample)
}
