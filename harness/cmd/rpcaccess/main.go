// Conformance driver for C36 (spec/Edge/RPCAccess.tla).
//
//	rpcaccess run <cases.jsonl>   every case of the spec becomes HTTP requests (single and
//	                              batch body, several concrete forms per abstract class)
//	                              handed to the real servers/httpjsonrpc.Handle -- with the
//	                              method table StartRPCServer registered -- and, for the
//	                              access-control half, to utils/http/jsonrpc.Server.ServeHTTP
package main

import (
	"encoding/base64"
	"encoding/json"
	"fmt"
	"net"
	"net/http"
	"net/http/httptest"
	"os"
	"strings"
	"time"

	"github.com/elastos/Elastos.ELA/blockchain"
	"github.com/elastos/Elastos.ELA/common/config"
	"github.com/elastos/Elastos.ELA/common/log"
	"github.com/elastos/Elastos.ELA/servers"
	"github.com/elastos/Elastos.ELA/servers/httpjsonrpc"
	htp "github.com/elastos/Elastos.ELA/utils/http"
	"github.com/elastos/Elastos.ELA/utils/http/jsonrpc"

	"verif/harness/internal/rep"
)

type addrForm struct {
	remote string // http.Request.RemoteAddr
	ip     string // canonical IP as the whitelist would list it ("" if none)
}

func addrForms(class string) []addrForm {
	switch class {
	case "lo4":
		return []addrForm{{"127.0.0.1:51234", "127.0.0.1"}, {"127.8.9.10:1", "127.8.9.10"}, {"[::ffff:127.0.0.1]:80", "127.0.0.1"}}
	case "lo6":
		return []addrForm{{"[::1]:51234", "::1"}, {"[0:0:0:0:0:0:0:1]:9", "::1"}}
	case "remote4":
		return []addrForm{{"203.0.113.7:51234", "203.0.113.7"}, {"[::ffff:203.0.113.7]:80", "203.0.113.7"}, {"10.0.0.5:1", "10.0.0.5"}}
	case "remote6":
		return []addrForm{{"[2001:db8::7]:51234", "2001:db8::7"}, {"[2001:DB8:0:0::7]:80", "2001:db8::7"}}
	case "malformed":
		return []addrForm{{"", ""}, {"203.0.113.7", "203.0.113.7"}, {"localhost:80", "localhost"}, {"[::1]", "::1"},
			{"127.0.0.1:80:90", "127.0.0.1"}, {"999.1.1.1:80", "999.1.1.1"}, {"127.0.0.1 :80", "127.0.0.1"}, {":80", ""}, {"[fe80::1%eth0]:80", "fe80::1%eth0"}}
	}
	panic("addr class " + class)
}

func whitelist(class string, a addrForm) []string {
	switch class {
	case "empty":
		return nil
	case "listsClient":
		l := []string{"198.51.100.1"}
		if a.ip != "" {
			l = append(l, a.ip)
		}
		return append(l, "2001:db8::99")
	case "listsOthers":
		return []string{"198.51.100.1", "2001:db8::99", "0.0.0.1", "203.0.113.70", "2001:db8::70"}
	case "wildcard":
		return []string{"198.51.100.1", "0.0.0.0"}
	}
	panic("wl class " + class)
}

func creds(class string) (string, string) {
	switch class {
	case "none":
		return "", ""
	case "userOnly":
		return "alice", ""
	case "passOnly":
		return "", "s3cret"
	case "both":
		return "alice", "s3cret"
	}
	panic("creds class " + class)
}

func b64(s string) string { return base64.StdEncoding.EncodeToString([]byte(s)) }

// header forms: each is the list of Authorization header values of a request
func hdrForms(class, user, pass string) [][]string {
	exact := "Basic " + b64(user+":"+pass)
	wrongs := []string{"Basic " + b64(user+":"+pass+"x"), "Basic " + b64(user+":"), "Basic " + b64(":"), "Basic", "Basic " + b64(user+":"+pass)[1:]}
	var w []string
	for _, x := range wrongs {
		if x != exact {
			w = append(w, x)
		}
	}
	switch class {
	case "absent":
		return [][]string{nil}
	case "exact":
		return [][]string{{exact}}
	case "wrongPass":
		var r [][]string
		for _, x := range w {
			r = append(r, []string{x})
		}
		return r
	case "wrongUser":
		return [][]string{{"Basic " + b64("bob:"+pass)}, {"Basic " + b64(strings.ToUpper(user)+"x:"+pass)}}
	case "wrongScheme":
		return [][]string{{"Bearer " + b64(user+":"+pass)}, {"Digest " + b64(user+":"+pass)}, {b64(user + ":" + pass)}, {"Basic" + b64(user+":"+pass)}}
	case "lowerScheme":
		return [][]string{{"basic " + b64(user+":"+pass)}, {"BASIC " + b64(user+":"+pass)}}
	case "trailingSpace":
		return [][]string{{exact + " "}, {exact + "\t"}, {exact + "="}}
	case "leadingSpace":
		return [][]string{{" " + exact}, {"Basic  " + b64(user+":"+pass)}}
	case "empty":
		return [][]string{{""}}
	case "exactThenWrong":
		return [][]string{{exact, w[0]}, {exact, ""}}
	case "wrongThenExact":
		return [][]string{{w[0], exact}, {"", exact}}
	}
	panic("hdr class " + class)
}

func verbs(class string) []string {
	if class == "lowerPost" {
		return []string{"post", "Post"}
	}
	return []string{class}
}

func ctypes(class string) []string {
	switch class {
	case "json":
		return []string{"application/json"}
	case "plain":
		return []string{"text/plain"}
	case "jsonCharset":
		// a broken parameter still yields the media type (mime.ErrInvalidMediaParameter)
		return []string{"application/json; charset=utf-8", "text/plain;charset=UTF-8", "application/json; charset"}
	case "upperJson":
		return []string{"Application/JSON"}
	case "absent":
		return []string{""}
	case "form":
		return []string{"application/x-www-form-urlencoded", "text/xml", "application/json-rpc", "application/jsonx", "json"}
	}
	panic("ctype class " + class)
}

func levels(class string) []string {
	if class == "bogus" {
		return []string{"queryonly", "", "QueryOnly "}
	}
	return []string{class}
}

// classify a response of either server
func classify(rec *httptest.ResponseRecorder) (string, string) {
	switch rec.Code {
	case http.StatusForbidden:
		return "403", ""
	case http.StatusMethodNotAllowed:
		return "405", ""
	case http.StatusUnsupportedMediaType:
		return "415", ""
	case http.StatusUnauthorized:
		return "401", ""
	case http.StatusOK:
	default:
		return fmt.Sprintf("http%d", rec.Code), rec.Body.String()
	}
	body := rec.Body.Bytes()
	var one map[string]interface{}
	if err := json.Unmarshal(body, &one); err != nil {
		var many []map[string]interface{}
		if err2 := json.Unmarshal(body, &many); err2 != nil || len(many) != 1 {
			return "unparsable", string(body)
		}
		one = many[0]
	}
	if e, ok := one["error"].(map[string]interface{}); ok && e != nil {
		code, _ := e["code"].(float64)
		msgS, _ := e["message"].(string)
		switch {
		case code == -32601:
			return "notfound", msgS
		case code == 42001 && strings.Contains(msgS, "out of service level"):
			return "outOfLevel", msgS
		}
		return "served", fmt.Sprintf("%v: %s", e["code"], msgS)
	}
	return "served", fmt.Sprint(one["result"])
}

func freePort() int {
	l, err := net.Listen("tcp4", "127.0.0.1:0")
	if err != nil {
		panic(err)
	}
	defer l.Close()
	return l.Addr().(*net.TCPAddr).Port
}

func setup() {
	realStdout := os.Stdout
	if devnull, err := os.OpenFile(os.DevNull, os.O_WRONLY, 0); err == nil {
		os.Stdout = devnull
	}
	dir, _ := os.MkdirTemp("", "rpcaccess-log-")
	log.NewDefault(dir, 4, 0, 0)
	os.Stdout = realStdout

	params := config.GetDefaultParams()
	params.HttpJsonPort = freePort()
	params.EnableCORS = false
	config.Parameters = params
	servers.ChainParams = params
	// handlers that read the chain height before looking at their parameters
	servers.Chain = &blockchain.BlockChain{}
	// the node's own registration of the method table
	go httpjsonrpc.StartRPCServer()
	deadline := time.Now().Add(10 * time.Second)
	for {
		c, err := net.DialTimeout("tcp4", fmt.Sprintf("127.0.0.1:%d", params.HttpJsonPort), time.Second)
		if err == nil {
			c.Close()
			break
		}
		if time.Now().After(deadline) {
			fmt.Fprintln(os.Stderr, "StartRPCServer did not come up:", err)
			os.Exit(3)
		}
		time.Sleep(20 * time.Millisecond)
	}
}

type request struct {
	Remote  string   `json:"remote"`
	White   []string `json:"whitelist"`
	User    string   `json:"user"`
	Pass    string   `json:"pass"`
	Auth    []string `json:"authorization"`
	Verb    string   `json:"verb"`
	CType   string   `json:"contentType"`
	Method  string   `json:"method"`
	Level   string   `json:"level"`
	Batch   bool     `json:"batch"`
	Server  string   `json:"server"`
	Verdict string   `json:"verdict"`
	Detail  string   `json:"detail"`
	Probe   int      `json:"probeCalls"`
	Panic   string   `json:"panic,omitempty"`
}

func (q *request) build() *http.Request {
	body := fmt.Sprintf(`{"jsonrpc":"2.0","id":1,"method":%q}`, q.Method)
	if q.Batch {
		body = "[" + body + "]"
	}
	verb := q.Verb
	r := httptest.NewRequest("POST", "http://node.example/", strings.NewReader(body))
	r.Method = verb
	r.RemoteAddr = q.Remote
	if q.CType != "" {
		r.Header.Set("Content-Type", q.CType)
	}
	if q.Auth != nil {
		r.Header["Authorization"] = q.Auth
	}
	return r
}

var probeCalls int

func (q *request) send() {
	rec := httptest.NewRecorder()
	probeCalls = 0
	func() {
		defer func() {
			if r := recover(); r != nil {
				q.Panic = fmt.Sprint(r)
			}
		}()
		switch q.Server {
		case "httpjsonrpc":
			config.Parameters.RpcConfiguration.User = q.User
			config.Parameters.RpcConfiguration.Pass = q.Pass
			config.Parameters.RpcConfiguration.WhiteIPList = q.White
			servers.ChainParams.RPCServiceLevel = q.Level
			httpjsonrpc.Handle(rec, q.build())
		case "utils/jsonrpc":
			s := jsonrpc.NewServer(&jsonrpc.Config{ServePort: 1, User: q.User, Pass: q.Pass, WhiteList: q.White})
			s.RegisterAction("help", func(htp.Params) (interface{}, error) { probeCalls++; return "probe", nil })
			s.ServeHTTP(rec, q.build())
		}
	}()
	q.Probe = probeCalls
	if q.Panic != "" {
		q.Verdict, q.Detail = "served", "handler panicked: "+q.Panic
		return
	}
	q.Verdict, q.Detail = classify(rec)
}

var surface = map[string]bool{"served": true, "outOfLevel": true, "notfound": true}

func run(path string) {
	setup()
	cases := rep.ReadCases(path)
	agree, reqs := 0, 0
	var samples []interface{}
	for _, c := range cases {
		a := rep.Map(c, "args")
		exp := rep.Str(c, "exp")
		user, pass := creds(rep.Str(a, "creds"))
		method := rep.Str(a, "method")
		ok := true
		for _, af := range addrForms(rep.Str(a, "addr")) {
			wl := whitelist(rep.Str(a, "wl"), af)
			for _, hv := range hdrForms(rep.Str(a, "hdr"), user, pass) {
				for _, verb := range verbs(rep.Str(a, "verb")) {
					for _, ct := range ctypes(rep.Str(a, "ctype")) {
						for li, lvl := range levels(rep.Str(a, "level")) {
							for _, srv := range []string{"httpjsonrpc", "utils/jsonrpc"} {
								if srv == "utils/jsonrpc" && (li > 0 || (method != "help" && method != "nosuchmethod") ||
									rep.Str(a, "level") != "ConfigurationPermitted") {
									continue // the generic server has no service levels; one registered probe method
								}
								for _, batch := range []bool{false, true} {
									q := &request{Remote: af.remote, White: wl, User: user, Pass: pass, Auth: hv, Verb: verb, CType: ct,
										Method: method, Level: lvl, Batch: batch, Server: srv}
									q.send()
									reqs++
									conc := map[string]interface{}{"case": c, "request": q}
									if srv == "utils/jsonrpc" && (q.Probe > 0) != (q.Verdict == "served") {
										ok = false
										rep.Mismatch(fmt.Sprintf("probe handler ran %d times but the response classifies as %s", q.Probe, q.Verdict), conc)
										continue
									}
									if q.Verdict == exp {
										if len(samples) < 2 && exp == "401" && srv == "httpjsonrpc" && rep.Str(a, "addr") == "remote4" && !batch {
											samples = append(samples, conc)
										}
										continue
									}
									ok = false
									what := fmt.Sprintf("%s: %s from %q (whitelist %v), credentials %q:%q, Authorization %q, Content-Type %q, method %q at level %q: real %s (%s), spec %s",
										srv, verb, af.remote, wl, user, pass, hv, ct, method, lvl, q.Verdict, q.Detail, exp)
									switch {
									case q.Panic != "":
										// a handler blew up on the harness' nil globals: not a verdict
										rep.Mismatch(what, conc)
									case (exp == "403" || exp == "401") && surface[q.Verdict]:
										shape := rep.Str(a, "addr") + "/" + rep.Str(a, "wl")
										if exp == "401" {
											shape = rep.Str(a, "hdr")
										}
										rep.Violation(fmt.Sprintf("C36:access:%s:%s:%s", srv, exp, shape), what, conc)
									case exp == "outOfLevel" && q.Verdict == "served":
										rep.Violation(fmt.Sprintf("C36:level:%s:%s", method, rep.Str(a, "level")), what, conc)
									default:
										rep.Mismatch(what, conc)
									}
								}
							}
						}
					}
				}
			}
		}
		if ok {
			agree++
		}
	}
	rep.Summary(len(cases), map[string]interface{}{"mode": "run", "agree": agree, "requests": reqs}, samples...)
}

func main() {
	if len(os.Args) < 3 || os.Args[1] != "run" {
		fmt.Fprintln(os.Stderr, "usage: rpcaccess run <cases.jsonl>")
		os.Exit(3)
	}
	defer rep.Flush()
	run(os.Args[2])
}
