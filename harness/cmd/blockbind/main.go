// Case driver for spec/Chain/BlockBind.tla: every (base block, mutated
// transaction list) pair is materialised with real transactions and a solved
// header and handed to BlockChain.CheckBlockSanity (C07).
//
//	blockbind run <cases.jsonl>
package main

import (
	"fmt"
	"os"
	"strings"

	"github.com/elastos/Elastos.ELA/common"
	"github.com/elastos/Elastos.ELA/core/types"
	pg "github.com/elastos/Elastos.ELA/core/contract/program"
	common2 "github.com/elastos/Elastos.ELA/core/types/common"
	"github.com/elastos/Elastos.ELA/core/types/functions"
	"github.com/elastos/Elastos.ELA/core/types/interfaces"
	"github.com/elastos/Elastos.ELA/core/types/payload"
	"verif/harness/internal/rep"
	"verif/harness/internal/stack"
)

func names(v []interface{}) []string {
	var r []string
	for _, x := range v {
		r = append(r, x.(string))
	}
	return r
}

func main() {
	if len(os.Args) < 3 {
		fmt.Fprintln(os.Stderr, "usage: blockbind run <cases.jsonl>")
		os.Exit(3)
	}
	stack.InitGlobals()
	defer stack.CleanupGlobals()
	n, err := stack.New(stack.Options{})
	if err != nil {
		fmt.Fprintln(os.Stderr, err)
		os.Exit(3)
	}
	defer n.Close()
	k := stack.KeyFromSeed(300)
	a := stack.KeyFromSeed(301)
	parent := n.Genesis()
	var prefix []*types.Block
	for i := 0; i < 3; i++ {
		b, err := n.NewBlock(parent, nil, stack.BlockOpts{CoinbaseTo: &k.Hash})
		if err == nil {
			_, _, err = n.Process(b)
		}
		if err != nil {
			fmt.Fprintln(os.Stderr, "prefix:", err)
			os.Exit(3)
		}
		prefix = append(prefix, b)
		parent = b
	}
	// four plain transactions with pairwise disjoint inputs (sanity also forbids
	// one outpoint twice in a block, which is not what is mutated here)
	plain := map[string]interfaces.Transaction{}
	for i, name := range []string{"t1", "t2", "t3", "t4"} {
		var op common2.OutPoint
		if i < 3 {
			cb := prefix[i].Transactions[0]
			op = common2.OutPoint{TxID: cb.Hash(), Index: 1}
		} else {
			op = common2.OutPoint{TxID: common.Uint256{0xab, byte(i)}, Index: 0}
		}
		tx, err := stack.Transfer([]common2.OutPoint{op}, []stack.Out{{To: a.Hash, Value: 1000 + common.Fixed64(i)}}, []*stack.Key{k}, uint64(50+i))
		if err != nil {
			fmt.Fprintln(os.Stderr, err)
			os.Exit(3)
		}
		plain[name] = tx
	}
	// an input-less transaction (NextTurnDPOSInfo): a duplicate of it is caught by the
	// duplicate-transaction rule alone (no duplicated input could stand in for it)
	pk, _ := k.Acc.PublicKey.EncodePoint(true)
	plain["n1"] = functions.CreateTransaction(common2.TxVersion09, common2.NextTurnDPOSInfo, 0,
		&payload.NextTurnDPOSInfo{WorkingHeight: 9, CRPublicKeys: [][]byte{pk}, DPOSPublicKeys: [][]byte{pk}},
		[]*common2.Attribute{}, []*common2.Input{}, []*common2.Output{}, 0, []*pg.Program{})
	cb2 := n.CoinbaseTx(parent.Height+1, a.Hash)
	cb2.Outputs()[0].Value = 1
	cb2.Outputs()[1].Value = 2
	baseCache := map[string]*types.Block{}
	cases := rep.ReadCases(os.Args[2])
	agree := 0
	var sample interface{}
	for _, c := range cases {
		base := names(rep.List(c, "base"))
		mut := names(rep.List(c, "mut"))
		key := strings.Join(base, ",")
		bb, ok := baseCache[key]
		if !ok {
			var txs []interfaces.Transaction
			for _, t := range base[1:] {
				txs = append(txs, plain[t])
			}
			bb, err = n.NewBlock(parent, txs, stack.BlockOpts{})
			if err != nil {
				rep.Mismatch("block factory: "+err.Error(), c)
				continue
			}
			baseCache[key] = bb
		}
		// the mutant keeps the header (merkle root, proof of work) and changes the list
		m := &types.Block{Header: bb.Header}
		for _, t := range mut {
			switch t {
			case "cb":
				m.Transactions = append(m.Transactions, bb.Transactions[0])
			case "cb2":
				m.Transactions = append(m.Transactions, cb2)
			default:
				m.Transactions = append(m.Transactions, plain[t])
			}
		}
		var serr error
		var pan interface{}
		func() {
			defer func() { pan = recover() }()
			serr = n.Chain.CheckBlockSanity(m)
		}()
		kind := rep.Str(c, "kind")
		if pan != nil {
			rep.Violation("C03:panic:CheckBlockSanity:"+kind, fmt.Sprintf("CheckBlockSanity panicked: %v", pan), c)
			continue
		}
		exp := rep.Bool(c, "accept")
		switch {
		case serr == nil && !exp:
			rep.Violation("C07:accepts-mutant:"+kind, fmt.Sprintf("CheckBlockSanity accepted %v under the header of %v (%s)", mut, base, kind), c)
		case serr != nil && exp:
			rep.Mismatch(fmt.Sprintf("CheckBlockSanity rejected %v (%v) where the spec accepts", mut, serr), c)
		default:
			agree++
		}
		if sample == nil && kind == "duplicate-tail" && len(base) == 3 {
			sample = c
		}
	}
	rep.Summary(len(cases), map[string]interface{}{"agree": agree, "base_blocks": len(baseCache)}, sample)
}
