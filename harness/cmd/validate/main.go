// Replay driver for spec/Edge/Validate.tla (C03): every shape TLC enumerates is
// materialised into real bytes, decoded with the repository's own
// deserialisers (the property speaks about DECODED blocks / transactions) and
// passed to the real validators under recover.
//
//	validate shapes <cases.jsonl>
//
// A panic is a VIOLATION `C03:panic:<function>:<shape class>`; a verdict that
// differs from the model's is a MISMATCH (the model or the harness is wrong).
package main

import (
	"bytes"
	"encoding/binary"
	"encoding/json"
	"fmt"
	"math/rand"
	"os"
	"runtime/debug"
	"strings"

	"github.com/elastos/Elastos.ELA/auxpow"
	"github.com/elastos/Elastos.ELA/blockchain"
	"github.com/elastos/Elastos.ELA/common"
	"github.com/elastos/Elastos.ELA/common/config"
	"github.com/elastos/Elastos.ELA/core"
	"github.com/elastos/Elastos.ELA/core/contract"
	pg "github.com/elastos/Elastos.ELA/core/contract/program"
	"github.com/elastos/Elastos.ELA/core/transaction"
	"github.com/elastos/Elastos.ELA/core/types"
	common2 "github.com/elastos/Elastos.ELA/core/types/common"
	"github.com/elastos/Elastos.ELA/core/types/functions"
	"github.com/elastos/Elastos.ELA/core/types/interfaces"
	"github.com/elastos/Elastos.ELA/core/types/outputpayload"
	"github.com/elastos/Elastos.ELA/core/types/payload"
	"github.com/elastos/Elastos.ELA/crypto"
	"github.com/elastos/Elastos.ELA/dpos/state"

	"verif/harness/internal/rep"
	"verif/harness/internal/sigkit"
	"verif/harness/internal/stack"
)

type caseJ struct {
	Act   string                 `json:"act"`
	Args  map[string]interface{} `json:"args"`
	Exp   string                 `json:"exp"`
	Coded string                 `json:"coded"`
}

// guard runs f; a panic is turned into (function, message).
func guard(f func()) (fn, msg string) {
	defer func() {
		if r := recover(); r != nil {
			msg = fmt.Sprint(r)
			fn = panicSite(string(debug.Stack()))
		}
	}()
	f()
	return "", ""
}

// panicSite finds the repository function the panic was raised in.
func panicSite(stack string) string {
	lines := strings.Split(stack, "\n")
	seenPanic := false
	for _, l := range lines {
		if strings.HasPrefix(l, "panic(") {
			seenPanic = true
			continue
		}
		if seenPanic && strings.HasPrefix(l, "github.com/elastos/Elastos.ELA/") {
			f := strings.TrimPrefix(l, "github.com/elastos/Elastos.ELA/")
			if i := strings.LastIndex(f, "("); i > 0 {
				f = f[:i]
			}
			if i := strings.LastIndex(f, "/"); i >= 0 {
				f = f[i+1:]
			}
			return f
		}
	}
	return "unknown"
}

type env struct {
	node  *stack.Node
	pool  *sigkit.Pool
	rng   *rand.Rand
	stats map[string]int
	n     int
	// panics per violation key (only the first few of a key are reported in full)
	crashes map[string]int
	fund    *funded
}

func (e *env) crash(c *caseJ, fn, msg, class string) {
	key := "C03:panic:" + fn + ":" + class
	e.crashes[key]++
	if e.crashes[key] > 5 {
		return // the count goes into the summary
	}
	rep.Violation("C03:panic:"+fn+":"+class, fmt.Sprintf("%s panicked on a decoded %s shape: %s", fn, c.Args["mech"], msg), c)
}

func (e *env) verdict(c *caseJ, got, how string) {
	e.stats[fmt.Sprint(c.Args["mech"])+":"+got]++
	if got != c.Exp {
		rep.Mismatch(fmt.Sprintf("%s: real=%s model=%s", how, got, c.Exp), c)
	}
}

func ints(v interface{}) []byte {
	var r []byte
	l, _ := v.([]interface{})
	for _, x := range l {
		r = append(r, byte(int(x.(float64))))
	}
	return r
}

// ---------------------------------------------------------------------------
// classify

func (e *env) classify(c *caseJ) {
	code := append([]byte{}, ints(c.Args["head"])...)
	for i := 0; i < rep.Int(c.Args, "nkeys"); i++ {
		code = append(code, 33)
		code = append(code, bytes.Repeat([]byte{7}, 33)...)
	}
	code = append(code, ints(c.Args["tail"])...)
	// the code travels in a program of a transaction: decode it
	p := &pg.Program{Code: code, Parameter: []byte{}}
	buf := new(bytes.Buffer)
	p.Serialize(buf)
	var q pg.Program
	if err := q.Deserialize(buf); err != nil {
		rep.Mismatch("program does not decode: "+err.Error(), c)
		return
	}
	var std, sch, ms bool
	var kind contract.ContractType
	for _, f := range []func(){
		func() { std = contract.IsStandard(q.Code) },
		func() { sch = contract.IsSchnorr(q.Code) },
		func() { ms = contract.IsMultiSig(q.Code) },
		func() { kind = contract.GetCodeType(q.Code) },
	} {
		if fn, msg := guard(f); fn != "" {
			e.crash(c, fn, msg, "program-code-bytes")
			return
		}
	}
	got := map[contract.ContractType]string{contract.Signature: "standard", contract.MultiSig: "multisig",
		contract.Schnorr: "schnorr", contract.Custom: "custom"}[kind]
	if (got == "standard") != std || (got == "multisig") != ms || (got == "schnorr" && !sch) {
		rep.Mismatch(fmt.Sprintf("classifiers disagree with GetCodeType: std=%v schnorr=%v multisig=%v type=%s", std, sch, ms, got), c)
		return
	}
	e.verdict(c, got, "contract.GetCodeType")
}

// ---------------------------------------------------------------------------
// runprog

func (e *env) codeOfClass(class string) []byte {
	b := sigkit.Binding{1: e.pool.Accs[0], 2: e.pool.Accs[1], 3: e.pool.Accs[2]}
	mk := func(d sigkit.CodeDef) []byte {
		c, err := sigkit.BuildCode(d, b)
		if err != nil {
			panic(err)
		}
		return c
	}
	k12 := [][]int{{1}, {2}}
	switch class {
	case "std":
		return mk(sigkit.CodeDef{Kind: "std", M: 1, Keys: [][]int{{1}}})
	case "std-badkey":
		c := mk(sigkit.CodeDef{Kind: "std", M: 1, Keys: [][]int{{1}}})
		c[1] = 0x05 // no such point encoding
		return c
	case "schnorr":
		return mk(sigkit.CodeDef{Kind: "schnorr", M: 1, Keys: [][]int{{1}}})
	case "schnorr-badkey":
		c := mk(sigkit.CodeDef{Kind: "schnorr", M: 1, Keys: [][]int{{1}}})
		c[2] = 0x05
		return c
	case "multi-1of2":
		return mk(sigkit.CodeDef{Kind: "multi", M: 1, Keys: k12})
	case "multi-truncated":
		c := mk(sigkit.CodeDef{Kind: "multi", M: 1, Keys: k12})
		return c[:len(c)-1]
	case "multi-bad-n":
		c := mk(sigkit.CodeDef{Kind: "multi", M: 1, Keys: k12})
		c[len(c)-2]++
		return c
	case "cross-2of3":
		return mk(sigkit.CodeDef{Kind: "cross", M: 2, Keys: [][]int{{1}, {2}, {3}}})
	case "cross-m0":
		return mk(sigkit.CodeDef{Kind: "cross", M: 0, Keys: k12})
	case "other-25":
		return sigkit.OtherCode()
	case "min-23":
		return make([]byte, 23)
	}
	panic("unknown code class " + class)
}

var pfxByte = map[string]byte{"std": 0x21, "deposit": 0x1f, "multi": 0x12, "cross": 0x4b, "stake": 0x3f}

func (e *env) runprog(c *caseJ) {
	class := rep.Str(c.Args, "code")
	pfx := rep.Str(c.Args, "pfx")
	plen := rep.Int(c.Args, "plen")
	code := e.codeOfClass(class)
	param := make([]byte, plen)
	e.rng.Read(param)
	addr := *common.ToProgramHash(pfxByte[pfx], code)
	shapeClass := class
	if strings.HasPrefix(class, "schnorr") && plen < 64 {
		shapeClass = "schnorr-parameter-shorter-than-64"
	}

	// the transaction that carries the program, decoded from its bytes
	s := sigkit.BaseShape(uint64(e.n)+1, 1, e.pool.Accs[5].ProgramHash)
	tx0, _ := s.Build()
	tx0.SetPrograms([]*pg.Program{{Code: code, Parameter: param}})
	tx, err := roundTrip(tx0)
	if err != nil {
		rep.Mismatch("transaction does not decode: "+err.Error(), c)
		return
	}
	refs := map[*common2.Input]common2.Output{tx.Inputs()[0]: {AssetID: core.ELAAssetID, Value: 2000, ProgramHash: addr}}

	// 1. RunPrograms itself
	var rerr error
	if fn, msg := guard(func() {
		rerr = blockchain.RunPrograms(sigkit.Unsigned(tx), []common.Uint168{addr}, tx.Programs())
	}); fn != "" {
		e.crash(c, fn, msg, shapeClass)
		return
	}
	got := "accept"
	if rerr != nil {
		got = "reject"
	}
	e.verdict(c, got, "blockchain.RunPrograms")

	// 2. the node's path: sanity check, then the signature stage of the context check
	height := e.node.Chain.GetHeight() + 1
	var serr, cerr error
	if fn, msg := guard(func() {
		if e1 := e.node.Chain.CheckTransactionSanity(height, tx); e1 != nil {
			serr = e1
			return
		}
		cerr = transaction.VerifCheckTransactionSignature(tx, refs)
	}); fn != "" {
		e.crash(c, fn, msg, shapeClass)
		return
	}
	if serr == nil && (cerr == nil) != (rerr == nil) {
		rep.Mismatch(fmt.Sprintf("checkTransactionSignature (%v) disagrees with RunPrograms (%v)", cerr, rerr), c)
	}
}

func roundTrip(tx interfaces.Transaction) (interfaces.Transaction, error) {
	buf := new(bytes.Buffer)
	if err := tx.Serialize(buf); err != nil {
		return nil, err
	}
	r := bytes.NewReader(buf.Bytes())
	res, err := functions.GetTransactionByBytes(r)
	if err != nil {
		return nil, err
	}
	if err = res.Deserialize(r); err != nil {
		return nil, err
	}
	return res, nil
}

// ---------------------------------------------------------------------------
// auxpow

var magic = []byte{0xfa, 0xbe, 'm', 'm'}

func (e *env) auxpow(c *caseJ) {
	a := c.Args
	h := rep.Int(a, "h")
	tail := rep.Int(a, "tail")
	txin := rep.Int(a, "txin")
	header := common2.Header{Version: 0, Timestamp: 1000 + uint32(e.n), Bits: 0x207fffff, Height: 7}
	e.rng.Read(header.Previous[:])
	e.rng.Read(header.MerkleRoot[:])
	blockHash := header.Hash()

	branch := make([]common.Uint256, h)
	for i := range branch {
		e.rng.Read(branch[i][:])
	}
	nonce := e.rng.Uint32()
	index := 0
	if h < 32 {
		// auxpow.GetExpectedIndex, computed here so that the driver never divides by zero
		r := nonce
		r = r*1103515245 + 12345
		r += uint32(auxpow.AuxPowChainID)
		r = r*1103515245 + 12345
		index = int(r % (1 << uint32(h)))
	}
	if rep.Str(a, "idx") == "other" {
		index ^= 1
	}
	rev, _ := common.Uint256FromBytes(common.BytesReverse(append([]byte{}, blockHash.Bytes()...)))
	// the script commits to the root computed with the index the proof carries;
	// with idx = other that index is not the one the nonce demands
	root := auxpow.GetMerkleRoot(*rev, branch, index)
	rootRev := common.BytesReverse(append([]byte{}, root.Bytes()...))

	script := []byte{0x03, 0x11, 0x22, 0x33}
	for i := 0; i < rep.Int(a, "hdr"); i++ {
		script = append(script, magic...)
	}
	switch rep.Str(a, "root") {
	case "after-header":
		script = append(script, rootRev...)
	case "gap":
		script = append(script, 0x00)
		script = append(script, rootRev...)
	case "missing":
		junk := make([]byte, 32)
		e.rng.Read(junk)
		script = append(script, junk...)
	}
	size := uint32(0)
	if h < 32 {
		size = uint32(1) << uint32(h)
	}
	if !rep.Bool(a, "sizeok") {
		size++
	}
	t := make([]byte, 9)
	binary.LittleEndian.PutUint32(t[0:], size)
	binary.LittleEndian.PutUint32(t[4:], nonce)
	script = append(script, t[:tail]...)

	cb := auxpow.BtcTx{Version: 1, TxIn: []*auxpow.BtcTxIn{}, TxOut: []*auxpow.BtcTxOut{{Value: 1, PkScript: []byte{0x51}}}}
	for i := 0; i < txin; i++ {
		in := &auxpow.BtcTxIn{Sequence: 0xffffffff, SignatureScript: []byte{}}
		if i == 0 {
			in.SignatureScript = script
		}
		cb.TxIn = append(cb.TxIn, in)
	}
	ap := auxpow.AuxPow{AuxMerkleBranch: branch, AuxMerkleIndex: index, ParCoinbaseTx: cb,
		ParCoinBaseMerkle: []common.Uint256{}, ParMerkleIndex: 0}
	ap.ParBlockHeader = auxpow.BtcHeader{Version: 2, Timestamp: 5, Bits: 0x207fffff, MerkleRoot: cb.Hash()}
	if rep.Str(a, "parroot") == "mismatch" {
		ap.ParBlockHeader.MerkleRoot[0] ^= 1
	}
	class := "other"
	switch {
	case txin == 0:
		class = "parent-coinbase-without-input"
	case tail >= 4 && tail < 8:
		class = "fewer-than-8-bytes-after-root"
	case h >= 32:
		class = "aux-branch-of-32-or-more"
	}

	// decode it from the wire
	buf := new(bytes.Buffer)
	if err := ap.Serialize(buf); err != nil {
		rep.Mismatch("auxpow does not serialise: "+err.Error(), c)
		return
	}
	var dec auxpow.AuxPow
	if err := dec.Deserialize(bytes.NewReader(buf.Bytes())); err != nil {
		rep.Mismatch("auxpow does not decode: "+err.Error(), c)
		return
	}
	var ok bool
	if fn, msg := guard(func() { ok = dec.Check(&blockHash, auxpow.AuxPowChainID) }); fn != "" {
		e.crash(c, fn, msg, class)
		return
	}
	got := "reject"
	if ok {
		got = "accept"
	}
	e.verdict(c, got, "AuxPow.Check")

	// the same proof inside a decoded block, through CheckBlockSanity
	if e.n%7 == 0 || ok {
		header.AuxPow = dec
		cbtx := e.node.CoinbaseTx(header.Height, e.node.Miner.ProgramHash)
		blk := &types.Block{Header: header, Transactions: []interfaces.Transaction{cbtx}}
		bb := new(bytes.Buffer)
		if err := blk.Serialize(bb); err != nil {
			rep.Mismatch("block does not serialise: "+err.Error(), c)
			return
		}
		var blk2 types.Block
		if err := blk2.Deserialize(bytes.NewReader(bb.Bytes())); err != nil {
			rep.Mismatch("block does not decode: "+err.Error(), c)
			return
		}
		if fn, msg := guard(func() { e.node.Chain.CheckBlockSanity(&blk2) }); fn != "" {
			e.crash(c, fn, msg, class)
		}
	}
}

// ---------------------------------------------------------------------------
// coinbase

func (e *env) coinbase(c *caseJ) {
	a := c.Args
	nout := rep.Int(a, "nout")
	regime := rep.Str(a, "regime")
	right := rep.Str(a, "amounts") == "right"
	p := e.node.Params
	savedH2, savedV2 := p.PublicDPOSHeight, e.node.Arbiters.DPoSV2ActiveHeight
	defer func() { p.PublicDPOSHeight, e.node.Arbiters.DPoSV2ActiveHeight = savedH2, savedV2 }()
	height := uint32(10)
	switch regime {
	case "pre-h2":
		p.PublicDPOSHeight = 1000000
		e.node.Arbiters.DPoSV2ActiveHeight = 0xffffffff
	case "h2":
		p.PublicDPOSHeight = 5
		e.node.Arbiters.DPoSV2ActiveHeight = 0xffffffff
	case "dposv2":
		p.PublicDPOSHeight = 5
		e.node.Arbiters.DPoSV2ActiveHeight = 6
	}
	total := p.GetBlockReward(height)
	ceil := func(f float64) common.Fixed64 {
		v := common.Fixed64(f)
		if float64(v) < f {
			v++
		}
		return v
	}
	dpos := ceil(float64(total) * 0.35)
	vals := make([]common.Fixed64, nout)
	addrs := make([]common.Uint168, nout)
	for i := range addrs {
		addrs[i] = e.pool.Accs[6+i].ProgramHash
	}
	if nout >= 1 {
		addrs[0] = *p.FoundationProgramHash
	}
	switch regime {
	case "pre-h2":
		if nout >= 2 {
			vals[0] = ceil(float64(total) * 0.3)
			rest := total - vals[0]
			for i := 1; i < nout; i++ {
				vals[i] = rest / common.Fixed64(nout-1)
			}
			vals[nout-1] += rest - vals[1]*common.Fixed64(nout-1)
		}
	case "h2":
		if nout >= 2 {
			both := total - dpos
			vals[0] = ceil(float64(both) * 0.3 / 0.65)
			vals[1] = both - vals[0]
		}
	case "dposv2":
		if nout >= 1 {
			addrs[0] = *p.CRConfiguration.CRAssetsProgramHash
			vals[0] = ceil(float64(total) * 0.3)
		}
		if nout >= 2 {
			vals[1] = total - vals[0] - dpos
		}
		if nout >= 3 {
			addrs[2] = *p.DPoSConfiguration.DPoSV2RewardAccumulateProgramHash
			vals[2] = dpos
		}
	}
	if !right && nout >= 1 {
		vals[nout-1] += 7
		if nout >= 2 {
			vals[0] = 1 // foundation share far too small
		}
	}
	var outs []*common2.Output
	for i := 0; i < nout; i++ {
		outs = append(outs, &common2.Output{AssetID: core.ELAAssetID, Value: vals[i], ProgramHash: addrs[i],
			Type: common2.OTNone, Payload: &outputpayload.DefaultOutput{}})
	}
	nb := make([]byte, 8)
	binary.BigEndian.PutUint64(nb, uint64(e.n))
	attr := common2.NewAttribute(common2.Nonce, nb)
	cb0 := functions.CreateTransaction(common2.TxVersion09, common2.CoinBase, payload.CoinBaseVersion,
		&payload.CoinBase{Content: []byte("verif")}, []*common2.Attribute{&attr},
		[]*common2.Input{{Previous: common2.OutPoint{TxID: common.EmptyHash, Index: 0xffff}, Sequence: 0xffffffff}},
		outs, height, []*pg.Program{})
	cb, err := roundTrip(cb0)
	if err != nil {
		rep.Mismatch("coinbase does not decode: "+err.Error(), c)
		return
	}
	class := fmt.Sprintf("%d-outputs:%s", nout, regime)
	var serr, cerr error
	if fn, msg := guard(func() {
		if e1 := e.node.Chain.CheckTransactionSanity(height, cb); e1 != nil {
			serr = e1
			return
		}
		cerr = e.node.Chain.VerifCheckCoinbaseTransactionContext(height, cb, 0, dpos)
	}); fn != "" {
		e.crash(c, fn, msg, class)
		return
	}
	got := "accept"
	if serr != nil || cerr != nil {
		got = "reject"
	}
	e.verdict(c, got, fmt.Sprintf("coinbase sanity (%v) + context (%v)", serr, cerr))
}

// ---------------------------------------------------------------------------
// withdraw

func (e *env) withdraw(c *caseJ) {
	a := c.Args
	arbs := blockchain.DefaultLedger.Arbitrators.GetCrossChainArbiters()
	if len(arbs) < 2 {
		rep.Mismatch("the node has fewer than two cross chain arbiters", c)
		return
	}
	var signers []uint8
	switch rep.Str(a, "signers") {
	case "in-range":
		signers = []uint8{0, 1}
	case "one-equals-len":
		signers = []uint8{0, uint8(len(arbs))}
	case "one-255":
		signers = []uint8{0, 255}
	case "duplicate":
		signers = []uint8{0, 0, 1}
	}
	var keys [][]byte
	for _, s := range signers {
		if int(s) < len(arbs) {
			keys = append(keys, arbs[s].NodePublicKey)
		}
	}
	var code []byte
	switch rep.Str(a, "program") {
	case "aggregate-of-signers":
		sum, _ := crypto.AggregatePublickeys(keys)
		pk, err := crypto.DecodePoint(sum)
		if err != nil {
			rep.Mismatch("cannot aggregate arbiter keys: "+err.Error(), c)
			return
		}
		code, _ = contract.CreateSchnorrRedeemScript(pk)
	case "other-schnorr":
		code, _ = contract.CreateSchnorrRedeemScript(e.pool.Accs[3].PublicKey)
	case "not-schnorr":
		code = e.pool.Accs[3].RedeemScript
	}
	pld := &payload.WithdrawFromSideChain{Signers: signers}
	nb := make([]byte, 8)
	binary.BigEndian.PutUint64(nb, uint64(e.n))
	attr := common2.NewAttribute(common2.Nonce, nb)
	var in common.Uint256
	e.rng.Read(in[:])
	tx0 := functions.CreateTransaction(common2.TxVersion09, common2.WithdrawFromSideChain,
		payload.WithdrawFromSideChainVersionV2, pld, []*common2.Attribute{&attr},
		[]*common2.Input{{Previous: common2.OutPoint{TxID: in, Index: 0}}},
		[]*common2.Output{{AssetID: core.ELAAssetID, Value: 100, ProgramHash: e.pool.Accs[4].ProgramHash,
			Type: common2.OTNone, Payload: &outputpayload.DefaultOutput{}}},
		0, []*pg.Program{{Code: code, Parameter: make([]byte, 64)}})
	tx, err := roundTrip(tx0)
	if err != nil {
		rep.Mismatch("withdraw transaction does not decode: "+err.Error(), c)
		return
	}
	dpld, ok := tx.Payload().(*payload.WithdrawFromSideChain)
	if !ok || len(dpld.Signers) != len(signers) {
		rep.Mismatch("decoded payload lost the signers", c)
		return
	}
	class := rep.Str(a, "signers")
	if rep.Bool(a, "validate") {
		class += ":at-restriction-height"
	} else {
		class += ":below-restriction-height"
	}
	var werr error
	if fn, msg := guard(func() {
		werr = transaction.VerifCheckSchnorrWithdrawFromSidechain(tx, dpld, rep.Bool(a, "validate"))
	}); fn != "" {
		e.crash(c, fn, msg, class)
		return
	}
	got := "accept"
	if werr != nil {
		got = "reject"
	}
	e.verdict(c, got, fmt.Sprintf("checkSchnorrWithdrawFromSidechain (%v)", werr))
}

// ---------------------------------------------------------------------------
// txshape

func (e *env) txshape(c *caseJ) {
	a := c.Args
	ver := common2.TxVersionDefault
	if rep.Int(a, "version") == 9 {
		ver = common2.TxVersion09
	}
	var attrs []*common2.Attribute
	if rep.Int(a, "nattr") > 0 {
		nb := make([]byte, 8)
		binary.BigEndian.PutUint64(nb, uint64(e.n))
		at := common2.NewAttribute(common2.Nonce, nb)
		attrs = append(attrs, &at)
	}
	if l := rep.Int(a, "script"); l >= 0 {
		d := make([]byte, l)
		e.rng.Read(d)
		if l > 0 {
			d[0] = 0x21
		}
		at := common2.NewAttribute(common2.Script, d)
		attrs = append(attrs, &at)
	}
	var ins []*common2.Input
	for i := 0; i < rep.Int(a, "nin"); i++ {
		var id common.Uint256
		e.rng.Read(id[:])
		ins = append(ins, &common2.Input{Previous: common2.OutPoint{TxID: id, Index: uint16(i)}})
	}
	var outs []*common2.Output
	for i := 0; i < rep.Int(a, "nout"); i++ {
		outs = append(outs, &common2.Output{AssetID: core.ELAAssetID, Value: 100, ProgramHash: e.pool.Accs[4].ProgramHash,
			Type: common2.OTNone, Payload: &outputpayload.DefaultOutput{}})
	}
	var progs []*pg.Program
	for i := 0; i < rep.Int(a, "nprog"); i++ {
		code := make([]byte, rep.Int(a, "codelen"))
		e.rng.Read(code)
		if len(code) > 0 {
			code[0] = 0x76
		}
		param := make([]byte, rep.Int(a, "plen"))
		e.rng.Read(param)
		progs = append(progs, &pg.Program{Code: code, Parameter: param})
	}
	tx0 := functions.CreateTransaction(ver, common2.TransferAsset, 0, &payload.TransferAsset{}, attrs, ins, outs, 0, progs)
	tx, err := roundTrip(tx0)
	if err != nil {
		rep.Mismatch("transaction does not decode: "+err.Error(), c)
		return
	}
	refs := map[*common2.Input]common2.Output{}
	for i, in := range tx.Inputs() {
		refs[in] = common2.Output{AssetID: core.ELAAssetID, Value: 1000, ProgramHash: e.pool.Accs[8+i].ProgramHash}
	}
	height := e.node.Chain.GetHeight() + 1
	var serr, cerr error
	if fn, msg := guard(func() {
		if e1 := e.node.Chain.CheckTransactionSanity(height, tx); e1 != nil {
			serr = e1
			return
		}
		cerr = transaction.VerifCheckTransactionSignature(tx, refs)
	}); fn != "" {
		e.crash(c, fn, msg, "counts-and-lengths")
		return
	}
	got := "accept"
	if serr != nil || cerr != nil {
		got = "reject"
	}
	e.verdict(c, got, fmt.Sprintf("sanity (%v) + signature stage (%v)", serr, cerr))
}

// ---------------------------------------------------------------------------
// context: complete transactions spending really existing outputs

type funded struct {
	fund      interfaces.Transaction
	truncated []byte // 2-key multisig script without CHECKMULTISIG
	schnorr   []byte
}

func (e *env) fundOnce() (*funded, error) {
	if e.fund != nil {
		return e.fund, nil
	}
	miner := &stack.Key{Acc: e.node.Miner, Code: e.node.Miner.RedeemScript, Hash: e.node.Miner.ProgramHash}
	b1, err := e.node.MineOn(nil, 0)
	if err != nil {
		return nil, err
	}
	if _, err = e.node.MineOn(nil, 0); err != nil {
		return nil, err
	}
	f := &funded{truncated: e.codeOfClass("multi-truncated"), schnorr: e.codeOfClass("schnorr")}
	cb := b1.Transactions[0]
	var xaddr common.Uint168
	xaddr[0] = byte(contract.PrefixCrossChain)
	xaddr[5] = 9
	outs := []stack.Out{
		{To: *common.ToProgramHash(byte(contract.PrefixStandard), f.truncated), Value: 5000},
		{To: *common.ToProgramHash(byte(contract.PrefixStandard), f.schnorr), Value: 5000},
		{To: e.pool.Accs[9].ProgramHash, Value: 5000},
		{To: xaddr, Value: 5000},
	}
	fee := common.Fixed64(10000)
	outs = append(outs, stack.Out{To: miner.Hash, Value: cb.Outputs()[1].Value - 20000 - fee})
	fund, err := stack.Transfer([]common2.OutPoint{{TxID: cb.Hash(), Index: 1}}, outs, []*stack.Key{miner}, 77)
	if err != nil {
		return nil, err
	}
	if _, err = e.node.MineOn([]interfaces.Transaction{fund}, fee); err != nil {
		return nil, fmt.Errorf("funding block refused: %v", err)
	}
	f.fund = fund
	e.fund = f
	return f, nil
}

func (e *env) context(c *caseJ) {
	f, err := e.fundOnce()
	if err != nil {
		rep.Mismatch("cannot fund the outputs: "+err.Error(), c)
		return
	}
	path := rep.Str(c.Args, "path")
	nb := make([]byte, 8)
	binary.BigEndian.PutUint64(nb, uint64(e.n)+5000)
	attr := common2.NewAttribute(common2.Nonce, nb)
	out := []*common2.Output{{AssetID: core.ELAAssetID, Value: 4000, ProgramHash: e.pool.Accs[4].ProgramHash,
		Type: common2.OTNone, Payload: &outputpayload.DefaultOutput{}}}
	in := func(i uint16) []*common2.Input {
		return []*common2.Input{{Previous: common2.OutPoint{TxID: f.fund.Hash(), Index: i}}}
	}
	var tx0 interfaces.Transaction
	switch path {
	case "transfer-spends-truncated-multisig-address":
		tx0 = functions.CreateTransaction(common2.TxVersion09, common2.TransferAsset, 0, &payload.TransferAsset{},
			[]*common2.Attribute{&attr}, in(0), out, 0, []*pg.Program{{Code: f.truncated, Parameter: []byte{}}})
	case "transfer-schnorr-parameter-short":
		tx0 = functions.CreateTransaction(common2.TxVersion09, common2.TransferAsset, 0, &payload.TransferAsset{},
			[]*common2.Attribute{&attr}, in(1), out, 0, []*pg.Program{{Code: f.schnorr, Parameter: make([]byte, 10)}})
	case "return-deposit-coin-truncated-multisig-program":
		tx0 = functions.CreateTransaction(common2.TxVersion09, common2.ReturnDepositCoin, 0, &payload.ReturnDepositCoin{},
			[]*common2.Attribute{&attr}, in(2), out, 0, []*pg.Program{{Code: f.truncated, Parameter: []byte{}}})
	case "withdraw-v2-signer-index-255":
		need := int(e.node.Params.CRConfiguration.MemberCount)*2/3 + 1
		signers := make([]uint8, need)
		signers[need-1] = 255
		tx0 = functions.CreateTransaction(common2.TxVersion09, common2.WithdrawFromSideChain,
			payload.WithdrawFromSideChainVersionV2, &payload.WithdrawFromSideChain{Signers: signers},
			[]*common2.Attribute{&attr}, in(3), out, 0, []*pg.Program{{Code: f.schnorr, Parameter: make([]byte, 64)}})
	default:
		rep.Mismatch("unknown context path "+path, c)
		return
	}
	tx, err := roundTrip(tx0)
	if err != nil {
		rep.Mismatch("transaction does not decode: "+err.Error(), c)
		return
	}
	height := e.node.Chain.GetHeight() + 1
	var serr error
	var cerr interface{ Error() string }
	if fn, msg := guard(func() {
		if e1 := e.node.Chain.CheckTransactionSanity(height, tx); e1 != nil {
			serr = e1
			return
		}
		if _, e2 := e.node.Chain.CheckTransactionContext(height, tx, 0, 0); e2 != nil {
			cerr = e2
		}
	}); fn != "" {
		e.crash(c, fn, msg, path)
		// the chain lock may still be held by the panicking call: start over
		e.renew()
		return
	}
	got := "accept"
	if serr != nil || cerr != nil {
		got = "reject"
	}
	e.verdict(c, got, fmt.Sprintf("CheckTransactionSanity (%v) + CheckTransactionContext (%v)", serr, cerr))
}

func newNode() *stack.Node {
	node, err := stack.New(stack.Options{Tweak: func(p *config.Configuration) {
		p.NormalSchnorrStartHeight = 0
	}})
	if err != nil {
		fmt.Fprintln(os.Stderr, "node:", err)
		os.Exit(3)
	}
	return node
}

func (e *env) renew() {
	old := e.node
	go func() { defer func() { recover() }(); old.Close() }()
	e.node = newNode()
	e.fund = nil
}

// ---------------------------------------------------------------------------

func main() {
	if len(os.Args) < 3 || os.Args[1] != "shapes" {
		fmt.Fprintln(os.Stderr, "usage: validate shapes <cases.jsonl>")
		os.Exit(3)
	}
	sigkit.Init()
	node := newNode()
	sigkit.Silence()
	_ = state.DPOS
	e := &env{node: node, pool: sigkit.NewPool(rep.Seed(), 16), rng: rand.New(rand.NewSource(rep.Seed())),
		stats: map[string]int{}, crashes: map[string]int{}}
	var sample interface{}
	for _, b := range rep.ReadBehaviours(os.Args[2]) {
		for _, st := range b {
			raw, _ := json.Marshal(st)
			var c caseJ
			if err := json.Unmarshal(raw, &c); err != nil || c.Act != "Case" {
				fmt.Fprintln(os.Stderr, "bad case", string(raw))
				os.Exit(3)
			}
			e.n++
			mech := rep.Str(c.Args, "mech")
			var f func(*caseJ)
			switch mech {
			case "classify":
				f = e.classify
			case "runprog":
				f = e.runprog
			case "auxpow":
				f = e.auxpow
			case "coinbase":
				f = e.coinbase
			case "withdraw":
				f = e.withdraw
			case "txshape":
				f = e.txshape
			case "context":
				f = e.context
			case "selfpanic":
				// binding self-test of the panic detection: a repository function
				// that indexes an empty slice (never part of a real run)
				f = func(c *caseJ) {
					if fn, msg := guard(func() { crypto.Unmarshal(crypto.Curve, []byte{}) }); fn != "" {
						e.crash(c, fn, msg, "selftest")
					}
				}
			default:
				rep.Mismatch("unknown mechanism "+mech, c)
				continue
			}
			// a panic of the harness itself (not inside guard) must not kill the run silently
			if fn, msg := guard(func() { f(&c) }); fn != "" || msg != "" {
				rep.Mismatch("driver panicked outside the guarded calls: "+fn+": "+msg, &c)
			}
			if sample == nil && mech == "auxpow" && c.Exp == "accept" {
				sample = map[string]interface{}{"case": c, "real": "AuxPow.Check accepted the decoded proof"}
			}
		}
	}
	e.node.Close()
	stack.CleanupGlobals()
	sigkit.Cleanup()
	rep.Summary(e.n, map[string]interface{}{"verdicts": e.stats, "panics": e.crashes}, sample)
}
