// Mempool checkpoint round trip (C23, mempool part): probe / driver.
package main

import (
	"bytes"
	"fmt"

	"github.com/elastos/Elastos.ELA/common"
	common2 "github.com/elastos/Elastos.ELA/core/types/common"
	"verif/harness/internal/stack"
)

func main() {
	stack.InitGlobals()
	defer stack.CleanupGlobals()
	n, err := stack.New(stack.Options{})
	if err != nil {
		panic(err)
	}
	defer n.Close()
	k, a := stack.KeyFromSeed(800), stack.KeyFromSeed(801)
	parent := n.Genesis()
	var cbs []common2.OutPoint
	var vals []common.Fixed64
	for i := 0; i < 3; i++ {
		b, _ := n.NewBlock(parent, nil, stack.BlockOpts{CoinbaseTo: &k.Hash})
		if _, _, err := n.Process(b); err != nil {
			panic(err)
		}
		cbs = append(cbs, common2.OutPoint{TxID: b.Transactions[0].Hash(), Index: 1})
		vals = append(vals, b.Transactions[0].Outputs()[1].Value)
		parent = b
	}
	for i := 0; i < 2; i++ {
		tx, _ := stack.Transfer([]common2.OutPoint{cbs[i]}, []stack.Out{{To: a.Hash, Value: vals[i] - 10000}}, []*stack.Key{k}, uint64(i))
		fmt.Println("append:", n.Pool.AppendToTxPool(tx))
	}
	fmt.Println("pool holds", n.Pool.GetTransactionCount())
	snap := n.Pool.Snapshot()
	var buf bytes.Buffer
	fmt.Println("serialize snapshot:", snap.Serialize(&buf), "bytes", buf.Len())
	r := bytes.NewReader(buf.Bytes())
	h, _ := common.ReadUint32(r)
	cnt, _ := common.ReadVarUint(r, 0)
	fmt.Println("snapshot height", h, "transactions in the saved checkpoint:", cnt)
}
