// Driver for spec/Consensus/Protocol.tla (X02) on the real dpos/manager objects.
//
//	dposproto replay <behaviours.jsonl> <n> <byz> <checks>
//	        step every behaviour TLC printed through the real handler entries and
//	        compare the acting arbiter's abstract state (and everything it handed
//	        out) with the spec's after every step
//	dposproto run <scripts.jsonl> <out.ndjson> <n> <byz> <checks>
//	        execute hand-written schedules (steps without expectations) and record
//	        them as a trace for TraceProtocol.tla
//	dposproto random <runs> <steps> <out.ndjson> <n> <byz> <checks>
//	        seeded random schedules, recorded the same way
//
// <byz> is a comma separated list of Byzantine arbiter indexes ("-" for none),
// <checks> is 1 when the illegal proposal / vote checks are on (the production
// setting: finishedHeight > ChangeViewV1Height, view changes by ChangeViewV1).
//
// For every arbiter of a run the REAL DPOSManager, Consensus, ProposalDispatcher,
// DPOSHandlerSwitch and IllegalBehaviorMonitor are built and wired as
// dpos.NewArbitrator does, with a recording network, state.ArbitratorsMock, an
// own mempool.BlockPool / TxPool and a settable clock.  The handler entries of
// the NetworkEventListener are called directly, one at a time, as the network
// goroutine of dpos/network.go does:
//
//	NewBlock      OnBlockReceived(b, false)
//	RecvProposal  OnProposalReceived(pid, proposal)
//	RecvVote      OnVoteAccepted / OnVoteRejected(pid, vote)
//	Timeout       clock := view start + 6 s; OnChangeView()
//	LearnConfirm  OnBlockReceived(b, true) / OnConfirmReceived(confirm, height) in turn
//
// Byzantine arbiters are not instantiated: their messages are signed with their
// keys by the driver.  Messages of correct arbiters are the objects the real
// arbiters broadcast.
package main

import (
	"bytes"
	"encoding/hex"
	"encoding/json"
	"fmt"
	"math"
	"math/rand"
	"os"
	"sort"
	"strconv"
	"strings"
	"sync"
	"time"

	"github.com/elastos/Elastos.ELA/account"
	"github.com/elastos/Elastos.ELA/blockchain"
	"github.com/elastos/Elastos.ELA/common"
	"github.com/elastos/Elastos.ELA/core/types"
	"github.com/elastos/Elastos.ELA/core/types/payload"
	"github.com/elastos/Elastos.ELA/crypto"
	daccount "github.com/elastos/Elastos.ELA/dpos/account"
	dlog "github.com/elastos/Elastos.ELA/dpos/log"
	"github.com/elastos/Elastos.ELA/dpos/manager"
	dp2p "github.com/elastos/Elastos.ELA/dpos/p2p"
	dmsg "github.com/elastos/Elastos.ELA/dpos/p2p/msg"
	"github.com/elastos/Elastos.ELA/dpos/p2p/peer"
	"github.com/elastos/Elastos.ELA/dpos/state"
	"github.com/elastos/Elastos.ELA/elanet"
	"github.com/elastos/Elastos.ELA/mempool"
	"github.com/elastos/Elastos.ELA/p2p"
	"verif/harness/internal/cons"
	"verif/harness/internal/rep"
	"verif/harness/internal/stack"
)

const knownAgreement = "X02:agreement:no-lock-across-views"

var base = time.Unix(1700000000, 0)

// ---------------------------------------------------------------------------
// fakes around the real objects

type clock struct{ now time.Time }

func (c *clock) AdjustedTime() time.Time              { return c.now }
func (c *clock) AddTimeSample(id string, t time.Time) {}
func (c *clock) Offset() time.Duration                { return 0 }

type server struct{ elanet.Server }

func (server) IsCurrent() bool { return false }

// netMock records what an arbiter broadcasts.  Messages sent to one peer
// (getblock, request proposal, ...) leave from goroutines and are dropped.
type netMock struct {
	mu  sync.Mutex
	out []p2p.Message
}

func (n *netMock) Initialize(manager.DPOSNetworkConfig)          {}
func (n *netMock) Start()                                        {}
func (n *netMock) Stop() error                                   { return nil }
func (n *netMock) SendMessageToPeer(peer.PID, p2p.Message) error { return nil }
func (n *netMock) BroadcastMessage(m p2p.Message) {
	n.mu.Lock()
	n.out = append(n.out, m)
	n.mu.Unlock()
}
func (n *netMock) UpdatePeers([]peer.PID, []peer.PID) {}
func (n *netMock) GetActivePeers() []dp2p.Peer        { return nil }
func (n *netMock) RecoverTimeout()                    {}
func (n *netMock) drain() []p2p.Message {
	n.mu.Lock()
	defer n.mu.Unlock()
	o := n.out
	n.out = nil
	return o
}

// events of the dispatcher (synchronous).  FinishProposal builds the confirm from
// processingProposal and acceptVotes, hands it to AppendConfirm (which passes it to the
// block pool from a goroutine) and fires OnProposalFinished before anything is cleaned:
// at that moment the dispatcher still holds exactly the confirm's content.
type listener struct {
	disp     *manager.ProposalDispatcher
	finished []*payload.Confirm
}

func (l *listener) OnProposalArrived(*dlog.ProposalEvent) {}
func (l *listener) OnProposalFinished(e *dlog.ProposalEvent) {
	ds := l.disp.VerifState()
	cf := &payload.Confirm{}
	if ds.ProcessingProposal != nil {
		cf.Proposal = *ds.ProcessingProposal
	}
	for _, v := range ds.AcceptVotes {
		cf.Votes = append(cf.Votes, *v)
	}
	l.finished = append(l.finished, cf)
}
func (l *listener) OnVoteArrived(*dlog.VoteEvent)            {}
func (l *listener) OnViewStarted(*dlog.ViewEvent)            {}
func (l *listener) OnConsensusStarted(*dlog.ConsensusEvent)  {}
func (l *listener) OnConsensusFinished(*dlog.ConsensusEvent) {}

// ---------------------------------------------------------------------------
// abstract values (canonical strings)

type aprop struct {
	Sponsor int    `json:"sponsor"`
	Block   string `json:"block"`
	View    int    `json:"view"`
}

var noProp = aprop{-1, "-", -1}

type avote struct {
	Signer int   `json:"signer"`
	Prop   aprop `json:"prop"`
	Accept bool  `json:"accept"`
}

type aconf struct {
	Prop  aprop   `json:"prop"`
	Votes []avote `json:"votes"`
}

func (p aprop) key() string { return fmt.Sprintf("%d/%s/%d", p.Sponsor, p.Block, p.View) }
func (v avote) key() string { return fmt.Sprintf("%d|%s|%v", v.Signer, v.Prop.key(), v.Accept) }

type astate struct {
	Status string    `json:"status"`
	View   int       `json:"view"`
	OnDuty bool      `json:"onDuty"`
	Cache  []string  `json:"cache"`
	PBlock string    `json:"pblock"`
	PProp  aprop     `json:"pprop"`
	Acc    []avote   `json:"acc"`
	Rej    []avote   `json:"rej"`
	Pend   []aprop   `json:"pend"`
	Prec   []aprop   `json:"prec"`
	PVotes []avote   `json:"pvotes"`
	Done   bool      `json:"done"`
	Cached []aprop   `json:"cached"`
	Fin    string    `json:"fin"`
	OutP   []aprop   `json:"outP"`
	OutV   []avote   `json:"outV"`
	OutC   []aconf   `json:"outC"`
	EvP    [][]aprop `json:"evP"`
	EvV    [][]avote `json:"evV"`
}

func sortProps(l []aprop) []aprop {
	if l == nil {
		l = []aprop{}
	}
	sort.Slice(l, func(i, j int) bool { return l[i].key() < l[j].key() })
	return l
}
func sortVotes(l []avote) []avote {
	if l == nil {
		l = []avote{}
	}
	sort.Slice(l, func(i, j int) bool { return l[i].key() < l[j].key() })
	return l
}

// canon renders a state so that equal abstract states give equal strings.
func (s *astate) canon() string {
	s.Acc, s.Rej, s.PVotes, s.OutV = sortVotes(s.Acc), sortVotes(s.Rej), sortVotes(s.PVotes), sortVotes(s.OutV)
	s.Pend, s.Prec, s.Cached, s.OutP = sortProps(s.Pend), sortProps(s.Prec), sortProps(s.Cached), sortProps(s.OutP)
	if s.Cache == nil {
		s.Cache = []string{}
	}
	if s.OutC == nil {
		s.OutC = []aconf{}
	}
	for i := range s.OutC {
		s.OutC[i].Votes = sortVotes(s.OutC[i].Votes)
	}
	sort.Slice(s.OutC, func(i, j int) bool { return s.OutC[i].Prop.key() < s.OutC[j].Prop.key() })
	if s.EvP == nil {
		s.EvP = [][]aprop{}
	}
	for i := range s.EvP {
		s.EvP[i] = sortProps(s.EvP[i])
	}
	sort.Slice(s.EvP, func(i, j int) bool { return fmt.Sprint(s.EvP[i]) < fmt.Sprint(s.EvP[j]) })
	if s.EvV == nil {
		s.EvV = [][]avote{}
	}
	for i := range s.EvV {
		s.EvV[i] = sortVotes(s.EvV[i])
	}
	sort.Slice(s.EvV, func(i, j int) bool { return fmt.Sprint(s.EvV[i]) < fmt.Sprint(s.EvV[j]) })
	b, _ := json.Marshal(s)
	return string(b)
}

// dedupe (TLC prints sets; the real side may hand the same evidence out twice in a step)
func (s *astate) dedupe() {
	seen := map[string]bool{}
	var ep [][]aprop
	for _, e := range s.EvP {
		k := fmt.Sprint(sortProps(e))
		if !seen[k] {
			seen[k] = true
			ep = append(ep, e)
		}
	}
	s.EvP = ep
	var ev [][]avote
	for _, e := range s.EvV {
		k := fmt.Sprint(sortVotes(e))
		if !seen[k] {
			seen[k] = true
			ev = append(ev, e)
		}
	}
	s.EvV = ev
	var ov []avote
	for _, v := range s.OutV {
		if !seen["v"+v.key()] {
			seen["v"+v.key()] = true
			ov = append(ov, v)
		}
	}
	s.OutV = ov
	var op []aprop
	for _, p := range s.OutP {
		if !seen["p"+p.key()] {
			seen["p"+p.key()] = true
			op = append(op, p)
		}
	}
	s.OutP = op
}

// ---------------------------------------------------------------------------
// the world of one run

type arbiter struct {
	idx   int
	clk   *clock
	net   *netMock
	lst   *listener
	mgr   *manager.DPOSManager
	cons  *manager.Consensus
	disp  *manager.ProposalDispatcher
	hs    *manager.DPOSHandlerSwitch
	pool  *mempool.BlockPool
	nconf int // number of LearnConfirm deliveries (alternates the entry point)
}

type world struct {
	n      int
	byz    map[int]bool
	checks bool
	keys   []cons.Key
	arbs   []*arbiter // nil for Byzantine
	mock   *state.ArbitratorsMock
	b0     *types.Block
	blocks map[string]*types.Block
	bname  map[common.Uint256]string
	kidx   map[string]int // hex(pub) -> arbiter
	props  map[string]*payload.DPOSProposal
	phash  map[common.Uint256]aprop
	votes  map[string]*payload.DPOSProposalVote
	// what correct arbiters really broadcast (for the properties)
	sentV map[int][]avote
	sentP map[int][]aprop
	confs map[int]aconf // own confirms
}

var node *stack.Node
var keyCache = map[int]cons.Key{}
var memberCache = map[int]state.ArbiterMember{}
var blockCache = map[string]*types.Block{}

func key(i int) cons.Key {
	if k, ok := keyCache[i]; ok {
		return k
	}
	keyCache[i] = cons.DetKey("x02", i)
	return keyCache[i]
}

func pid(pub []byte) peer.PID {
	var p peer.PID
	copy(p[:], pub)
	return p
}

func theBlocks() (*types.Block, map[string]*types.Block) {
	if blockCache["b0"] == nil {
		b0, err := node.NewBlock(node.Genesis(), nil, stack.BlockOpts{})
		if err != nil {
			panic(err)
		}
		blockCache["b0"] = b0
		for _, nm := range []string{"B1", "B2"} {
			b, err := node.NewBlock(b0, nil, stack.BlockOpts{})
			if err != nil {
				panic(err)
			}
			blockCache[nm] = b
		}
	}
	return blockCache["b0"], map[string]*types.Block{"B1": blockCache["B1"], "B2": blockCache["B2"]}
}

func newWorld(n int, byz map[int]bool, checks bool) *world {
	w := &world{n: n, byz: byz, checks: checks, kidx: map[string]int{}, props: map[string]*payload.DPOSProposal{},
		phash: map[common.Uint256]aprop{}, votes: map[string]*payload.DPOSProposalVote{}, bname: map[common.Uint256]string{},
		sentV: map[int][]avote{}, sentP: map[int][]aprop{}, confs: map[int]aconf{}}
	w.b0, w.blocks = theBlocks()
	for nm, b := range w.blocks {
		w.bname[b.Hash()] = nm
	}
	var members []state.ArbiterMember
	for i := 0; i < n; i++ {
		k := key(i)
		w.keys = append(w.keys, k)
		w.kidx[hex.EncodeToString(k.Pub)] = i
		m, ok := memberCache[i]
		if !ok {
			var err error
			if m, err = state.NewOriginArbiter(k.Pub); err != nil {
				panic(err)
			}
			memberCache[i] = m
		}
		members = append(members, m)
	}
	w.mock = state.NewArbitratorsMock(members, 0, n*2/3)
	blockchain.DefaultLedger.Arbitrators = w.mock
	params := *node.Params
	params.DPoSConfiguration = node.Params.DPoSConfiguration
	if checks {
		params.DPoSConfiguration.ChangeViewV1Height = 0
	} else {
		params.DPoSConfiguration.ChangeViewV1Height = math.MaxUint32
	}
	w.arbs = make([]*arbiter, n)
	for i := 0; i < n; i++ {
		if byz[i] {
			continue
		}
		k := w.keys[i]
		pk, err := crypto.DecodePoint(k.Pub)
		if err != nil {
			panic(err)
		}
		a := &arbiter{idx: i, clk: &clock{now: base}, net: &netMock{}, lst: &listener{}}
		acc := daccount.New(&account.Account{PrivateKey: k.Pri, PublicKey: pk})
		a.mgr = manager.NewManager(manager.DPOSManagerConfig{PublicKey: k.Pub, Arbitrators: w.mock,
			ChainParams: &params, TimeSource: a.clk, Server: server{}})
		mon := dlog.NewEventMonitor()
		mon.RegisterListener(a.lst)
		a.hs = manager.NewHandler(manager.DPOSHandlerConfig{Network: a.net, Manager: a.mgr, Monitor: mon,
			Arbitrators: w.mock, TimeSource: a.clk})
		a.cons = manager.NewConsensus(a.mgr, 5*time.Second, a.hs, params.DPoSConfiguration.ChangeViewV1Height)
		var im *manager.IllegalBehaviorMonitor
		a.disp, im = manager.NewDispatcherAndIllegalMonitor(manager.ProposalDispatcherConfig{
			EventMonitor: mon, Consensus: a.cons, Network: a.net, Manager: a.mgr, Account: acc,
			ChainParams: &params, TimeSource: a.clk,
			EventAnalyzerConfig: manager.EventAnalyzerConfig{Arbitrators: w.mock}})
		a.hs.Initialize(a.disp, a.cons)
		a.pool = mempool.NewBlockPool(&params)
		a.pool.Chain = node.Chain
		a.pool.Store = node.Store
		a.lst.disp = a.disp
		txpool := mempool.NewTxPool(&params, node.Ckp)
		a.mgr.Initialize(acc, a.hs, a.disp, a.cons, a.net, im, a.pool, txpool, func(p2p.Message) {})
		w.arbs[i] = a
		// the height before the one under consensus: started and finished by a
		// confirmed block, so that finishedHeight = 1 (> ChangeViewV1Height = 0)
		a.mgr.OnBlockReceived(w.b0, false)
		a.mgr.OnBlockReceived(w.b0, true)
		a.net.drain()
		a.lst.finished = nil
	}
	return w
}

func (w *world) propOf(p *payload.DPOSProposal) aprop {
	if p == nil {
		return noProp
	}
	if ap, ok := w.phash[p.Hash()]; ok {
		return ap
	}
	i, ok := w.kidx[hex.EncodeToString(p.Sponsor)]
	if !ok {
		i = -2
	}
	nm, ok := w.bname[p.BlockHash]
	if !ok {
		nm = "?"
	}
	return aprop{i, nm, int(p.ViewOffset)}
}

func (w *world) voteOf(v *payload.DPOSProposalVote) avote {
	i, ok := w.kidx[hex.EncodeToString(v.Signer)]
	if !ok {
		i = -2
	}
	ap, ok := w.phash[v.ProposalHash]
	if !ok {
		ap = aprop{-2, "?", -2}
	}
	return avote{i, ap, v.Accept}
}

// proposal returns the real proposal object for an abstract one: the one a
// correct arbiter broadcast, or one signed here with the sponsor's key.
func (w *world) proposal(ap aprop) *payload.DPOSProposal {
	if p, ok := w.props[ap.key()]; ok {
		return p
	}
	b, ok := w.blocks[ap.Block]
	if !ok {
		panic("unknown block " + ap.Block)
	}
	p := &payload.DPOSProposal{Sponsor: w.keys[ap.Sponsor].Pub, BlockHash: b.Hash(), ViewOffset: uint32(ap.View)}
	sig, err := crypto.Sign(w.keys[ap.Sponsor].Pri, p.Data())
	if err != nil {
		panic(err)
	}
	p.Sign = sig
	w.register(p)
	return p
}

func (w *world) register(p *payload.DPOSProposal) {
	ap := w.propOf(p)
	if _, ok := w.props[ap.key()]; !ok {
		w.props[ap.key()] = p
		w.phash[p.Hash()] = ap
	}
}

func (w *world) vote(av avote) *payload.DPOSProposalVote {
	if v, ok := w.votes[av.key()]; ok {
		return v
	}
	p := w.proposal(av.Prop)
	v := &payload.DPOSProposalVote{ProposalHash: p.Hash(), Signer: w.keys[av.Signer].Pub, Accept: av.Accept}
	sig, err := crypto.Sign(w.keys[av.Signer].Pri, v.Data())
	if err != nil {
		panic(err)
	}
	v.Sign = sig
	w.votes[av.key()] = v
	return v
}

// snapshot reads the abstract state of a real arbiter.
func (w *world) snapshot(a *arbiter) (*astate, string) {
	ds := a.disp.VerifState()
	s := &astate{Status: "ready", View: int(a.cons.GetViewOffset()), OnDuty: a.hs.VerifOnDutyHandler(),
		PBlock: "-", PProp: w.propOf(ds.ProcessingProposal), Done: ds.ProposalProcessFinished, Fin: "-"}
	note := ""
	if a.cons.IsRunning() {
		s.Status = "running"
	}
	if a.cons.IsOnDuty() != s.OnDuty {
		note = "consensus.IsOnDuty() differs from the current handler"
	}
	stale := 0
	for _, h := range a.mgr.GetBlockCache().ConsensusBlockList {
		if h == w.b0.Hash() {
			// the block of the height before stays in the cache until the next StartConsensus
			stale++
			continue
		}
		nm, ok := w.bname[h]
		if !ok {
			nm = "?"
		}
		s.Cache = append(s.Cache, nm)
	}
	if len(a.mgr.GetBlockCache().ConsensusBlocks) != len(s.Cache)+stale {
		note = "block cache list and map differ in size"
	}
	if ds.ProcessingBlock != nil {
		if nm, ok := w.bname[*ds.ProcessingBlock]; ok {
			s.PBlock = nm
		} else {
			s.PBlock = "?"
		}
	}
	for _, v := range ds.AcceptVotes {
		s.Acc = append(s.Acc, w.voteOf(v))
	}
	for _, v := range ds.RejectedVotes {
		s.Rej = append(s.Rej, w.voteOf(v))
	}
	for _, v := range ds.PendingVotes {
		s.PVotes = append(s.PVotes, w.voteOf(v))
	}
	for _, p := range ds.PendingProposals {
		s.Pend = append(s.Pend, w.propOf(p))
	}
	for _, p := range ds.PrecociousProposals {
		s.Prec = append(s.Prec, w.propOf(p))
	}
	for _, p := range ds.CachedProposals {
		s.Cached = append(s.Cached, w.propOf(p))
	}
	if nm, ok := w.bname[ds.FinishedBlockHash]; ok {
		s.Fin = nm
		if ds.FinishedHeight != w.blocks[nm].Height {
			note = "finished block hash and height disagree"
		}
	}
	return s, note
}

// collect turns what the arbiter handed out during a step into abstract values
// (and registers the real message objects for later delivery).
func (w *world) collect(a *arbiter, s *astate, msgs []p2p.Message) string {
	note := ""
	for _, m := range msgs {
		switch x := m.(type) {
		case *dmsg.Proposal:
			p := x.Proposal
			w.register(&p)
			s.OutP = append(s.OutP, w.propOf(&p))
			w.sentP[a.idx] = append(w.sentP[a.idx], w.propOf(&p))
		case *dmsg.Vote:
			v := x.Vote
			av := w.voteOf(&v)
			if _, ok := w.votes[av.key()]; !ok {
				w.votes[av.key()] = &v
			}
			if (x.Command == dmsg.CmdAcceptVote) != v.Accept {
				note = "vote message command and vote kind differ"
			}
			s.OutV = append(s.OutV, av)
			w.sentV[a.idx] = append(w.sentV[a.idx], av)
		case *dmsg.IllegalProposals:
			e := x.Proposals
			s.EvP = append(s.EvP, []aprop{w.propOf(&e.Evidence.Proposal), w.propOf(&e.CompareEvidence.Proposal)})
			if blockchain.ProposalSanityCheck(&e.Evidence.Proposal) != nil || blockchain.ProposalSanityCheck(&e.CompareEvidence.Proposal) != nil {
				note = "illegal proposal evidence carries a proposal with an invalid signature"
			}
		case *dmsg.IllegalVotes:
			e := x.Votes
			s.EvV = append(s.EvV, []avote{w.voteOf(&e.Evidence.Vote), w.voteOf(&e.CompareEvidence.Vote)})
			if blockchain.VoteSanityCheck(&e.Evidence.Vote) != nil || blockchain.VoteSanityCheck(&e.CompareEvidence.Vote) != nil {
				note = "illegal vote evidence carries a vote with an invalid signature"
			}
		}
	}
	// own confirms (see listener)
	for _, cf := range a.lst.finished {
		ac := aconf{Prop: w.propOf(&cf.Proposal)}
		for i := range cf.Votes {
			ac.Votes = append(ac.Votes, w.voteOf(&cf.Votes[i]))
		}
		s.OutC = append(s.OutC, ac)
		w.confs[a.idx] = ac
		w.checkConfirm(a, cf, ac)
	}
	a.lst.finished = nil
	s.dedupe()
	return note
}

// ---------------------------------------------------------------------------
// the safety properties, evaluated on real values only

type verdicts struct {
	viol map[string]bool // keys reported for this run
	info func() interface{}
}

var vd verdicts

func violation(key, what string) {
	if vd.viol[key] {
		return
	}
	vd.viol[key] = true
	rep.Violation(key, what, vd.info())
}

// Validity: more than 2n/3 distinct accept votes of current arbiters for exactly that
// proposal, sponsor on duty in the proposal's view.
func (w *world) checkConfirm(a *arbiter, cf *payload.Confirm, ac aconf) {
	signers := map[int]bool{}
	ok := true
	for _, v := range ac.Votes {
		if !v.Accept || v.Prop != ac.Prop || v.Signer < 0 {
			ok = false
		}
		signers[v.Signer] = true
	}
	if !ok || len(signers) <= w.n*2/3 || len(signers) != len(ac.Votes) {
		violation("X02:validity:quorum", fmt.Sprintf("arbiter %d confirmed %s with votes %v: not more than 2n/3 distinct accept "+
			"votes for that proposal (n=%d)", a.idx, ac.Prop.key(), ac.Votes, w.n))
	}
	if ac.Prop.Sponsor != ac.Prop.View%w.n {
		violation("X02:validity:sponsor", fmt.Sprintf("arbiter %d confirmed %s whose sponsor is not on duty in view %d",
			a.idx, ac.Prop.key(), ac.Prop.View))
	}
	if err := blockchain.ConfirmSanityCheck(cf); err != nil {
		violation("X02:validity:sanity", fmt.Sprintf("confirm of arbiter %d fails ConfirmSanityCheck: %v", a.idx, err))
	} else if err := blockchain.ConfirmContextCheck(cf); err != nil {
		violation("X02:validity:context", fmt.Sprintf("confirm of arbiter %d fails ConfirmContextCheck: %v", a.idx, err))
	}
}

// after every step
func (w *world) checkStep(a *arbiter, s *astate, specDev bool) {
	// a correct arbiter accepts at most one proposal per view / proposes once per view
	if len(w.byz) <= (w.n-1)/3 {
		vs := w.sentV[a.idx]
		for i := range vs {
			for j := i + 1; j < len(vs); j++ {
				if vs[i].Accept && vs[j].Accept && vs[i].Prop.View == vs[j].Prop.View && vs[i].Prop != vs[j].Prop {
					violation("X02:vote-twice-in-view", fmt.Sprintf("arbiter %d accepted %s and %s in one view", a.idx,
						vs[i].Prop.key(), vs[j].Prop.key()))
				}
			}
		}
	}
	ps := w.sentP[a.idx]
	for i := range ps {
		if ps[i].Sponsor != a.idx || ps[i].Sponsor != ps[i].View%w.n {
			violation("X02:propose-not-on-duty", fmt.Sprintf("arbiter %d broadcast proposal %s", a.idx, ps[i].key()))
		}
		for j := i + 1; j < len(ps); j++ {
			if ps[i].View == ps[j].View && ps[i] != ps[j] {
				violation("X02:propose-twice-in-view", fmt.Sprintf("arbiter %d proposed %s and %s", a.idx, ps[i].key(), ps[j].key()))
			}
		}
	}
	for _, v := range s.OutV {
		if !v.Accept {
			violation("X02:reject-vote-sent", fmt.Sprintf("arbiter %d broadcast a reject vote %s", a.idx, v.key()))
		}
	}
	// evidence only against an arbiter that signed two conflicting messages
	for _, e := range s.EvP {
		p, q := e[0], e[1]
		if !(p.Sponsor == q.Sponsor && p.View == q.View && p.Block != q.Block && p.Sponsor >= 0) {
			violation("X02:evidence:not-conflicting", fmt.Sprintf("arbiter %d produced illegal-proposal evidence from %s and %s",
				a.idx, p.key(), q.key()))
		} else if !w.byz[p.Sponsor] {
			violation("X02:evidence:against-correct", fmt.Sprintf("arbiter %d produced illegal-proposal evidence against correct "+
				"arbiter %d", a.idx, p.Sponsor))
		}
	}
	for _, e := range s.EvV {
		v, x := e[0], e[1]
		conflicting := v.Signer == x.Signer && v.Signer >= 0 && v != x && ((v.Prop == x.Prop && v.Accept != x.Accept) ||
			(v.Prop.Sponsor == x.Prop.Sponsor && v.Prop.View == x.Prop.View && v.Prop.Block != x.Prop.Block))
		if !conflicting {
			violation("X02:evidence:not-conflicting", fmt.Sprintf("arbiter %d produced illegal-vote evidence from %s and %s",
				a.idx, v.key(), x.key()))
		} else if !w.byz[v.Signer] {
			violation("X02:evidence:against-correct", fmt.Sprintf("arbiter %d produced illegal-vote evidence against correct "+
				"arbiter %d", a.idx, v.Signer))
		}
	}
	// Agreement over the blocks the correct arbiters finished the height with
	if len(w.byz) <= (w.n-1)/3 {
		fin := map[string][]int{}
		for _, b := range w.arbs {
			if b == nil {
				continue
			}
			ds := b.disp.VerifState()
			if nm, ok := w.bname[ds.FinishedBlockHash]; ok {
				fin[nm] = append(fin[nm], b.idx)
			}
		}
		if len(fin) > 1 {
			what := fmt.Sprintf("correct arbiters finished one height with different blocks: %v (n=%d, Byzantine %v)", fin, w.n, byzList(w.byz))
			if w.realDev() {
				violation(knownAgreement, what+"; a correct arbiter accepted both blocks, in different views: there is no lock "+
					"across views")
			} else {
				violation("X02:agreement:different-blocks", what)
			}
		}
	}
}

// a correct arbiter really accepted two different blocks
func (w *world) realDev() bool {
	for _, vs := range w.sentV {
		for i := range vs {
			for j := i + 1; j < len(vs); j++ {
				if vs[i].Accept && vs[j].Accept && vs[i].Prop.Block != vs[j].Prop.Block {
					return true
				}
			}
		}
	}
	return false
}

func byzList(m map[int]bool) []int {
	l := []int{}
	for k := range m {
		l = append(l, k)
	}
	sort.Ints(l)
	return l
}

// ---------------------------------------------------------------------------
// steps

type step struct {
	Act  string
	A    int
	B    string
	P    aprop
	V    avote
	Sign []int
}

func parseProp(m map[string]interface{}) aprop {
	return aprop{rep.Int(m, "sponsor"), rep.Str(m, "block"), rep.Int(m, "view")}
}
func parseVote(m map[string]interface{}) avote {
	return avote{rep.Int(m, "signer"), parseProp(rep.Map(m, "prop")), rep.Bool(m, "accept")}
}

func parseStep(st rep.Step) step {
	a := st.Args()
	s := step{Act: st.Act(), A: rep.Int(a, "a"), B: rep.Str(a, "b")}
	if m := rep.Map(a, "p"); m != nil {
		s.P = parseProp(m)
	}
	if m := rep.Map(a, "v"); m != nil {
		s.V = parseVote(m)
	}
	for _, x := range rep.List(a, "signers") {
		s.Sign = append(s.Sign, int(x.(float64)))
	}
	return s
}

// exec performs one step on the real arbiter; returns its abstract state afterwards.
func (w *world) exec(s step) (st *astate, note string, pan interface{}) {
	a := w.arbs[s.A]
	if a == nil {
		panic(fmt.Sprintf("step for Byzantine arbiter %d", s.A))
	}
	func() {
		defer func() { pan = recover() }()
		switch s.Act {
		case "NewBlock":
			a.mgr.OnBlockReceived(w.blocks[s.B], false)
		case "RecvProposal":
			p := *w.proposal(s.P)
			a.mgr.OnProposalReceived(pid(p.Sponsor), &p)
		case "RecvVote":
			v := *w.vote(s.V)
			if v.Accept {
				a.mgr.OnVoteAccepted(pid(v.Signer), &v)
			} else {
				a.mgr.OnVoteRejected(pid(v.Signer), &v)
			}
		case "Timeout":
			a.clk.now = a.cons.VerifViewStartTime().Add(6 * time.Second)
			a.mgr.OnChangeView()
		case "LearnConfirm":
			cf := w.buildConfirm(s)
			if err := blockchain.ConfirmSanityCheck(cf); err != nil {
				note = "confirm the spec calls confirmable fails ConfirmSanityCheck: " + err.Error()
			} else if err := blockchain.ConfirmContextCheck(cf); err != nil {
				note = "confirm the spec calls confirmable fails ConfirmContextCheck: " + err.Error()
			}
			b := w.blocks[s.P.Block]
			if a.nconf%2 == 0 {
				a.mgr.OnBlockReceived(b, true)
			} else {
				a.mgr.OnConfirmReceived(cf, b.Height)
			}
			a.nconf++
		default:
			panic("unknown action " + s.Act)
		}
	}()
	if pan != nil {
		return nil, "", pan
	}
	// (the messages first: they introduce the proposals the state refers to)
	msgs := a.net.drain()
	for _, m := range msgs {
		if x, ok := m.(*dmsg.Proposal); ok {
			p := x.Proposal
			w.register(&p)
		}
	}
	st, n2 := w.snapshot(a)
	n3 := w.collect(a, st, msgs)
	for _, x := range []string{n2, n3} {
		if note == "" {
			note = x
		}
	}
	return st, note, nil
}

func (w *world) buildConfirm(s step) *payload.Confirm {
	signers := s.Sign
	if len(signers) == 0 {
		// every arbiter that has signed an accept vote for the proposal, and the Byzantine ones
		for i := 0; i < w.n; i++ {
			if _, ok := w.votes[avote{i, s.P, true}.key()]; ok || w.byz[i] {
				signers = append(signers, i)
			}
		}
	}
	cf := &payload.Confirm{Proposal: *w.proposal(s.P)}
	for _, i := range signers {
		cf.Votes = append(cf.Votes, *w.vote(avote{i, s.P, true}))
	}
	return cf
}

func expState(m map[string]interface{}) *astate {
	b, _ := json.Marshal(m)
	s := &astate{}
	if err := json.Unmarshal(b, s); err != nil {
		panic(err)
	}
	return s
}

func parseByz(s string) map[int]bool {
	m := map[int]bool{}
	if s == "-" || s == "" {
		return m
	}
	for _, x := range strings.Split(s, ",") {
		i, err := strconv.Atoi(x)
		if err != nil {
			panic(err)
		}
		m[i] = true
	}
	return m
}

// ---------------------------------------------------------------------------

func replay(path string, n int, byz map[int]bool, checks bool) {
	behs := rep.ReadBehaviours(path)
	stats := map[string]int{}
	var sample interface{}
	for _, b := range behs {
		w := newWorld(n, byz, checks)
		vd = verdicts{viol: map[string]bool{}}
		bad := false
		for i, raw := range b {
			s := parseStep(raw)
			hist := b[:i+1]
			vd.info = func() interface{} {
				return map[string]interface{}{"n": n, "byz": byzList(byz), "checks": checks, "behaviour": hist}
			}
			real, note, pan := w.exec(s)
			if pan != nil {
				rep.Violation("X02:panic", fmt.Sprintf("%s on arbiter %d panicked: %v", s.Act, s.A, pan), vd.info())
				bad = true
				break
			}
			exp := rep.Map(raw, "exp")
			w.checkStep(w.arbs[s.A], real, rep.Bool(exp, "dev"))
			want := expState(rep.Map(exp, "s"))
			rc, wc := real.canon(), want.canon()
			if bad {
				// the real arbiters have left the spec's behaviour: the rest of the schedule is still
				// executed, for the properties only (a later step may show that one of them is broken,
				// which is the stronger statement about the same schedule)
				continue
			}
			if rc != wc || note != "" {
				if note == "" {
					note = "abstract state after the step differs from Protocol.tla"
				}
				rep.Mismatch(fmt.Sprintf("step %d (%s on arbiter %d): %s", i, s.Act, s.A, note),
					map[string]interface{}{"n": n, "byz": byzList(byz), "checks": checks, "behaviour": hist,
						"real": json.RawMessage(rc), "spec": json.RawMessage(wc), "diff": diff(real, want)})
				bad = true
				continue
			}
			if rep.Bool(exp, "dev") != w.realDev() {
				rep.Mismatch(fmt.Sprintf("step %d: spec dev=%v, real arbiters accepted two blocks=%v", i, rep.Bool(exp, "dev"), w.realDev()), vd.info())
				bad = true
				continue
			}
			stats["steps"]++
			stats["act_"+s.Act]++
			if len(real.OutC) > 0 {
				stats["own_confirms"]++
				if sample == nil && len(b) >= 6 {
					sample = map[string]interface{}{"n": n, "byz": byzList(byz), "schedule": brief(b[:i+1]), "confirm": real.OutC[0]}
				}
			}
			stats["evidence_proposal"] += len(real.EvP)
			stats["evidence_vote"] += len(real.EvV)
		}
		if !bad {
			stats["conforming"]++
		}
		for k := range vd.viol {
			stats["viol_"+k]++
		}
	}
	extra := map[string]interface{}{"n": n, "byz": byzList(byz), "checks": checks}
	for k, v := range stats {
		extra[k] = v
	}
	rep.Summary(len(behs), extra, sample)
}

func brief(b rep.Behaviour) []string {
	var r []string
	for _, st := range b {
		s := parseStep(st)
		r = append(r, s.String())
	}
	return r
}

func (s step) String() string {
	switch s.Act {
	case "NewBlock":
		return fmt.Sprintf("NewBlock(%d,%s)", s.A, s.B)
	case "RecvProposal":
		return fmt.Sprintf("RecvProposal(%d,%s)", s.A, s.P.key())
	case "RecvVote":
		return fmt.Sprintf("RecvVote(%d,%s)", s.A, s.V.key())
	case "LearnConfirm":
		return fmt.Sprintf("LearnConfirm(%d,%s)", s.A, s.P.key())
	}
	return fmt.Sprintf("%s(%d)", s.Act, s.A)
}

func diff(a, b *astate) []string {
	var am, bm map[string]interface{}
	x, _ := json.Marshal(a)
	y, _ := json.Marshal(b)
	json.Unmarshal(x, &am)
	json.Unmarshal(y, &bm)
	var d []string
	for k := range am {
		p, _ := json.Marshal(am[k])
		q, _ := json.Marshal(bm[k])
		if !bytes.Equal(p, q) {
			d = append(d, fmt.Sprintf("%s: real %s spec %s", k, p, q))
		}
	}
	sort.Strings(d)
	return d
}

// ---------------------------------------------------------------------------
// recording

type recorder struct {
	enc    *json.Encoder
	events int
}

func (r *recorder) event(s step, st *astate) {
	st.canon()
	e := map[string]interface{}{"ev": s.Act, "a": s.A, "s": st}
	switch s.Act {
	case "NewBlock":
		e["b"] = s.B
	case "RecvProposal", "LearnConfirm":
		e["p"] = s.P
	case "RecvVote":
		e["v"] = s.V
	}
	r.enc.Encode(e)
	r.events++
}

func (r *recorder) fin(w *world) {
	fin := make([]string, w.n)
	for i, a := range w.arbs {
		fin[i] = "-"
		if a != nil {
			if nm, ok := w.bname[a.disp.VerifState().FinishedBlockHash]; ok {
				fin[i] = nm
			}
		}
	}
	r.enc.Encode(map[string]interface{}{"ev": "Fin", "fin": fin, "dev": w.realDev()})
	r.events++
}

func runScripts(path, out string, n int, byz map[int]bool, checks bool) {
	scripts := rep.ReadBehaviours(path)
	f, err := os.Create(out)
	if err != nil {
		panic(err)
	}
	defer f.Close()
	rec := &recorder{enc: json.NewEncoder(f)}
	stats := map[string]int{}
	var sample interface{}
	for _, b := range scripts {
		w := newWorld(n, byz, checks)
		vd = verdicts{viol: map[string]bool{}}
		rec.enc.Encode(map[string]interface{}{"ev": "Reset"})
		rec.events++
		for i, raw := range b {
			s := parseStep(raw)
			hist := b[:i+1]
			vd.info = func() interface{} {
				return map[string]interface{}{"n": n, "byz": byzList(byz), "checks": checks, "schedule": brief(hist)}
			}
			real, note, pan := w.exec(s)
			if pan != nil {
				rep.Violation("X02:panic", fmt.Sprintf("%s on arbiter %d panicked: %v", s.Act, s.A, pan), vd.info())
				break
			}
			if note != "" {
				rep.Mismatch(fmt.Sprintf("step %d (%s): %s", i, s.String(), note), vd.info())
			}
			w.checkStep(w.arbs[s.A], real, false)
			rec.event(s, real)
			stats["steps"]++
		}
		rec.fin(w)
		for k := range vd.viol {
			stats["viol_"+k]++
			if sample == nil {
				sample = map[string]interface{}{"n": n, "byz": byzList(byz), "schedule": brief(b), "finding": k}
			}
		}
	}
	extra := map[string]interface{}{"n": n, "byz": byzList(byz), "checks": checks, "events": rec.events}
	for k, v := range stats {
		extra[k] = v
	}
	rep.Summary(len(scripts), extra, sample)
}

// random schedules: at every step one of the handler entries with an argument drawn
// from what has been sent so far and from the Byzantine universe; the two orderings
// the model keeps apart (see RecvProposal / RecvVote in Protocol.tla) are avoided.
func random(runs, steps int, out string, n int, byz map[int]bool, checks bool, maxView int) {
	f, err := os.Create(out)
	if err != nil {
		panic(err)
	}
	defer f.Close()
	rec := &recorder{enc: json.NewEncoder(f)}
	rng := rand.New(rand.NewSource(rep.Seed()*104729 + int64(n)*131 + int64(len(byz))))
	stats := map[string]int{}
	var sample interface{}
	var correct, byzl []int
	for i := 0; i < n; i++ {
		if byz[i] {
			byzl = append(byzl, i)
		} else {
			correct = append(correct, i)
		}
	}
	bnames := []string{"B1", "B2"}
	for r := 0; r < runs; r++ {
		w := newWorld(n, byz, checks)
		vd = verdicts{viol: map[string]bool{}}
		rec.enc.Encode(map[string]interface{}{"ev": "Reset"})
		rec.events++
		var hist []string
		vd.info = func() interface{} {
			return map[string]interface{}{"n": n, "byz": byzList(byz), "checks": checks, "schedule": hist}
		}
		// a run leans towards progress (eager) or towards disorder
		eager := rng.Intn(3) > 0
		for i := 0; i < steps; i++ {
			a := correct[rng.Intn(len(correct))]
			ar := w.arbs[a]
			cur, _ := w.snapshot(ar)
			var s step
			ok := false
			for try := 0; try < 20 && !ok; try++ {
				k := rng.Intn(100)
				switch {
				case k < 15: // block
					b := bnames[rng.Intn(2)]
					if eager && rng.Intn(4) > 0 {
						b = "B1"
					}
					if cur.Fin == "-" && !contains(cur.Cache, b) {
						s, ok = step{Act: "NewBlock", A: a, B: b}, true
					}
				case k < 40: // proposal
					var cands []aprop
					for _, l := range w.sentP {
						cands = append(cands, l...)
					}
					for _, bz := range byzl {
						cands = append(cands, aprop{bz, bnames[rng.Intn(2)], rng.Intn(maxView + 1)})
					}
					if len(cands) == 0 {
						continue
					}
					if eager && rng.Intn(4) > 0 {
						// what the arbiter is waiting for: a proposal of its view
						var f []aprop
						for _, c := range cands {
							if c.View == cur.View && c != cur.PProp {
								f = append(f, c)
							}
						}
						if len(f) > 0 {
							cands = f
						}
					}
					p := cands[rng.Intn(len(cands))]
					twin := false
					for _, q := range cur.Prec {
						if q.Sponsor == p.Sponsor && q.View == p.View && q.Block != p.Block {
							twin = true
						}
					}
					if !(p.View > cur.View && !cur.OnDuty && twin) {
						s, ok = step{Act: "RecvProposal", A: a, P: p}, true
					}
				case k < 80: // vote
					var cands []avote
					for _, l := range w.sentV {
						cands = append(cands, l...)
					}
					var ps []aprop
					for _, l := range w.sentP {
						ps = append(ps, l...)
					}
					for _, bz := range byzl {
						ps = append(ps, aprop{bz, bnames[rng.Intn(2)], rng.Intn(maxView + 1)})
					}
					if len(ps) > 0 {
						for _, bz := range byzl {
							cands = append(cands, avote{bz, ps[rng.Intn(len(ps))], rng.Intn(4) > 0})
						}
					}
					if len(cands) == 0 {
						continue
					}
					if eager && rng.Intn(4) > 0 {
						// a vote for the proposal being processed that is not counted yet
						var f []avote
						for _, c := range cands {
							if c.Prop == cur.PProp && !hasVote(cur.Acc, c) && !hasVote(cur.Rej, c) {
								f = append(f, c)
							}
						}
						if len(f) > 0 {
							cands = f
						}
					}
					v := cands[rng.Intn(len(cands))]
					opp := false
					for _, x := range cur.PVotes {
						if x.Signer == v.Signer && x.Prop == v.Prop && x.Accept != v.Accept {
							opp = true
						}
					}
					if !opp {
						s, ok = step{Act: "RecvVote", A: a, V: v}, true
					}
				case k < 92: // timeout
					if eager && rng.Intn(3) > 0 {
						continue
					}
					if cur.Status == "running" && cur.View < maxView {
						s, ok = step{Act: "Timeout", A: a}, true
					}
				default: // a confirm that can be assembled
					if cur.Status != "running" || cur.Fin != "-" {
						continue
					}
					var ps []aprop
					for k2 := range w.props {
						ps = append(ps, w.phash[w.props[k2].Hash()])
					}
					sortProps(ps)
					for _, p := range ps {
						cnt := len(byzl)
						for _, c := range correct {
							for _, v := range w.sentV[c] {
								if v.Prop == p && v.Accept {
									cnt++
									break
								}
							}
						}
						if cnt > n*2/3 {
							s, ok = step{Act: "LearnConfirm", A: a, P: p}, true
							break
						}
					}
				}
			}
			if !ok {
				continue
			}
			hist = append(hist, s.String())
			real, note, pan := w.exec(s)
			if pan != nil {
				rep.Violation("X02:panic", fmt.Sprintf("%s on arbiter %d panicked: %v", s.Act, s.A, pan), vd.info())
				break
			}
			if note != "" {
				rep.Mismatch(fmt.Sprintf("step %d (%s): %s", i, s.String(), note), vd.info())
			}
			w.checkStep(ar, real, false)
			rec.event(s, real)
			stats["steps"]++
			stats["act_"+s.Act]++
			if len(real.OutC) > 0 {
				stats["own_confirms"]++
				if sample == nil {
					sample = map[string]interface{}{"n": n, "byz": byzList(byz), "schedule": append([]string{}, hist...), "confirm": real.OutC[0]}
				}
			}
			stats["evidence_proposal"] += len(real.EvP)
			stats["evidence_vote"] += len(real.EvV)
		}
		rec.fin(w)
		if w.realDev() {
			stats["runs_with_vote_switch"]++
		}
		for k := range vd.viol {
			stats["viol_"+k]++
		}
	}
	extra := map[string]interface{}{"n": n, "byz": byzList(byz), "checks": checks, "events": rec.events}
	for k, v := range stats {
		extra[k] = v
	}
	rep.Summary(runs, extra, sample)
}

func hasVote(l []avote, v avote) bool {
	for _, y := range l {
		if y == v {
			return true
		}
	}
	return false
}

func contains(l []string, x string) bool {
	for _, y := range l {
		if y == x {
			return true
		}
	}
	return false
}

func main() {
	defer rep.Flush()
	usage := func() {
		fmt.Fprintln(os.Stderr, "usage: dposproto replay <behaviours.jsonl> <n> <byz> <checks> | run <scripts.jsonl> <out.ndjson> <n> <byz> <checks> | "+
			"random <runs> <steps> <out.ndjson> <n> <byz> <checks> [maxview]")
		os.Exit(3)
	}
	if len(os.Args) < 2 {
		usage()
	}
	logDir, err := os.MkdirTemp("", "verif-x02-log-")
	if err != nil {
		panic(err)
	}
	defer os.RemoveAll(logDir)
	dlog.Init(logDir, 255, 1, 1)
	node, err = stack.New(stack.Options{})
	if err != nil {
		fmt.Fprintln(os.Stderr, "node:", err)
		os.Exit(3)
	}
	defer stack.CleanupGlobals()
	defer node.Close()
	atoi := func(s string) int {
		n, err := strconv.Atoi(s)
		if err != nil {
			usage()
		}
		return n
	}
	switch {
	case os.Args[1] == "replay" && len(os.Args) >= 6:
		replay(os.Args[2], atoi(os.Args[3]), parseByz(os.Args[4]), os.Args[5] == "1")
	case os.Args[1] == "run" && len(os.Args) >= 7:
		runScripts(os.Args[2], os.Args[3], atoi(os.Args[4]), parseByz(os.Args[5]), os.Args[6] == "1")
	case os.Args[1] == "random" && len(os.Args) >= 8:
		mv := 2
		if len(os.Args) >= 9 {
			mv = atoi(os.Args[8])
		}
		random(atoi(os.Args[2]), atoi(os.Args[3]), os.Args[4], atoi(os.Args[5]), parseByz(os.Args[6]), os.Args[7] == "1", mv)
	default:
		usage()
	}
}
