// Recorder for spec/Conc/StateLin.tla (C40).  Built with -race.
//
//	conc record <runs> <blocks> <readers> <out.ndjson>
//
// A sequential reference run processes prefix + blocks B1..Bn (each carrying one
// transfer) and records what every query answers in every committed state.  Each
// recorded run then processes the same blocks on a fresh node in one goroutine
// while reader goroutines call the query / validation / checkpoint API; every call
// is logged with sequence numbers taken from one atomic counter at invocation and
// at response, and its answer is translated into the set of committed states it is
// compatible with.  A data race aborts the process (race detector, exit code 66).
package main

import (
	"bytes"
	"encoding/json"
	"fmt"
	"math/rand"
	"os"
	"sort"
	"strconv"
	"strings"
	"sync"
	"sync/atomic"
	"time"

	"github.com/elastos/Elastos.ELA/common"
	"github.com/elastos/Elastos.ELA/core/types"
	common2 "github.com/elastos/Elastos.ELA/core/types/common"
	"github.com/elastos/Elastos.ELA/core/types/functions"
	"github.com/elastos/Elastos.ELA/core/types/interfaces"
	"verif/harness/internal/rep"
	"verif/harness/internal/stack"
)

type scenario struct {
	prefix []*types.Block
	blocks []*types.Block
	txs    []interfaces.Transaction
	k, a   *stack.Key
}

// answers of the queries in committed state k (k = number of behaviour blocks connected)
type refState struct {
	Height  uint32
	UtxoA   string
	UtxoK   string
	TxValid []bool // would transfer j pass CheckTransactionContext
	LIH     uint32
}

func utxoDigest(n *stack.Node, h common.Uint168) string {
	us, err := n.Store.GetFFLDB().GetUTXO(&h)
	if err != nil {
		return "err:" + err.Error()
	}
	var s []string
	for _, u := range us {
		s = append(s, fmt.Sprintf("%s:%d:%d", u.TxID.String()[:10], u.Index, u.Value))
	}
	sort.Strings(s)
	return strings.Join(s, ",")
}

func build(nblocks int) (*scenario, []refState, error) {
	n, err := stack.New(stack.Options{})
	if err != nil {
		return nil, nil, err
	}
	defer n.Close()
	sc := &scenario{k: stack.KeyFromSeed(700), a: stack.KeyFromSeed(701)}
	parent := n.Genesis()
	for i := 0; i < 3; i++ {
		b, err := n.NewBlock(parent, nil, stack.BlockOpts{CoinbaseTo: &sc.k.Hash})
		if err == nil {
			_, _, err = n.Process(b)
		}
		if err != nil {
			return nil, nil, err
		}
		sc.prefix = append(sc.prefix, b)
		parent = b
	}
	cb := sc.prefix[0].Transactions[0]
	each := (cb.Outputs()[1].Value - 10000) / common.Fixed64(nblocks)
	var outs []stack.Out
	for i := 0; i < nblocks; i++ {
		outs = append(outs, stack.Out{To: sc.k.Hash, Value: each})
	}
	fund, _ := stack.Transfer([]common2.OutPoint{{TxID: cb.Hash(), Index: 1}}, outs, []*stack.Key{sc.k}, 5)
	fb, err := n.NewBlock(parent, []interfaces.Transaction{fund}, stack.BlockOpts{Fees: cb.Outputs()[1].Value - each*common.Fixed64(nblocks), CoinbaseTo: &sc.k.Hash})
	if err == nil {
		_, _, err = n.Process(fb)
	}
	if err != nil {
		return nil, nil, err
	}
	sc.prefix = append(sc.prefix, fb)
	parent = fb
	for j := 0; j < nblocks; j++ {
		tx, _ := stack.Transfer([]common2.OutPoint{{TxID: fund.Hash(), Index: uint16(j)}}, []stack.Out{{To: sc.a.Hash, Value: each - 10000}}, []*stack.Key{sc.k}, uint64(100+j))
		sc.txs = append(sc.txs, tx)
	}
	var refs []refState
	snap := func() refState {
		r := refState{Height: n.Chain.GetHeight(), UtxoA: utxoDigest(n, sc.a.Hash), UtxoK: utxoDigest(n, sc.k.Hash),
			LIH: n.Arbiters.State.GetLastIrreversibleHeight()}
		for _, tx := range sc.txs {
			_, e := n.Chain.CheckTransactionContext(n.Chain.GetHeight()+1, tx, 0, 0)
			r.TxValid = append(r.TxValid, e == nil)
		}
		return r
	}
	refs = append(refs, snap())
	for j := 0; j < nblocks; j++ {
		b, err := n.NewBlock(parent, []interfaces.Transaction{sc.txs[j]}, stack.BlockOpts{Fees: 10000, CoinbaseTo: &sc.k.Hash})
		if err == nil {
			_, _, err = n.Process(b)
		}
		if err != nil {
			return nil, nil, fmt.Errorf("reference block %d: %v", j, err)
		}
		sc.blocks = append(sc.blocks, b)
		parent = b
		refs = append(refs, snap())
	}
	return sc, refs, nil
}

type event map[string]interface{}

func cloneTx(t interfaces.Transaction) interfaces.Transaction {
	var buf bytes.Buffer
	t.Serialize(&buf)
	r := bytes.NewReader(buf.Bytes())
	c, err := functions.GetTransactionByBytes(r)
	if err != nil {
		panic(err)
	}
	if err := c.Deserialize(r); err != nil {
		panic(err)
	}
	return c
}

func cloneBlock(b *types.Block) *types.Block {
	var buf bytes.Buffer
	b.Serialize(&buf)
	c := &types.Block{}
	if err := c.Deserialize(bytes.NewReader(buf.Bytes())); err != nil {
		panic(err)
	}
	return c
}

func compat(refs []refState, f func(r refState) bool) []int {
	ks := []int{}
	for k, r := range refs {
		if f(r) {
			ks = append(ks, k)
		}
	}
	return ks
}

func run(sc *scenario, refs []refState, readers int, rng *rand.Rand, enc *json.Encoder, runIdx int) (int, error) {
	n, err := stack.New(stack.Options{})
	if err != nil {
		return 0, err
	}
	defer n.Close()
	for _, b := range sc.prefix {
		if _, _, err := n.Process(cloneBlock(b)); err != nil {
			return 0, fmt.Errorf("prefix on run node: %v", err)
		}
	}
	all := compat(refs, func(refState) bool { return true })
	var seq int64
	var mu sync.Mutex
	var evs []event
	logEv := func(e event) {
		mu.Lock()
		evs = append(evs, e)
		mu.Unlock()
	}
	var stop int32
	var wg sync.WaitGroup
	seeds := make([]int64, readers)
	for i := range seeds {
		seeds[i] = rng.Int63()
	}
	delays := make([]time.Duration, len(sc.blocks))
	for i := range delays {
		delays[i] = time.Duration(rng.Intn(400)) * time.Microsecond
	}
	for p := 0; p < readers; p++ {
		wg.Add(1)
		go func(p int) {
			defer wg.Done()
			r := rand.New(rand.NewSource(seeds[p]))
			name := fmt.Sprintf("r%d", p+1)
			// every client (RPC call, peer message) decodes its own transaction object
			mine := make([]interfaces.Transaction, len(sc.txs))
			for i, t := range sc.txs {
				mine[i] = cloneTx(t)
			}
			for atomic.LoadInt32(&stop) == 0 {
				kind := r.Intn(9)
				j := r.Intn(len(sc.txs))
				inv := atomic.AddInt64(&seq, 1)
				var ks []int
				var what string
				surface := []string{"tip", "db", "db", "validate", "dpos", "validate", "dpos", "dpos", "dpos"}[kind]
				switch kind {
				case 0:
					h := n.Chain.GetHeight()
					what = "GetHeight"
					ks = compat(refs, func(x refState) bool { return x.Height == h })
				case 1:
					d := utxoDigest(n, sc.a.Hash)
					what = "GetUTXO(A)"
					ks = compat(refs, func(x refState) bool { return x.UtxoA == d })
				case 2:
					d := utxoDigest(n, sc.k.Hash)
					what = "GetUTXO(K)"
					ks = compat(refs, func(x refState) bool { return x.UtxoK == d })
				case 3:
					// validation as RPC / peers trigger it.  The height argument is read
					// first, so the verdict may be computed for the state of either side of
					// a concurrent commit: compatible states are judged on the verdict alone.
					_, e := n.Chain.CheckTransactionContext(n.Chain.GetHeight()+1, mine[j], 0, 0)
					what = fmt.Sprintf("CheckTransactionContext(tx%d)=%v", j, e)
					ks = compat(refs, func(x refState) bool { return x.TxValid[j] == (e == nil) })
				case 4:
					l := n.Arbiters.State.GetLastIrreversibleHeight()
					what = "GetLastIrreversibleHeight"
					ks = compat(refs, func(x refState) bool { return x.LIH == l })
				case 5:
					// submission as RPC / peers do it: a private copy of the transaction.
					// The answer depends on what other clients already put into the pool, so it
					// is only required not to accept a transaction the chain already contains.
					e := n.Pool.AppendToTxPool(cloneTx(sc.txs[j]))
					what = fmt.Sprintf("AppendToTxPool(tx%d)", j)
					if e == nil {
						ks = compat(refs, func(x refState) bool { return x.TxValid[j] })
					} else {
						ks = all
					}
				case 6:
					_ = n.Arbiters.GetArbitrators()
					_ = n.Arbiters.GetCurrentArbitratorKeys()
					_ = n.Arbiters.State.GetActiveProducers()
					_ = n.Arbiters.State.GetAllProducers()
					what, ks = "DPoS state queries", all
				case 7:
					_ = n.Comm.GetCurrentMembers()
					_ = n.Comm.GetAllMembersCopy()
					what, ks = "CR committee queries", all
				case 8:
					_ = n.Arbiters.GetArbitersRoundReward()
					_ = n.Arbiters.GetFinalRoundChange()
					_ = n.Pool.GetTxsInPool()
					what, ks = "snapshot / pool listing", all
				}
				resp := atomic.AddInt64(&seq, 1)
				logEv(event{"seq": inv, "ev": "RInv", "p": name, "s": surface, "what": what})
				logEv(event{"seq": resp, "ev": "RResp", "p": name, "ks": ks, "what": what})
			}
		}(p)
	}
	var werr error
	blocks := make([]*types.Block, len(sc.blocks))
	for i, b := range sc.blocks {
		blocks[i] = cloneBlock(b) // as decoded from the wire
	}
	for k, b := range blocks {
		time.Sleep(delays[k])
		inv := atomic.AddInt64(&seq, 1)
		_, _, e := n.Process(b)
		resp := atomic.AddInt64(&seq, 1)
		logEv(event{"seq": inv, "ev": "WInv", "k": k + 1})
		logEv(event{"seq": resp, "ev": "WResp", "k": k + 1})
		if e != nil {
			werr = fmt.Errorf("ProcessBlock(%d) under concurrency: %v", k+1, e)
			break
		}
	}
	time.Sleep(200 * time.Microsecond)
	atomic.StoreInt32(&stop, 1)
	wg.Wait()
	if werr != nil {
		return 0, werr
	}
	sort.Slice(evs, func(i, j int) bool { return evs[i]["seq"].(int64) < evs[j]["seq"].(int64) })
	enc.Encode(event{"ev": "Reset", "run": runIdx})
	for _, e := range evs {
		enc.Encode(e)
	}
	return len(evs) + 1, nil
}

func main() {
	if len(os.Args) < 6 || os.Args[1] != "record" {
		fmt.Fprintln(os.Stderr, "usage: conc record <runs> <blocks> <readers> <out.ndjson>")
		os.Exit(3)
	}
	runs, _ := strconv.Atoi(os.Args[2])
	nblocks, _ := strconv.Atoi(os.Args[3])
	readers, _ := strconv.Atoi(os.Args[4])
	stack.InitGlobals()
	defer stack.CleanupGlobals()
	sc, refs, err := build(nblocks)
	if err != nil {
		rep.Mismatch("reference run failed: "+err.Error(), nil)
		rep.Summary(0, nil)
		return
	}
	f, err := os.Create(os.Args[5])
	if err != nil {
		panic(err)
	}
	defer f.Close()
	enc := json.NewEncoder(f)
	rng := rand.New(rand.NewSource(rep.Seed()))
	total := 0
	done := 0
	for i := 0; i < runs; i++ {
		nEv, err := run(sc, refs, readers, rng, enc, i)
		if err != nil {
			rep.Violation("C40:processblock-fails-under-concurrency", err.Error(), map[string]interface{}{"run": i})
			continue
		}
		total += nEv
		done++
	}
	rep.Summary(done, map[string]interface{}{"events": total, "blocks": nblocks, "readers": readers})
}
