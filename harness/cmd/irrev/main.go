// Replay driver for spec/Chain/Irreversible.tla on a full-stack regnet node in
// DPoS mode (C30).
//
//	irrev replay <behaviours.jsonl> [i n]
package main

import (
	"fmt"
	"os"
	"strconv"

	"github.com/elastos/Elastos.ELA/common"
	"github.com/elastos/Elastos.ELA/common/config"
	"github.com/elastos/Elastos.ELA/core/contract"
	pg "github.com/elastos/Elastos.ELA/core/contract/program"
	"github.com/elastos/Elastos.ELA/core/types"
	common2 "github.com/elastos/Elastos.ELA/core/types/common"
	"github.com/elastos/Elastos.ELA/core/types/functions"
	"github.com/elastos/Elastos.ELA/core/types/interfaces"
	"github.com/elastos/Elastos.ELA/core/types/payload"
	"github.com/elastos/Elastos.ELA/crypto"
	"github.com/elastos/Elastos.ELA/dpos/state"
	"verif/harness/internal/rep"
	"verif/harness/internal/stack"
)

// height of the common prefix of plain blocks (Irreversible.tla's Base); set from VERIF_IRREV_BASE
var base = 3

// toPOW builds the RevertToPOW transaction (type NoBlock) for a block at height h.
func toPOW(h uint32) interfaces.Transaction {
	return functions.CreateTransaction(common2.TxVersion09, common2.RevertToPOW, payload.RevertToPOWVersion,
		&payload.RevertToPOW{Type: payload.NoBlock, WorkingHeight: h},
		[]*common2.Attribute{}, []*common2.Input{}, []*common2.Output{}, 0, []*pg.Program{})
}

// toDPOS builds the RevertToDPOS transaction as ProposalDispatcher.CreateRevertToDPOS does:
// one program whose code is the m-of-n script over the normal current arbiters.
func toDPOS(n *stack.Node, nonce uint32) (interfaces.Transaction, error) {
	var pks []*crypto.PublicKey
	arbs := n.Arbiters.GetArbitrators()
	for _, a := range arbs {
		if !a.IsNormal {
			continue
		}
		pk, err := crypto.DecodePoint(a.NodePublicKey)
		if err != nil {
			return nil, err
		}
		pks = append(pks, pk)
	}
	m := int(float64(len(arbs))*state.MajoritySignRatioNumerator/state.MajoritySignRatioDenominator) + 1
	code, err := contract.CreateRevertToPOWRedeemScript(m, pks)
	if err != nil {
		return nil, err
	}
	nb := []byte{byte(nonce >> 24), byte(nonce >> 16), byte(nonce >> 8), byte(nonce)}
	return functions.CreateTransaction(common2.TxVersion09, common2.RevertToDPOS, payload.RevertToDPOSVersion,
		&payload.RevertToDPOS{WorkHeightInterval: payload.WorkHeightInterval, RevertToPOWBlockHeight: n.Arbiters.GetRevertToPOWBlockHeight()},
		[]*common2.Attribute{{Usage: common2.Nonce, Data: nb}}, []*common2.Input{}, []*common2.Output{}, 0,
		[]*pg.Program{{Code: code, Parameter: []byte{1, 0}}}), nil
}

func tweak(p *config.Configuration) {
	// DPoS bookkeeping from the first blocks on (see DESIGN.md C30): the arbiter
	// state processes every block, irreversibility starts at RevertToPOWStartHeight.
	p.VoteStartHeight = 1
	p.DPoSConfiguration.PreConnectOffset = 1
	p.CRCOnlyDPOSHeight = 3
	p.DPoSConfiguration.RevertToPOWStartHeight = 7
	// a RevertToPOW transaction of type NoBlock is acceptable without waiting
	p.DPoSConfiguration.RevertToPOWNoBlockTime = 0
	p.DPoSConfiguration.RevertToPOWNoBlockTimeV1 = 0
}

func mainIDs(n *stack.Node, idOf map[common.Uint256]int) []int {
	var r []int
	for h := uint32(base) + 1; h <= n.Chain.GetHeight(); h++ {
		hash, err := n.Chain.GetBlockHash(h)
		id := -1
		if err == nil {
			if v, ok := idOf[hash]; ok {
				id = v
			}
		}
		r = append(r, id)
	}
	return r
}

func replayOne(b rep.Behaviour) bool {
	n, err := stack.New(stack.Options{Tweak: tweak})
	if err != nil {
		rep.Mismatch("cannot build node: "+err.Error(), nil)
		return false
	}
	defer n.Close()
	blocks := map[int]*types.Block{}
	idOf := map[common.Uint256]int{}
	heightOf := map[common.Uint256]uint32{}
	parent := n.Genesis()
	for i := 0; i < base; i++ {
		blk, err := n.NewBlock(parent, nil, stack.BlockOpts{})
		if err == nil {
			_, _, err = n.Process(blk)
		}
		if err != nil {
			rep.Mismatch(fmt.Sprintf("prefix block %d: %v", i, err), nil)
			return false
		}
		parent = blk
	}
	blocks[0] = parent
	maxLIH := n.Arbiters.State.GetLastIrreversibleHeight()
	fellInReorg := false
	modeTx := map[int]common.Uint256{} // block id -> hash of its mode transaction (no inputs, no outputs)
	for i, st := range b {
		a := st.Args()
		id := rep.Int(a, "id")
		act := rep.Str(st, "act")
		var blk *types.Block
		if act == "Mine" {
			par := blocks[rep.Int(a, "parent")]
			var txs []interfaces.Transaction
			switch rep.Str(a, "kind") {
			case "toPOW":
				txs = append(txs, toPOW(par.Height+1))
			case "toDPOS":
				tx, err := toDPOS(n, uint32(id))
				if err != nil {
					rep.Mismatch("RevertToDPOS factory: "+err.Error(), b[:i+1])
					return false
				}
				txs = append(txs, tx)
			}
			var err error
			blk, err = n.NewBlock(par, txs, stack.BlockOpts{})
			if err != nil {
				rep.Mismatch("block factory: "+err.Error(), b[:i+1])
				return false
			}
			blocks[id] = blk
			idOf[blk.Hash()] = id
			heightOf[blk.Hash()] = blk.Height
			if len(txs) == 1 {
				modeTx[id] = txs[0].Hash()
			}
		} else {
			blk = blocks[id]
		}
		what := fmt.Sprintf("%s(%d)", act, id)
		lihBefore := n.Arbiters.State.GetLastIrreversibleHeight()
		hBefore := n.Chain.GetHeight()
		mainBefore := mainIDs(n, idOf)
		n.Drain()
		var inMain, orphan bool
		var perr error
		var pan interface{}
		func() {
			defer func() { pan = recover() }()
			if act == "Mine" {
				inMain, orphan, perr = n.Process(blk)
			} else {
				perr = n.Chain.ReorganizeChain(blk)
			}
		}()
		c := map[string]interface{}{"behaviour": b[:i+1]}
		if pan != nil {
			rep.Violation("C03:panic:"+act, fmt.Sprintf("%s panicked: %v", what, pan), c)
			return false
		}
		lihAfter := n.Arbiters.State.GetLastIrreversibleHeight()
		modeAfter := n.Arbiters.State.GetConsensusAlgorithm().String()
		hAfter := n.Chain.GetHeight()
		mainAfter := mainIDs(n, idOf)
		var detached []int
		for _, e := range n.Drain() {
			if e.Kind == "disconnect" {
				detached = append(detached, int(heightOf[e.Hash]))
				if h, ok := heightOf[e.Hash]; !ok {
					detached[len(detached)-1] = -1
				} else if h <= lihBefore {
					// ---- C30, evaluated on the real node ----
					rep.Violation("C30:detach-at-or-below-irreversible:"+act, fmt.Sprintf(
						"%s: block at height %d was detached although the last irreversible height was %d", what, h, lihBefore), c)
				} else if h <= maxLIH {
					// the recorded height is lower than it once was: known to happen through a
					// reorganisation onto a branch with a RevertToPOW block (fellInReorg), anything
					// else is a different defect
					shape := "other"
					if fellInReorg {
						shape = "after-height-fell-in-reorganization"
					}
					rep.Violation("C30:detach-once-irreversible:"+shape, fmt.Sprintf(
						"%s: block at height %d was detached; the node had recorded the last irreversible height %d earlier (it is %d now)",
						what, h, maxLIH, lihBefore), c)
				}
			}
		}
		c["real"] = fmt.Sprintf("inMain=%v orphan=%v err=%v main=%v lih=%d mode=%s height=%d detached=%v", inMain, orphan, perr, mainAfter, lihAfter, modeAfter, hAfter, detached)
		if hAfter > hBefore && lihAfter < lihBefore {
			shape := "extension"
			if len(detached) > 0 {
				shape = "reorganization"
				fellInReorg = true
			}
			rep.Violation("C30:irreversible-height-decreased:"+shape, fmt.Sprintf(
				"%s: height grew %d -> %d but the last irreversible height fell %d -> %d", what, hBefore, hAfter, lihBefore, lihAfter), c)
		}
		if lihAfter > maxLIH {
			maxLIH = lihAfter
		}
		// ---- C15 / C14: the transaction lookup (indexed transaction cache in front of the tx index)
		// finds an output-less transaction exactly while its block is on the active chain ----
		onMain := map[int]bool{}
		for _, x := range mainAfter {
			onMain[x] = true
		}
		// (two RevertToPOW transactions for the same height are the same transaction: the lookup is
		// about the hash, found while any block carrying it is on the active chain)
		carriers := map[common.Uint256][]int{}
		for bid, h := range modeTx {
			carriers[h] = append(carriers[h], bid)
		}
		for h, bids := range carriers {
			on, onH := false, uint32(0)
			for _, bid := range bids {
				if onMain[bid] {
					on, onH = true, blocks[bid].Height
				}
			}
			_, hgt, err := n.Store.GetTransaction(h)
			if (err == nil) != on {
				shape := "missing-on-active-chain"
				if err == nil {
					shape = "stale-after-disconnect"
				}
				rep.Violation("C15:indexed-tx-cache:"+shape, fmt.Sprintf(
					"after %s: lookup of the output-less transaction carried by block(s) %v: found=%v at height %d, a carrying block on the active chain=%v",
					what, bids, err == nil, hgt, on), c)
			} else if err == nil && hgt != onH {
				rep.Violation("C14:tx-location:output-less", fmt.Sprintf("after %s: transaction of block(s) %v reported at height %d, on the active chain at height %d",
					what, bids, hgt, onH), c)
			}
		}
		// ---- conformance with the spec ----
		verdict := rep.Str(st, "verdict")
		if perr != nil || orphan {
			rep.Mismatch(fmt.Sprintf("%s = (%v, %v, %v) for a valid block on a known parent", what, inMain, orphan, perr), c)
			return false
		}
		var em []int
		for _, x := range rep.List(st, "main") {
			em = append(em, int(x.(float64)))
		}
		if fmt.Sprint(em) != fmt.Sprint(mainAfter) {
			key := "C30:chain:" + act + ":" + verdict
			if verdict == "refused" {
				key = "C30:irreversible-reorg-not-refused:" + act
			}
			rep.Violation(key, fmt.Sprintf("after %s [%s]: active chain real %v, spec %v (before %v)", what, verdict, mainAfter, em, mainBefore), c)
			return false
		}
		if act == "Mine" && inMain != (verdict == "extended" || verdict == "reorganized") {
			rep.Violation("C30:result-flag:"+verdict, fmt.Sprintf("ProcessBlock(%d) inMain=%v, spec verdict %s", id, inMain, verdict), c)
			return false
		}
		if int(lihAfter) != rep.Int(st, "lih") {
			rep.Violation("C30:irreversible-height:"+verdict, fmt.Sprintf("after %s [%s] at height %d: last irreversible height real %d, spec %d",
				what, verdict, hAfter, lihAfter, rep.Int(st, "lih")), c)
			return false
		}
		if m := rep.Str(st, "mode"); m != "" && m != modeAfter {
			rep.Violation("C30:consensus-mode:"+verdict, fmt.Sprintf("after %s [%s] at height %d: consensus mode real %s, spec %s",
				what, verdict, hAfter, modeAfter, m), c)
			return false
		}
		var ed []int
		for _, x := range rep.List(st, "detached") {
			ed = append(ed, int(x.(float64)))
		}
		if fmt.Sprint(ed) != fmt.Sprint(detached) {
			rep.Violation("C30:detached-blocks:"+verdict, fmt.Sprintf("%s: detached heights real %v, spec %v", what, detached, ed), c)
			return false
		}
	}
	return true
}

func main() {
	if len(os.Args) < 3 {
		fmt.Fprintln(os.Stderr, "usage: irrev replay <file> [i n]")
		os.Exit(3)
	}
	stack.InitGlobals()
	defer stack.CleanupGlobals()
	if v := os.Getenv("VERIF_IRREV_BASE"); v != "" {
		base, _ = strconv.Atoi(v)
	}
	behs := rep.ReadBehaviours(os.Args[2])
	si, sn := 0, 1
	if len(os.Args) >= 5 {
		si, _ = strconv.Atoi(os.Args[3])
		sn, _ = strconv.Atoi(os.Args[4])
	}
	okN, cases, steps := 0, 0, 0
	var sample interface{}
	for i, b := range behs {
		if i%sn != si {
			continue
		}
		cases++
		steps += len(b)
		if replayOne(b) {
			okN++
		}
		if sample == nil {
			sample = b
		}
	}
	rep.Summary(cases, map[string]interface{}{"steps": steps, "agree": okN}, sample)
}
