// Replay driver for spec/Chain/Irreversible.tla on a full-stack regnet node in
// DPoS mode (C30).
//
//	irrev replay <behaviours.jsonl> [i n]
package main

import (
	"fmt"
	"os"
	"strconv"

	"github.com/elastos/Elastos.ELA/common"
	"github.com/elastos/Elastos.ELA/common/config"
	"github.com/elastos/Elastos.ELA/core/types"
	"verif/harness/internal/rep"
	"verif/harness/internal/stack"
)

const base = 3

func tweak(p *config.Configuration) {
	// DPoS bookkeeping from the first blocks on (see DESIGN.md C30): the arbiter
	// state processes every block, irreversibility starts at RevertToPOWStartHeight.
	p.VoteStartHeight = 1
	p.DPoSConfiguration.PreConnectOffset = 1
	p.CRCOnlyDPOSHeight = 3
	p.DPoSConfiguration.RevertToPOWStartHeight = 7
}

func mainIDs(n *stack.Node, idOf map[common.Uint256]int) []int {
	var r []int
	for h := uint32(base + 1); h <= n.Chain.GetHeight(); h++ {
		hash, err := n.Chain.GetBlockHash(h)
		id := -1
		if err == nil {
			if v, ok := idOf[hash]; ok {
				id = v
			}
		}
		r = append(r, id)
	}
	return r
}

func replayOne(b rep.Behaviour) bool {
	n, err := stack.New(stack.Options{Tweak: tweak})
	if err != nil {
		rep.Mismatch("cannot build node: "+err.Error(), nil)
		return false
	}
	defer n.Close()
	blocks := map[int]*types.Block{}
	idOf := map[common.Uint256]int{}
	heightOf := map[common.Uint256]uint32{}
	parent := n.Genesis()
	for i := 0; i < base; i++ {
		blk, err := n.NewBlock(parent, nil, stack.BlockOpts{})
		if err == nil {
			_, _, err = n.Process(blk)
		}
		if err != nil {
			rep.Mismatch(fmt.Sprintf("prefix block %d: %v", i, err), nil)
			return false
		}
		parent = blk
	}
	blocks[0] = parent
	maxLIH := uint32(0)
	for i, st := range b {
		a := st.Args()
		id := rep.Int(a, "id")
		blk, err := n.NewBlock(blocks[rep.Int(a, "parent")], nil, stack.BlockOpts{})
		if err != nil {
			rep.Mismatch("block factory: "+err.Error(), b[:i+1])
			return false
		}
		blocks[id] = blk
		idOf[blk.Hash()] = id
		heightOf[blk.Hash()] = blk.Height
		lihBefore := n.Arbiters.State.GetLastIrreversibleHeight()
		hBefore := n.Chain.GetHeight()
		mainBefore := mainIDs(n, idOf)
		n.Drain()
		var inMain, orphan bool
		var perr error
		var pan interface{}
		func() {
			defer func() { pan = recover() }()
			inMain, orphan, perr = n.Process(blk)
		}()
		c := map[string]interface{}{"behaviour": b[:i+1]}
		if pan != nil {
			rep.Violation("C03:panic:ProcessBlock", fmt.Sprintf("ProcessBlock panicked: %v", pan), c)
			return false
		}
		lihAfter := n.Arbiters.State.GetLastIrreversibleHeight()
		hAfter := n.Chain.GetHeight()
		mainAfter := mainIDs(n, idOf)
		var detached []int
		for _, e := range n.Drain() {
			if e.Kind == "disconnect" {
				detached = append(detached, int(heightOf[e.Hash]))
				if h, ok := heightOf[e.Hash]; !ok {
					detached[len(detached)-1] = -1
				} else if h <= lihBefore {
					// ---- C30, evaluated on the real node ----
					rep.Violation("C30:detach-at-or-below-irreversible", fmt.Sprintf(
						"block at height %d was detached although the last irreversible height was %d", h, lihBefore), c)
				}
			}
		}
		c["real"] = fmt.Sprintf("inMain=%v orphan=%v err=%v main=%v lih=%d height=%d detached=%v", inMain, orphan, perr, mainAfter, lihAfter, hAfter, detached)
		if hAfter > hBefore && lihAfter < lihBefore {
			rep.Violation("C30:irreversible-height-decreased", fmt.Sprintf(
				"height grew %d -> %d but the last irreversible height fell %d -> %d", hBefore, hAfter, lihBefore, lihAfter), c)
		}
		if lihAfter > maxLIH {
			maxLIH = lihAfter
		}
		// ---- conformance with the spec ----
		verdict := rep.Str(st, "verdict")
		if perr != nil || orphan {
			rep.Mismatch(fmt.Sprintf("ProcessBlock(%d) = (%v, %v, %v) for a valid block on a known parent", id, inMain, orphan, perr), c)
			return false
		}
		var em []int
		for _, x := range rep.List(st, "main") {
			em = append(em, int(x.(float64)))
		}
		if fmt.Sprint(em) != fmt.Sprint(mainAfter) {
			key := "C30:chain:" + verdict
			if verdict == "refused" {
				key = "C30:irreversible-reorg-not-refused"
			}
			rep.Violation(key, fmt.Sprintf("after Mine(%d) [%s]: active chain real %v, spec %v (before %v)", id, verdict, mainAfter, em, mainBefore), c)
			return false
		}
		if inMain != (verdict == "extended" || verdict == "reorganized") {
			rep.Violation("C30:result-flag:"+verdict, fmt.Sprintf("ProcessBlock(%d) inMain=%v, spec verdict %s", id, inMain, verdict), c)
			return false
		}
		if int(lihAfter) != rep.Int(st, "lih") {
			rep.Violation("C30:irreversible-height:"+verdict, fmt.Sprintf("after Mine(%d) [%s] at height %d: last irreversible height real %d, spec %d",
				id, verdict, hAfter, lihAfter, rep.Int(st, "lih")), c)
			return false
		}
		var ed []int
		for _, x := range rep.List(st, "detached") {
			ed = append(ed, int(x.(float64)))
		}
		if fmt.Sprint(ed) != fmt.Sprint(detached) {
			rep.Violation("C30:detached-blocks:"+verdict, fmt.Sprintf("Mine(%d): detached heights real %v, spec %v", id, detached, ed), c)
			return false
		}
	}
	return true
}

func main() {
	if len(os.Args) < 3 {
		fmt.Fprintln(os.Stderr, "usage: irrev replay <file> [i n]")
		os.Exit(3)
	}
	stack.InitGlobals()
	defer stack.CleanupGlobals()
	behs := rep.ReadBehaviours(os.Args[2])
	si, sn := 0, 1
	if len(os.Args) >= 5 {
		si, _ = strconv.Atoi(os.Args[3])
		sn, _ = strconv.Atoi(os.Args[4])
	}
	okN, cases, steps := 0, 0, 0
	var sample interface{}
	for i, b := range behs {
		if i%sn != si {
			continue
		}
		cases++
		steps += len(b)
		if replayOne(b) {
			okN++
		}
		if sample == nil {
			sample = b
		}
	}
	rep.Summary(cases, map[string]interface{}{"steps": steps, "agree": okN}, sample)
}
