// Case driver for spec/Policy/Withdraw.tla (C33): Schnorr (payload v2)
// side-chain withdrawals built with real aggregated keys and signatures, spending
// real cross-chain outputs on a full-stack node, checked by
// CheckTransactionSanity + CheckTransactionContext.
//
//	withdraw run <cases.jsonl>
package main

import (
	"bytes"
	"fmt"
	"math"
	"math/big"
	"os"

	"github.com/elastos/Elastos.ELA/blockchain"
	"github.com/elastos/Elastos.ELA/common"
	"github.com/elastos/Elastos.ELA/core"
	"github.com/elastos/Elastos.ELA/core/contract"
	pg "github.com/elastos/Elastos.ELA/core/contract/program"
	"github.com/elastos/Elastos.ELA/core/types"
	common2 "github.com/elastos/Elastos.ELA/core/types/common"
	"github.com/elastos/Elastos.ELA/core/types/functions"
	"github.com/elastos/Elastos.ELA/core/types/interfaces"
	"github.com/elastos/Elastos.ELA/core/types/outputpayload"
	"github.com/elastos/Elastos.ELA/core/types/payload"
	"github.com/elastos/Elastos.ELA/crypto"
	"github.com/elastos/Elastos.ELA/database"
	"github.com/elastos/Elastos.ELA/dpos/state"
	"verif/harness/internal/rep"
	"verif/harness/internal/stack"
)

func h256(tag string) common.Uint256 {
	var h common.Uint256
	copy(h[:], []byte("c33-side-tx-"+tag))
	return h
}

func aggregate(keys []*stack.Key) (code []byte, privs []*big.Int, err error) {
	px, py := new(big.Int), new(big.Int)
	for _, k := range keys {
		x, y := crypto.Curve.ScalarBaseMult(k.Acc.PrivateKey)
		px, py = crypto.Curve.Add(px, py, x, y)
		privs = append(privs, new(big.Int).SetBytes(k.Acc.PrivateKey))
	}
	pub, err := crypto.DecodePoint(crypto.Marshal(crypto.Curve, px, py))
	if err != nil {
		return nil, nil, err
	}
	code, err = contract.CreateSchnorrRedeemScript(pub)
	return code, privs, err
}

func main() {
	if len(os.Args) < 3 {
		fmt.Fprintln(os.Stderr, "usage: withdraw run <cases.jsonl>")
		os.Exit(3)
	}
	stack.InitGlobals()
	defer stack.CleanupGlobals()
	n, err := stack.New(stack.Options{})
	if err != nil {
		fmt.Fprintln(os.Stderr, err)
		os.Exit(3)
	}
	defer n.Close()
	k, a := stack.KeyFromSeed(600), stack.KeyFromSeed(601)
	var arb []*stack.Key
	for i := 0; i < 38; i++ {
		arb = append(arb, stack.KeyFromSeed(uint64(610+i)))
	}
	parent := n.Genesis()
	var prefix []*types.Block
	for i := 0; i < 3; i++ {
		b, err := n.NewBlock(parent, nil, stack.BlockOpts{CoinbaseTo: &k.Hash})
		if err == nil {
			_, _, err = n.Process(b)
		}
		if err != nil {
			fmt.Fprintln(os.Stderr, "prefix:", err)
			os.Exit(3)
		}
		prefix = append(prefix, b)
		parent = b
	}
	// funding: one cross-chain ("X") output and one standard output
	var xhash common.Uint168
	copy(xhash[:], []byte("Kverif-side-chain-bank"))
	xhash[0] = byte(contract.PrefixCrossChain)
	cb := prefix[0].Transactions[0]
	v := cb.Outputs()[1].Value
	fund, _ := stack.Transfer([]common2.OutPoint{{TxID: cb.Hash(), Index: 1}},
		[]stack.Out{{To: xhash, Value: v / 2}, {To: k.Hash, Value: v/2 - 10000}}, []*stack.Key{k}, 3)
	fb, err := n.NewBlock(parent, []interfaces.Transaction{fund}, stack.BlockOpts{Fees: v - v/2 - (v/2 - 10000)})
	if err == nil {
		_, _, err = n.Process(fb)
	}
	if err != nil {
		fmt.Fprintln(os.Stderr, "funding block:", err)
		os.Exit(3)
	}
	xin := common2.OutPoint{TxID: fund.Hash(), Index: 0}
	sin := common2.OutPoint{TxID: fund.Hash(), Index: 1}
	xval, sval := v/2, v/2-10000
	// a side-chain transaction hash that was already withdrawn on the active chain
	usedHash := h256("used")
	err = n.Store.GetFFLDB().Update(func(dbTx database.Tx) error {
		if e := blockchain.TryCreateBucket(dbTx, common.Tx3IndexBucketName); e != nil {
			return e
		}
		return blockchain.DBPutData(dbTx, common.Tx3IndexBucketName, usedHash[:], common.Tx3IndexValue)
	})
	if err != nil {
		fmt.Fprintln(os.Stderr, "tx3 setup:", err)
		os.Exit(3)
	}
	height := n.Chain.GetHeight() + 1
	p := n.Params
	p.SchnorrStartHeight = 1
	p.NormalSchnorrStartHeight = 1
	p.CRConfiguration.CRClaimDPOSNodeStartHeight = 0
	n.Arbiters.State.ConsensusAlgorithm = state.DPOS
	realArbiters := blockchain.DefaultLedger.Arbitrators
	defer func() { blockchain.DefaultLedger.Arbitrators = realArbiters }()

	cases := rep.ReadCases(os.Args[2])
	agree, panics, fresh := 0, 0, 0
	var sample interface{}
	for ci, c := range cases {
		N := rep.Int(c, "n")
		p.CRConfiguration.MemberCount = uint32(N)
		if rep.Str(c, "band") == "mid" {
			p.DPoSConfiguration.DPOSNodeCrossChainHeight = math.MaxUint32
		} else {
			p.DPoSConfiguration.DPOSNodeCrossChainHeight = 1
		}
		if rep.Bool(c, "restricted") {
			p.CrossChainUTXOFreezeHeight, p.CrossChainUTXORestrictionHeight = height, height
		} else {
			p.CrossChainUTXOFreezeHeight, p.CrossChainUTXORestrictionHeight = math.MaxUint32, math.MaxUint32
		}
		var members []state.ArbiterMember
		for i := 0; i < N; i++ {
			pk, _ := arb[i].Acc.PublicKey.EncodePoint(true)
			m, _ := state.NewOriginArbiter(pk)
			members = append(members, m)
		}
		blockchain.DefaultLedger.Arbitrators = state.NewArbitratorsMock(members, 0, N*2/3)
		var signers []uint8
		var keys []*stack.Key
		for _, s := range rep.List(c, "signers") {
			i := int(s.(float64))
			signers = append(signers, uint8(i))
			if i < N {
				keys = append(keys, arb[i])
			}
		}
		progKeys := keys
		if rep.Str(c, "prog") == "other" {
			progKeys = append([]*stack.Key{arb[37]}, keys...) // a key that is not a listed signer
		}
		hash := usedHash
		if !rep.Bool(c, "used") {
			fresh++
			hash = h256(fmt.Sprint("fresh-", ci))
		}
		inputs := []*common2.Input{{Previous: xin}}
		total := xval
		if !rep.Bool(c, "allX") {
			inputs = append(inputs, &common2.Input{Previous: sin})
			total += sval
		}
		attr := common2.NewAttribute(common2.Nonce, []byte(fmt.Sprint("c33-", ci)))
		tx := functions.CreateTransaction(common2.TxVersion09, common2.WithdrawFromSideChain, payload.WithdrawFromSideChainVersionV2,
			&payload.WithdrawFromSideChain{Signers: signers}, []*common2.Attribute{&attr}, inputs,
			[]*common2.Output{{AssetID: core.ELAAssetID, Value: total - 10000, ProgramHash: a.Hash, Type: common2.OTWithdrawFromSideChain,
				Payload: &outputpayload.Withdraw{Version: 0, GenesisBlockAddress: "XKUh4GLhFJiqAMTF6HyWQrV9pK9HcGUdfJ",
					SideChainTransactionHash: hash, TargetData: []byte{1}}}}, 0, nil)
		buf := new(bytes.Buffer)
		tx.SerializeUnsigned(buf)
		var progs []*pg.Program
		if rep.Str(c, "prog") == "standard" || len(progKeys) == 0 {
			sig, _ := k.Acc.Sign(buf.Bytes())
			progs = append(progs, &pg.Program{Code: k.Code, Parameter: append([]byte{byte(len(sig))}, sig...)})
		} else {
			code, privs, err := aggregate(progKeys)
			if err != nil {
				rep.Mismatch("aggregate: "+err.Error(), c)
				continue
			}
			sig, err := crypto.AggregateSignatures(privs, common.Sha256D(buf.Bytes()))
			if err != nil {
				rep.Mismatch("aggregate signature: "+err.Error(), c)
				continue
			}
			progs = append(progs, &pg.Program{Code: code, Parameter: sig[:]})
		}
		if !rep.Bool(c, "allX") && rep.Str(c, "prog") != "standard" {
			sig, _ := k.Acc.Sign(buf.Bytes())
			progs = append(progs, &pg.Program{Code: k.Code, Parameter: append([]byte{byte(len(sig))}, sig...)})
		}
		tx.SetPrograms(progs)
		var verr error
		var pan interface{}
		func() {
			defer func() { pan = recover() }()
			if e := n.Chain.CheckTransactionSanity(height, tx); e != nil {
				verr = e
			} else if _, e := n.Chain.CheckTransactionContext(height, tx, 0, 0); e != nil {
				verr = e
			}
		}()
		if pan != nil {
			panics++
			if !rep.Bool(c, "panics") {
				rep.Violation("C03:panic:withdraw-check", fmt.Sprintf("validation of a Schnorr withdrawal panicked: %v", pan), c)
			}
			continue // an out-of-range index below the restriction height: C03's subject
		}
		auth := rep.Bool(c, "authorised")
		c2 := map[string]interface{}{"case": c, "error": fmt.Sprint(verr)}
		switch {
		case verr == nil && !auth:
			key := "C33:unauthorised-withdrawal-accepted"
			if rep.Bool(c, "used") && rep.Bool(c, "accept") == false && rep.Bool(c, "allX") {
				key = "C33:withdrawn-hash-accepted-again"
			}
			rep.Violation(key, fmt.Sprintf("accepted: n=%d band=%s signers=%v restricted=%v allX=%v program=%s already-withdrawn=%v",
				N, rep.Str(c, "band"), signers, rep.Bool(c, "restricted"), rep.Bool(c, "allX"), rep.Str(c, "prog"), rep.Bool(c, "used")), c2)
		case verr != nil && auth && !rep.Bool(c, "panics"):
			rep.Mismatch(fmt.Sprintf("an authorised withdrawal was rejected: %v", verr), c2)
		default:
			agree++
		}
		if sample == nil && auth {
			sample = c
		}
	}
	rep.Summary(len(cases), map[string]interface{}{"agree": agree, "panicked_as_modelled": panics, "fresh_hash_cases": fresh}, sample)
}
