// Driver for spec/Edge/Bloom.tla -> elanet/bloom Filter / TxFilter (C39).
//
//	bloom replay <behaviours.jsonl> <quick|thorough>
//
// Every behaviour (explicit additions and MatchTxAndUpdate calls, for an update mode and with an
// ordinary or the side-chain tweak) is run on real filters of every size x hash-function count x
// tweak, built by LoadFilter, by NewFilter and through TxFilter.Load.  The spec is a one-sided
// oracle: after every step every item of the spec's `added` set must match, and a transaction
// the spec says must match has to.  In side-chain mode (tweak 0xffffffff) the verdict is also
// compared exactly with the mode's rule evaluated on the real filter's own Matches(), and the
// bit array must not change.
package main

import (
	"bytes"
	"fmt"
	"math/rand"
	"os"
	"sort"

	"github.com/elastos/Elastos.ELA/common"
	"github.com/elastos/Elastos.ELA/core/contract/program"
	"github.com/elastos/Elastos.ELA/core/transaction"
	common2 "github.com/elastos/Elastos.ELA/core/types/common"
	"github.com/elastos/Elastos.ELA/core/types/functions"
	"github.com/elastos/Elastos.ELA/core/types/interfaces"
	"github.com/elastos/Elastos.ELA/core/types/outputpayload"
	"github.com/elastos/Elastos.ELA/core/types"
	"github.com/elastos/Elastos.ELA/core/types/payload"
	"github.com/elastos/Elastos.ELA/crypto"
	"github.com/elastos/Elastos.ELA/elanet/bloom"
	"github.com/elastos/Elastos.ELA/elanet/filter"
	"github.com/elastos/Elastos.ELA/p2p/msg"

	"verif/harness/internal/rep"
)

var rng *rand.Rand

// ---- the concrete world behind the spec's items ----------------------------------------

type world struct {
	ph  map[int]common.Uint168
	ext map[int]common2.OutPoint
	txs map[int]interfaces.Transaction
}

// templates must mirror Templates in Bloom.tla: outputs (program hash numbers) and inputs
// (outpoints [tx, index]; tx 0 = outside the templates).
var templates = []struct {
	outs []int
	ins  [][2]int
}{
	{[]int{1}, [][2]int{{0, 1}}},
	{[]int{2, 1}, [][2]int{{1, 0}}},
	{[]int{3}, [][2]int{{2, 1}, {0, 2}}},
	{[]int{3, 3}, [][2]int{{0, 3}}},
}

func newWorld() *world {
	w := &world{ph: map[int]common.Uint168{}, ext: map[int]common2.OutPoint{}, txs: map[int]interfaces.Transaction{}}
	prefix := map[int]byte{1: 0x21, 2: 0x12, 3: 0x4b} // standard, multisig, cross chain
	for i := 1; i <= 3; i++ {
		var p common.Uint168
		rng.Read(p[:])
		p[0] = prefix[i]
		w.ph[i] = p
		var id common.Uint256
		rng.Read(id[:])
		w.ext[i] = common2.OutPoint{TxID: id, Index: uint16(rng.Intn(4))}
	}
	for j, t := range templates {
		var ins []*common2.Input
		for _, in := range t.ins {
			ins = append(ins, &common2.Input{Previous: w.outpoint(in[0], in[1]), Sequence: 0})
		}
		var outs []*common2.Output
		for k, p := range t.outs {
			var asset common.Uint256
			rng.Read(asset[:])
			outs = append(outs, &common2.Output{AssetID: asset, Value: common.Fixed64(100 + k), ProgramHash: w.ph[p],
				Type: common2.OTNone, Payload: &outputpayload.DefaultOutput{}})
		}
		if j+1 == 4 { // TxType(4) = "record" in the spec
			w.txs[j+1] = functions.CreateTransaction(common2.TxVersion09, common2.Record, 0,
				&payload.Record{Type: "verif", Content: []byte{1, 2, 3}}, []*common2.Attribute{}, ins, outs, 0, []*program.Program{})
		} else {
			w.txs[j+1] = functions.CreateTransaction(common2.TxVersion09, common2.TransferAsset, 0, &payload.TransferAsset{},
				[]*common2.Attribute{}, ins, outs, 0, []*program.Program{})
		}
	}
	return w
}

func (w *world) outpoint(j, i int) common2.OutPoint {
	if j == 0 {
		return w.ext[i]
	}
	return common2.OutPoint{TxID: w.txs[j].Hash(), Index: uint16(i)}
}

// item bytes as they are added to / looked up in a filter
func (w *world) item(v interface{}) (kind string, data []byte, op *common2.OutPoint, err error) {
	a, ok := v.([]interface{})
	if !ok || len(a) < 2 {
		return "", nil, nil, fmt.Errorf("bad item %v", v)
	}
	tag, _ := a[0].(string)
	switch tag {
	case "ph":
		p := w.ph[int(a[1].(float64))]
		return "data", p[:], nil, nil
	case "tx":
		h := w.txs[int(a[1].(float64))].Hash()
		return "txid", h[:], nil, nil
	case "op":
		o := w.outpoint(int(a[1].(float64)), int(a[2].(float64)))
		return "outpoint", o.Bytes(), &o, nil
	}
	return "", nil, nil, fmt.Errorf("bad item tag %q", tag)
}

// ---- real filters ---------------------------------------------------------------------------

type real struct {
	p     param
	tweak uint32
	name  string
	f     *bloom.Filter   // direct
	tf    filter.TxFilter // through TxFilter (Load / Add / MatchConfirmed)
	side  bool
	empty bool
	types map[common2.TxType]bool
}

type param struct {
	name  string
	size  int
	funcs uint32
	ctor  bool // bloom.NewFilter(elements=size, tweak, fprate)
	fp    float64
}

func params(thorough bool) []param {
	ps := []param{}
	sizes := []int{0, 1, 8, 36000}
	funcs := []uint32{0, 1, 3, 50}
	for _, s := range sizes {
		for _, f := range funcs {
			if !thorough && ((s == 8 && f == 3) || (s == 36000 && f == 1) || (f == 0 && s != 8)) {
				continue
			}
			ps = append(ps, param{name: fmt.Sprintf("load(size=%d,funcs=%d)", s, f), size: s, funcs: f})
		}
	}
	ps = append(ps, param{name: "new(elements=1,fp=0.5)", size: 1, ctor: true, fp: 0.5},
		param{name: "new(elements=100,fp=1e-6)", size: 100, ctor: true, fp: 1e-6},
		param{name: "new(elements=3,fp=2.0)", size: 3, ctor: true, fp: 2.0})
	return ps
}

// isEmpty: the filter built from p has a zero-length bit array
func (p param) isEmpty() bool {
	if p.ctor {
		return len(bloom.NewFilter(uint32(p.size), 0, p.fp).GetFilterLoadMsg().Filter) == 0
	}
	return p.size == 0
}

func flagsOf(mode string) uint8 {
	switch mode {
	case "all":
		return 1
	case "p2pk":
		return 2
	}
	return 0
}

func build(p param, tweak uint32, mode string, types []common2.TxType) (r *real, pan interface{}) {
	defer func() {
		if x := recover(); x != nil {
			pan = x
		}
	}()
	r = &real{name: fmt.Sprintf("%s tweak=%#x", p.name, tweak), p: p, tweak: tweak}
	var fl *msg.FilterLoad
	if p.ctor {
		r.f = bloom.NewFilter(uint32(p.size), tweak, p.fp)
		fl = r.f.GetFilterLoadMsg()
		fl.Flags = flagsOf(mode)
		fl.TxTypes = types
	} else {
		fl = &msg.FilterLoad{Filter: make([]byte, p.size), HashFuncs: p.funcs, Tweak: tweak, Flags: flagsOf(mode), TxTypes: types}
		r.f = bloom.LoadFilter(fl)
	}
	buf := new(bytes.Buffer)
	cp := &msg.FilterLoad{Filter: append([]byte{}, fl.Filter...), HashFuncs: fl.HashFuncs, Tweak: fl.Tweak, Flags: fl.Flags, TxTypes: types}
	if err := cp.Serialize(buf); err != nil {
		panic(err)
	}
	r.empty = len(fl.Filter) == 0
	r.types = map[common2.TxType]bool{}
	for _, t := range types {
		r.types[t] = true
	}
	r.tf = bloom.NewTxFilter()
	if err := r.tf.Load(buf.Bytes()); err != nil {
		panic(err)
	}
	return r, nil
}

func guard(f func()) (pan interface{}) {
	defer func() {
		if x := recover(); x != nil {
			pan = x
		}
	}()
	f()
	return nil
}

func main() {
	if len(os.Args) < 3 || (os.Args[1] != "replay" && os.Args[1] != "block") {
		fmt.Fprintln(os.Stderr, "usage: bloom replay|block <behaviours.jsonl> [quick|thorough]")
		os.Exit(3)
	}
	thorough := len(os.Args) > 3 && os.Args[3] == "thorough"
	blockMode := os.Args[1] == "block"
	functions.GetTransactionByTxType = transaction.GetTransaction
	functions.GetTransactionByBytes = transaction.GetTransactionByBytes
	functions.CreateTransaction = transaction.CreateTransaction
	rng = rand.New(rand.NewSource(rep.Seed()*32452843 + 39))
	w := newWorld()
	tweaks := []uint32{0, 1, rng.Uint32(), 0xfffffffe}
	if !thorough {
		tweaks = []uint32{0, rng.Uint32(), 0xfffffffe}
	}
	ps := params(thorough)
	behs := rep.ReadBehaviours(os.Args[2])
	nRuns, nSteps, nQueries := 0, 0, 0
	falsePos := 0
	var samples []interface{}
	for bi, b := range behs {
		if len(b) == 0 {
			continue
		}
		// the filter's mode is not an action: it is recorded in the first step's arguments by the recipe
		mode := rep.Str(b[0], "mode")
		side := rep.Bool(b[0], "side")
		tws := tweaks
		var types []common2.TxType
		if side {
			tws = []uint32{0xffffffff}
			for _, t := range rep.List(b[0], "listed") {
				switch t {
				case "transfer":
					types = append(types, common2.TransferAsset)
				case "record":
					types = append(types, common2.Record)
				}
			}
		}
		for _, p := range ps {
			if side && (p.isEmpty() == rep.Bool(b[0], "bits")) {
				continue // side-chain behaviours state whether the filter has a bit array
			}
			for _, tw := range tws {
				nRuns++
				r, pan := build(p, tw, mode, types)
				if pan != nil {
					rep.Violation("C39:panic:build", fmt.Sprintf("creating filter %s panicked: %v", p.name, pan), b)
					continue
				}
				r.side = side
				if blockMode {
					if !side {
						nSteps += runBlock(w, p, tw, r, b, mode)
					}
					continue
				}
				s, q, fp := runBehaviour(w, r, b, mode)
				nSteps += s
				nQueries += q
				falsePos += fp
			}
		}
		if bi%400 == 0 && len(samples) < 4 {
			samples = append(samples, map[string]interface{}{"mode": mode, "side": side, "steps": len(b), "filters": len(ps) * len(tws)})
		}
	}
	rep.Summary(len(behs), map[string]interface{}{"filter_runs": nRuns, "steps": nSteps, "membership_queries": nQueries,
		"filters_per_behaviour": len(ps) * len(tweaks), "unforced_matches": falsePos}, samples...)
}

func short(b rep.Behaviour, upto int) []interface{} {
	var r []interface{}
	for i := 0; i <= upto && i < len(b); i++ {
		r = append(r, map[string]interface{}{"act": b[i].Act(), "args": b[i].Args()})
	}
	return r
}

func runBehaviour(w *world, r *real, b rep.Behaviour, mode string) (steps, queries, unforced int) {
	for si, st := range b {
		steps++
		a := st.Args()
		ctx := map[string]interface{}{"filter": r.name, "mode": mode, "side": r.side, "steps": short(b, si)}
		switch st.Act() {
		case "Add":
			kind, data, op, err := w.item(a["item"])
			if err != nil {
				rep.Mismatch(err.Error(), ctx)
				return
			}
			pan := guard(func() {
				switch kind {
				case "txid":
					var h common.Uint256
					copy(h[:], data)
					r.f.AddHash(&h)
				case "outpoint":
					r.f.AddOutPoint(op)
				default:
					r.f.Add(data)
				}
				if err := r.tf.Add(data); err != nil {
					panic(err)
				}
			})
			if pan != nil {
				rep.Violation("C39:panic:add", fmt.Sprintf("adding a %s to filter %s panicked: %v", kind, r.name, pan), ctx)
				return
			}
		case "Reload":
			// another filter of ANOTHER size (same hash count / tweak / flags) holding the given items,
			// built by the real code, is loaded over this one: Filter.Reload and TxFilter.Load again
			dp := r.p
			switch {
			case dp.ctor:
				dp.size = dp.size*10 + 7
			case dp.size == 8:
				dp.size = 36000
			default:
				dp.size = 8
			}
			var donor *real
			pan := guard(func() {
				var bp interface{}
				donor, bp = build(dp, r.tweak, mode, nil)
				if bp != nil {
					panic(bp)
				}
				for _, x := range rep.List(a, "items") {
					kind, data, op, err := w.item(x)
					if err != nil {
						panic(err)
					}
					switch kind {
					case "txid":
						var h common.Uint256
						copy(h[:], data)
						donor.f.AddHash(&h)
					case "outpoint":
						donor.f.AddOutPoint(op)
					default:
						donor.f.Add(data)
					}
				}
				fl := donor.f.GetFilterLoadMsg()
				fl.Flags = flagsOf(mode)
				buf := new(bytes.Buffer)
				if err := fl.Serialize(buf); err != nil {
					panic(err)
				}
				r.f.Reload(fl)
				if err := r.tf.Load(buf.Bytes()); err != nil {
					panic(err)
				}
			})
			if pan != nil {
				rep.Violation("C39:panic:reload", fmt.Sprintf("reloading filter %s with a filter of another size panicked: %v", r.name, pan), ctx)
				return
			}
		case "MatchTx":
			j := rep.Int(a, "tx")
			tx := w.txs[j]
			var got, got2 bool
			// side-chain rule evaluated on the real filter's own membership answers, before the call
			var ruleReal bool
			var before []byte
			if r.side {
				before = append([]byte{}, r.f.GetFilterLoadMsg().Filter...)
				ruleReal = r.types[tx.TxType()]
				if !r.empty {
					for _, o := range tx.Outputs() {
						if r.f.Matches(o.ProgramHash[:]) {
							ruleReal = true
						}
					}
				}
			}
			pan := guard(func() {
				got = r.f.MatchTxAndUpdate(tx)
				got2 = r.tf.MatchConfirmed(tx)
			})
			if pan != nil {
				rep.Violation("C39:panic:matchtx", fmt.Sprintf("MatchTxAndUpdate on filter %s panicked: %v", r.name, pan), ctx)
				return
			}
			must, why := rep.Bool(st, "must"), rep.Str(st, "why")
			for k, g := range []bool{got, got2} {
				api := []string{"Filter.MatchTxAndUpdate", "TxFilter.MatchConfirmed"}[k]
				switch {
				case must && !g && r.side:
					rep.Violation("C39:sidechain-mode:missed-"+why, fmt.Sprintf("%s on a side-chain filter (tweak 0xffffffff, types %v) does not match "+
						"transaction T%d although the mode's rule says it must (%s) (filter %s)", api, rep.List(st, "listed"), j, why, r.name), ctx)
					return
				case must && !g:
					rep.Violation("C39:false-negative:tx-"+why, fmt.Sprintf("%s does not match transaction T%d although a watched item is its %s "+
						"(filter %s, update mode %s)", api, j, why, r.name, mode), ctx)
					return
				case r.side && g != ruleReal:
					rep.Violation("C39:sidechain-mode:verdict", fmt.Sprintf("%s on a side-chain filter (tweak 0xffffffff, types %v) returns %v for "+
						"transaction T%d; the mode's rule (type listed, or an output's program hash matches a non-empty filter) gives %v (filter %s)",
						api, rep.List(st, "listed"), g, j, ruleReal, r.name), ctx)
					return
				case !must && g:
					unforced++
				}
			}
			if r.side && !bytes.Equal(before, r.f.GetFilterLoadMsg().Filter) {
				rep.Violation("C39:sidechain-mode:updated", fmt.Sprintf("MatchTxAndUpdate changed the bit array of a side-chain filter (tweak 0xffffffff) "+
					"for transaction T%d; the mode never updates (filter %s)", j, r.name), ctx)
				return
			}
		default:
			rep.Mismatch("unknown action "+st.Act(), ctx)
			return
		}
		// projection: everything the spec says is in the filter must match
		items := append([]interface{}{}, rep.List(st, "added")...)
		sort.Slice(items, func(i, k int) bool { return fmt.Sprint(items[i]) < fmt.Sprint(items[k]) })
		for _, x := range items {
			kind, data, op, err := w.item(x)
			if err != nil {
				rep.Mismatch(err.Error(), ctx)
				return
			}
			var m bool
			pan := guard(func() {
				if op != nil {
					m = r.f.MatchesOutPoint(op)
				} else {
					m = r.f.Matches(data)
				}
			})
			queries++
			if pan != nil {
				rep.Violation("C39:panic:matches", fmt.Sprintf("Matches on filter %s panicked: %v", r.name, pan), ctx)
				return
			}
			if !m {
				rep.Violation("C39:false-negative:"+kind, fmt.Sprintf("filter %s does not match the %s %v that is in it (update mode %s)", r.name, kind, x, mode), ctx)
				return
			}
		}
	}
	return
}

// runBlock (C08, the filter half): the behaviour's additions are loaded into a filter, its
// MatchTx steps - distinct transactions, in that order - are the transactions of one block.
// The merkle block served for that filter (both copies of the builder: the one over a bloom
// Filter and the one over a filter.Filter holding a bloom TxFilter) must let the client
// recover every transaction the protocol's matching rule (Bloom.tla) says matches: matched by
// id, by an output paying a watched item, or by spending an output that matched earlier in
// the same block (update mode permitting).
func runBlock(w *world, p param, tw uint32, r *real, b rep.Behaviour, mode string) (steps int) {
	ctx := map[string]interface{}{"filter": r.name, "mode": mode, "steps": short(b, len(b)-1)}
	var txs []interfaces.Transaction
	var ids []common.Uint256
	var must []bool
	var whys []string
	var js []int
	// the generic filter of elanet/filter, loaded with the same parameters
	gf := filter.New(func(t uint8) filter.TxFilter {
		if t == filter.FTBloom {
			return bloom.NewTxFilter()
		}
		return nil
	})
	fl := r.f.GetFilterLoadMsg()
	fl.Flags = flagsOf(mode)
	buf := new(bytes.Buffer)
	if err := fl.Serialize(buf); err != nil {
		rep.Mismatch("serialize filter load: "+err.Error(), ctx)
		return
	}
	if err := gf.Load(&msg.TxFilterLoad{Type: filter.FTBloom, Data: buf.Bytes()}); err != nil {
		rep.Mismatch("load generic filter: "+err.Error(), ctx)
		return
	}
	for _, st := range b {
		a := st.Args()
		switch st.Act() {
		case "Add":
			kind, data, op, err := w.item(a["item"])
			if err != nil {
				rep.Mismatch(err.Error(), ctx)
				return
			}
			pan := guard(func() {
				switch kind {
				case "txid":
					var h common.Uint256
					copy(h[:], data)
					r.f.AddHash(&h)
				case "outpoint":
					r.f.AddOutPoint(op)
				default:
					r.f.Add(data)
				}
				if err := gf.Add(data); err != nil {
					panic(err)
				}
			})
			if pan != nil {
				rep.Violation("C39:panic:add", fmt.Sprintf("adding a %s to filter %s panicked: %v", kind, r.name, pan), ctx)
				return
			}
		case "MatchTx":
			j := rep.Int(a, "tx")
			txs = append(txs, w.txs[j])
			ids = append(ids, w.txs[j].Hash())
			must = append(must, rep.Bool(st, "must"))
			whys = append(whys, rep.Str(st, "why"))
			js = append(js, j)
		}
	}
	if len(txs) == 0 {
		return
	}
	root, err := crypto.ComputeRoot(ids)
	if err != nil {
		rep.Mismatch("ComputeRoot: "+err.Error(), ctx)
		return
	}
	blk := &types.Block{Header: common2.Header{Version: 1, MerkleRoot: root, Height: 7}, Transactions: txs}
	type served struct {
		name  string
		m     *msg.MerkleBlock
		idx   []uint32
		check func(msg.MerkleBlock) ([]*common.Uint256, error)
	}
	var out []served
	pan := guard(func() {
		m1, i1 := bloom.NewMerkleBlock(blk, r.f)
		m2, i2 := filter.NewMerkleBlock(blk.Transactions, gf)
		m2.Header = &blk.Header
		out = []served{{"bloom", m1, i1, bloom.CheckMerkleBlock}, {"filter", m2, i2, filter.CheckMerkleBlock}}
	})
	if pan != nil {
		rep.Violation("C08:panic:NewMerkleBlock", fmt.Sprintf("building the merkle block for filter %s panicked: %v", r.name, pan), ctx)
		return
	}
	for _, sv := range out {
		var got []*common.Uint256
		var cerr error
		if pan := guard(func() { got, cerr = sv.check(*sv.m) }); pan != nil {
			rep.Violation("C08:panic:CheckMerkleBlock", fmt.Sprintf("%s.CheckMerkleBlock panicked on a served message: %v", sv.name, pan), ctx)
			return
		}
		if cerr != nil {
			rep.Violation("C08:served-message-rejected", fmt.Sprintf("%s.CheckMerkleBlock rejects the message %s.NewMerkleBlock serves: %v", sv.name, sv.name, cerr), ctx)
			return
		}
		rec := map[common.Uint256]bool{}
		for _, h := range got {
			rec[*h] = true
		}
		inIdx := map[uint32]bool{}
		for _, i := range sv.idx {
			inIdx[i] = true
		}
		for k := range txs {
			steps++
			if must[k] && (!rec[ids[k]] || !inIdx[uint32(k)]) {
				rep.Violation("C08:matching-transaction-not-served:"+whys[k], fmt.Sprintf(
					"%s.NewMerkleBlock for filter %s (update mode %s): transaction T%d at position %d matches the filter (%s) but the client "+
						"recovers %d transactions without it (matched indexes %v)", sv.name, r.name, mode, js[k], k, whys[k], len(got), sv.idx), ctx)
				return
			}
			if rec[ids[k]] != inIdx[uint32(k)] {
				rep.Violation("C08:recovered-differs-from-matched", fmt.Sprintf(
					"%s.NewMerkleBlock: transaction at position %d matched=%v but recovered from the served message=%v", sv.name, k, inIdx[uint32(k)], rec[ids[k]]), ctx)
				return
			}
		}
	}
	return
}
