// Driver for spec/Edge/MerkleBlock.tla -> elanet/bloom, elanet/filter, auxpow, crypto (C08).
//
//	merkleblock replay <cases.jsonl>
//
// Every case TLC enumerated (number of transactions, matched set, one corruption of the
// served message) is executed on the real functions:
//
//	bloom.NewMerkleBlock / filter.NewMerkleBlock   (the message the node serves)
//	bloom.CheckMerkleBlock / filter.CheckMerkleBlock
//	bloom.GetTxMerkleBranch + auxpow.GetMerkleRoot
//	crypto.ComputeRoot                              (the block's header root)
//
// Symbolic hashes of the spec are bound to concrete ones: ["tx",i] is the id of the i-th
// real transaction, ["H",l,r] is sha256d(l||r), ["junk",j] is a real hash with one bit
// flipped (replaced hashes) or a fresh random value.
package main

import (
	"bytes"
	"crypto/sha256"
	"fmt"
	"math/rand"
	"os"

	"github.com/elastos/Elastos.ELA/auxpow"
	"github.com/elastos/Elastos.ELA/common"
	"github.com/elastos/Elastos.ELA/core/contract/program"
	"github.com/elastos/Elastos.ELA/core/transaction"
	"github.com/elastos/Elastos.ELA/core/types"
	common2 "github.com/elastos/Elastos.ELA/core/types/common"
	"github.com/elastos/Elastos.ELA/core/types/functions"
	"github.com/elastos/Elastos.ELA/core/types/interfaces"
	"github.com/elastos/Elastos.ELA/core/types/outputpayload"
	"github.com/elastos/Elastos.ELA/core/types/payload"
	"github.com/elastos/Elastos.ELA/crypto"
	"github.com/elastos/Elastos.ELA/elanet/bloom"
	"github.com/elastos/Elastos.ELA/elanet/filter"
	"github.com/elastos/Elastos.ELA/p2p/msg"

	"verif/harness/internal/rep"
)

const maxTx = 16

var (
	rng *rand.Rand
	txs []interfaces.Transaction
	ids []common.Uint256
)

func randHash() common.Uint256 {
	var h common.Uint256
	rng.Read(h[:])
	return h
}

func setup() {
	functions.GetTransactionByTxType = transaction.GetTransaction
	functions.GetTransactionByBytes = transaction.GetTransactionByBytes
	functions.CreateTransaction = transaction.CreateTransaction
	rng = rand.New(rand.NewSource(rep.Seed()*7919 + 8))
	for i := 0; i < maxTx; i++ {
		var ph common.Uint168
		rng.Read(ph[:])
		ph[0] = 0x21
		tx := functions.CreateTransaction(common2.TxVersion09, common2.TransferAsset, 0, &payload.TransferAsset{},
			[]*common2.Attribute{},
			[]*common2.Input{{Previous: common2.OutPoint{TxID: randHash(), Index: uint16(i)}, Sequence: 0}},
			[]*common2.Output{{AssetID: randHash(), Value: common.Fixed64(1000 + i), ProgramHash: ph,
				Type: common2.OTNone, Payload: &outputpayload.DefaultOutput{}}},
			0, []*program.Program{})
		txs = append(txs, tx)
		ids = append(ids, tx.Hash())
	}
}

func sha256d(l, r common.Uint256) common.Uint256 {
	var b [64]byte
	copy(b[:32], l[:])
	copy(b[32:], r[:])
	a := sha256.Sum256(b[:])
	return common.Uint256(sha256.Sum256(a[:]))
}

// binder turns symbolic hashes into concrete ones for one case.
type binder struct {
	junk map[int]common.Uint256
	orig []*common.Uint256 // hashes of the real honest message (for bit flips)
	kind string
}

func (b *binder) conc(v interface{}) (common.Uint256, error) {
	a, ok := v.([]interface{})
	if !ok || len(a) < 2 {
		return common.Uint256{}, fmt.Errorf("bad symbolic hash %v", v)
	}
	tag, _ := a[0].(string)
	switch tag {
	case "tx":
		i := int(a[1].(float64))
		if i < 0 || i >= len(ids) {
			return common.Uint256{}, fmt.Errorf("tx index %d", i)
		}
		return ids[i], nil
	case "H":
		l, err := b.conc(a[1])
		if err != nil {
			return l, err
		}
		r, err := b.conc(a[2])
		if err != nil {
			return r, err
		}
		return sha256d(l, r), nil
	case "junk":
		j := int(a[1].(float64))
		if h, ok := b.junk[j]; ok {
			return h, nil
		}
		var h common.Uint256
		if b.kind == "rephash" && j >= 1 && j <= len(b.orig) {
			// a single-bit corruption of the hash that was there
			h = *b.orig[j-1]
			bit := rng.Intn(256)
			h[bit/8] ^= 1 << uint(bit%8)
		} else {
			h = randHash()
		}
		b.junk[j] = h
		return h, nil
	}
	return common.Uint256{}, fmt.Errorf("bad symbolic hash tag %q", tag)
}

func (b *binder) concList(l []interface{}) ([]*common.Uint256, error) {
	res := make([]*common.Uint256, 0, len(l))
	for _, x := range l {
		h, err := b.conc(x)
		if err != nil {
			return nil, err
		}
		hh := h
		res = append(res, &hh)
	}
	return res, nil
}

func packBits(bits []interface{}) []byte {
	fl := make([]byte, (len(bits)+7)/8)
	for i, x := range bits {
		if int(x.(float64)) != 0 {
			fl[i/8] |= 1 << uint(i%8)
		}
	}
	return fl
}

func hashesEqual(a, b []*common.Uint256) bool {
	if len(a) != len(b) {
		return false
	}
	for i := range a {
		if *a[i] != *b[i] {
			return false
		}
	}
	return true
}

type checker struct {
	name string
	fn   func(msg.MerkleBlock) ([]*common.Uint256, error)
}

var checkers = []checker{
	{"bloom", bloom.CheckMerkleBlock},
	{"filter", filter.CheckMerkleBlock},
}

func safeCheck(c checker, m msg.MerkleBlock) (r []*common.Uint256, err error, pan interface{}) {
	defer func() {
		if x := recover(); x != nil {
			pan = x
		}
	}()
	// the checker slices the message's fields; give it its own copies
	m2 := msg.MerkleBlock{Header: m.Header, Transactions: m.Transactions,
		Hashes: append([]*common.Uint256{}, m.Hashes...), Flags: append([]byte{}, m.Flags...)}
	r, err = c.fn(m2)
	return
}

func safeBranch(m msg.MerkleBlock, id common.Uint256) (br *bloom.MerkleBranch, err error, pan interface{}) {
	defer func() {
		if x := recover(); x != nil {
			pan = x
		}
	}()
	m2 := msg.MerkleBlock{Header: m.Header, Transactions: m.Transactions,
		Hashes: append([]*common.Uint256{}, m.Hashes...), Flags: append([]byte{}, m.Flags...)}
	br, err = bloom.GetTxMerkleBranch(m2, &id)
	return
}

const (
	filterBytes = 4096
	filterFuncs = 5
)

func newFilterLoad() *msg.FilterLoad {
	return &msg.FilterLoad{Filter: make([]byte, filterBytes), HashFuncs: filterFuncs, Tweak: uint32(rep.Seed()) * 2654435761}
}

// serve builds the merkle block the node would serve, through both copies of the builder.
func serve(n int, matched []bool) (blk *types.Block, out []*msg.MerkleBlock, idx [][]uint32, pan interface{}) {
	defer func() {
		if x := recover(); x != nil {
			pan = x
		}
	}()
	root, err := crypto.ComputeRoot(ids[:n])
	if err != nil {
		panic(err)
	}
	blk = &types.Block{Header: common2.Header{Version: 1, MerkleRoot: root, Height: 7}, Transactions: txs[:n]}

	bf := bloom.LoadFilter(newFilterLoad())
	for i := 0; i < n; i++ {
		if matched[i] {
			bf.AddHash(&ids[i])
		}
	}
	m1, i1 := bloom.NewMerkleBlock(blk, bf)

	f := filter.New(func(t uint8) filter.TxFilter {
		if t == filter.FTBloom {
			return bloom.NewTxFilter()
		}
		return nil
	})
	buf := new(bytes.Buffer)
	if err := newFilterLoad().Serialize(buf); err != nil {
		panic(err)
	}
	if err := f.Load(&msg.TxFilterLoad{Type: filter.FTBloom, Data: buf.Bytes()}); err != nil {
		panic(err)
	}
	for i := 0; i < n; i++ {
		if matched[i] {
			if err := f.Add(ids[i][:]); err != nil {
				panic(err)
			}
		}
	}
	m2, i2 := filter.NewMerkleBlock(blk.Transactions, f)
	m2.Header = &blk.Header // as elanet/server.go pushMerkleBlockMsg does for a bloom filter
	return blk, []*msg.MerkleBlock{m1, m2}, [][]uint32{i1, i2}, nil
}

func main() {
	if len(os.Args) < 3 || os.Args[1] != "replay" {
		fmt.Fprintln(os.Stderr, "usage: merkleblock replay <cases.jsonl>")
		os.Exit(3)
	}
	setup()
	behs := rep.ReadBehaviours(os.Args[2])
	nCases := 0
	kinds := map[string]int{}
	verdicts := map[string]int{}
	var samples []interface{}
	for _, b := range behs {
		for _, st := range b {
			if st.Act() != "Case" {
				continue
			}
			nCases++
			runCase(st, kinds, verdicts, &samples)
		}
	}
	rep.Summary(nCases, map[string]interface{}{"kinds": kinds, "verdicts": verdicts}, samples...)
}

func runCase(st rep.Step, kinds, verdicts map[string]int, samples *[]interface{}) {
	a := st.Args()
	exp := rep.Map(st, "exp")
	n := rep.Int(a, "n")
	kind := rep.Str(a, "kind")
	kinds[kind]++
	if n < 1 || n > maxTx {
		rep.Mismatch("case outside the driver's range", a)
		return
	}
	ml := rep.List(a, "matched")
	matched := make([]bool, n)
	wantIdx := []uint32{}
	var wantIds []*common.Uint256
	for i := 0; i < n && i < len(ml); i++ {
		matched[i] = int(ml[i].(float64)) != 0
		if matched[i] {
			wantIdx = append(wantIdx, uint32(i))
			wantIds = append(wantIds, &ids[i])
		}
	}

	blk, served, idxs, pan := serve(n, matched)
	if pan != nil {
		rep.Violation("C08:panic:NewMerkleBlock", fmt.Sprintf("building the merkle block panicked: %v", pan), a)
		return
	}
	root := blk.Header.MerkleRoot
	bd := &binder{junk: map[int]common.Uint256{}, orig: served[0].Hashes, kind: kind}
	emsg := rep.Map(exp, "msg")

	// the header root of a block is what both root computations of the spec say
	if cr, err := bd.conc(exp["calcroot"]); err != nil {
		rep.Mismatch("calcroot: "+err.Error(), a)
		return
	} else if cr != root {
		rep.Violation("C08:root:ComputeRoot", fmt.Sprintf("crypto.ComputeRoot of %d transaction ids is %s, the tree of the merkle "+
			"block builder has root %s", n, root.String(), cr.String()), a)
		return
	}

	if kind == "none" {
		// 1. the served message
		eh, err := bd.concList(rep.List(emsg, "hashes"))
		if err != nil {
			rep.Mismatch(err.Error(), a)
			return
		}
		eflags := packBits(rep.List(emsg, "bits"))
		for k, m := range served {
			name := checkers[k].name
			if fmt.Sprint(idxs[k]) != fmt.Sprint(wantIdx) {
				rep.Mismatch(fmt.Sprintf("%s.NewMerkleBlock: filter loaded with the ids of %v matched %v (bloom false positive?)",
					name, wantIdx, idxs[k]), a)
				return
			}
			if int(m.Transactions) != rep.Int(emsg, "ntx") || !hashesEqual(m.Hashes, eh) || !bytes.Equal(m.Flags, eflags) {
				// not what the spec's builder produces; whether the client can still recover the matched
				// transactions from it is decided below
				rep.Mismatch(fmt.Sprintf("%s.NewMerkleBlock serves ntx=%d hashes=%d flags=%x, the spec's builder ntx=%d hashes=%d flags=%x",
					name, m.Transactions, len(m.Hashes), m.Flags, rep.Int(emsg, "ntx"), len(eh), eflags), a)
			}
		}
		// 2. completeness: the served message verifies and yields exactly the matched ids
		for k, c := range checkers {
			got, err, pan := safeCheck(c, *served[k])
			if pan != nil {
				rep.Violation("C08:panic:CheckMerkleBlock", fmt.Sprintf("%s.CheckMerkleBlock panicked on a served message: %v", c.name, pan), a)
				return
			}
			if err != nil {
				rep.Violation("C08:check:rejects-served", fmt.Sprintf("%s.CheckMerkleBlock rejects the message %s.NewMerkleBlock "+
					"served for n=%d matched=%v: %v", c.name, c.name, n, wantIdx, err), a)
				return
			}
			if !hashesEqual(got, wantIds) {
				rep.Violation("C08:check:matched-differs", fmt.Sprintf("%s.CheckMerkleBlock recovers %d ids from the served message, "+
					"the filter matched %d (n=%d matched=%v)", c.name, len(got), len(wantIds), n, wantIdx), a)
				return
			}
			em, err2 := bd.concList(rep.List(exp, "matched"))
			if err2 != nil || rep.Str(exp, "v") != "ok" || !hashesEqual(got, em) {
				rep.Violation("C08:check:spec-differs", fmt.Sprintf("%s.CheckMerkleBlock result differs from the spec's for the served message", c.name), a)
				return
			}
		}
		verdicts["served-ok"]++
		// 3. branches
		for _, p := range rep.List(exp, "probes") {
			pm := p.(map[string]interface{})
			id, err := bd.conc(pm["id"])
			if err != nil {
				rep.Mismatch(err.Error(), a)
				return
			}
			sv := rep.Str(pm, "v")
			br, berr, pan := safeBranch(*served[0], id)
			isMatched := false
			for _, w := range wantIds {
				if *w == id {
					isMatched = true
				}
			}
			if pan != nil {
				rep.Violation("C08:panic:GetTxMerkleBranch", fmt.Sprintf("GetTxMerkleBranch panicked for %s (spec: %s) on the served "+
					"message n=%d matched=%v: %v", describe(pm["id"]), sv, n, wantIdx, pan), a)
				continue
			}
			switch {
			case sv == "ok" && berr != nil:
				if isMatched {
					rep.Violation("C08:branch:missing", fmt.Sprintf("no merkle branch for matched transaction %s: %v", describe(pm["id"]), berr), a)
				} else {
					rep.Mismatch(fmt.Sprintf("GetTxMerkleBranch fails for %s where the spec derives a branch: %v", describe(pm["id"]), berr), a)
				}
			case sv != "ok" && berr == nil:
				calc := auxpow.GetMerkleRoot(id, br.Branches, br.Index)
				rep.Violation("C08:branch:nonmember", fmt.Sprintf("GetTxMerkleBranch returns a branch (len %d, index %d) without error for %s, "+
					"which is not among the message's transactions; it evaluates to %s, block root %s (n=%d matched=%v)",
					len(br.Branches), br.Index, describe(pm["id"]), calc.String(), root.String(), n, wantIdx), a)
			case sv == "ok":
				calc := auxpow.GetMerkleRoot(id, br.Branches, br.Index)
				if calc != root {
					rep.Violation("C08:branch:root", fmt.Sprintf("the merkle branch of %s (index %d) evaluates to %s, block root is %s "+
						"(n=%d matched=%v)", describe(pm["id"]), br.Index, calc.String(), root.String(), n, wantIdx), a)
					continue
				}
				eb, err := bd.concList(rep.List(pm, "branch"))
				if err != nil {
					rep.Mismatch(err.Error(), a)
					return
				}
				gb := make([]*common.Uint256, len(br.Branches))
				for i := range br.Branches {
					gb[i] = &br.Branches[i]
				}
				if !hashesEqual(gb, eb) || br.Index != rep.Int(pm, "index") {
					rep.Mismatch(fmt.Sprintf("branch of %s differs from the spec's (index %d vs %d)", describe(pm["id"]), br.Index, rep.Int(pm, "index")), a)
				}
				verdicts["branch-ok"]++
			default:
				verdicts["branch-refused"]++
			}
		}
		if len(*samples) < 3 {
			*samples = append(*samples, map[string]interface{}{"n": n, "matched": wantIdx, "hashes": len(served[0].Hashes),
				"flags": fmt.Sprintf("%x", served[0].Flags), "root": root.String()})
		}
		return
	}

	// corrupted message: the spec's message made concrete
	eh, err := bd.concList(rep.List(emsg, "hashes"))
	if err != nil {
		rep.Mismatch(err.Error(), a)
		return
	}
	eroot, err := bd.conc(emsg["root"])
	if err != nil {
		rep.Mismatch(err.Error(), a)
		return
	}
	hdr := blk.Header
	hdr.MerkleRoot = eroot
	m := msg.MerkleBlock{Header: &hdr, Transactions: uint32(rep.Int(emsg, "ntx")), Hashes: eh, Flags: packBits(rep.List(emsg, "bits"))}
	sv := rep.Str(exp, "v")
	for _, c := range checkers {
		got, err, pan := safeCheck(c, m)
		if pan != nil {
			rep.Violation("C08:panic:CheckMerkleBlock", fmt.Sprintf("%s.CheckMerkleBlock panicked on a message with corruption %s(%d): %v",
				c.name, kind, rep.Int(a, "arg"), pan), a)
			return
		}
		switch {
		case err == nil && sv != "ok":
			rep.Violation("C08:check:accepts:"+kind, fmt.Sprintf("%s.CheckMerkleBlock accepts a message with corruption %s(%d) of the one served for "+
				"n=%d matched=%v and returns %d ids; it does not verify against the block's root (spec: %s)",
				c.name, kind, rep.Int(a, "arg"), n, wantIdx, len(got), rep.Str(exp, "why")), a)
			return
		case err != nil && sv == "ok":
			rep.Mismatch(fmt.Sprintf("%s.CheckMerkleBlock rejects corruption %s(%d) which still verifies in the spec: %v", c.name, kind, rep.Int(a, "arg"), err), a)
			return
		case err == nil:
			em, err2 := bd.concList(rep.List(exp, "matched"))
			if err2 != nil {
				rep.Mismatch(err2.Error(), a)
				return
			}
			if !hashesEqual(got, em) {
				rep.Violation("C08:check:matched:"+kind, fmt.Sprintf("%s.CheckMerkleBlock accepts corruption %s(%d) and returns %d ids, the spec %d",
					c.name, kind, rep.Int(a, "arg"), len(got), len(em)), a)
				return
			}
			verdicts["corrupt-accepted"]++
		default:
			verdicts["corrupt-rejected"]++
		}
	}
	if len(*samples) < 6 && kind != "flip" {
		*samples = append(*samples, map[string]interface{}{"n": n, "matched": wantIdx, "corruption": kind, "arg": rep.Int(a, "arg"), "spec": sv})
	}
}

func describe(v interface{}) string {
	a, ok := v.([]interface{})
	if ok && len(a) == 2 {
		if a[0] == "tx" {
			return fmt.Sprintf("transaction #%v", a[1])
		}
		return "an id that is not in the block"
	}
	return fmt.Sprint(v)
}
