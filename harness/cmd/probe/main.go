package main

import (
	"bytes"
	"fmt"

	"github.com/elastos/Elastos.ELA/common"
	"github.com/elastos/Elastos.ELA/common/config"
	"github.com/elastos/Elastos.ELA/core"
	"github.com/elastos/Elastos.ELA/core/contract"
	pg "github.com/elastos/Elastos.ELA/core/contract/program"
	common2 "github.com/elastos/Elastos.ELA/core/types/common"
	"github.com/elastos/Elastos.ELA/core/types/functions"
	"github.com/elastos/Elastos.ELA/core/types/interfaces"
	"github.com/elastos/Elastos.ELA/core/types/outputpayload"
	"github.com/elastos/Elastos.ELA/core/types/payload"
	"verif/harness/internal/stack"
)

func regTx(owner, node *stack.Key, nick string, in common2.OutPoint, inVal common.Fixed64, funder *stack.Key) interfaces.Transaction {
	opk, _ := owner.Acc.PublicKey.EncodePoint(true)
	npk, _ := node.Acc.PublicKey.EncodePoint(true)
	dep, _ := contract.CreateDepositContractByPubKey(owner.Acc.PublicKey)
	info := &payload.ProducerInfo{OwnerKey: opk, NodePublicKey: npk, NickName: nick, Url: "http://x", Location: 1, NetAddress: "127.0.0.1:1"}
	buf := new(bytes.Buffer)
	info.SerializeUnsigned(buf, payload.ProducerInfoVersion)
	sig, _ := owner.Acc.Sign(buf.Bytes())
	info.Signature = sig
	attr := common2.NewAttribute(common2.Nonce, []byte(nick))
	tx := functions.CreateTransaction(common2.TxVersion09, common2.RegisterProducer, payload.ProducerInfoVersion, info,
		[]*common2.Attribute{&attr}, []*common2.Input{{Previous: in}},
		[]*common2.Output{
			{AssetID: core.ELAAssetID, Value: 5000 * 100000000, ProgramHash: *dep.ToProgramHash(), Type: common2.OTNone, Payload: &outputpayload.DefaultOutput{}},
			{AssetID: core.ELAAssetID, Value: inVal - 5000*100000000 - 10000, ProgramHash: funder.Hash, Type: common2.OTNone, Payload: &outputpayload.DefaultOutput{}},
		}, 0, []*pg.Program{})
	if err := stack.Sign(tx, []*stack.Key{funder}); err != nil {
		panic(err)
	}
	return tx
}

func main() {
	stack.InitGlobals()
	defer stack.CleanupGlobals()
	k := stack.KeyFromSeed(900)
	n, err := stack.New(stack.Options{Foundation: &k.Hash, PoolGlue: true, Tweak: func(p *config.Configuration) { p.VoteStartHeight = 1 }})
	if err != nil {
		panic(err)
	}
	defer n.Close()
	g := n.Genesis()
	gcb := g.Transactions[0]
	fmt.Println("genesis coinbase outputs:", len(gcb.Outputs()), gcb.Outputs()[0].Value, gcb.Outputs()[0].ProgramHash == k.Hash)
	parent := g
	for i := 0; i < 2; i++ {
		b, _ := n.NewBlock(parent, nil, stack.BlockOpts{CoinbaseTo: &k.Hash})
		if _, _, err := n.Process(b); err != nil {
			panic(err)
		}
		parent = b
	}
	var outs []stack.Out
	for i := 0; i < 4; i++ {
		outs = append(outs, stack.Out{To: k.Hash, Value: 6000 * 100000000})
	}
	outs = append(outs, stack.Out{To: k.Hash, Value: gcb.Outputs()[0].Value - 4*6000*100000000 - 10000})
	fund, _ := stack.Transfer([]common2.OutPoint{{TxID: gcb.Hash(), Index: 0}}, outs, []*stack.Key{k}, 1)
	b, err := n.NewBlock(parent, []interfaces.Transaction{fund}, stack.BlockOpts{Fees: 10000, CoinbaseTo: &k.Hash})
	fmt.Println("fund block build:", err)
	_, _, err = n.Process(b)
	fmt.Println("fund block:", err)
	parent = b
	o1, o2, n1, n2 := stack.KeyFromSeed(901), stack.KeyFromSeed(902), stack.KeyFromSeed(903), stack.KeyFromSeed(904)
	r1 := regTx(o1, n1, "alpha", common2.OutPoint{TxID: fund.Hash(), Index: 0}, 6000*100000000, k)
	r2 := regTx(o1, n2, "beta", common2.OutPoint{TxID: fund.Hash(), Index: 1}, 6000*100000000, k)
	r3 := regTx(o2, n1, "gamma", common2.OutPoint{TxID: fund.Hash(), Index: 2}, 6000*100000000, k)
	r4 := regTx(o2, n2, "alpha", common2.OutPoint{TxID: fund.Hash(), Index: 3}, 6000*100000000, k)
	fmt.Println("append r1:", n.Pool.AppendToTxPool(r1))
	fmt.Println("append r2 (same owner):", n.Pool.AppendToTxPool(r2))
	fmt.Println("append r3 (same node):", n.Pool.AppendToTxPool(r3))
	fmt.Println("append r4 (same nick):", n.Pool.AppendToTxPool(r4))
	snap := n.Pool.VerifSnapshot()
	for name, m := range snap.Slots {
		fmt.Println(" slot", name, len(m))
	}
	b2, err := n.NewBlock(parent, []interfaces.Transaction{r4}, stack.BlockOpts{Fees: 10000, CoinbaseTo: &k.Hash})
	_, _, err = n.Process(b2)
	fmt.Println("block with r4:", err, "pool now", n.Pool.GetTransactionCount())
	fmt.Println("sizes:", r1.GetSize(), r2.GetSize(), r3.GetSize(), r4.GetSize())
}
