// Driver for spec/Consensus/View.tla (C26) on the real dpos/manager view.
//
//	view replay <behaviours.jsonl>            step every behaviour TLC enumerated through
//	                                          ChangeView / ChangeViewV1 / TryChangeView*
//	view record <runs> <polls> <out.ndjson>   seeded random polling runs (1 s instants,
//	                                          12 / 36 arbiters, offsets beyond a round)
//	                                          recorded as a trace for TraceView.tla
package main

import (
	"encoding/json"
	"fmt"
	"math/rand"
	"os"
	"strconv"
	"time"

	dlog "github.com/elastos/Elastos.ELA/dpos/log"
	"github.com/elastos/Elastos.ELA/dpos/manager"
	"github.com/elastos/Elastos.ELA/dpos/state"
	"verif/harness/internal/cons"
	"verif/harness/internal/rep"
)

var base = time.Unix(1700000000, 0)

// signTolerance of the view under test (VERIF_VIEW_TOL seconds, default 5)
var tol = 5 * time.Second

type listener struct{ calls int }

func (l *listener) OnViewChanged(isOnDuty bool) { l.calls++ }

type node struct {
	variant string
	n       int
	c0      uint32
	offset  uint32
	v       *manager.VerifView
	arbs    *state.ArbitratorsMock
	lst     *listener
}

var keyCache = map[int][]byte{}

func fakeKey(i int) []byte {
	if k, ok := keyCache[i]; ok {
		return k
	}
	keyCache[i] = cons.DetKey("c26", i).Pub
	return keyCache[i]
}

var memberCache = map[int][]state.ArbiterMember{}

func newNode(variant string, n int, c0 uint32) *node {
	members, ok := memberCache[n]
	for i := 0; i < n && !ok; i++ {
		m, err := state.NewOriginArbiter(fakeKey(i))
		if err != nil {
			panic(err)
		}
		members = append(members, m)
	}
	memberCache[n] = members
	arbs := state.NewArbitratorsMock(members, 0, n*2/3)
	lst := &listener{}
	return &node{variant: variant, n: n, c0: c0, offset: c0, arbs: arbs, lst: lst,
		v: manager.NewVerifView(fakeKey(0), tol, arbs, lst, base)}
}

func at(t int) time.Time { return base.Add(time.Duration(t) * time.Second) }

func (nd *node) poll(t int, gated bool) {
	now := at(t)
	switch {
	case nd.variant == "V0" && gated:
		nd.v.TryChangeView(&nd.offset, now)
	case nd.variant == "V0":
		nd.v.ChangeView(&nd.offset, now)
	case gated:
		nd.v.TryChangeViewV1(&nd.offset, now)
	default:
		nd.v.ChangeViewV1(&nd.offset, now)
	}
}

// calc evaluates the offset computation of the variant without touching the view.
func (nd *node) calc(c uint32, start time.Time, t int) [2]int {
	if nd.variant == "V0" {
		o, rem := nd.v.CalculateOffsetTimeV0(start, at(t))
		return [2]int{int(c + o), int(rem / time.Second)}
	}
	o, rem := nd.v.CalculateOffsetTimeV1(c, start, at(t), uint32(nd.n))
	return [2]int{int(o), int(rem / time.Second)}
}

func (nd *node) startSec() int { return int(nd.v.ViewStartTime().Sub(base) / time.Second) }

func pair(v interface{}) [2]int {
	l, _ := v.([]interface{})
	if len(l) != 2 {
		return [2]int{-1, -1}
	}
	return [2]int{int(l[0].(float64)), int(l[1].(float64))}
}

const knownKey = "C26:V1:entry-surcharge"

func replayOne(b rep.Behaviour, stats map[string]int) (sample interface{}) {
	if len(b) == 0 {
		return nil
	}
	a0 := b[0].Args()
	nd := newNode(rep.Str(a0, "variant"), rep.Int(a0, "n"), uint32(rep.Int(a0, "c0")))
	lastShot := -1
	reported := false
	misWhat := ""
	var misInfo interface{}
	for i, st := range b {
		a, exp := st.Args(), rep.Map(st, "exp")
		t := rep.Int(a, "t")
		var pan interface{}
		var probe, shot [2]int
		func() {
			defer func() { pan = recover() }()
			nd.poll(t, rep.Bool(a, "gated"))
			probe = nd.calc(nd.offset, nd.v.ViewStartTime(), t)
			shot = nd.calc(nd.c0, base, t)
		}()
		info := map[string]interface{}{"behaviour": b[:i+1], "real": map[string]interface{}{
			"offset": nd.offset, "start": nd.startSec(), "onDuty": nd.v.IsOnDuty(), "probe": probe, "oneshot": shot}}
		if pan != nil {
			rep.Violation("C26:panic", fmt.Sprintf("view evaluation panicked: %v", pan), info)
			return nil
		}
		// the property, on the real values only
		if shot[0] < lastShot {
			rep.Violation("C26:"+nd.variant+":non-monotone", fmt.Sprintf("one-shot view offset decreases from %d to %d at t=%d "+
				"(n=%d, initial offset %d)", lastShot, shot[0], t, nd.n, nd.c0), info)
			return nil
		}
		lastShot = shot[0]
		if probe != shot && !(reported && rep.Bool(exp, "dev")) {
			what := fmt.Sprintf("%s n=%d initial offset %d: after polls at %v the node is in view %d (+%ds) at t=%d, "+
				"one evaluation from the initial view gives view %d (+%ds)", nd.variant, nd.n, nd.c0, times(b[:i+1]),
				probe[0], probe[1], t, shot[0], shot[1])
			if !rep.Bool(exp, "dev") || misWhat != "" {
				rep.Violation("C26:"+nd.variant+":schedule-dependent", what, info)
				return nil
			}
			// the known deviation: reported once, the rest of the behaviour is still validated
			stats["known_deviation"]++
			if stats["known_deviation"] <= 40 { // the rest is counted; keeps the report budget for other keys
				rep.Violation(knownKey, what, info)
			}
			reported = true
			sample = map[string]interface{}{"polls": times(b[:i+1]), "variant": nd.variant, "n": nd.n, "c0": nd.c0,
				"incremental": probe, "oneshot": shot}
		}
		// conformance with the transcription
		if rep.Int(exp, "offset") != int(nd.offset) || rep.Int(exp, "start") != nd.startSec() ||
			rep.Bool(exp, "onDuty") != nd.v.IsOnDuty() || pair(exp["probe"]) != probe || pair(exp["oneshot"]) != shot {
			// keep going: a later step may show that the property itself is broken,
			// which is the stronger statement about the same behaviour
			if misWhat == "" {
				misWhat = fmt.Sprintf("step %d: real view (offset %d, start %d, onDuty %v, probe %v, oneshot %v) differs from "+
					"View.tla", i, nd.offset, nd.startSec(), nd.v.IsOnDuty(), probe, shot)
				misInfo = info
			}
		}
	}
	if misWhat != "" {
		rep.Mismatch(misWhat, misInfo)
		return nil
	}
	if !reported {
		stats["independent"]++
	}
	return sample
}

func times(b rep.Behaviour) []int {
	var r []int
	for _, st := range b {
		r = append(r, rep.Int(st.Args(), "t"))
	}
	return r
}

// durations as the reference schedule has them, only to place random polling
// instants near view boundaries (nothing is compared with these numbers)
func roughDur(c, n int) int {
	if c < n {
		return 5
	}
	p := 1
	for i := 0; i < c/n; i++ {
		p *= 20
	}
	return 5 + (c-n)*3*p
}

func record(runs, polls int, out string) {
	f, err := os.Create(out)
	if err != nil {
		panic(err)
	}
	defer f.Close()
	enc := json.NewEncoder(f)
	rng := rand.New(rand.NewSource(rep.Seed()*7919 + 26))
	events, indepBroken := 0, 0
	var sample interface{}
	for r := 0; r < runs; r++ {
		n := []int{1, 2, 3, 5, 12, 36}[rng.Intn(6)]
		variant := "V1"
		if rng.Intn(4) == 0 {
			variant = "V0"
		}
		c0 := rng.Intn(n + 3)
		if rng.Intn(3) == 0 {
			c0 = 0
		}
		nd := newNode(variant, n, uint32(c0))
		enc.Encode(map[string]interface{}{"ev": "Reset", "variant": variant, "n": n, "c0": c0})
		t, last, afterDev := 0, 0, 0
		for p := 0; p < polls && afterDev < 3; p++ {
			// next instant: small step, or jump close to the end of the current view
			switch rng.Intn(4) {
			case 0:
				t += 1 + rng.Intn(3)
			case 1:
				t += 4 + rng.Intn(3)
			case 2:
				d := roughDur(int(nd.offset), n)
				t = nd.startSec() + d - 1 + rng.Intn(3)
			default:
				t += 1 + rng.Intn(70)
			}
			if t <= last {
				t = last + 1
			}
			last = t
			if int(nd.offset) >= 2*n+n/2+2 || t > 400000 {
				break
			}
			gated := rng.Intn(2) == 0
			var pan interface{}
			var probe, shot [2]int
			func() {
				defer func() { pan = recover() }()
				nd.poll(t, gated)
				probe = nd.calc(nd.offset, nd.v.ViewStartTime(), t)
				shot = nd.calc(nd.c0, base, t)
			}()
			if pan != nil {
				rep.Violation("C26:panic", fmt.Sprintf("view evaluation panicked: %v", pan),
					map[string]interface{}{"variant": variant, "n": n, "c0": c0, "t": t})
				break
			}
			if probe != shot {
				indepBroken++
				afterDev++
				if sample == nil && n >= 12 {
					sample = map[string]interface{}{"variant": variant, "n": n, "c0": c0, "t": t, "incremental": probe, "oneshot": shot}
				}
			}
			enc.Encode(map[string]interface{}{"ev": "Poll", "t": t, "gated": gated, "offset": nd.offset,
				"start": nd.startSec(), "onDuty": nd.v.IsOnDuty(), "probe": probe, "oneshot": shot, "indep": probe == shot})
			events++
		}
	}
	rep.Summary(runs, map[string]interface{}{"events": events, "events_incremental_ne_oneshot": indepBroken}, sample)
}

func main() {
	defer rep.Flush()
	if v := os.Getenv("VERIF_VIEW_TOL"); v != "" {
		if n, err := strconv.Atoi(v); err == nil && n > 0 {
			tol = time.Duration(n) * time.Second
		}
	}
	// dpos/log has no default logger; level 255 keeps it silent
	logDir, err := os.MkdirTemp("", "verif-c26-log-")
	if err != nil {
		panic(err)
	}
	defer os.RemoveAll(logDir)
	dlog.Init(logDir, 255, 1, 1)
	if len(os.Args) >= 3 && os.Args[1] == "replay" {
		behs := rep.ReadBehaviours(os.Args[2])
		stats := map[string]int{}
		var sample interface{}
		for _, b := range behs {
			if s := replayOne(b, stats); s != nil && sample == nil {
				sample = s
			}
		}
		rep.Summary(len(behs), map[string]interface{}{"schedule_independent": stats["independent"],
			"known_deviation": stats["known_deviation"]}, sample)
		return
	}
	if len(os.Args) >= 5 && os.Args[1] == "record" {
		runs, _ := strconv.Atoi(os.Args[2])
		polls, _ := strconv.Atoi(os.Args[3])
		record(runs, polls, os.Args[4])
		return
	}
	fmt.Fprintln(os.Stderr, "usage: view replay <behaviours.jsonl> | view record <runs> <polls> <out.ndjson>")
	os.Exit(3)
}
