// Replay driver for spec/Store/Cache.tla (policy "keyed") on p2p.WriteMessage's
// serialized-block send cache (C15, cache iv).
//
//	sendcache replay <behaviours.jsonl>
//
// One process per behaviour is not possible (the cache is package state), so
// the driver starts every behaviour by flushing the cache with Bound fresh
// blocks whose keys are not part of the behaviour, and accounts for them.
package main

import (
	"bytes"
	"fmt"
	"io"
	"net"
	"os"
	"time"

	"github.com/elastos/Elastos.ELA/common"
	"github.com/elastos/Elastos.ELA/core/types"
	"github.com/elastos/Elastos.ELA/core/types/payload"
	"github.com/elastos/Elastos.ELA/p2p"
	"github.com/elastos/Elastos.ELA/p2p/msg"
	"verif/harness/internal/rep"
	"verif/harness/internal/stack"
)

var genesis *types.Block
var serial uint32

func freshBlock() *types.Block {
	serial++
	b := &types.Block{Header: genesis.Header, Transactions: genesis.Transactions}
	b.Header.Timestamp = genesis.Header.Timestamp + serial
	b.Header.Nonce = serial
	return b
}

func getDpos(m p2p.Message) (*types.DposBlock, bool) {
	mb, ok := m.(*msg.Block)
	if !ok {
		return nil, false
	}
	d, ok := mb.Serializable.(*types.DposBlock)
	return d, ok
}

// send writes the block message through a pipe and returns the payload bytes received
func send(d *types.DposBlock) ([]byte, error) {
	c1, c2 := net.Pipe()
	defer c1.Close()
	defer c2.Close()
	done := make(chan []byte, 1)
	go func() {
		var all bytes.Buffer
		io.Copy(&all, c2)
		done <- all.Bytes()
	}()
	err := p2p.WriteMessage(c1, 12345, msg.NewBlock(d), 5*time.Second, getDpos)
	c1.Close()
	got := <-done
	if err != nil {
		return nil, err
	}
	if len(got) < p2p.HeaderSize {
		return nil, fmt.Errorf("short write: %d bytes", len(got))
	}
	return got[p2p.HeaderSize:], nil
}

func replayOne(b rep.Behaviour) bool {
	bound := p2p.VerifSendCacheBound()
	// flush: push Bound fresh blocks through the cache
	for i := 0; i < bound; i++ {
		if _, err := send(&types.DposBlock{Block: freshBlock()}); err != nil {
			rep.Mismatch("flush send failed: "+err.Error(), nil)
			return false
		}
	}
	outer0, _, _, _ := p2p.VerifSendCacheSizes()
	// keys of this behaviour -> concrete blocks
	blocks := map[string]*types.Block{}
	dpos := map[string]*types.DposBlock{}
	key := func(k string) *types.DposBlock {
		if d, ok := dpos[k]; ok {
			return d
		}
		name, conf := k[:len(k)-1], k[len(k)-1] == 'c'
		blk, ok := blocks[name]
		if !ok {
			blk = freshBlock()
			blocks[name] = blk
		}
		d := &types.DposBlock{Block: blk, HaveConfirm: conf}
		if conf {
			d.Confirm = &payload.Confirm{Proposal: payload.DPOSProposal{Sponsor: make([]byte, 33), BlockHash: blk.Hash(), Sign: make([]byte, 64)},
				Votes: []payload.DPOSProposalVote{}}
		}
		dpos[k] = d
		return d
	}
	for i, st := range b {
		if st.Act() != "Lookup" {
			continue // Clean / StoreAdd have no counterpart in the send cache
		}
		k := rep.Str(st, "k")
		d := key(k)
		got, err := send(d)
		c := map[string]interface{}{"behaviour": b[:i+1]}
		if err != nil {
			rep.Mismatch("WriteMessage failed: "+err.Error(), c)
			return false
		}
		var fresh bytes.Buffer
		d.Serialize(&fresh)
		if !bytes.Equal(got, fresh.Bytes()) {
			rep.Violation("C15:send-cache:stale-payload", fmt.Sprintf("payload sent for %s differs from a fresh serialization (%d vs %d bytes)", k, len(got), fresh.Len()), c)
			return false
		}
		outer, payloads, hashes, confirms := p2p.VerifSendCacheSizes()
		c["real"] = fmt.Sprintf("outerKeys=%d (at start %d) payloads=%d hashes=%d confirms=%d", outer, outer0, payloads, hashes, confirms)
		// ---- C15 bound, on the real cache ----
		if payloads > bound || hashes > bound || confirms > bound {
			rep.Violation("C15:send-cache:bound", fmt.Sprintf("send cache holds %d payloads / %d list entries, bound %d", payloads, hashes, bound), c)
			return false
		}
		if outer > bound {
			rep.Violation("C15:send-cache:index-grows", fmt.Sprintf(
				"the send cache's block index holds %d keys with a bound of %d cached blocks (evicted blocks keep their key)", outer, bound), c)
			// keep going: the model (LeakIndex) describes the same growth
		}
		// ---- conformance with the model ----
		inSet := func(field, k string) bool {
			for _, x := range rep.List(st, field) {
				if x.(string) == k {
					return true
				}
			}
			return false
		}
		for kk, dd := range dpos {
			has, indexed := p2p.VerifSendCacheHas(dd.Block.Hash(), dd.HaveConfirm)
			if has != inSet("cached", kk) {
				rep.Violation("C15:send-cache:membership", fmt.Sprintf("after sending %s: payload of %s cached=%v, model says %v", k, kk, has, inSet("cached", kk)), c)
				return false
			}
			// the index entry is per block hash: present iff the model's index holds the key or its twin
			twin := kk[:len(kk)-1] + map[bool]string{true: "n", false: "c"}[dd.HaveConfirm]
			if exp := inSet("index", kk) || inSet("index", twin); indexed != exp {
				rep.Violation("C15:send-cache:index", fmt.Sprintf("after sending %s: index entry of %s present=%v, model says %v", k, kk, indexed, exp), c)
				return false
			}
		}
		if payloads != bound {
			rep.Violation("C15:send-cache:size", fmt.Sprintf("send cache holds %d payloads after %s, expected the bound %d (always full after the flush)", payloads, k, bound), c)
			return false
		}
	}
	return true
}

func main() {
	if len(os.Args) < 3 {
		fmt.Fprintln(os.Stderr, "usage: sendcache replay <file>")
		os.Exit(3)
	}
	stack.InitGlobals()
	defer stack.CleanupGlobals()
	n, err := stack.New(stack.Options{})
	if err != nil {
		fmt.Fprintln(os.Stderr, err)
		os.Exit(3)
	}
	genesis = n.Genesis()
	n.Close()
	_ = common.Uint256{}
	behs := rep.ReadBehaviours(os.Args[2])
	okN, steps := 0, 0
	var sample interface{}
	for _, b := range behs {
		if replayOne(b) {
			okN++
		}
		steps += len(b)
		if sample == nil && len(b) > 3 {
			sample = b
		}
	}
	rep.Summary(len(behs), map[string]interface{}{"steps": steps, "agree": okN}, sample)
}
