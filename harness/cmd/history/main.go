// Replay driver for spec/Consensus/History.tla -> utils.History (C20).
//
//	history replay <behaviours.jsonl>     step every behaviour through the real object
//	history record <n> <len> <out.ndjson> seeded random runs far beyond TLC's bounds,
//	                                      recorded as a trace for TraceHistory.tla
package main

import (
	"fmt"
	"math/rand"
	"os"
	"sort"
	"strconv"
	"strings"

	"encoding/json"

	"github.com/elastos/Elastos.ELA/utils"
	"verif/harness/internal/rep"
)

type obj struct {
	h *utils.History
	s map[string]int
}

func newObj(capacity int) *obj {
	return &obj{h: utils.NewHistory(capacity), s: map[string]int{}}
}

// appendChange mirrors how dpos/state and cr/state use History: increments, and
// assignments whose previous value is captured when the change is appended.
func (o *obj) appendChange(height uint32, kind, k string, d int) {
	if kind == "add" {
		o.h.Append(height, func() { o.s[k] += d }, func() { o.s[k] -= d })
		return
	}
	old := o.s[k]
	o.h.Append(height, func() { o.s[k] = d }, func() { o.s[k] = old })
}

func (o *obj) apply(st rep.Step) (err error, panicked interface{}) {
	defer func() {
		if r := recover(); r != nil {
			panicked = r
		}
	}()
	a := st.Args()
	switch st.Act() {
	case "Append":
		o.appendChange(uint32(rep.Int(a, "h")), rep.Str(a, "kind"), rep.Str(a, "k"), rep.Int(a, "d"))
	case "AppendTemp":
		o.appendChange(0, rep.Str(a, "kind"), rep.Str(a, "k"), rep.Int(a, "d"))
	case "Commit":
		o.h.Commit(uint32(rep.Int(a, "h")))
	case "RollbackTo":
		err = o.h.RollbackTo(uint32(rep.Int(a, "t")))
	case "SeekTo", "SeekToErr":
		err = o.h.SeekTo(uint32(rep.Int(a, "t")))
	case "RollbackSeekTo":
		o.h.RollbackSeekTo(uint32(rep.Int(a, "t")))
	default:
		panic("unknown action " + st.Act())
	}
	return
}

func stateStr(s map[string]int, keys []string) string {
	var sb strings.Builder
	for _, k := range keys {
		fmt.Fprintf(&sb, "%s=%d ", k, s[k])
	}
	return sb.String()
}

// classify a failing behaviour by the sequence of distinct action kinds it used
// after the first commit; this is the key matched against known_findings.json.
func shapeKey(b rep.Behaviour, upto int) string {
	seen := map[string]bool{}
	var ks []string
	for i := 0; i <= upto && i < len(b); i++ {
		a := b[i].Act()
		if a == "Append" || a == "Commit" {
			continue
		}
		if !seen[a] {
			seen[a] = true
			ks = append(ks, a)
		}
	}
	sort.Strings(ks)
	return "C20:" + b[upto].Act() + ":after:" + strings.Join(ks, "+")
}

func replayOne(b rep.Behaviour, capacity int) bool {
	o := newObj(capacity)
	for i, st := range b {
		err, p := o.apply(st)
		if p != nil {
			rep.Violation("C20:panic:"+st.Act(), fmt.Sprintf("History.%s panicked in a behaviour the spec allows: %v", st.Act(), p),
				map[string]interface{}{"behaviour": b[:i+1], "cap": capacity})
			return false
		}
		if (st.Act() == "SeekToErr") != (err != nil && st.Act() != "RollbackTo") {
			rep.Violation("C20:seek-verdict", fmt.Sprintf("step %d %s: error=%v but the spec says %s", i, st.Act(), err, st.Act()),
				map[string]interface{}{"behaviour": b[:i+1], "cap": capacity})
			return false
		}
		exp := rep.Map(st, "S")
		var keys []string
		for k := range exp {
			keys = append(keys, k)
		}
		sort.Strings(keys)
		bad := false
		for _, k := range keys {
			if rep.Int(exp, k) != o.s[k] {
				bad = true
			}
		}
		if int(o.h.Height()) != rep.Int(st, "height") {
			bad = true
		}
		if len(o.h.Changes()) != rep.Int(st, "kept") {
			bad = true
		}
		if bad {
			es := map[string]int{}
			for _, k := range keys {
				es[k] = rep.Int(exp, k)
			}
			rep.Violation(shapeKey(b, i), fmt.Sprintf("after step %d (%s %v): real state %sheight=%d entries=%d, spec %sheight=%d entries=%d",
				i, st.Act(), st.Args(), stateStr(o.s, keys), o.h.Height(), len(o.h.Changes()),
				stateStr(es, keys), rep.Int(st, "height"), rep.Int(st, "kept")),
				map[string]interface{}{"behaviour": b[:i+1], "cap": capacity})
			return false
		}
	}
	return true
}

// ---------------------------------------------------------------------------
// record: random long runs (legal usage protocol), emitted as ndjson events
// (action, arguments, observed state) for TraceHistory.tla.

func record(n, length, capacity int, out string) {
	f, err := os.Create(out)
	if err != nil {
		panic(err)
	}
	defer f.Close()
	enc := json.NewEncoder(f)
	rng := rand.New(rand.NewSource(rep.Seed()))
	keys := []string{"a", "b"}
	events := 0
	for t := 0; t < n; t++ {
		o := newObj(capacity)
		enc.Encode(map[string]interface{}{"ev": "Reset"})
		events++
		height := 0 // History.Height()
		cachedH := 0
		nCached := 0
		tempN, tempOn := 0, false
		tempKeys := map[string]bool{}
		seek := 0
		kinds := map[string]string{}
		var all []int // heights of every committed entry still in the ideal log
		emit := func(ev string, args map[string]interface{}, errd bool) {
			m := map[string]interface{}{"ev": ev, "S": map[string]int{"a": o.s["a"], "b": o.s["b"]},
				"height": int(o.h.Height()), "kept": len(o.h.Changes()), "err": errd}
			for k, v := range args {
				m[k] = v
			}
			enc.Encode(m)
			events++
		}
		for i := 0; i < length; i++ {
			switch c := rng.Intn(10); {
			case c < 4: // append
				if tempN > 0 && !tempOn {
					continue
				}
				h := cachedH
				if nCached == 0 {
					h = height + rng.Intn(2)
					if height == 0 || rng.Intn(8) == 0 {
						h = height + 1 + rng.Intn(2)
					}
					kinds = map[string]string{}
				}
				if h == 0 {
					h = 1
				}
				k := keys[rng.Intn(2)]
				kind := []string{"add", "set"}[rng.Intn(2)]
				if kk, ok := kinds[k]; ok {
					kind = kk
				}
				if seek != height {
					if kk, ok := kinds[k]; ok && kk == "set" {
						continue
					}
					kind = "add"
				}
				if tempOn && tempKeys[k] {
					if kk, ok := kinds[k]; ok && kk == "set" {
						continue
					}
					kind = "add"
				}
				kinds[k] = kind
				d := 1 + rng.Intn(3)
				o.appendChange(uint32(h), kind, k, d)
				tempKeys = map[string]bool{}
				cachedH, nCached = h, nCached+1
				tempN, tempOn = 0, false
				emit("Append", map[string]interface{}{"h": h, "chkind": kind, "k": k, "d": d}, false)
			case c < 7: // commit
				if tempN > 0 {
					if tempOn {
						continue
					}
					o.h.Commit(uint32(height))
					tempOn = true
					emit("Commit", map[string]interface{}{"h": height}, false)
					continue
				}
				h := cachedH
				if nCached == 0 {
					h = height + 1
				}
				o.h.Commit(uint32(h))
				height, seek, nCached = h, h, 0
				all = append(all, h)
				emit("Commit", map[string]interface{}{"h": h}, false)
			case c == 7: // rollback
				if nCached > 0 || seek != height || (tempN > 0 && !tempOn) {
					continue
				}
				t := height - rng.Intn(capacity+1)
				if t < 0 {
					t = 0
				}
				// within capacity iff every entry above t is still retained
				above := 0
				for _, h := range all {
					if h > t {
						above++
					}
				}
				if above > len(o.h.Changes()) {
					continue
				}
				o.h.RollbackTo(uint32(t))
				if t < height {
					height, seek = t, t
					tempN, tempOn = 0, false
					tempKeys = map[string]bool{}
					all = all[:len(all)-above]
				}
				emit("RollbackTo", map[string]interface{}{"t": t}, false)
			case c == 8: // temp
				if seek != height || tempOn || tempN >= 2 || height == 0 {
					continue
				}
				k := keys[rng.Intn(2)]
				d := 1 + rng.Intn(3)
				o.appendChange(0, "add", k, d)
				tempN++
				tempKeys[k] = true
				emit("AppendTemp", map[string]interface{}{"chkind": "add", "k": k, "d": d}, false)
			case c == 9: // seek
				if nCached > 0 || tempN > 0 || height == 0 || !seekShape(all, len(o.h.Changes()), height) {
					continue
				}
				t := height - rng.Intn(capacity+2)
				if t < 0 {
					t = 0
				}
				err, pan := o.apply(rep.Step{"act": "SeekTo", "args": map[string]interface{}{"t": float64(t)}})
				if pan != nil {
					// no spec action is called Panic: the trace is rejected at this line
					emit("Panic", map[string]interface{}{"op": "SeekTo", "t": t, "panic": fmt.Sprint(pan)}, true)
					i = length
					continue
				}
				if err == nil {
					seek = t
				}
				emit("SeekTo", map[string]interface{}{"t": t}, err != nil)
				if err == nil && t < height && rng.Intn(3) == 0 {
					o.h.RollbackSeekTo(uint32(t))
					height = t
					for len(all) > 0 && all[len(all)-1] > t {
						all = all[:len(all)-1]
					}
					emit("RollbackSeekTo", map[string]interface{}{"t": t}, false)
				}
			}
		}
	}
	rep.Summary(n, map[string]interface{}{"events": events, "mode": "record"})
}

// SeekTo counts entries, not heights: it is defined for one retained entry per
// height, consecutive heights, the newest being the best height.
func seekShape(all []int, kept, height int) bool {
	if kept > len(all) {
		return false
	}
	r := all[len(all)-kept:]
	for i := 0; i+1 < len(r); i++ {
		if r[i+1] != r[i]+1 {
			return false
		}
	}
	if len(r) > 0 {
		for _, h := range all[:len(all)-kept] {
			if h >= r[0] {
				return false
			}
		}
	}
	return len(r) == 0 || r[len(r)-1] == height
}

func main() {
	if len(os.Args) < 3 {
		fmt.Fprintln(os.Stderr, "usage: history replay <file> [cap] | record <n> <len> <cap> <out>")
		os.Exit(3)
	}
	switch os.Args[1] {
	case "replay":
		capacity := 3
		if len(os.Args) > 3 {
			capacity, _ = strconv.Atoi(os.Args[3])
		}
		behs := rep.ReadBehaviours(os.Args[2])
		okN, steps := 0, 0
		for _, b := range behs {
			if replayOne(b, capacity) {
				okN++
			}
			steps += len(b)
		}
		var sample interface{}
		if len(behs) > 0 {
			sample = behs[len(behs)/2]
		}
		rep.Summary(len(behs), map[string]interface{}{"steps": steps, "agree": okN, "mode": "replay"}, sample)
	case "record":
		n, _ := strconv.Atoi(os.Args[2])
		l, _ := strconv.Atoi(os.Args[3])
		c, _ := strconv.Atoi(os.Args[4])
		record(n, l, c, os.Args[5])
	}
	rep.Flush()
}
