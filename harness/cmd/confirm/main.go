// Replay driver for spec/Consensus/Confirm.tla (C25).
//
//	confirm replay <cases.jsonl>
//
// Every case TLC enumerated (an arbiter set and one confirmation) is built
// with real ECDSA keys and signatures and handed to the real
// blockchain.ConfirmSanityCheck and blockchain.ConfirmContextCheck, once with
// the real *state.Arbiters holding the arbiter set and once with
// state.ArbitratorsMock (as the repository's own confirmvalidator tests do),
// installed in blockchain.DefaultLedger.  "Majority" cases compare
// GetArbitersMajorityCount / HasArbitersMajorityCount of the real Arbiters.
package main

import (
	"encoding/hex"
	"fmt"
	"math/rand"
	"os"
	"sort"
	"sync"

	"github.com/elastos/Elastos.ELA/blockchain"
	"github.com/elastos/Elastos.ELA/common"
	"github.com/elastos/Elastos.ELA/common/config"
	"github.com/elastos/Elastos.ELA/core/checkpoint"
	"github.com/elastos/Elastos.ELA/core/types/payload"
	crstate "github.com/elastos/Elastos.ELA/cr/state"
	"github.com/elastos/Elastos.ELA/crypto"
	"github.com/elastos/Elastos.ELA/dpos/state"
	"verif/harness/internal/cons"
	"verif/harness/internal/rep"
)

type key struct {
	pri []byte
	pub []byte // compressed
}

func detKey(tag string, i int) key {
	k := cons.DetKey("c25-"+tag, i)
	return key{pri: k.Pri, pub: k.Pub}
}

type group struct {
	n, abn int
	keys   map[int]key // -1, 0 foreign; 1..n arbiters
	real   *state.Arbiters
	mock   *state.ArbitratorsMock

	mu        sync.Mutex
	proposals map[string]*payload.DPOSProposal
	votes     map[string]payload.DPOSProposalVote
}

func newArbiters(members []state.ArbiterMember) *state.Arbiters {
	params := config.GetDefaultParams()
	a, err := state.NewArbitrators(params, nil, nil, nil, nil, nil, nil, nil, nil,
		checkpoint.NewManager(params))
	if err != nil {
		panic(err)
	}
	a.CurrentArbitrators = members
	return a
}

func newGroup(n, abn int) *group {
	g := &group{n: n, abn: abn, keys: map[int]key{}, proposals: map[string]*payload.DPOSProposal{},
		votes: map[string]payload.DPOSProposalVote{}}
	for i := -1; i <= n; i++ {
		g.keys[i] = detKey(fmt.Sprintf("n%d", n), i)
	}
	var members []state.ArbiterMember
	for i := 1; i <= n; i++ {
		var m state.ArbiterMember
		var err error
		if i <= n-abn {
			m, err = state.NewOriginArbiter(g.keys[i].pub)
		} else {
			owner := detKey(fmt.Sprintf("owner-n%d", n), i)
			cm := &crstate.CRMember{MemberState: crstate.MemberInactive}
			cm.Info.Code = append(append([]byte{33}, owner.pub...), 0xac)
			m, err = state.NewCRCArbiter(g.keys[i].pub, owner.pub, cm, false)
		}
		if err != nil {
			panic(err)
		}
		members = append(members, m)
	}
	g.real = newArbiters(members)
	// every arbiter's node key is the node key of a registered producer, and so is foreign
	// signer 0 (a registered producer that is not in the current arbiter set); foreign
	// signer -1 is unknown to the node
	for i := 0; i <= n; i++ {
		g.real.State.NodeOwnerKeys[hex.EncodeToString(g.keys[i].pub)] = hex.EncodeToString(detKey(fmt.Sprintf("owner-n%d", n), i).pub)
	}
	g.mock = state.NewArbitratorsMock(members, 0, g.real.GetArbitersMajorityCount())
	return g
}

var blockHash = common.Uint256{0xc2, 0x5}
var otherHash = common.Uint256{0xff, 0xee}

func corrupt(sig []byte) []byte {
	s := append([]byte{}, sig...)
	s[len(s)/2] ^= 0x40
	return s
}

func (g *group) proposal(sponsor int, sigOK bool) *payload.DPOSProposal {
	k := fmt.Sprintf("%d/%v", sponsor, sigOK)
	g.mu.Lock()
	defer g.mu.Unlock()
	if p, ok := g.proposals[k]; ok {
		return p
	}
	p := &payload.DPOSProposal{Sponsor: g.keys[sponsor].pub, BlockHash: blockHash, ViewOffset: 0}
	sig, err := crypto.Sign(g.keys[sponsor].pri, p.Data())
	if err != nil {
		panic(err)
	}
	if !sigOK {
		sig = corrupt(sig)
	}
	p.Sign = sig
	p.Hash() // fill the cached hash before the value is shared
	g.proposals[k] = p
	return p
}

// vote returns copy #copy of the described vote; every copy is signed on its
// own (ECDSA signatures are randomised), so a duplicated vote is a second
// signature of the same signer, not a byte-identical repetition.
func (g *group) vote(sponsor, signer int, accept, hashOK, sigOK bool, copy int) payload.DPOSProposalVote {
	k := fmt.Sprintf("%d/%d/%v/%v/%v/%d", sponsor, signer, accept, hashOK, sigOK, copy)
	ph := g.proposal(sponsor, true).Hash()
	g.mu.Lock()
	defer g.mu.Unlock()
	if v, ok := g.votes[k]; ok {
		return v
	}
	v := payload.DPOSProposalVote{ProposalHash: ph, Signer: g.keys[signer].pub, Accept: accept}
	if !hashOK {
		v.ProposalHash = otherHash
	}
	sig, err := crypto.Sign(g.keys[signer].pri, v.Data())
	if err != nil {
		panic(err)
	}
	if !sigOK {
		sig = corrupt(sig)
	}
	v.Sign = sig
	v.Hash()
	g.votes[k] = v
	return v
}

type tcase struct {
	raw     rep.Step
	n, abn  int
	sponsor int
	propSig bool
	good    []int
	bad     []map[string]interface{}
}

func (g *group) build(c *tcase, order int64) *payload.Confirm {
	p := *g.proposal(c.sponsor, c.propSig)
	cf := &payload.Confirm{Proposal: p}
	for i, k := range c.good {
		for j := 0; j < k; j++ {
			cf.Votes = append(cf.Votes, g.vote(c.sponsor, i+1, true, true, true, j))
		}
	}
	for _, b := range c.bad {
		cf.Votes = append(cf.Votes, g.vote(c.sponsor, rep.Int(b, "signer"), rep.Bool(b, "accept"),
			rep.Bool(b, "hashOK"), rep.Bool(b, "sigOK"), 0))
	}
	if order != 0 {
		r := rand.New(rand.NewSource(order))
		r.Shuffle(len(cf.Votes), func(i, j int) { cf.Votes[i], cf.Votes[j] = cf.Votes[j], cf.Votes[i] })
	}
	return cf
}

func call(f func(*payload.Confirm) error, cf *payload.Confirm) (ok bool, msg string, panicked bool) {
	defer func() {
		if r := recover(); r != nil {
			ok, msg, panicked = false, fmt.Sprint(r), true
		}
	}()
	if err := f(cf); err != nil {
		return false, err.Error(), false
	}
	return true, "", false
}

func (g *group) check(c *tcase, impl string, order int64) {
	exp := rep.Map(c.raw, "exp")
	cf := g.build(c, order)
	sOK, sMsg, sP := call(blockchain.ConfirmSanityCheck, cf)
	cOK, cMsg, cP := call(blockchain.ConfirmContextCheck, cf)
	info := map[string]interface{}{"case": c.raw, "arbiters": impl, "shuffle": order,
		"sanity": sOK, "sanityErr": sMsg, "context": cOK, "contextErr": cMsg}
	if sP || cP {
		rep.Violation("C25:panic", "confirm check panicked: "+sMsg+" "+cMsg, info)
		return
	}
	accepted := sOK && cOK
	if accepted && !rep.Bool(exp, "legit") {
		rep.Violation("C25:accepted:"+rep.Str(exp, "class"),
			fmt.Sprintf("ConfirmSanityCheck and ConfirmContextCheck (%s arbiters) accept a confirmation of a %d-arbiter set "+
				"that has %d distinct valid accepting current signers (needs more than %d); defect class %s",
				impl, c.n, rep.Int(exp, "distinct"), rep.Int(exp, "majority"), rep.Str(exp, "class")), info)
		return
	}
	if sOK != rep.Bool(exp, "sanity") {
		rep.Mismatch(fmt.Sprintf("ConfirmSanityCheck ok=%v (%s) but the spec's transcription says %v", sOK, sMsg,
			rep.Bool(exp, "sanity")), info)
	}
	if cOK != rep.Bool(exp, "context") {
		rep.Mismatch(fmt.Sprintf("ConfirmContextCheck ok=%v (%s) but the spec's transcription says %v", cOK, cMsg,
			rep.Bool(exp, "context")), info)
	}
}

func majorityCase(st rep.Step) {
	n := rep.Int(st.Args(), "n")
	want := rep.Int(rep.Map(st, "exp"), "majority")
	var members []state.ArbiterMember
	for i := 1; i <= n; i++ {
		m, err := state.NewOriginArbiter(detKey("maj", i).pub)
		if err != nil {
			panic(err)
		}
		members = append(members, m)
	}
	a := newArbiters(members)
	got := a.GetArbitersMajorityCount()
	info := map[string]interface{}{"n": n, "real": got, "spec": want}
	switch {
	case got < want:
		rep.Violation("C25:majority-count", fmt.Sprintf("GetArbitersMajorityCount()=%d for %d arbiters, below floor(2n/3)=%d: "+
			"a confirmation with only %d signers would pass", got, n, want, got+1), info)
	case got > want:
		rep.Mismatch(fmt.Sprintf("GetArbitersMajorityCount()=%d for %d arbiters, spec says %d", got, n, want), info)
	}
	if a.HasArbitersMajorityCount(want) {
		rep.Violation("C25:majority-count", fmt.Sprintf("HasArbitersMajorityCount(%d) holds for %d arbiters", want, n), info)
	}
	if !a.HasArbitersMajorityCount(want + 1) {
		rep.Mismatch(fmt.Sprintf("HasArbitersMajorityCount(%d) is false for %d arbiters", want+1, n), info)
	}
}

func main() {
	if len(os.Args) < 3 || os.Args[1] != "replay" {
		fmt.Fprintln(os.Stderr, "usage: confirm replay <cases.jsonl>")
		os.Exit(3)
	}
	defer rep.Flush()
	behs := rep.ReadBehaviours(os.Args[2])
	groups := map[[2]int][]*tcase{}
	var gkeys [][2]int
	nCases, nMaj := 0, 0
	for _, b := range behs {
		for _, st := range b {
			switch st.Act() {
			case "Majority":
				func() {
					defer func() {
						if r := recover(); r != nil {
							rep.Violation("C25:panic", fmt.Sprint(r), st)
						}
					}()
					majorityCase(st)
				}()
				nMaj++
			case "Case":
				a := st.Args()
				c := &tcase{raw: st, n: rep.Int(a, "n"), abn: rep.Int(a, "abn"), sponsor: rep.Int(a, "sponsor"),
					propSig: rep.Bool(a, "propSig")}
				for _, x := range rep.List(a, "good") {
					c.good = append(c.good, int(x.(float64)))
				}
				for _, x := range rep.List(a, "bad") {
					c.bad = append(c.bad, x.(map[string]interface{}))
				}
				k := [2]int{c.n, c.abn}
				if _, ok := groups[k]; !ok {
					gkeys = append(gkeys, k)
				}
				groups[k] = append(groups[k], c)
				nCases++
			}
		}
	}
	sort.Slice(gkeys, func(i, j int) bool {
		if gkeys[i][0] != gkeys[j][0] {
			return gkeys[i][0] < gkeys[j][0]
		}
		return gkeys[i][1] < gkeys[j][1]
	})
	accepted := 0
	var sample interface{}
	seed := rep.Seed()
	for _, k := range gkeys {
		g := newGroup(k[0], k[1])
		cs := groups[k]
		for _, impl := range []string{"real", "mock"} {
			if impl == "real" {
				blockchain.DefaultLedger = &blockchain.Ledger{Arbitrators: g.real}
			} else {
				blockchain.DefaultLedger = &blockchain.Ledger{Arbitrators: g.mock}
			}
			var wg sync.WaitGroup
			ch := make(chan int, 256)
			for w := 0; w < 8; w++ {
				wg.Add(1)
				go func() {
					defer wg.Done()
					for i := range ch {
						g.check(cs[i], impl, 0)
						g.check(cs[i], impl, seed*1000003+int64(i)+1)
					}
				}()
			}
			for i := range cs {
				ch <- i
			}
			close(ch)
			wg.Wait()
		}
		for _, c := range cs {
			e := rep.Map(c.raw, "exp")
			if rep.Bool(e, "sanity") && rep.Bool(e, "context") {
				accepted++
				if sample == nil && c.n >= 4 {
					sample = map[string]interface{}{"case": c.raw.Args(), "verdict": "accepted by spec and by the real checks"}
				}
			}
		}
	}
	rep.Summary(nCases+nMaj, map[string]interface{}{"confirm_cases": nCases, "majority_cases": nMaj,
		"spec_accepts": accepted, "evaluations": nCases * 4, "groups": len(gkeys)}, sample)
}
