// Driver for spec/Edge/Compact.tla -> blockchain.CompactToBig / BigToCompact / CalcWork /
// CheckProofOfWork / (*BlockChain).CalcNextRequiredDifficulty (C09).
//
//	compact replay <cases.jsonl>
//
// Every case of the scaled model (targets < 2^31) is executed on the real functions, and
// lifted by k = 1..28 byte positions: compact + k<<24 against value * 256^k computed with
// math/big from the spec's value (the encoding is shift invariant from exponent 3 on), with
// seeded random low-order bytes added below the kept digits when encoding.
// CalcNextRequiredDifficulty runs on a BlockChain made by blockchain.New with a small
// TargetTimespan and on hand-linked BlockNodes.
package main

import (
	"fmt"
	"math/big"
	"math/rand"
	"os"
	"strings"
	"time"

	"github.com/elastos/Elastos.ELA/auxpow"
	"github.com/elastos/Elastos.ELA/blockchain"
	"github.com/elastos/Elastos.ELA/common"
	"github.com/elastos/Elastos.ELA/common/config"
	"github.com/elastos/Elastos.ELA/common/log"
	"github.com/elastos/Elastos.ELA/core/checkpoint"
	"github.com/elastos/Elastos.ELA/core/transaction"
	common2 "github.com/elastos/Elastos.ELA/core/types/common"
	"github.com/elastos/Elastos.ELA/core/types/functions"

	"verif/harness/internal/rep"
)

const maxLift = 28

var (
	rng     *rand.Rand
	oneL256 = new(big.Int).Lsh(big.NewInt(1), 256)
)

func pow256(k int) *big.Int { return new(big.Int).Lsh(big.NewInt(1), uint(8*k)) }

func lift(v int64, k int) *big.Int { return new(big.Int).Mul(big.NewInt(v), pow256(k)) }

func i64(m map[string]interface{}, k string) int64 {
	f, _ := m[k].(float64)
	return int64(f)
}

func try(f func()) (pan interface{}) {
	defer func() {
		if x := recover(); x != nil {
			pan = x
		}
	}()
	f()
	return nil
}

// ---- the chains used for retargeting -------------------------------------------------

type chainKey struct {
	f       int64
	k       int
	instant bool
}

type world struct {
	dir    string
	base   *config.Configuration
	store  blockchain.IChainStore
	ckp    *checkpoint.Manager
	chains map[chainKey]*blockchain.BlockChain
	tspan  int64
}

func newWorld(tspan int64) (*world, error) {
	functions.GetTransactionByTxType = transaction.GetTransaction
	functions.GetTransactionByBytes = transaction.GetTransactionByBytes
	functions.CreateTransaction = transaction.CreateTransaction
	functions.GetTransactionParameters = transaction.GetTransactionparameters
	config.DefaultParams = *config.GetDefaultParams()
	dir, err := os.MkdirTemp("", "verif-c09-")
	if err != nil {
		return nil, err
	}
	log.NewDefault(dir, 5, 0, 0)
	params := config.DefaultParams.RegNet().InstantBlock().Sterilize()
	params.DataDir = dir
	w := &world{dir: dir, base: params, chains: map[chainKey]*blockchain.BlockChain{}, tspan: tspan}
	w.ckp = checkpoint.NewManager(params)
	w.ckp.SetDataPath(dir)
	w.store, err = blockchain.NewChainStore(dir, params)
	if err != nil {
		return nil, err
	}
	return w, nil
}

func (w *world) close() {
	if w.store != nil {
		w.store.Close()
	}
	os.RemoveAll(w.dir)
}

// chain returns a BlockChain built by blockchain.New for the scaled network lifted by k bytes.
func (w *world) chain(f int64, k int, instant bool, limitBits uint32, limit *big.Int) (*blockchain.BlockChain, error) {
	key := chainKey{f, k, instant}
	if c, ok := w.chains[key]; ok {
		return c, nil
	}
	p := *w.base
	p.PowConfiguration.TargetTimespan = time.Duration(w.tspan) * time.Second
	p.PowConfiguration.TargetTimePerBlock = time.Duration(w.tspan/4) * time.Second // 4 blocks per retarget
	p.PowConfiguration.AdjustmentFactor = f
	p.PowConfiguration.PowLimitBits = limitBits
	p.PowConfiguration.PowLimit = limit
	c, err := blockchain.New(w.store, &p, nil, nil, w.ckp)
	if err != nil {
		return nil, err
	}
	w.chains[key] = c
	return c, nil
}

// nodes links BlockNodes height 0..top; returns the node at `top`.
func nodes(top uint32, bits uint32, firstHeight uint32, firstTs, lastTs uint32) *blockchain.BlockNode {
	var prev *blockchain.BlockNode
	for h := uint32(0); h <= top; h++ {
		hdr := &common2.Header{Version: 1, Bits: bits, Height: h, Timestamp: 1000000 + h}
		if prev != nil {
			hdr.Previous = *prev.Hash
		}
		hash := hdr.Hash()
		n := blockchain.NewBlockNode(hdr, &hash)
		n.Parent = prev
		if h == firstHeight {
			n.Timestamp = firstTs
		}
		if h == top {
			n.Timestamp = lastTs
		}
		prev = n
	}
	return prev
}

// ---- hashes for CheckProofOfWork --------------------------------------------------------

type powHash struct {
	hdr auxpow.BtcHeader
	num *big.Int
}

func hashNum(h common.Uint256) *big.Int {
	var be [32]byte
	for i := 0; i < 32; i++ {
		be[i] = h[31-i]
	}
	return new(big.Int).SetBytes(be[:])
}

func makePool() []powHash {
	var pool []powHash
	want := []int{0, 0, 0, 1, 1, 2} // leading zero bytes (of the number) to look for
	nonce := uint32(rng.Int31())
	for _, z := range want {
		for {
			nonce++
			hdr := auxpow.BtcHeader{Version: 0x20000000, Timestamp: 1600000000, Bits: 0x1d00ffff, Nonce: nonce}
			rng.Read(hdr.MerkleRoot[:])
			h := hdr.Hash()
			ok := true
			for i := 0; i < z; i++ {
				if h[31-i] != 0 {
					ok = false
				}
			}
			if ok {
				pool = append(pool, powHash{hdr, hashNum(h)})
				break
			}
		}
	}
	return pool
}

func main() {
	if len(os.Args) < 3 || os.Args[1] != "replay" {
		fmt.Fprintln(os.Stderr, "usage: compact replay <cases.jsonl> [targetTimespan]")
		os.Exit(3)
	}
	rng = rand.New(rand.NewSource(rep.Seed()*15485863 + 9))
	tspan := int64(16)
	if len(os.Args) > 3 {
		fmt.Sscan(os.Args[3], &tspan)
	}
	w, err := newWorld(tspan)
	if err != nil {
		fmt.Fprintln(os.Stderr, "cannot set up the chain store:", err)
		os.Exit(3)
	}
	defer w.close()
	pool := makePool()
	behs := rep.ReadBehaviours(os.Args[2])
	st := &stats{kinds: map[string]int{}, checks: map[string]int{}}
	n := 0
	for _, b := range behs {
		for _, s := range b {
			if s.Act() != "Case" {
				continue
			}
			n++
			a := s.Args()
			exp := rep.Map(s, "exp")
			kind := rep.Str(a, "kind")
			st.kinds[kind]++
			var pan interface{}
			switch kind {
			case "decode":
				pan = try(func() { decode(a, exp, st) })
			case "encode":
				pan = try(func() { encode(a, exp, st) })
			case "pow":
				pan = try(func() { powCase(a, exp, pool, st) })
			case "retarget":
				pan = try(func() { retarget(w, a, exp, st) })
			default:
				rep.Mismatch("unknown case kind", a)
			}
			if pan != nil {
				rep.Violation("C09:panic:"+kind, fmt.Sprintf("the real code panicked on a %s case: %v", kind, pan), a)
			}
		}
	}
	rep.Summary(n, map[string]interface{}{"kinds": st.kinds, "real_calls": st.checks}, st.samples...)
	w.close()
}

type stats struct {
	kinds   map[string]int
	checks  map[string]int
	samples []interface{}
}

// one sample per mechanism
func (s *stats) sample(v interface{}) {
	m := v.(map[string]interface{})
	for _, old := range s.samples {
		for k := range old.(map[string]interface{}) {
			if _, same := m[k]; same && (k == "decode" || k == "encode" || k == "pow" || k == "retarget") {
				return
			}
		}
	}
	s.samples = append(s.samples, v)
}

func expOf(c int64) int64 { return c >> 24 }

func work(t *big.Int) *big.Int {
	if t.Sign() <= 0 {
		return big.NewInt(0)
	}
	return new(big.Int).Div(oneL256, new(big.Int).Add(t, big.NewInt(1)))
}

func decode(a, exp map[string]interface{}, st *stats) {
	c := i64(a, "c")
	bigv := i64(exp, "big")
	back := i64(exp, "back")
	ks := []int{0}
	if expOf(c) >= 3 {
		for k := 1; k <= maxLift; k++ {
			ks = append(ks, k)
		}
	}
	for _, k := range ks {
		cc := uint32(c + int64(k)<<24)
		want := lift(bigv, k)
		got := blockchain.CompactToBig(cc)
		st.checks["CompactToBig"]++
		if got.Cmp(want) != 0 {
			rep.Violation("C09:decode:value", fmt.Sprintf("CompactToBig(%#08x) = %s, expected %s (scaled case %#08x lifted by %d bytes)",
				cc, got.String(), want.String(), c, k), a)
			return
		}
		wb := uint32(0)
		if back != 0 {
			wb = uint32(back + int64(k)<<24)
		}
		gb := blockchain.BigToCompact(got)
		st.checks["BigToCompact"]++
		if gb != wb {
			rep.Violation("C09:decode:reencode", fmt.Sprintf("BigToCompact(CompactToBig(%#08x)) = %#08x, expected %#08x (canonical: %v)",
				cc, gb, wb, rep.Bool(exp, "canonical")), a)
			return
		}
		if rep.Bool(exp, "canonical") && gb != cc {
			rep.Violation("C09:decode:roundtrip", fmt.Sprintf("canonical %#08x re-encodes as %#08x", cc, gb), a)
			return
		}
		gw := blockchain.CalcWork(cc)
		st.checks["CalcWork"]++
		if gw.Cmp(work(want)) != 0 {
			rep.Violation("C09:calcwork:differs", fmt.Sprintf("CalcWork(%#08x) = %s, 2^256/(target+1) = %s for target %s",
				cc, gw.String(), work(want).String(), want.String()), a)
			return
		}
	}
	if expOf(c) == 4 && !rep.Bool(exp, "canonical") {
		st.sample(map[string]interface{}{"decode": fmt.Sprintf("%#08x", c), "value": bigv, "reencoded": fmt.Sprintf("%#08x", back), "lifts": len(ks)})
	}
}

func byteLen(v int64) int {
	if v < 0 {
		v = -v
	}
	n := 0
	for ; v > 0; v >>= 8 {
		n++
	}
	return n
}

func encode(a, exp map[string]interface{}, st *stats) {
	t := i64(a, "t")
	compact := i64(exp, "compact")
	back := i64(exp, "back")
	for k := 0; k <= maxLift; k++ {
		T := lift(t, k)
		variants := []*big.Int{T}
		if k > 0 && byteLen(t) >= 3 && t > 0 {
			// digits below the ones the encoder keeps do not matter (positive targets; the shift
			// rounds negative numbers away from zero)
			low := new(big.Int).Rand(rng, pow256(k))
			variants = append(variants, new(big.Int).Add(T, low))
		}
		wc := uint32(0)
		if compact != 0 {
			wc = uint32(compact + int64(k)<<24)
		}
		wantBack := lift(back, k)
		for _, v := range variants {
			gc := blockchain.BigToCompact(v)
			st.checks["BigToCompact"]++
			if gc != wc {
				rep.Violation("C09:encode:value", fmt.Sprintf("BigToCompact(%s) = %#08x, expected %#08x (scaled target %d lifted by %d bytes)",
					v.String(), gc, wc, t, k), a)
				return
			}
			gb := blockchain.CompactToBig(gc)
			st.checks["CompactToBig"]++
			if gb.Cmp(wantBack) != 0 {
				rep.Violation("C09:encode:back", fmt.Sprintf("CompactToBig(BigToCompact(%s)) = %s, expected %s", v.String(), gb.String(), wantBack.String()), a)
				return
			}
			if t > 0 && (gb.Cmp(v) > 0 || gb.Sign() <= 0) {
				rep.Violation("C09:encode:larger", fmt.Sprintf("encoding target %s yields %s, which is larger (or not positive)", v.String(), gb.String()), a)
				return
			}
		}
	}
	if t > 1<<24 {
		st.sample(map[string]interface{}{"encode": t, "compact": fmt.Sprintf("%#08x", compact), "decoded": back})
	}
}

func powCase(a, exp map[string]interface{}, pool []powHash, st *stats) {
	c := i64(a, "c")
	limit := i64(a, "limit")
	hrel := rep.Str(a, "hrel")
	target := i64(exp, "target")
	verdict := rep.Str(exp, "verdict")
	maxK := 0
	if expOf(c) >= 3 {
		maxK = 60 // exponent up to 64: targets beyond 2^256, any hash is below
	}
	type run struct {
		k int
		h powHash
	}
	var runs []run
	if target <= 0 {
		// decided before the hash is looked at
		for _, k := range []int{0, 5, maxLift} {
			if k <= maxK {
				runs = append(runs, run{k, pool[(k+int(c))%len(pool)]})
			}
		}
	} else {
		if hrel == "eq" {
			st.checks["pow-eq-not-realisable"]++
			return
		}
		for _, h := range pool {
			// the k closest to the boundary that puts this hash on the wanted side of the target
			best := -1
			for k := 0; k <= maxK; k++ {
				T := lift(target, k)
				cmp := h.num.Cmp(T)
				if hrel == "gt" && cmp > 0 {
					best = k // keep the largest
				}
				if hrel == "lt" && cmp < 0 && best == -1 {
					best = k // the smallest
				}
			}
			if best >= 0 {
				runs = append(runs, run{best, h})
			}
		}
		if len(runs) == 0 {
			st.checks["pow-relation-not-realisable"]++
			return
		}
	}
	for _, r := range runs {
		hdr := &common2.Header{Version: 1, Bits: uint32(c + int64(r.k)<<24), Height: 10,
			AuxPow: auxpow.AuxPow{ParBlockHeader: r.h.hdr}}
		err := blockchain.CheckProofOfWork(hdr, lift(limit, r.k))
		st.checks["CheckProofOfWork"]++
		desc := fmt.Sprintf("bits %#08x (target %s), limit %s, parent header hash number %s", hdr.Bits, lift(target, r.k).String(),
			lift(limit, r.k).String(), r.h.num.String())
		switch {
		case err == nil && verdict != "ok":
			rep.Violation("C09:pow:accepts:"+verdict, fmt.Sprintf("CheckProofOfWork passes a header that must fail (%s): %s", verdict, desc), a)
			return
		case err != nil && verdict == "ok":
			rep.Mismatch(fmt.Sprintf("CheckProofOfWork fails (%v) a header the spec passes: %s", err, desc), a)
			return
		case err != nil:
			cls := "hash-above-target"
			if strings.Contains(err.Error(), "too low") {
				cls = "target-not-positive"
			} else if strings.Contains(err.Error(), "max of limit") {
				cls = "target-above-limit"
			}
			if cls != verdict {
				rep.Mismatch(fmt.Sprintf("CheckProofOfWork fails with %q, the spec with %s: %s", err.Error(), verdict, desc), a)
				return
			}
		}
	}
	if verdict == "ok" && target > 1<<20 {
		st.sample(map[string]interface{}{"pow": fmt.Sprintf("%#08x", c), "verdict": verdict, "runs": len(runs)})
	}
}

func retarget(w *world, a, exp map[string]interface{}, st *stats) {
	cls := rep.Str(a, "cls")
	old := i64(a, "old")
	span := i64(a, "span")
	f := i64(a, "f")
	limitBits := i64(a, "limitbits")
	wantBits := i64(exp, "bits")
	ks := []int{0}
	if expOf(old) >= 3 && cls != "instant" {
		for k := 1; k <= maxLift; k++ {
			ks = append(ks, k)
		}
	}
	for _, k := range ks {
		lb := uint32(limitBits)
		limit := lift(i64(exp, "limit"), k)
		if cls != "instant" {
			lb = uint32(limitBits + int64(k)<<24)
		} else {
			limit = new(big.Int).Sub(new(big.Int).Lsh(big.NewInt(1), 255), big.NewInt(1))
		}
		ch, err := w.chain(f, k, cls == "instant", lb, limit)
		if err != nil {
			rep.Mismatch("blockchain.New failed: "+err.Error(), a)
			return
		}
		ob := uint32(old + int64(k)<<24)
		var prev *blockchain.BlockNode
		base := uint32(2000000)
		switch cls {
		case "genesis":
			prev = nodes(0, ob, 0, base, base)
		case "off":
			prev = nodes(5, ob, 2, base, uint32(int64(base)+span))
		default: // retarget, instant: prev at height 7, first node of the period at height 4
			prev = nodes(7, ob, 4, base, uint32(int64(base)+span))
		}
		got, err := ch.CalcNextRequiredDifficulty(prev, time.Unix(int64(base)+100, 0))
		st.checks["CalcNextRequiredDifficulty"]++
		desc := fmt.Sprintf("%s: previous bits %#08x, actual timespan %d s of target %d s, factor %d, limit %#08x", cls, ob, span, w.tspan, f, lb)
		if err != nil {
			rep.Violation("C09:retarget:error", fmt.Sprintf("CalcNextRequiredDifficulty failed (%v) for %s", err, desc), a)
			return
		}
		exact := rep.Bool(exp, "exact") || cls != "retarget"
		if k == 0 || exact {
			wb := uint32(0)
			if wantBits != 0 {
				wb = uint32(wantBits)
				if cls != "instant" {
					wb = uint32(wantBits + int64(k)<<24)
				}
			}
			if got != wb {
				rep.Violation("C09:retarget:bits", fmt.Sprintf("CalcNextRequiredDifficulty = %#08x, expected %#08x for %s", got, wb, desc), a)
				return
			}
		}
		if cls == "retarget" {
			// the property itself, on the real numbers
			nt := blockchain.CompactToBig(got)
			ot := lift(i64(exp, "old"), k)
			up := new(big.Int).Mul(ot, big.NewInt(f))
			floor := blockchain.CompactToBig(blockchain.BigToCompact(new(big.Int).Div(ot, big.NewInt(f))))
			switch {
			case nt.Cmp(limit) > 0:
				rep.Violation("C09:retarget:above-limit", fmt.Sprintf("new target %s above the limit %s for %s", nt, limit, desc), a)
				return
			case nt.Cmp(up) > 0:
				rep.Violation("C09:retarget:factor-up", fmt.Sprintf("new target %s is more than %d times the old %s for %s", nt, f, ot, desc), a)
				return
			case nt.Cmp(floor) < 0:
				rep.Violation("C09:retarget:factor-down", fmt.Sprintf("new target %s is less than a %d-th of the old %s for %s", nt, f, ot, desc), a)
				return
			}
		}
	}
	if cls == "retarget" && span > w.tspan*f && old > 1<<26 {
		st.sample(map[string]interface{}{"retarget": fmt.Sprintf("%#08x", old), "span": span, "factor": f, "new": fmt.Sprintf("%#08x", wantBits), "lifts": len(ks)})
	}
}
