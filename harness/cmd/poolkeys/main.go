// Replay driver for spec/Chain/PoolKeys.tla (C34, the unique resources of the
// transaction pool).
//
//	poolkeys replay <behaviours.jsonl> [i n]      (shard i of n)
//
// Every template of the spec (kind + parameters, logged with each step) is built
// as a real transaction; Append = TxPool.VerifAppendUnchecked, the pool half of
// appendToTxPool (side-chain pow replacement, VerifyTx, size check, AppendTx,
// doAddTransaction; hook mempool/verif_c34_append.go, no chain validation),
// Connect = TxPool.CleanSubmittedTransactions on a block holding the one
// transaction (pooled or not).  After every step the verdict, the membership of
// the pool (transaction list, fee list) and the complete content of the conflict
// slots (VerifSnapshot) are compared with the spec's.
package main

import (
	"bytes"
	"fmt"
	"hash/fnv"
	"os"
	"regexp"
	"sort"
	"strconv"
	"strings"

	"github.com/elastos/Elastos.ELA/common"
	"github.com/elastos/Elastos.ELA/common/config"
	"github.com/elastos/Elastos.ELA/core"
	"github.com/elastos/Elastos.ELA/core/checkpoint"
	"github.com/elastos/Elastos.ELA/core/contract"
	pg "github.com/elastos/Elastos.ELA/core/contract/program"
	"github.com/elastos/Elastos.ELA/core/types"
	common2 "github.com/elastos/Elastos.ELA/core/types/common"
	"github.com/elastos/Elastos.ELA/core/types/functions"
	"github.com/elastos/Elastos.ELA/core/types/interfaces"
	"github.com/elastos/Elastos.ELA/core/types/outputpayload"
	"github.com/elastos/Elastos.ELA/core/types/payload"
	"github.com/elastos/Elastos.ELA/crypto"
	elaerr "github.com/elastos/Elastos.ELA/errors"
	"github.com/elastos/Elastos.ELA/mempool"
	"verif/harness/internal/rep"
	"verif/harness/internal/stack"
)

// ---------------------------------------------------------------------------
// symbolic values -> real values

var keyCache = map[string]*stack.Key{}

func seedOf(name string) uint64 {
	h := fnv.New64a()
	h.Write([]byte("poolkeys-" + name))
	return h.Sum64()%1000000007 + 1000
}

// key returns the deterministic key pair of a symbolic key name.  Names TA.. /
// TE.. are keys whose compressed public key ends in 0xAC / 0xAE.
func key(name string) *stack.Key {
	if k, ok := keyCache[name]; ok {
		return k
	}
	want := -1
	if strings.HasPrefix(name, "TA") {
		want = 0xac
	} else if strings.HasPrefix(name, "TE") {
		want = 0xae
	}
	base := seedOf(name)
	for i := uint64(0); ; i++ {
		k := stack.KeyFromSeed(base + i*7919)
		p := pubOf(k)
		if want < 0 || int(p[len(p)-1]) == want {
			keyCache[name] = k
			return k
		}
	}
}

func pubOf(k *stack.Key) []byte {
	b, _ := k.Acc.PublicKey.EncodePoint(true)
	return b
}

func pub(name string) []byte     { return pubOf(key(name)) }
func stdCode(name string) []byte { return key(name).Code }

// multi-signature script "M12" = 2-of-2 of the keys M12a, M12b
func multiCode(name string) []byte {
	c, err := contract.CreateMultiSigRedeemScript(2, []*crypto.PublicKey{key(name + "a").Acc.PublicKey, key(name + "b").Acc.PublicKey})
	if err != nil {
		panic(err)
	}
	return c
}

func schnorrCode(name string) []byte {
	c, err := contract.CreateSchnorrRedeemScript(key(name).Acc.PublicKey)
	if err != nil {
		panic(err)
	}
	return c
}

func h256(tag string) common.Uint256 {
	var h common.Uint256
	copy(h[:], []byte("pk-"+tag))
	h[31] = byte(len(tag))
	return h
}

func u168(tag string) common.Uint168 {
	var u common.Uint168
	u[0] = byte(contract.PrefixCRDID)
	copy(u[1:], []byte(tag))
	u[20] = byte(len(tag))
	return u
}

func stakeHash(name string) common.Uint168 {
	ct, err := contract.CreateStakeContractByCode(stdCode(name))
	if err != nil {
		panic(err)
	}
	return *ct.ToProgramHash()
}

var outpoints = map[string]common2.OutPoint{}

// onDuty is the harness key that is the cross-chain arbiter on duty of the node (nil if none)
var onDuty *stack.Key

func hexs(b []byte) string { return common.BytesToHexString(b) }

var slotKinds = map[string]string{
	"DPoSOwnerPublicKey": "pubkey", "DPoSNodePublicKey": "pubkey", "DPoSOwnerNodePublicKeys": "pubkey",
	"DPoSActivateCancel": "pubkey", "CRCouncilMemberNodePublicKey": "pubkey",
	"DPoSNickname": "string", "CrNickname": "string", "ChangeCustomIDFee": "string", "ReserveCustomID": "string",
	"CRCProposalCustomID": "string", "CRCProposalRegisterSideChainName": "string",
	"CRCProposalRegisterSideChainMagicNumber": "string", "CRCAppropriationKey": "string", "CRCSecretaryGeneral": "string",
	"CustomIDProposalResult": "string", "RevertToDPOSHash": "string", "VotesRealWithdraw": "string",
	"createnftstakeaddr":   "string",
	"ProgramCode":          "code",
	"CRCProposalDraftHash": "hash", "CRCProposalHash": "hash", "CRCProposalTrackingHash": "hash",
	"CRCProposalRegisterSideChainGenesisHash": "hash", "CRCProposalRealWithdrawKey": "hash",
	"DposV2ClaimRewardRealWithdrawKey": "hash", "CloseProposalTargetProposalHash": "hash",
	"ChangeProposalOwnerTargetProposalHash": "hash", "SidechainTxHashes": "hash",
	"SidechainReturnDepositTxHashes": "hash", "createnft": "hash", "NFTDestroyFromSideChainHash": "hash",
	"SpecialTxHash": "evidence",
	"CrDID":         "programhash", "CRCProposalDID": "programhash", "CRCouncilMemberDID": "programhash",
	"ExchangeVotes": "stake", "DposV2ClaimReward": "stake",
	"CRCProposalReviewKey": "review",
	"TxInputsReferKeys":    "outpoint",
}

// realKey maps a symbolic key of a slot to the way VerifSnapshot prints the real one.
func realKey(slot, sym string) (string, bool) {
	switch slotKinds[slot] {
	case "pubkey":
		if strings.HasPrefix(sym, "code:") {
			return hexs(multiCode(sym[5:])), true
		}
		return hexs(pub(sym)), true
	case "string":
		return sym, true
	case "code":
		return hexs(stdCode(sym)), true
	case "hash":
		return h256(sym).String(), true
	case "evidence":
		p := evidence(sym)
		if p == nil {
			return "", false
		}
		return p.hash().String(), true
	case "programhash":
		u := u168(sym)
		return fmt.Sprintf("%x", u.Bytes()), true
	case "stake":
		u := stakeHash(sym)
		return fmt.Sprintf("%x", u.Bytes()), true
	case "review":
		i := strings.Index(sym, "+")
		if i < 0 {
			return "", false
		}
		return u168(sym[:i]).String() + h256(sym[i+1:]).String(), true
	case "outpoint":
		op, ok := outpoints[sym]
		if !ok {
			return "", false
		}
		return op.ReferKey(), true
	}
	return "", false
}

// ---------------------------------------------------------------------------
// evidence payloads (special transactions): the symbolic evidence id names kind
// (first letter) and content

type evid struct {
	pl   interfaces.Payload
	hash func() common.Uint256
}

func evidence(id string) *evid {
	if id == "" {
		return nil
	}
	switch id[0] {
	case 'p':
		pe := func(tag string) payload.ProposalEvidence {
			return payload.ProposalEvidence{Proposal: payload.DPOSProposal{Sponsor: pub("EVS"), BlockHash: h256(id + tag), ViewOffset: 1, Sign: []byte{1, 2}},
				BlockHeader: []byte("header-" + id + tag), BlockHeight: 7}
		}
		p := &payload.DPOSIllegalProposals{Evidence: pe("-a"), CompareEvidence: pe("-b")}
		return &evid{p, p.Hash}
	case 'v':
		ve := func(tag string) payload.VoteEvidence {
			return payload.VoteEvidence{ProposalEvidence: payload.ProposalEvidence{Proposal: payload.DPOSProposal{Sponsor: pub("EVS"), BlockHash: h256(id + tag), Sign: []byte{1}},
				BlockHeader: []byte("header-" + id + tag), BlockHeight: 8},
				Vote: payload.DPOSProposalVote{ProposalHash: h256(id + tag + "-p"), Signer: pub("EVV"), Accept: true, Sign: []byte{3}}}
		}
		p := &payload.DPOSIllegalVotes{Evidence: ve("-a"), CompareEvidence: ve("-b")}
		return &evid{p, p.Hash}
	case 'b':
		be := func(tag string) payload.BlockEvidence {
			return payload.BlockEvidence{Header: []byte("header-" + id + tag), BlockConfirm: []byte("confirm-" + id + tag), Signers: [][]byte{pub("EVS")}}
		}
		p := &payload.DPOSIllegalBlocks{CoinType: payload.ELACoin, BlockHeight: 9, Evidence: be("-a"), CompareEvidence: be("-b")}
		return &evid{p, p.Hash}
	case 's':
		p := &payload.SidechainIllegalData{IllegalType: payload.SidechainIllegalProposal, Height: 10, IllegalSigner: pub("EVS"),
			Evidence: payload.SidechainIllegalEvidence{DataHash: h256(id + "-a")}, CompareEvidence: payload.SidechainIllegalEvidence{DataHash: h256(id + "-b")},
			GenesisBlockAddress: genesisAddr, Signs: [][]byte{{1, 2, 3}}}
		return &evid{p, p.Hash}
	case 'i':
		// the identity of this evidence is sponsor and height (the list of arbitrators is not part of its hash)
		p := &payload.InactiveArbitrators{Sponsor: pub("EV-" + id), Arbitrators: [][]byte{pub("EVS")}, BlockHeight: 11}
		return &evid{p, p.Hash}
	case 't':
		p := &payload.NextTurnDPOSInfo{WorkingHeight: 12, CRPublicKeys: [][]byte{pub("EV-" + id)}, DPOSPublicKeys: [][]byte{pub("EVS")}}
		return &evid{p, p.Hash}
	}
	return nil
}

const genesisAddr = "XKUh4GLhFJiqAMTF6HyWQrV9pK9HcGUdfJ"

// ---------------------------------------------------------------------------
// templates -> transactions

func strsOf(m map[string]interface{}, k string) []string {
	var r []string
	for _, x := range rep.List(m, k) {
		s, _ := x.(string)
		r = append(r, s)
	}
	return r
}

func plainOut(v common.Fixed64) *common2.Output {
	return &common2.Output{AssetID: core.ELAAssetID, Value: v, ProgramHash: key("OUT").Hash, Type: common2.OTNone, Payload: &outputpayload.DefaultOutput{}}
}

func hashes(tags []string) []common.Uint256 {
	r := []common.Uint256{}
	for _, t := range tags {
		r = append(r, h256(t))
	}
	return r
}

var txCache = map[string]interfaces.Transaction{}

// build constructs the transaction of a template (cached by name; the definition
// of a name never changes within a run).
func build(name string, d map[string]interface{}, ins []string) (tx interfaces.Transaction, err error) {
	if t, ok := txCache[name]; ok {
		return t, nil
	}
	defer func() {
		if r := recover(); r != nil {
			err = fmt.Errorf("cannot build template %s: %v", name, r)
		}
	}()
	kind := rep.Str(d, "kind")
	ver := byte(rep.Int(d, "ver"))
	var typ common2.TxType
	var pv byte
	var pl interfaces.Payload
	outs := []*common2.Output{plainOut(100)}
	progs := []*pg.Program{{Code: stdCode("SIGNER"), Parameter: []byte{1, 2}}}
	prog := func(code []byte) { progs = []*pg.Program{{Code: code, Parameter: []byte{1, 2}}} }
	switch kind {
	case "RegisterProducer", "UpdateProducer":
		typ = common2.RegisterProducer
		if kind == "UpdateProducer" {
			typ = common2.UpdateProducer
		}
		pl = &payload.ProducerInfo{OwnerKey: pub(rep.Str(d, "owner")), NodePublicKey: pub(rep.Str(d, "node")), NickName: rep.Str(d, "nick"),
			Url: "http://x", Location: 1, NetAddress: "127.0.0.1:1", Signature: []byte{9}}
		prog(stdCode(rep.Str(d, "owner")))
	case "CancelProducer":
		typ = common2.CancelProducer
		pl = &payload.ProcessProducer{OwnerKey: pub(rep.Str(d, "owner")), Signature: []byte{9}}
	case "ActivateProducer":
		typ = common2.ActivateProducer
		pl = &payload.ActivateProducer{NodePublicKey: pub(rep.Str(d, "node")), Signature: []byte{9}}
	case "RegisterCR":
		typ, pv = common2.RegisterCR, ver
		info := &payload.CRInfo{CID: u168(rep.Str(d, "cid")), DID: u168("did-" + rep.Str(d, "cid")), NickName: rep.Str(d, "nick"), Url: "http://cr", Location: 2, Signature: []byte{9}}
		switch rep.Str(d, "script") {
		case "std":
			info.Code = stdCode(rep.Str(d, "key"))
			prog(info.Code)
		case "multi":
			info.Code = multiCode(rep.Str(d, "key"))
			prog(info.Code)
		case "schnorr":
			prog(schnorrCode(rep.Str(d, "key")))
		default:
			return nil, fmt.Errorf("unknown script kind %q", rep.Str(d, "script"))
		}
		pl = info
	case "UpdateCR":
		typ, pv = common2.UpdateCR, payload.CRInfoDIDVersion
		pl = &payload.CRInfo{Code: stdCode("UCR-" + rep.Str(d, "cid")), CID: u168(rep.Str(d, "cid")), DID: u168("did-" + rep.Str(d, "cid")),
			NickName: rep.Str(d, "nick"), Url: "http://cr", Location: 2, Signature: []byte{9}}
	case "UnregisterCR":
		typ = common2.UnregisterCR
		pl = &payload.UnregisterCR{CID: u168(rep.Str(d, "cid")), Signature: []byte{9}}
	case "ReturnDepositCoin":
		typ = common2.ReturnDepositCoin
		pl = &payload.ReturnDepositCoin{}
		prog(stdCode(rep.Str(d, "code")))
	case "ReturnCRDepositCoin":
		typ = common2.ReturnCRDepositCoin
		pl = &payload.ReturnDepositCoin{}
		prog(stdCode(rep.Str(d, "code")))
	case "CRCouncilMemberClaimNode":
		typ = common2.CRCouncilMemberClaimNode
		pl = &payload.CRCouncilMemberClaimNode{NodePublicKey: pub(rep.Str(d, "node")), CRCouncilCommitteeDID: u168(rep.Str(d, "did")), CRCouncilCommitteeSignature: []byte{9}}
	case "CRCProposal":
		typ, pv = common2.CRCProposal, payload.CRCProposalVersion01
		p := &payload.CRCProposal{OwnerKey: pub("POWNER"), DraftHash: h256(rep.Str(d, "draft")), DraftData: []byte("draft " + rep.Str(d, "draft")),
			CRCouncilMemberDID: u168(rep.Str(d, "member")), Recipient: key("OUT").Hash, Signature: []byte{1}, CRCouncilMemberSignature: []byte{2}}
		switch rep.Str(d, "ptype") {
		case "Normal":
			p.ProposalType = payload.Normal
			p.Budgets = []payload.Budget{{Type: payload.Imprest, Stage: 0, Amount: 10}}
		case "ELIP":
			p.ProposalType = payload.ELIP
			p.Budgets = []payload.Budget{{Type: payload.Imprest, Stage: 0, Amount: 10}}
		case "CloseProposal":
			p.ProposalType = payload.CloseProposal
			p.TargetProposalHash = h256(rep.Str(d, "target"))
		case "ChangeProposalOwner":
			p.ProposalType = payload.ChangeProposalOwner
			p.TargetProposalHash = h256(rep.Str(d, "target"))
			p.NewOwnerKey = pub("PNEWOWNER")
			p.NewRecipient = key("OUT2").Hash
			p.NewOwnerSignature = []byte{3}
		case "SecretaryGeneral":
			p.ProposalType = payload.SecretaryGeneral
			p.SecretaryGeneralPublicKey = pub("SECGEN-" + rep.Str(d, "draft"))
			p.SecretaryGeneralDID = u168("secgen-" + rep.Str(d, "draft"))
			p.SecretaryGeneraSignature = []byte{4}
		case "ReserveCustomID":
			p.ProposalType = payload.ReserveCustomID
			p.ReservedCustomIDList = []string{"reserved" + rep.Str(d, "draft")}
		case "ReceiveCustomID":
			p.ProposalType = payload.ReceiveCustomID
			p.ReceivedCustomIDList = strsOf(d, "ids")
			p.ReceiverDID = u168("receiver")
		case "ChangeCustomIDFee":
			p.ProposalType = payload.ChangeCustomIDFee
			p.CustomIDFeeRateInfo = payload.CustomIDFeeRateInfo{RateOfCustomIDFee: 100, EIDEffectiveHeight: 5}
		case "RegisterSideChain":
			p.ProposalType = payload.RegisterSideChain
			magic, err := strconv.Atoi(rep.Str(d, "magic"))
			if err != nil {
				return nil, err
			}
			p.SideChainInfo = payload.SideChainInfo{SideChainName: rep.Str(d, "name"), MagicNumber: uint32(magic), GenesisHash: h256(rep.Str(d, "genesis")),
				ExchangeRate: 100000000, EffectiveHeight: 100, ResourcePath: "/r"}
		default:
			return nil, fmt.Errorf("unknown proposal type %q", rep.Str(d, "ptype"))
		}
		pl = p
	case "CRCProposalReview":
		typ, pv = common2.CRCProposalReview, payload.CRCProposalReviewVersion01
		pl = &payload.CRCProposalReview{ProposalHash: h256(rep.Str(d, "proposal")), VoteResult: payload.Approve, OpinionHash: h256(rep.Str(d, "opinion")),
			OpinionData: []byte("opinion " + rep.Str(d, "opinion")), DID: u168(rep.Str(d, "did")), Signature: []byte{3}}
	case "CRCProposalTracking":
		typ, pv = common2.CRCProposalTracking, payload.CRCProposalTrackingVersion01
		pl = &payload.CRCProposalTracking{ProposalHash: h256(rep.Str(d, "proposal")), MessageHash: h256(rep.Str(d, "msg")), MessageData: []byte("msg " + rep.Str(d, "msg")),
			Stage: 1, OwnerKey: pub("POWNER"), OwnerSignature: []byte{5}, ProposalTrackingType: payload.Progress,
			SecretaryGeneralOpinionHash: h256("sgo"), SecretaryGeneralOpinionData: []byte("sgo"), SecretaryGeneralSignature: []byte{6}}
	case "CRCProposalWithdraw":
		typ, pv = common2.CRCProposalWithdraw, payload.CRCProposalWithdrawVersion01
		pl = &payload.CRCProposalWithdraw{ProposalHash: h256(rep.Str(d, "proposal")), OwnerKey: pub("POWNER"), Recipient: key("OUT").Hash,
			Amount: common.Fixed64(rep.Int(d, "amount")), Signature: []byte{7}}
	case "CRCProposalRealWithdraw":
		typ = common2.CRCProposalRealWithdraw
		pl = &payload.CRCProposalRealWithdraw{WithdrawTransactionHashes: hashes(strsOf(d, "hashes"))}
	case "CRCAppropriation":
		typ = common2.CRCAppropriation
		pl = &payload.CRCAppropriation{}
	case "IllegalProposalEvidence", "IllegalVoteEvidence", "IllegalBlockEvidence", "IllegalSidechainEvidence", "InactiveArbitrators", "NextTurnDPOSInfo":
		typ = map[string]common2.TxType{"IllegalProposalEvidence": common2.IllegalProposalEvidence, "IllegalVoteEvidence": common2.IllegalVoteEvidence,
			"IllegalBlockEvidence": common2.IllegalBlockEvidence, "IllegalSidechainEvidence": common2.IllegalSidechainEvidence,
			"InactiveArbitrators": common2.InactiveArbitrators, "NextTurnDPOSInfo": common2.NextTurnDPOSInfo}[kind]
		want := map[string]byte{"IllegalProposalEvidence": 'p', "IllegalVoteEvidence": 'v', "IllegalBlockEvidence": 'b',
			"IllegalSidechainEvidence": 's', "InactiveArbitrators": 'i', "NextTurnDPOSInfo": 't'}[kind]
		id := rep.Str(d, "ev")
		e := evidence(id)
		if e == nil || id[0] != want {
			return nil, fmt.Errorf("evidence id %q does not belong to kind %s", id, kind)
		}
		pl = e.pl
		outs = nil
		progs = []*pg.Program{}
	case "ProposalResult":
		typ = common2.ProposalResult
		pl = &payload.RecordProposalResult{ProposalResults: []payload.ProposalResult{{ProposalHash: h256(fmt.Sprintf("result-%d", rep.Int(d, "n"))), ProposalType: payload.ReserveCustomID, Result: true}}}
		outs = nil
	case "RevertToDPOS":
		typ = common2.RevertToDPOS
		pl = &payload.RevertToDPOS{WorkHeightInterval: payload.WorkHeightInterval, RevertToPOWBlockHeight: uint32(100 + rep.Int(d, "n"))}
		outs = nil
	case "VotesRealWithdraw":
		typ = common2.VotesRealWithdraw
		pl = &payload.VotesRealWithdrawPayload{VotesRealWithdraw: []payload.VotesRealWidhdraw{{ReturnVotesTXHash: h256(fmt.Sprintf("rv-%d", rep.Int(d, "n"))),
			StakeAddress: stakeHash("VRW"), Value: 100}}}
	case "Withdraw":
		typ, pv = common2.WithdrawFromSideChain, ver
		switch ver {
		case 0:
			pl = &payload.WithdrawFromSideChain{BlockHeight: 7, GenesisBlockAddress: genesisAddr, SideChainTransactionHashes: hashes(strsOf(d, "hashes"))}
		case 1:
			pl = &payload.WithdrawFromSideChain{}
		case 2:
			pl = &payload.WithdrawFromSideChain{Signers: []uint8{0, 1, 2}}
		default:
			return nil, fmt.Errorf("unknown withdraw payload version %d", ver)
		}
		outs = nil
		for i, o := range strsOf(d, "outs") {
			if o == "plain" {
				outs = append(outs, plainOut(common.Fixed64(100+i)))
			} else {
				outs = append(outs, &common2.Output{AssetID: core.ELAAssetID, Value: common.Fixed64(200 + i), ProgramHash: key("OUT").Hash, Type: common2.OTWithdrawFromSideChain,
					Payload: &outputpayload.Withdraw{Version: 0, GenesisBlockAddress: genesisAddr, SideChainTransactionHash: h256(o), TargetData: []byte{1}}})
			}
		}
	case "ReturnSideChainDeposit":
		typ = common2.ReturnSideChainDepositCoin
		pl = &payload.ReturnSideChainDepositCoin{}
		outs = nil
		for i, o := range strsOf(d, "outs") {
			if o == "plain" {
				outs = append(outs, plainOut(common.Fixed64(100+i)))
			} else {
				outs = append(outs, &common2.Output{AssetID: core.ELAAssetID, Value: common.Fixed64(200 + i), ProgramHash: key("OUT").Hash, Type: common2.OTReturnSideChainDepositCoin,
					Payload: &outputpayload.ReturnSideChainDeposit{Version: 0, GenesisBlockAddress: genesisAddr, DepositTransactionHash: h256(o)}})
			}
		}
	case "NFTDestroyFromSideChain":
		typ = common2.NFTDestroyFromSideChain
		ids := hashes(strsOf(d, "ids"))
		var owners []common.Uint168
		for range ids {
			owners = append(owners, stakeHash("NFTOWNER"))
		}
		pl = &payload.NFTDestroyFromSideChain{IDs: ids, OwnerStakeAddresses: owners, GenesisBlockHash: h256("nft-genesis")}
	case "ExchangeVotes":
		typ = common2.ExchangeVotes
		pl = &payload.ExchangeVotes{}
		outs = []*common2.Output{{AssetID: core.ELAAssetID, Value: 500, ProgramHash: key("OUT").Hash, Type: common2.OTStake,
			Payload: &outputpayload.ExchangeVotesOutput{Version: 0, StakeAddress: stakeHash(rep.Str(d, "stake"))}}, plainOut(100)}
	case "Voting":
		typ = common2.Voting
		pl = &payload.Voting{Contents: []payload.VotesContent{{VoteType: outputpayload.Delegate, VotesInfo: []payload.VotesWithLockTime{{Candidate: pub("CAND"), Votes: 100, LockTime: 0}}}}}
		prog(stdCode(rep.Str(d, "stake")))
	case "ReturnVotes":
		typ, pv = common2.ReturnVotes, ver
		rv := &payload.ReturnVotes{ToAddr: key("OUT").Hash, Value: 100, Signature: []byte{9}}
		if ver == payload.ReturnVotesVersionV0 {
			rv.Code = stdCode(rep.Str(d, "stake"))
		} else {
			prog(stdCode(rep.Str(d, "stake")))
		}
		pl = rv
	case "CreateNFT":
		typ = common2.CreateNFT
		pl = &payload.CreateNFT{ReferKey: h256(rep.Str(d, "refer")), StakeAddress: rep.Str(d, "addr"), GenesisBlockHash: h256("nft-genesis"),
			StartHeight: 1, EndHeight: 100, Votes: 100, VoteRights: 100, TargetOwnerKey: pub("CAND")}
		prog(stdCode(rep.Str(d, "stake")))
	case "DposV2ClaimReward":
		typ, pv = common2.DposV2ClaimReward, ver
		cl := &payload.DPoSV2ClaimReward{ToAddr: key("OUT").Hash, Value: 100, Signature: []byte{9}}
		if ver == payload.DposV2ClaimRewardVersionV0 {
			cl.Code = stdCode(rep.Str(d, "stake"))
		} else {
			prog(stdCode(rep.Str(d, "stake")))
		}
		pl = cl
	case "DposV2ClaimRewardRealWithdraw":
		typ = common2.DposV2ClaimRewardRealWithdraw
		pl = &payload.DposV2ClaimRewardRealWithdraw{WithdrawTransactionHashes: hashes(strsOf(d, "hashes"))}
	case "TransferAsset":
		typ = common2.TransferAsset
		pl = &payload.TransferAsset{}
	case "Vote":
		// a transfer with a vote output (producer votes: Delegate, CR votes: CRC)
		typ = common2.TransferAsset
		pl = &payload.TransferAsset{}
		vt := outputpayload.Delegate
		if rep.Str(d, "vtype") == "CRC" {
			vt = outputpayload.CRC
		}
		var cvs []outputpayload.CandidateVotes
		for _, cand := range strsOf(d, "cands") {
			cb := pub(cand)
			if vt == outputpayload.CRC {
				cb = u168(cand).Bytes()
			}
			cvs = append(cvs, outputpayload.CandidateVotes{Candidate: cb, Votes: 100})
		}
		outs = []*common2.Output{{AssetID: core.ELAAssetID, Value: 100, ProgramHash: key("OUT").Hash, Type: common2.OTVote,
			Payload: &outputpayload.VoteOutput{Version: outputpayload.VoteProducerAndCRVersion, Contents: []outputpayload.VoteContent{{VoteType: vt, CandidateVotes: cvs}}}}, plainOut(50)}
	case "SideChainPow":
		typ = common2.SideChainPow
		sp := &payload.SideChainPow{SideBlockHash: h256(rep.Str(d, "block")), SideGenesisHash: h256(rep.Str(d, "genesis")), BlockHeight: 5}
		signer := key("NOT-ON-DUTY")
		if rep.Bool(d, "onduty") {
			if onDuty == nil {
				return nil, fmt.Errorf("no arbiter of the harness is on duty")
			}
			signer = onDuty
		}
		buf := new(bytes.Buffer)
		if err := sp.SerializeUnsigned(buf, payload.SideChainPowVersion); err != nil {
			return nil, err
		}
		sig, err := signer.Acc.Sign(buf.Bytes()[0:68])
		if err != nil {
			return nil, err
		}
		sp.Signature = sig
		pl = sp
		outs = nil
	default:
		return nil, fmt.Errorf("unknown transaction kind %q", kind)
	}
	var inputs []*common2.Input
	for _, in := range ins {
		op, ok := outpoints[in]
		if !ok {
			return nil, fmt.Errorf("unknown outpoint %q", in)
		}
		inputs = append(inputs, &common2.Input{Previous: op})
	}
	attr := common2.NewAttribute(common2.Nonce, []byte("poolkeys-"+name))
	tx = functions.CreateTransaction(common2.TxVersion09, typ, pv, pl, []*common2.Attribute{&attr}, inputs, outs, 0, progs)
	if tx == nil {
		return nil, fmt.Errorf("CreateTransaction returned nil for %s", kind)
	}
	_ = tx.Hash()
	txCache[name] = tx
	return tx, nil
}

// shape names the kind of a template for violation keys.
func shape(d map[string]interface{}) string {
	s := rep.Str(d, "kind")
	if p := rep.Str(d, "ptype"); p != "" {
		s += "." + p
	}
	if v := rep.Str(d, "vtype"); v != "" {
		s += "." + v
	}
	if _, ok := d["ver"]; ok {
		s += fmt.Sprintf(".v%d", rep.Int(d, "ver"))
	}
	if sc := rep.Str(d, "script"); sc != "" {
		s += "." + sc
		k := rep.Str(d, "key")
		if strings.HasPrefix(k, "TA") {
			s += ".keyTailAC"
		} else if strings.HasPrefix(k, "TE") {
			s += ".keyTailAE"
		}
	}
	if outs := strsOf(d, "outs"); len(outs) > 0 && !(rep.Str(d, "kind") == "Withdraw" && rep.Int(d, "ver") == 0) {
		first, last, n := -1, -1, 0
		for i, o := range outs {
			if o == "plain" {
				if first < 0 {
					first = i
				}
				last = i
				n++
			}
		}
		switch {
		case n == 0 && len(outs) > 1:
			s += ".multi"
		case n == 0:
		case first == 0 && last < len(outs)-1 && last == n-1:
			s += ".plainFirst"
		case first > 0 && last < len(outs)-1:
			s += ".plainBetween"
		default:
			s += ".plainMixed"
		}
	}
	if len(strsOf(d, "ins")) > 0 && rep.Str(d, "kind") != "TransferAsset" {
		s += ".withInputs"
	}
	return s
}

// ---------------------------------------------------------------------------
// the world: one node (chain state + ledger), a fresh pool per behaviour

type world struct {
	n *stack.Node
}

var arbiterNames = []string{"ARB1", "ARB2", "ARB3", "ARB4", "ARB5"}

func newWorld(registered map[string]string, inputs []string) (*world, error) {
	// the origin arbiters of the node are harness keys, so that a side-chain pow
	// transaction can be signed by the arbiter on duty
	n, err := stack.New(stack.Options{Tweak: func(p *config.Configuration) {
		var arbs []string
		for _, a := range arbiterNames {
			arbs = append(arbs, hexs(pub(a)))
		}
		p.DPoSConfiguration.OriginArbiters = arbs
	}})
	if err != nil {
		return nil, err
	}
	w := &world{n: n}
	// coinbase outputs of a few blocks are the outpoints the templates spend
	// (CleanSubmittedTransactions looks the inputs of a block's transaction up)
	i := 0
	for i < len(inputs) {
		blk, err := n.MineOn(nil, 0)
		if err != nil {
			return nil, fmt.Errorf("prefix block: %v", err)
		}
		cb := blk.Transactions[0]
		for j := range cb.Outputs() {
			if i < len(inputs) {
				outpoints[inputs[i]] = common2.OutPoint{TxID: cb.Hash(), Index: uint16(j)}
				i++
			}
		}
	}
	func() {
		defer func() { recover() }()
		od := n.Arbiters.GetOnDutyCrossChainArbitrator()
		for _, a := range arbiterNames {
			if len(od) > 0 && hexs(od) == hexs(pub(a)) {
				onDuty = key(a)
			}
		}
	}()
	// the producers registered on chain (Registered in PoolKeys.tla): the DPoS state
	// processes their registrations
	var owners []string
	for o := range registered {
		owners = append(owners, o)
	}
	sort.Strings(owners)
	var regs []interfaces.Transaction
	for _, o := range owners {
		dep, err := contract.CreateDepositContractByPubKey(key(o).Acc.PublicKey)
		if err != nil {
			return nil, err
		}
		info := &payload.ProducerInfo{OwnerKey: pub(o), NodePublicKey: pub(registered[o]), NickName: "registered-" + o, Url: "http://x", Location: 1,
			NetAddress: "127.0.0.1:1", Signature: []byte{9}}
		attr := common2.NewAttribute(common2.Nonce, []byte("registered-"+o))
		regs = append(regs, functions.CreateTransaction(common2.TxVersion09, common2.RegisterProducer, payload.ProducerInfoVersion, info,
			[]*common2.Attribute{&attr}, nil, []*common2.Output{{AssetID: core.ELAAssetID, Value: 5000 * 100000000, ProgramHash: *dep.ToProgramHash(),
				Type: common2.OTNone, Payload: &outputpayload.DefaultOutput{}}}, 0, []*pg.Program{{Code: stdCode(o), Parameter: []byte{1}}}))
	}
	if len(regs) > 0 {
		h := n.Chain.GetHeight() + 1
		n.Chain.GetState().ProcessBlock(&types.Block{Header: common2.Header{Height: h}, Transactions: regs}, nil, 0)
		for _, o := range owners {
			p := n.Chain.GetState().GetProducer(pub(o))
			if p == nil || hexs(p.NodePublicKey()) != hexs(pub(registered[o])) {
				return nil, fmt.Errorf("producer %s/%s is not in the DPoS state", o, registered[o])
			}
		}
	}
	return w, nil
}

// newPool returns a fresh pool on a checkpoint manager of its own (closing the
// manager ends the file goroutine NewTxPool's registration starts).
func (w *world) newPool() (*mempool.TxPool, func()) {
	ckp := checkpoint.NewManager(w.n.Params)
	return mempool.NewTxPool(w.n.Params, ckp), func() {
		defer func() { recover() }()
		ckp.Close()
	}
}

var reSlot = regexp.MustCompile(`slot (\S+) (verify|append|remove) tx error`)

// classify walks the error chain: the outer error names the slot, an inner one
// with code ErrTxPoolTxDuplicate says that the key is taken.
func classify(err elaerr.ELAError, prefix string) verdict {
	v := verdict{kind: "error"}
	var msgs []string
	var e error = err
	for depth := 0; e != nil && depth < 8; depth++ {
		msgs = append(msgs, e.Error())
		ee, ok := e.(elaerr.ELAError)
		if !ok {
			break
		}
		if ee.Code() == elaerr.ErrTxPoolTxDuplicate && prefix == "" {
			v.kind = "conflict"
		}
		e = ee.InnerError()
	}
	v.msg = prefix + strings.Join(msgs, ": ")
	if m := reSlot.FindStringSubmatch(v.msg); m != nil {
		v.slot = m[1]
	}
	return v
}

type verdict struct {
	kind string // ok | conflict | error | panic
	slot string
	msg  string
}

func (w *world) doAppend(pool *mempool.TxPool, tx interfaces.Transaction) (v verdict) {
	defer func() {
		if r := recover(); r != nil {
			v = verdict{kind: "panic", msg: fmt.Sprint(r)}
		}
	}()
	if err := pool.VerifAppendUnchecked(tx); err != nil {
		return classify(err, "")
	}
	return verdict{kind: "ok"}
}

func (w *world) doConnect(pool *mempool.TxPool, tx interfaces.Transaction) (v verdict) {
	defer func() {
		if r := recover(); r != nil {
			v = verdict{kind: "panic", msg: fmt.Sprint(r)}
		}
	}()
	blk := &types.Block{Header: common2.Header{Height: w.n.Chain.GetHeight() + 1}, Transactions: []interfaces.Transaction{tx}}
	pool.CleanSubmittedTransactions(blk)
	return verdict{kind: "connected"}
}

// expected index of a step: slot -> printed key -> owner template
func expectedIndex(st rep.Step) (map[string]map[string]string, error) {
	res := map[string]map[string]string{}
	m, _ := st["index"].(map[string]interface{}) // an empty index is printed as []
	for slot, v := range m {
		lst, _ := v.([]interface{})
		res[slot] = map[string]string{}
		for _, e := range lst {
			pair, _ := e.([]interface{})
			if len(pair) != 2 {
				return nil, fmt.Errorf("bad index entry in slot %s", slot)
			}
			sym, _ := pair[0].(string)
			owner, _ := pair[1].(string)
			rk, ok := realKey(slot, sym)
			if !ok {
				return nil, fmt.Errorf("no real key for %s / %q", slot, sym)
			}
			if _, dup := res[slot][rk]; dup {
				return nil, fmt.Errorf("two symbolic keys of slot %s map to the real key %s", slot, rk)
			}
			res[slot][rk] = owner + "\x00" + sym
		}
	}
	return res, nil
}

func sortedKeys(m map[string]map[string]string) []string {
	var r []string
	for k := range m {
		r = append(r, k)
	}
	sort.Strings(r)
	return r
}

func replayOne(w *world, b rep.Behaviour) bool {
	pool, closePool := w.newPool()
	defer closePool()
	defs := map[string]map[string]interface{}{}
	names := map[common.Uint256]string{}
	for i, st := range b {
		t := rep.Str(st, "t")
		d := rep.Map(st, "def")
		c := map[string]interface{}{"behaviour": b[:i+1]}
		tx, err := build(t, d, strsOf(st, "ins"))
		if err != nil {
			rep.Mismatch(err.Error(), c)
			return false
		}
		defs[t] = d
		names[tx.Hash()] = t
		exp := rep.Map(st, "exp")
		want := rep.Str(exp, "verdict")
		var got verdict
		switch st.Act() {
		case "Append":
			got = w.doAppend(pool, tx)
		case "Connect":
			got = w.doConnect(pool, tx)
		default:
			rep.Mismatch("unknown action "+st.Act(), c)
			return false
		}
		c["real"] = map[string]interface{}{"verdict": got.kind, "slot": got.slot, "message": got.msg, "tx": tx.Hash().String()}
		sh := shape(d)
		var partners []string
		for _, p := range strsOf(exp, "with") {
			if pd, ok := defs[p]; ok {
				partners = append(partners, shape(pd))
			}
		}
		sort.Strings(partners)
		switch {
		case got.kind == "panic":
			rep.Violation("C03:panic:mempool-slot-key:"+sh, fmt.Sprintf("%s of %s (%s) panicked in the pool's conflict check: %s", st.Act(), t, sh, got.msg), c)
			return false
		case got.kind == "error":
			slot := got.slot
			if slot == "" {
				slot = "?"
			}
			rep.Violation("C34:slot-key:"+slot+":"+sh+":no-key", fmt.Sprintf("%s of %s (%s): the pool cannot derive the key of slot %s: %s", st.Act(), t, sh, slot, got.msg), c)
			return false
		case want == "ok" && got.kind == "conflict":
			rep.Violation("C34:slot-key:"+got.slot+":"+sh+"~spurious", fmt.Sprintf(
				"%s (%s) claims nothing the pool %v holds, but the pool refuses it as a conflict in slot %s: %s", t, sh, rep.List(b[max(i-1, 0)], "pool"), got.slot, got.msg), c)
			return false
		case want == "conflict" && got.kind == "ok":
			slots := strsOf(exp, "slots")
			sort.Strings(slots)
			rep.Violation("C34:slot-key:"+strings.Join(slots, "+")+":"+sh+"~"+strings.Join(partners, "+"), fmt.Sprintf(
				"%s (%s) claims a resource (slot %v) already claimed by %v (%v) in the pool, but the pool accepts it", t, sh, slots, rep.List(exp, "with"), partners), c)
			return false
		case want == "conflict" && got.kind == "conflict":
			found := false
			for _, s := range strsOf(exp, "slots") {
				if s == got.slot {
					found = true
				}
			}
			if !found {
				rep.Violation("C34:slot-key:"+got.slot+":"+sh+"~wrong-slot", fmt.Sprintf(
					"%s (%s) collides with %v in slot(s) %v; the pool reports a conflict in slot %s: %s", t, sh, rep.List(exp, "with"), strsOf(exp, "slots"), got.slot, got.msg), c)
				return false
			}
		}
		// the index
		want2, err := expectedIndex(st)
		if err != nil {
			rep.Mismatch(err.Error(), c)
			return false
		}
		var snap *mempool.VerifSnapshot
		func() {
			defer func() { recover() }()
			snap = pool.VerifSnapshot()
		}()
		if snap == nil {
			rep.Mismatch("VerifSnapshot panicked", c)
			return false
		}
		realIdx := map[string]map[string]string{}
		for slot, m := range snap.Slots {
			realIdx[slot] = map[string]string{}
			for k, h := range m {
				owner, ok := names[h]
				if !ok {
					owner = "unknown transaction " + h.String()
				}
				realIdx[slot][k] = owner
			}
		}
		c["real_index"] = realIdx
		ownerShape := func(owner string) string {
			if d, ok := defs[owner]; ok {
				return shape(d)
			}
			return "?"
		}
		// at is appended to the keys of disagreements after a Connect step
		at := ""
		if st.Act() == "Connect" {
			at = "@connect:" + sh
		}
		// membership: transaction list and fee list
		realPool := map[string]bool{}
		var realNames []string
		for _, h := range snap.Txs {
			nm, ok := names[h]
			if !ok {
				nm = "unknown transaction " + h.String()
			}
			realPool[nm] = true
			realNames = append(realNames, nm)
		}
		sort.Strings(realNames)
		c["real_pool"] = realNames
		wantPool := map[string]bool{}
		for _, nm := range strsOf(st, "pool") {
			wantPool[nm] = true
			if !realPool[nm] {
				rep.Violation("C34:pool-membership:"+ownerShape(nm)+":lost"+at, fmt.Sprintf(
					"after %s %s: %s (%s) is not in the pool any more; nothing in that step concerns it (pool %v, expected %v)",
					st.Act(), t, nm, ownerShape(nm), realNames, strsOf(st, "pool")), c)
				return false
			}
		}
		for _, nm := range realNames {
			if !wantPool[nm] {
				rep.Violation("C34:pool-membership:"+ownerShape(nm)+":kept"+at, fmt.Sprintf(
					"after %s %s: %s (%s) is still in the pool (pool %v, expected %v)", st.Act(), t, nm, ownerShape(nm), realNames, strsOf(st, "pool")), c)
				return false
			}
		}
		var feeSize uint64
		feeSeen := map[common.Uint256]bool{}
		for _, it := range snap.FeeList {
			if _, ok := snap.TxSizes[it.Hash]; !ok || feeSeen[it.Hash] {
				rep.Violation("C34:pool-lists:fee-list"+at, fmt.Sprintf("after %s %s: the fee list names %s, which the transaction list does not hold (or names it twice)", st.Act(), t, it.Hash.String()), c)
				return false
			}
			feeSeen[it.Hash] = true
			feeSize += uint64(it.Size)
		}
		if len(snap.FeeList) != len(snap.Txs) || feeSize != snap.TotalSize {
			rep.Violation("C34:pool-lists:fee-list"+at, fmt.Sprintf("after %s %s: %d transactions, %d fee list entries; sizes %d / accounted %d",
				st.Act(), t, len(snap.Txs), len(snap.FeeList), feeSize, snap.TotalSize), c)
			return false
		}
		for _, slot := range sortedKeys(want2) {
			var ks []string
			for k := range want2[slot] {
				ks = append(ks, k)
			}
			sort.Strings(ks)
			for _, k := range ks {
				parts := strings.SplitN(want2[slot][k], "\x00", 2)
				owner, sym := parts[0], parts[1]
				ro, ok := realIdx[slot][k]
				if !ok {
					rep.Violation("C34:slot-key:"+slot+":"+ownerShape(owner)+":missing"+at, fmt.Sprintf(
						"after %s %s: the pool holds %s (%s) which claims %s in slot %s, but the slot has no such key (slot holds %d keys)",
						st.Act(), t, owner, ownerShape(owner), sym, slot, len(realIdx[slot])), c)
					return false
				}
				if ro != owner {
					rep.Violation("C34:slot-key:"+slot+":"+ownerShape(owner)+":owner"+at, fmt.Sprintf(
						"after %s %s: key %s of slot %s belongs to %s in the pool's index, the pool holds it for %s", st.Act(), t, sym, slot, ro, owner), c)
					return false
				}
			}
		}
		for _, slot := range sortedKeys(realIdx) {
			var ks []string
			for k := range realIdx[slot] {
				ks = append(ks, k)
			}
			sort.Strings(ks)
			for _, k := range ks {
				if _, ok := want2[slot][k]; !ok {
					owner := realIdx[slot][k]
					rep.Violation("C34:slot-key:"+slot+":"+ownerShape(owner)+":extra"+at, fmt.Sprintf(
						"after %s %s: slot %s holds key %q (owner %s) that no transaction of the pool %v claims", st.Act(), t, slot, k, owner, rep.List(st, "pool")), c)
					return false
				}
			}
			if len(realIdx[slot]) != len(want2[slot]) {
				rep.Violation("C34:slot-key:"+slot+":count"+at, fmt.Sprintf("after %s %s: slot %s holds %d keys, expected %d", st.Act(), t, slot, len(realIdx[slot]), len(want2[slot])), c)
				return false
			}
		}
	}
	return true
}

func max(a, b int) int {
	if a > b {
		return a
	}
	return b
}

func main() {
	if len(os.Args) < 3 || os.Args[1] != "replay" {
		fmt.Fprintln(os.Stderr, "usage: poolkeys replay <behaviours.jsonl> [i n]")
		os.Exit(3)
	}
	stack.InitGlobals()
	defer stack.CleanupGlobals()
	behs := rep.ReadBehaviours(os.Args[2])
	if len(os.Args) >= 5 {
		si, _ := strconv.Atoi(os.Args[3])
		sn, _ := strconv.Atoi(os.Args[4])
		if sn > 1 {
			var mine []rep.Behaviour
			for i, b := range behs {
				if i%sn == si {
					mine = append(mine, b)
				}
			}
			behs = mine
		}
	}
	// producers registered on chain: named by the CancelProducer templates
	registered := map[string]string{}
	inSet := map[string]bool{}
	for _, b := range behs {
		for _, st := range b {
			d := rep.Map(st, "def")
			if rep.Str(d, "kind") == "CancelProducer" {
				registered[rep.Str(d, "owner")] = rep.Str(d, "regnode")
			}
			for _, in := range strsOf(st, "ins") {
				inSet[in] = true
			}
		}
	}
	var inputs []string
	for in := range inSet {
		inputs = append(inputs, in)
	}
	sort.Strings(inputs)
	w, err := newWorld(registered, inputs)
	if err != nil {
		rep.Mismatch("cannot build node: "+err.Error(), nil)
		rep.Summary(0, nil, nil)
		return
	}
	defer w.n.Close()
	okN, steps := 0, 0
	kinds := map[string]bool{}
	slots := map[string]bool{}
	var sample interface{}
	for _, b := range behs {
		steps += len(b)
		if replayOne(w, b) {
			okN++
		}
		for _, st := range b {
			kinds[shape(rep.Map(st, "def"))] = true
			if m, ok := st["index"].(map[string]interface{}); ok {
				for s := range m {
					slots[s] = true
				}
			}
		}
		if sample == nil && len(b) >= 3 && rep.Str(rep.Map(b[len(b)-1], "exp"), "verdict") == "conflict" {
			sample = b
		}
	}
	var ks, ss []string
	for k := range kinds {
		ks = append(ks, k)
	}
	for s := range slots {
		ss = append(ss, s)
	}
	sort.Strings(ks)
	sort.Strings(ss)
	rep.Summary(len(behs), map[string]interface{}{"steps": steps, "agree": okN, "template_shapes": ks, "slots_exercised": ss}, sample)
}
