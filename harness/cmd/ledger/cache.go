package main

import (
	"github.com/elastos/Elastos.ELA/blockchain"
	"github.com/elastos/Elastos.ELA/common"
	"verif/harness/internal/stack"
)

func ledgerGetAmount(h common.Uint168) (common.Fixed64, error) {
	return blockchain.DefaultLedger.GetAmount(h)
}

func cacheOptions() stack.Options { return stack.Options{} }

func (w *world) cacheCheck() string { return "" }
