package main

import (
	"bytes"
	"fmt"
	"sort"

	"github.com/elastos/Elastos.ELA/blockchain"
	"github.com/elastos/Elastos.ELA/common"
	"verif/harness/internal/stack"
)

func ledgerGetAmount(h common.Uint168) (common.Fixed64, error) {
	return blockchain.DefaultLedger.GetAmount(h)
}

// cache mode (C15): the reference cache is squeezed to two entries so that
// eviction happens all the time.
func cacheOptions() stack.Options {
	blockchain.MaxReferenceSize = 2
	return stack.Options{}
}

// cacheCheck compares every cached lookup with the uncached one:
//   - UTXOCache.GetTxReference (Reference + TxCache) vs ChainStore.GetTxReference
//   - ChainStoreFFLDB.GetBlock (decoded-block cache, cold and warm) vs the stored bytes
//   - the bounds of the reference cache
func (w *world) cacheCheck() string {
	n := w.n
	for _, t := range txOrder {
		tx := w.txs[t]
		if t == "T4" {
			continue // same input twice: both lookups return one entry per *Input pointer
		}
		cached, cerr := n.Chain.UTXOCache.GetTxReference(tx)
		plain, perr := n.Store.GetTxReference(tx)
		if (cerr != nil) != (perr != nil) {
			return fmt.Sprintf("reference-cache GetTxReference(%s): cached err=%v, uncached err=%v", t, cerr, perr)
		}
		if cerr != nil {
			continue
		}
		if len(cached) != len(plain) {
			return fmt.Sprintf("reference-cache GetTxReference(%s): %d cached references, %d uncached", t, len(cached), len(plain))
		}
		for in, o := range plain {
			c, ok := cached[in]
			if !ok {
				return fmt.Sprintf("reference-cache GetTxReference(%s): input missing from the cached answer", t)
			}
			var b1, b2 bytes.Buffer
			o.Serialize(&b1, tx.Version())
			c.Serialize(&b2, tx.Version())
			if !bytes.Equal(b1.Bytes(), b2.Bytes()) {
				return fmt.Sprintf("reference-cache GetTxReference(%s): cached output differs from the stored one", t)
			}
		}
		if l := len(n.Chain.UTXOCache.Reference); l > blockchain.MaxReferenceSize {
			return fmt.Sprintf("reference-bound Reference holds %d entries, bound %d", l, blockchain.MaxReferenceSize)
		}
		if l := n.Chain.UTXOCache.Inputs.Len(); l > blockchain.MaxReferenceSize {
			return fmt.Sprintf("reference-bound Inputs list holds %d entries, bound %d", l, blockchain.MaxReferenceSize)
		}
		if l := len(n.Chain.UTXOCache.TxCache); l > blockchain.MaxReferenceSize+1 {
			return fmt.Sprintf("reference-bound TxCache holds %d entries, bound %d", l, blockchain.MaxReferenceSize)
		}
	}
	// decoded block cache: every block the store has, twice (cold / warm), against the raw bytes
	var ids []int
	for id := range w.blocks {
		ids = append(ids, id)
	}
	sort.Ints(ids)
	for _, id := range ids {
		h := w.blocks[id].Hash()
		old, oerr := n.Store.GetFFLDB().GetOldBlock(h)
		for pass := 0; pass < 2; pass++ {
			blk, err := n.Store.GetFFLDB().GetBlock(h)
			if (err != nil) != (oerr != nil) {
				return fmt.Sprintf("block-cache GetBlock(%d) pass %d: err=%v, uncached err=%v", id, pass, err, oerr)
			}
			if err != nil {
				continue
			}
			var b1, b2 bytes.Buffer
			blk.Block.Serialize(&b1)
			old.Serialize(&b2)
			if !bytes.Equal(b1.Bytes(), b2.Bytes()) {
				return fmt.Sprintf("block-cache GetBlock(%d) pass %d differs from the stored block", id, pass)
			}
		}
	}
	return ""
}
