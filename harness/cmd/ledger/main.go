// Replay driver for spec/Chain/Ledger.tla on a full-stack regnet node
// (C06, C12, C14; the cache-transparency comparison of C15 rides on the same
// behaviours).
//
//	ledger replay <behaviours.jsonl> [shard i n]
package main

import (
	"bytes"
	"fmt"
	"os"
	"runtime/pprof"
	"sort"
	"strconv"
	"strings"

	"github.com/elastos/Elastos.ELA/common"
	"github.com/elastos/Elastos.ELA/common/config"
	"github.com/elastos/Elastos.ELA/core"
	"github.com/elastos/Elastos.ELA/core/contract"
	pg "github.com/elastos/Elastos.ELA/core/contract/program"
	"github.com/elastos/Elastos.ELA/core/types"
	common2 "github.com/elastos/Elastos.ELA/core/types/common"
	"github.com/elastos/Elastos.ELA/core/types/functions"
	"github.com/elastos/Elastos.ELA/core/types/interfaces"
	"github.com/elastos/Elastos.ELA/core/types/outputpayload"
	"github.com/elastos/Elastos.ELA/core/types/payload"
	"verif/harness/internal/rep"
	"verif/harness/internal/stack"
)

const fee = common.Fixed64(10000)

type world struct {
	n       *stack.Node
	keys    map[string]*stack.Key // "K","A","B"
	prefix  []*types.Block
	ops     map[string]common2.OutPoint // "F1:0" -> real outpoint
	vals    map[string]common.Fixed64
	txs     map[string]interfaces.Transaction
	blocks  map[int]*types.Block
	idOf    map[common.Uint256]int
	base    uint32 // height of the prefix tip
	tracked []string
	fundChange common2.OutPoint
}

func opKey(tx string, idx int) string { return fmt.Sprintf("%s:%d", tx, idx) }

// template table: must mirror TxIns / TxOuts of Ledger.tla
var txIns = map[string][]string{
	"T1": {"F1:0"}, "T2": {"F1:0"}, "T3": {"T1:0"}, "T4": {"F2:0", "F2:0"}, "T5": {"X:0"},
	"T6": {"F2:0"}, "T7": {"T1:1", "F2:0"}, "T9": {"F1:0"},
	"R1": {"G1:0"}, "R2": {"G2:0"}, "R3": {"G3:0"}, "R4": {"G4:0"},
	"W1": {"F2:0"}, "W2": {"W1:1"}, "W3": {"W1:1"}, "W4": {"W1:257"},
}

// wide templates (Ledger.tla W1..W4): built only when a behaviour uses them
const wideN = 300

var withWide bool
var wideOrder = []string{"W1", "W2", "W3", "W4"}

// producer registrations (Ledger.tla Res): owner key, node key, nickname
var regOf = map[string][3]string{
	"R1": {"o1", "n1", "alpha"}, "R2": {"o1", "n2", "betaa"}, "R3": {"o2", "n1", "gamma"}, "R4": {"o2", "n2", "alpha"},
}
var regOrder = []string{"R1", "R2", "R3", "R4"}
var withProducers bool

type outT struct {
	addr string
	zero bool
}

var txOuts = map[string][]outT{
	"T1": {{"A", false}, {"B", false}}, "T2": {{"B", false}}, "T3": {{"B", false}}, "T4": {{"A", false}},
	"T5": {{"A", false}}, "T6": {{"A", false}, {"A", true}}, "T7": {{"A", false}}, "T9": {{"A", false}},
}
var txOrder = []string{"T1", "T2", "T3", "T4", "T5", "T6", "T7", "T9"}
var owner = map[string]string{"F1:0": "K", "F2:0": "K", "X:0": "K"}

// afterNode, when set, runs right after the node exists and before the prefix blocks
// are processed (the wallet mode registers its checkpoint here).
var afterNode func(n *stack.Node, keys map[string]*stack.Key)

func newWorld(opt stack.Options) (*world, error) {
	keys := map[string]*stack.Key{}
	for i, k := range []string{"K", "A", "B", "o1", "o2", "n1", "n2"} {
		keys[k] = stack.KeyFromSeed(uint64(100 + i))
	}
	if withProducers {
		// the genesis coinbase (33 M ELA) goes to K: funds for producer deposits; the DPoS
		// state processes registrations from the first block on
		opt.Foundation = &keys["K"].Hash
		prev := opt.Tweak
		opt.Tweak = func(p *config.Configuration) {
			if prev != nil {
				prev(p)
			}
			p.VoteStartHeight = 1
		}
	}
	n, err := stack.New(opt)
	if err != nil {
		return nil, err
	}
	if afterNode != nil {
		afterNode(n, keys)
	}
	w := &world{n: n, keys: keys, ops: map[string]common2.OutPoint{}, vals: map[string]common.Fixed64{},
		txs: map[string]interfaces.Transaction{}, blocks: map[int]*types.Block{}, idOf: map[common.Uint256]int{}}
	// prefix: three blocks whose miner share goes to K (funding outputs F1, F2)
	parent := n.Genesis()
	for i := 0; i < 3; i++ {
		b, err := n.NewBlock(parent, nil, stack.BlockOpts{CoinbaseTo: &w.keys["K"].Hash})
		if err != nil {
			return nil, err
		}
		if _, _, err = n.Process(b); err != nil {
			return nil, fmt.Errorf("prefix block %d: %v", i, err)
		}
		w.prefix = append(w.prefix, b)
		parent = b
	}
	if withProducers {
		gcb := n.Genesis().Transactions[0]
		const g = common.Fixed64(6000 * 100000000)
		var outs []stack.Out
		for i := 0; i < 4; i++ {
			outs = append(outs, stack.Out{To: w.keys["K"].Hash, Value: g})
			w.vals[fmt.Sprintf("G%d:0", i+1)] = g
			owner[fmt.Sprintf("G%d:0", i+1)] = "K"
		}
		// the remainder goes to an address outside the model's address views
		outs = append(outs, stack.Out{To: stack.KeyFromSeed(199).Hash, Value: gcb.Outputs()[0].Value - 4*g - fee})
		fund, err := stack.Transfer([]common2.OutPoint{{TxID: gcb.Hash(), Index: 0}}, outs, []*stack.Key{w.keys["K"]}, 77)
		if err != nil {
			return nil, err
		}
		fb, err := n.NewBlock(parent, []interfaces.Transaction{fund}, stack.BlockOpts{Fees: fee})
		if err == nil {
			_, _, err = n.Process(fb)
		}
		if err != nil {
			return nil, fmt.Errorf("funding block: %v", err)
		}
		parent = fb
		for i := 0; i < 4; i++ {
			w.ops[fmt.Sprintf("G%d:0", i+1)] = common2.OutPoint{TxID: fund.Hash(), Index: uint16(i)}
		}
		w.fundChange = common2.OutPoint{TxID: fund.Hash(), Index: 4}
	}
	w.base = parent.Height
	w.blocks[0] = parent
	w.idOf[parent.Hash()] = 0
	for i, f := range []string{"F1:0", "F2:0"} {
		cb := w.prefix[i].Transactions[0]
		w.ops[f] = common2.OutPoint{TxID: cb.Hash(), Index: 1}
		w.vals[f] = cb.Outputs()[1].Value
	}
	w.ops["X:0"] = common2.OutPoint{TxID: common.Uint256{0xee, 1, 2, 3}, Index: 0}
	w.vals["X:0"] = 5 * fee
	// build the templates in dependency order
	order := txOrder
	if withWide {
		w1 := make([]outT, wideN)
		for i := range w1 {
			w1[i] = outT{"A", false}
		}
		txOuts["W1"] = w1
		txOuts["W2"], txOuts["W4"], txOuts["W3"] = []outT{{"B", false}}, []outT{{"B", false}}, []outT{{"A", false}}
		order = append(append([]string{}, txOrder...), wideOrder...)
	}
	for _, t := range order {
		var ins []common2.OutPoint
		var total common.Fixed64
		var signers []*stack.Key
		seen := map[string]bool{}
		for _, in := range txIns[t] {
			ins = append(ins, w.ops[in])
			if !seen[in] {
				total += w.vals[in]
			}
			seen[in] = true
			signers = append(signers, w.keys[owner[in]])
		}
		outs := txOuts[t]
		nz := 0
		for _, o := range outs {
			if !o.zero {
				nz++
			}
		}
		share := (total - fee) / common.Fixed64(nz)
		var os_ []stack.Out
		for i, o := range outs {
			v := share
			if o.zero {
				v = 0
			}
			if i == len(outs)-1 && !o.zero {
				// the division's remainder goes to the last output, so that the fee is exactly `fee`
				v = total - fee - share*common.Fixed64(nz-1)
			}
			os_ = append(os_, stack.Out{To: w.keys[o.addr].Hash, Value: v})
			owner[opKey(t, i)] = o.addr
			w.vals[opKey(t, i)] = v
		}
		tx, err := stack.Transfer(ins, os_, signers, uint64(len(t))*1000+uint64(t[1]))
		if err != nil {
			return nil, err
		}
		if t == "T9" {
			// the same outpoint as T1 / T2, referenced with another sequence number
			tx.Inputs()[0].Sequence = 1
			if err := stack.Sign(tx, signers); err != nil {
				return nil, err
			}
		}
		w.txs[t] = tx
		for i := range outs {
			w.ops[opKey(t, i)] = common2.OutPoint{TxID: tx.Hash(), Index: uint16(i)}
		}
	}
	if withProducers {
		for _, t := range regOrder {
			tx, err := w.registerTx(t)
			if err != nil {
				return nil, err
			}
			w.txs[t] = tx
			for i := 0; i < 2; i++ {
				w.ops[opKey(t, i)] = common2.OutPoint{TxID: tx.Hash(), Index: uint16(i)}
				w.vals[opKey(t, i)] = tx.Outputs()[i].Value
			}
			owner[opKey(t, 0)], owner[opKey(t, 1)] = "D", "K"
		}
	}
	for k := range w.ops {
		w.tracked = append(w.tracked, k)
	}
	sort.Strings(w.tracked)
	return w, nil
}

func (w *world) mint(a map[string]interface{}) error {
	id := rep.Int(a, "id")
	parent := w.blocks[rep.Int(a, "parent")]
	var txs []interfaces.Transaction
	var fees common.Fixed64
	for _, t := range rep.List(a, "txs") {
		txs = append(txs, w.txs[t.(string)])
		fees += fee
	}
	o := stack.BlockOpts{Fees: fees}
	switch rep.Str(a, "bad") {
	case "merkle":
		o.BadMerkleRoot = true
	case "reward":
		o.RewardDelta = 1
	}
	b, err := w.n.NewBlock(parent, txs, o)
	if err != nil {
		return err
	}
	w.blocks[id] = b
	w.idOf[b.Hash()] = id
	return nil
}

// projection of the real node into the spec's vocabulary
type proj struct {
	Main  []int
	Utxo  []string
	Addr  map[string][]string
	TxH   map[string]int
	Notes []string
}

func (w *world) project() proj {
	p := proj{Addr: map[string][]string{}, TxH: map[string]int{}}
	n := w.n
	h := n.Chain.GetHeight()
	for i := w.base + 1; i <= h; i++ {
		hash, err := n.Chain.GetBlockHash(i)
		if err != nil {
			p.Notes = append(p.Notes, fmt.Sprintf("GetBlockHash(%d): %v", i, err))
			p.Main = append(p.Main, -1)
			continue
		}
		id, ok := w.idOf[hash]
		if !ok {
			id = -1
		}
		p.Main = append(p.Main, id)
	}
	best := n.Chain.GetBestChain()
	if best == nil || best.Height != h {
		p.Notes = append(p.Notes, "GetBestChain height != GetHeight")
	}
	if n.Store.GetHeight() != h {
		p.Notes = append(p.Notes, fmt.Sprintf("store height %d != chain height %d", n.Store.GetHeight(), h))
	}
	// unspent view per transaction
	byTx := map[common.Uint256][]string{}
	for _, k := range w.tracked {
		byTx[w.ops[k].TxID] = append(byTx[w.ops[k].TxID], k)
	}
	for _, k := range w.tracked {
		op := w.ops[k]
		idxs, err := n.Store.GetFFLDB().GetUnspent(op.TxID)
		if err != nil {
			continue
		}
		cnt := 0
		for _, i := range idxs {
			if i == op.Index {
				cnt++
			}
		}
		if cnt > 1 {
			p.Notes = append(p.Notes, "GetUnspent lists "+k+" twice")
		}
		if cnt > 0 {
			p.Utxo = append(p.Utxo, k)
		}
	}
	sort.Strings(p.Utxo)
	// per address view
	rev := map[common2.OutPoint]string{}
	for k, op := range w.ops {
		rev[op] = k
	}
	for _, a := range []string{"A", "B", "K"} {
		us, err := n.Store.GetFFLDB().GetUTXO(&w.keys[a].Hash)
		if err != nil {
			p.Notes = append(p.Notes, "GetUTXO "+a+": "+err.Error())
		}
		var sum common.Fixed64
		lst := []string{}
		for _, u := range us {
			k, ok := rev[common2.OutPoint{TxID: u.TxID, Index: u.Index}]
			if !ok {
				k = "?" + u.TxID.String()[:6]
			} else if u.Value != w.vals[k] {
				p.Notes = append(p.Notes, fmt.Sprintf("GetUTXO %s value %d != %d", k, u.Value, w.vals[k]))
			}
			if u.Value == 0 {
				p.Notes = append(p.Notes, "zero-value output "+k+" listed for address "+a)
			}
			lst = append(lst, k)
			sum += u.Value
		}
		sort.Strings(lst)
		// the third prefix coinbase also pays K; it is not an outpoint of the model
		if a == "K" {
			var l2 []string
			for _, k := range lst {
				if !strings.HasPrefix(k, "?") {
					l2 = append(l2, k)
				}
			}
			lst = l2
			if lst == nil {
				lst = []string{}
			}
		}
		p.Addr[a] = lst
		amt, err := w.ledgerAmount(a)
		if err == nil && amt != sum {
			p.Notes = append(p.Notes, fmt.Sprintf("balance of %s %d != sum of its UTXO list %d", a, amt, sum))
		}
	}
	for _, t := range w.allTx() {
		tx, hgt, err := n.Store.GetTransaction(w.txs[t].Hash())
		if err != nil || tx == nil {
			p.TxH[t] = 0
			continue
		}
		if tx.Hash() != w.txs[t].Hash() {
			p.Notes = append(p.Notes, "GetTransaction returned another transaction for "+t)
		}
		p.TxH[t] = int(hgt) - int(w.base)
	}
	return p
}

func strList(v []interface{}) []string {
	r := []string{}
	for _, x := range v {
		switch y := x.(type) {
		case string:
			r = append(r, y)
		case []interface{}:
			r = append(r, fmt.Sprintf("%v:%v", y[0], int(y[1].(float64))))
		}
	}
	sort.Strings(r)
	return r
}

func eqS(a, b []string) bool {
	if len(a) != len(b) {
		return false
	}
	for i := range a {
		if a[i] != b[i] {
			return false
		}
	}
	return true
}

// compare returns "" or a description of the first difference
func compare(st rep.Step, p proj, txset map[string]bool) (string, string) {
	var em []int
	for _, x := range rep.List(st, "main") {
		em = append(em, int(x.(float64)))
	}
	if fmt.Sprint(em) != fmt.Sprint(p.Main) {
		return "main-chain", fmt.Sprintf("active chain: real %v, spec %v", p.Main, em)
	}
	if eu := strList(rep.List(st, "utxo")); !eqS(eu, p.Utxo) {
		return "utxo", fmt.Sprintf("unspent outputs: real %v, spec %v", p.Utxo, eu)
	}
	for _, a := range []string{"A", "B", "K"} {
		if _, has := st["addr"+a]; !has {
			continue // Mempool.tla logs the chain and the UTXO set only
		}
		if ea := strList(rep.List(st, "addr"+a)); !eqS(ea, p.Addr[a]) {
			return "addr-utxo", fmt.Sprintf("per-address UTXO of %s: real %v, spec %v", a, p.Addr[a], ea)
		}
	}
	eh := rep.Map(st, "txh")
	for t := range eh {
		if rep.Int(eh, t) != p.TxH[t] {
			return "tx-location", fmt.Sprintf("location of %s: real height %d, spec %d", t, p.TxH[t], rep.Int(eh, t))
		}
	}
	if len(p.Notes) > 0 {
		return "query-consistency", strings.Join(p.Notes, "; ")
	}
	return "", ""
}

func (w *world) allTx() []string {
	r := append([]string{}, txOrder...)
	if withWide {
		r = append(r, wideOrder...)
	}
	if withProducers {
		r = append(r, regOrder...)
	}
	return r
}

// registerTx builds a signed RegisterProducer transaction (deposit 5000 ELA + change)
func (w *world) registerTx(t string) (interfaces.Transaction, error) {
	r := regOf[t]
	ownerK, nodeK := w.keys[r[0]], w.keys[r[1]]
	opk, _ := ownerK.Acc.PublicKey.EncodePoint(true)
	npk, _ := nodeK.Acc.PublicKey.EncodePoint(true)
	dep, err := contract.CreateDepositContractByPubKey(ownerK.Acc.PublicKey)
	if err != nil {
		return nil, err
	}
	info := &payload.ProducerInfo{OwnerKey: opk, NodePublicKey: npk, NickName: r[2], Url: "http://x", Location: 1, NetAddress: "127.0.0.1:1"}
	buf := new(bytes.Buffer)
	info.SerializeUnsigned(buf, payload.ProducerInfoVersion)
	sig, err := ownerK.Acc.Sign(buf.Bytes())
	if err != nil {
		return nil, err
	}
	info.Signature = sig
	in := txIns[t][0]
	const deposit = common.Fixed64(5000 * 100000000)
	attr := common2.NewAttribute(common2.Nonce, []byte("reg-"+t))
	tx := functions.CreateTransaction(common2.TxVersion09, common2.RegisterProducer, payload.ProducerInfoVersion, info,
		[]*common2.Attribute{&attr}, []*common2.Input{{Previous: w.ops[in]}},
		[]*common2.Output{
			{AssetID: core.ELAAssetID, Value: deposit, ProgramHash: *dep.ToProgramHash(), Type: common2.OTNone, Payload: &outputpayload.DefaultOutput{}},
			{AssetID: core.ELAAssetID, Value: w.vals[in] - deposit - fee, ProgramHash: w.keys["K"].Hash, Type: common2.OTNone, Payload: &outputpayload.DefaultOutput{}},
		}, 0, []*pg.Program{})
	return tx, stack.Sign(tx, []*stack.Key{w.keys["K"]})
}

func isExtension(old, new []int) bool {
	if len(new) < len(old) {
		return false
	}
	for i := range old {
		if old[i] != new[i] {
			return false
		}
	}
	return true
}

func (w *world) ledgerAmount(a string) (common.Fixed64, error) {
	return ledgerGetAmount(w.keys[a].Hash)
}

var devAbsent int
var poolMode bool
var ckpMode bool
var maxPool int

type outcome struct {
	violations int
	skipped    bool
}

func replayOne(b rep.Behaviour, idx int, opt stack.Options, cacheMode bool) (ok bool) {
	w, err := newWorld(opt)
	if err != nil {
		rep.Mismatch("cannot build node: "+err.Error(), nil)
		return false
	}
	defer w.n.Close()
	if poolMode {
		if d := w.checkSizes(); d != "" {
			rep.Mismatch(d, nil)
			return false
		}
		if maxPool > 0 {
			w.n.Pool.VerifSetMaxSize(uint64(maxPool))
		}
	}
	txset := map[string]bool{}
	for i, st := range b {
		a := st.Args()
		switch st.Act() {
		case "Mint":
			if err := w.mint(a); err != nil {
				rep.Mismatch("mint failed: "+err.Error(), b[:i+1])
				return false
			}
			continue
		case "Restart":
			// the node is stopped and started again on its data directory; every view must be
			// what the spec's fold of the active chain says (C12 / C14 across restarts)
			var rerr error
			var rpan interface{}
			func() {
				defer func() { rpan = recover() }()
				rerr = w.n.Restart()
			}()
			c := map[string]interface{}{"behaviour": b[:i+1]}
			if rpan != nil {
				rep.Violation("C03:panic:restart", fmt.Sprintf("restarting the node panicked: %v", rpan), c)
				return false
			}
			if rerr != nil {
				rep.Violation("C12:restart-failed", "the node does not start again on its own data directory: "+rerr.Error(), c)
				return false
			}
			after := w.project()
			c["real"] = after
			if kind, d := compare(st, after, txset); kind != "" {
				pid := "C14"
				if kind == "main-chain" {
					pid = "C12"
				}
				if kind == "utxo" {
					pid = "C06"
				}
				rep.Violation(pid+":"+kind+":after-restart", "after Restart: "+d, c)
				return false
			}
			w.n.Drain()
			continue
		case "Deliver", "Submit":
		default:
			rep.Mismatch("unknown action "+st.Act(), nil)
			return false
		}
		if st.Act() == "Submit" {
			if !w.submitStep(b, i, st) {
				return false
			}
			continue
		}
		id := rep.Int(a, "id")
		w.n.Drain()
		before := w.project()
		var inMain, orphan bool
		var perr error
		var pan interface{}
		func() {
			defer func() { pan = recover() }()
			inMain, orphan, perr = w.n.Process(w.blocks[id])
		}()
		if pan != nil {
			rep.Violation("C03:panic:ProcessBlock", fmt.Sprintf("ProcessBlock panicked: %v", pan), b[:i+1])
			return false
		}
		res := rep.Map(st, "res")
		why := rep.Str(res, "why")
		after := w.project()
		c := map[string]interface{}{"behaviour": b[:i+1], "real": after, "real_result": fmt.Sprintf("inMain=%v orphan=%v err=%v", inMain, orphan, perr)}
		// --- the properties, evaluated on the real node ---
		// C12 second sentence.  The spec computes, for this very step, the outcome of
		// both variants of reorganizeChain: `main` (the variant the model was run with)
		// and `altMain` (the other one).  `strand` marks a step of the code-as-is
		// variant in which a failed switch leaves the node on a partially attached
		// branch (named deviation ReorgPartialFailure).
		var em, alt []int
		for _, x := range rep.List(st, "main") {
			em = append(em, int(x.(float64)))
		}
		for _, x := range rep.List(st, "altMain") {
			alt = append(alt, int(x.(float64)))
		}
		if fmt.Sprint(em) != fmt.Sprint(alt) && perr != nil {
			strandedMain := alt
			if rep.Bool(st, "strand") {
				strandedMain = em
			}
			if fmt.Sprint(after.Main) == fmt.Sprint(strandedMain) {
				rep.Violation("C12:failed-reorg-strands-node", fmt.Sprintf(
					"ProcessBlock(%d) failed while switching to a heavier branch (%v) and left the node on %v instead of its previous chain %v",
					id, perr, after.Main, before.Main), c)
				if !rep.Bool(st, "strand") {
					return false // the model continues on the repaired path
				}
			} else if rep.Bool(st, "strand") && fmt.Sprint(after.Main) == fmt.Sprint(alt) {
				// the deviation did not happen (repaired code): the as-is model no longer
				// describes the rest of this behaviour
				devAbsent++
				return true
			}
		}
		// verdict: accepting where the spec rejects is a violation, the converse a harness problem
		if (perr != nil) != rep.Bool(res, "err") {
			if perr == nil {
				key := "C12:accepts-invalid:" + why
				if why == "context" || why == "sanity" || why == "reorg-failed" || why == "orphan-failed" {
					key = "C06:accepts-invalid:" + why
				}
				rep.Violation(key, fmt.Sprintf("ProcessBlock(%d) succeeded where the spec rejects (%s)", id, why), c)
			} else {
				rep.Mismatch(fmt.Sprintf("ProcessBlock(%d) failed (%v) where the spec accepts (%s)", id, perr, why), c)
			}
			return false
		}
		if inMain != rep.Bool(res, "inMain") || orphan != rep.Bool(res, "orphan") {
			rep.Violation("C12:result-flags:"+why, fmt.Sprintf("ProcessBlock(%d) = (inMain=%v, orphan=%v), spec (%v, %v) [%s]",
				id, inMain, orphan, rep.Bool(res, "inMain"), rep.Bool(res, "orphan"), why), c)
			return false
		}
		if kind, d := compare(st, after, txset); kind != "" {
			pid := "C14"
			if kind == "main-chain" {
				pid = "C12"
			}
			if kind == "utxo" {
				pid = "C06"
			}
			rep.Violation(pid+":"+kind+":after-"+why, fmt.Sprintf("after Deliver(%d) [%s]: %s", id, why, d), c)
			return false
		}
		if d := w.compareEvents(st); d != "" {
			rep.Violation("C12:notification-order:"+why, fmt.Sprintf("after Deliver(%d) [%s]: %s", id, why, d), c)
			return false
		}
		if poolMode && !rep.Bool(st, "clean") {
			// the chain changed without the post-block cleanup running afterwards (a failed switch that was
			// rolled back ends in an error, no "processed" notification): C34 speaks about the pool after the
			// node's cleanup, and until the next one the pool's transient content (CleanSubmittedTransactions
			// drops the block transactions' keys whoever owns them) is not modelled.  The behaviour ends here.
			return true
		}
		if poolMode {
			if key, d := w.poolCheck(st); key != "" {
				rep.Violation(key+":after-deliver-"+why, fmt.Sprintf("after Deliver(%d) [%s]: %s", id, why, d), c)
				return false
			}
		}
		if cacheMode {
			if d := w.cacheCheck(); d != "" {
				rep.Violation("C15:cache:"+strings.SplitN(d, " ", 2)[0], d, c)
				return false
			}
		}
	}
	return true
}

func main() {
	if len(os.Args) < 3 {
		fmt.Fprintln(os.Stderr, "usage: ledger replay <file> [i n] | ledger cache <file> [i n]")
		os.Exit(3)
	}
	stack.InitGlobals()
	defer stack.CleanupGlobals()
	if pf := os.Getenv("VERIF_PROF"); pf != "" {
		f, _ := os.Create(pf)
		pprof.StartCPUProfile(f)
		defer pprof.StopCPUProfile()
	}
	behs := rep.ReadBehaviours(os.Args[2])
	si, sn := 0, 1
	if len(os.Args) >= 5 {
		si, _ = strconv.Atoi(os.Args[3])
		sn, _ = strconv.Atoi(os.Args[4])
	}
	cacheMode := os.Args[1] == "cache"
	if os.Args[1] == "wallet" {
		walletMain(behs, si, sn)
		return
	}
	poolMode = os.Args[1] == "mempool" || os.Args[1] == "poolckp"
	ckpMode = os.Args[1] == "poolckp"
	opt := stack.Options{PoolGlue: poolMode}
	if poolMode && len(os.Args) >= 6 {
		maxPool, _ = strconv.Atoi(os.Args[5])
	}
	if cacheMode {
		opt = cacheOptions()
	}
	for _, b := range behs {
		for _, st := range b {
			if st.Act() == "Submit" && strings.HasPrefix(rep.Str(st.Args(), "tx"), "R") {
				withProducers = true
			}
			for _, t := range rep.List(st.Args(), "txs") {
				if strings.HasPrefix(t.(string), "R") {
					withProducers = true
				}
				if strings.HasPrefix(t.(string), "W") {
					withWide = true
				}
			}
			if _, has := rep.Map(st, "txh")["R1"]; has {
				withProducers = true
			}
		}
	}
	okN, cases, steps := 0, 0, 0
	var sample interface{}
	for i, b := range behs {
		if i%sn != si {
			continue
		}
		cases++
		steps += len(b)
		if replayOne(b, i, opt, cacheMode) {
			okN++
		}
		if sample == nil && len(b) > 4 {
			sample = b
		}
	}
	rep.Summary(cases, map[string]interface{}{"steps": steps, "agree": okN, "mode": os.Args[1], "deviation_absent": devAbsent}, sample)
}
