package main

import (
	"bytes"
	"fmt"
	"os"
	"sort"
	"strings"

	"github.com/elastos/Elastos.ELA/common/config"
	"verif/harness/internal/rep"
	"verif/harness/internal/stack"

	"github.com/elastos/Elastos.ELA/wallet"
)

// Wallet mode (C23, wallet checkpoint; spec/Chain/Wallet.tla).
//
//	ledger wallet <behaviours.jsonl> [i n]     env VERIF_WALLET_RESTART = never | always
//
// A wallet.CoinsCheckPoint is registered with the node's checkpoint manager before
// the first block; the wallet's address book holds A and B.  After every Deliver
//   - the coins the wallet lists per address are compared with the spec's fold and
//     with its share of the UTXO set of the active chain (the property);
//   - the checkpoint is serialized and restored into a fresh instance, which must
//     equal the live one in every field (height, coins, ownership links) and
//     serialize to the same length;
//   - with VERIF_WALLET_RESTART=always the restored instance replaces the live one
//     (a restart from the checkpoint at this height): the rest of the behaviour is
//     followed by the restored wallet and must end like the uninterrupted one.

var walletAddrs = []string{"A", "B"}

type walletRun struct {
	w   *world
	ccp *wallet.CoinsCheckPoint
}

func dumpEq(a, b *wallet.CoinsCheckPoint) string {
	ha, ca, la := a.VerifDump()
	hb, cb, lb := b.VerifDump()
	if ha != hb {
		return fmt.Sprintf("height %d restored as %d", ha, hb)
	}
	if strings.Join(ca, ",") != strings.Join(cb, ",") {
		return fmt.Sprintf("coins differ: live %d entries, restored %d", len(ca), len(cb))
	}
	if strings.Join(la, ",") != strings.Join(lb, ",") {
		return fmt.Sprintf("ownership links differ: live %v, restored %v", la, lb)
	}
	return ""
}

func (r *walletRun) listed() map[string][]string {
	rev := map[string]string{}
	for k, op := range r.w.ops {
		rev[fmt.Sprintf("%s:%d", op.TxID.String(), op.Index)] = k
	}
	out := map[string][]string{}
	for _, a := range walletAddrs {
		addr, _ := r.w.keys[a].Hash.ToAddress()
		lst := []string{}
		for op := range r.ccp.ListCoins(addr) {
			k, ok := rev[fmt.Sprintf("%s:%d", op.TxID.String(), op.Index)]
			if !ok {
				k = "?" + op.TxID.String()[:6]
			}
			lst = append(lst, k)
		}
		sort.Strings(lst)
		out[a] = lst
	}
	return out
}

func opsOf(v []interface{}, w *world, addr string) []string {
	lst := []string{}
	for _, x := range v {
		p := x.([]interface{})
		k := opKey(p[0].(string), int(p[1].(float64)))
		if owner[k] == addr || ownerOf(k) == addr {
			lst = append(lst, k)
		}
	}
	sort.Strings(lst)
	return lst
}

// ownerOf: address name of a template output (mirrors TxOuts of Ledger.tla)
func ownerOf(k string) string {
	outs, ok := txOuts[strings.SplitN(k, ":", 2)[0]]
	if !ok {
		return ""
	}
	var idx int
	fmt.Sscanf(strings.SplitN(k, ":", 2)[1], "%d", &idx)
	if idx >= len(outs) {
		return ""
	}
	return outs[idx].addr
}

func walletReplay(b rep.Behaviour, restart bool) bool {
	run := &walletRun{}
	afterNode = func(n *stack.Node, keys map[string]*stack.Key) {
		wallet.VerifClearWalletAccounts()
		wallet.Chain = n.Chain
		wallet.Store = n.Store
		for _, a := range walletAddrs {
			addr, _ := keys[a].Hash.ToAddress()
			wallet.VerifSetWalletAccount(addr, keys[a].Code)
		}
		run.ccp = wallet.NewCoinCheckPoint()
		n.Ckp.Register(run.ccp)
	}
	defer func() { afterNode = nil }()
	w, err := newWorld(stack.Options{Tweak: func(p *config.Configuration) { p.VoteStartHeight = 1 }})
	if err != nil {
		rep.Mismatch("cannot build node: "+err.Error(), nil)
		return false
	}
	defer w.n.Close()
	run.w = w
	for i, st := range b {
		a := st.Args()
		switch st.Act() {
		case "Mint":
			if err := w.mint(a); err != nil {
				rep.Mismatch("mint failed: "+err.Error(), b[:i+1])
				return false
			}
			continue
		case "Deliver":
		default:
			rep.Mismatch("unknown action "+st.Act(), nil)
			return false
		}
		id := rep.Int(a, "id")
		var perr error
		var pan interface{}
		func() {
			defer func() { pan = recover() }()
			_, _, perr = w.n.Process(w.blocks[id])
		}()
		c := map[string]interface{}{"behaviour": b[:i+1], "restart": restart}
		if pan != nil {
			rep.Violation("C03:panic:ProcessBlock", fmt.Sprintf("ProcessBlock panicked: %v", pan), c)
			return false
		}
		res := rep.Map(st, "res")
		why := rep.Str(res, "why")
		if (perr != nil) != rep.Bool(res, "err") {
			rep.Mismatch(fmt.Sprintf("ProcessBlock(%d): err=%v, spec %s (the ledger half is C12's subject)", id, perr, why), c)
			return false
		}
		var em []int
		for _, x := range rep.List(st, "main") {
			em = append(em, int(x.(float64)))
		}
		if got := w.project().Main; fmt.Sprint(got) != fmt.Sprint(em) {
			rep.Mismatch(fmt.Sprintf("after Deliver(%d): active chain real %v, spec %v (C12's subject)", id, got, em), c)
			return false
		}
		got := run.listed()
		c["wallet"] = got
		reorg := false
		for _, e := range rep.List(st, "ev") {
			if e.([]interface{})[0].(string) == "d" {
				reorg = true
			}
		}
		shape := "extension"
		if reorg {
			shape = "reorganization"
		}
		for _, ad := range walletAddrs {
			view := opsOf(rep.List(st, "view"), w, ad)
			fold := opsOf(rep.List(st, "wal"), w, ad)
			if !eqS(got[ad], view) {
				// ---- the property on the real wallet: its coins are its share of the ledger ----
				rep.Violation("C23:wallet-coins-not-ledger-view:"+shape, fmt.Sprintf(
					"after Deliver(%d) [%s]: wallet lists %v for address %s, the active chain's unspent outputs of that address are %v",
					id, why, got[ad], ad, view), c)
				return false
			}
			if !eqS(got[ad], fold) {
				rep.Mismatch(fmt.Sprintf("after Deliver(%d): wallet lists %v for %s, the spec's fold gives %v", id, got[ad], ad, fold), c)
				return false
			}
		}
		// ---- checkpoint round trip ----
		buf := new(bytes.Buffer)
		if err := run.ccp.Serialize(buf); err != nil {
			rep.Violation("C23:wallet-checkpoint:serialize", "Serialize failed: "+err.Error(), c)
			return false
		}
		n0 := buf.Len()
		fresh := wallet.NewCoinCheckPoint()
		if err := fresh.Deserialize(bytes.NewReader(buf.Bytes())); err != nil {
			rep.Violation("C23:wallet-checkpoint:deserialize", "Deserialize of a just written checkpoint failed: "+err.Error(), c)
			return false
		}
		if d := dumpEq(run.ccp, fresh); d != "" {
			rep.Violation("C23:wallet-checkpoint:field", fmt.Sprintf("after Deliver(%d): restored checkpoint differs: %s", id, d), c)
			return false
		}
		buf2 := new(bytes.Buffer)
		fresh.Serialize(buf2)
		if buf2.Len() != n0 {
			rep.Violation("C23:wallet-checkpoint:reserialized-length", fmt.Sprintf("restored checkpoint serializes to %d bytes, the live one to %d", buf2.Len(), n0), c)
			return false
		}
		snap := run.ccp.Snapshot().(*wallet.CoinsCheckPoint)
		if d := dumpEq(run.ccp, snap); d != "" {
			rep.Violation("C23:wallet-checkpoint:snapshot", fmt.Sprintf("after Deliver(%d): Snapshot() differs from the live checkpoint: %s", id, d), c)
			return false
		}
		if restart {
			w.n.Ckp.Unregister(run.ccp.Key())
			run.ccp = fresh
			w.n.Ckp.Register(fresh)
		}
	}
	return true
}

func walletMain(behs []rep.Behaviour, si, sn int) {
	restart := os.Getenv("VERIF_WALLET_RESTART") == "always"
	okN, cases, steps := 0, 0, 0
	var sample interface{}
	for i, b := range behs {
		if i%sn != si {
			continue
		}
		cases++
		steps += len(b)
		if walletReplay(b, restart) {
			okN++
		}
		if sample == nil && len(b) > 4 {
			sample = b
		}
	}
	rep.Summary(cases, map[string]interface{}{"steps": steps, "agree": okN, "mode": "wallet", "restart": restart}, sample)
}
