package main

import (
	"bytes"
	"fmt"
	"path/filepath"
	"sort"
	"strings"

	"github.com/elastos/Elastos.ELA/common"
	"github.com/elastos/Elastos.ELA/core/checkpoint"
	"github.com/elastos/Elastos.ELA/mempool"
	"verif/harness/internal/rep"
)

// sizes of the templates as Mempool.tla assumes them (TxSize)
var specSize = map[string]int{"T1": 293, "T2": 227, "T3": 227, "T4": 265, "T5": 227, "T6": 293, "T7": 367, "T9": 227,
	"R1": 459, "R2": 459, "R3": 459, "R4": 459}

func (w *world) checkSizes() string {
	for _, t := range w.allTx() {
		sz := specSize[t]
		if got := w.txs[t].GetSize(); got != sz {
			return fmt.Sprintf("template %s serializes to %d bytes, Mempool.tla TxSize says %d", t, got, sz)
		}
	}
	return ""
}

func (w *world) nameOf(h common.Uint256) string {
	for _, t := range w.allTx() {
		if w.txs[t].Hash() == h {
			return t
		}
	}
	return "?" + h.String()[:8]
}

// compareEvents: the connect / disconnect / processed notifications of the last
// ProcessBlock call against the spec's `ev`.
func (w *world) compareEvents(st rep.Step) string {
	var exp []string
	for _, e := range rep.List(st, "ev") {
		p := e.([]interface{})
		exp = append(exp, fmt.Sprintf("%v%d", p[0], int(p[1].(float64))))
	}
	var got []string
	for _, e := range w.n.Drain() {
		id, ok := w.idOf[e.Hash]
		if !ok {
			id = -1
		}
		got = append(got, fmt.Sprintf("%s%d", e.Kind[:1], id))
	}
	if strings.Join(exp, " ") != strings.Join(got, " ") {
		return fmt.Sprintf("notifications: real [%s], spec [%s]", strings.Join(got, " "), strings.Join(exp, " "))
	}
	return ""
}

// poolCheck compares pool membership with the spec and evaluates C34's
// consistency requirements on the real pool's internal indexes.
func (w *world) poolCheck(st rep.Step) (string, string) {
	snap := w.n.Pool.VerifSnapshot()
	var got []string
	for _, h := range snap.Txs {
		got = append(got, w.nameOf(h))
	}
	sort.Strings(got)
	var exp []string
	for _, x := range rep.List(st, "pool") {
		exp = append(exp, x.(string))
	}
	sort.Strings(exp)
	if strings.Join(got, ",") != strings.Join(exp, ",") {
		return "C34:pool-membership", fmt.Sprintf("pool holds [%s], spec [%s]", strings.Join(got, ","), strings.Join(exp, ","))
	}
	// --- internal consistency, evaluated on the real data ---
	// pairwise conflict freedom on inputs
	used := map[string]string{}
	for _, t := range got {
		tx := w.txs[t]
		if tx == nil {
			continue
		}
		for _, in := range tx.Inputs() {
			if o, dup := used[in.ReferKey()]; dup && o != t {
				return "C06:mempool-double-spend", fmt.Sprintf("pool holds %s and %s spending the same outpoint", o, t)
			}
			used[in.ReferKey()] = t
		}
	}
	// fee list = pool, ordered by fee rate, sizes add up
	if len(snap.FeeList) != len(snap.Txs) {
		return "C34:fee-list", fmt.Sprintf("fee list has %d entries, pool %d", len(snap.FeeList), len(snap.Txs))
	}
	var total uint64
	seen := map[common.Uint256]bool{}
	for i, it := range snap.FeeList {
		sz, ok := snap.TxSizes[it.Hash]
		if !ok || seen[it.Hash] {
			return "C34:fee-list", fmt.Sprintf("fee list entry %d (%s) is not a (distinct) pool transaction", i, w.nameOf(it.Hash))
		}
		seen[it.Hash] = true
		if int(it.Size) != sz {
			return "C34:fee-list", fmt.Sprintf("fee list size of %s is %d, transaction size %d", w.nameOf(it.Hash), it.Size, sz)
		}
		if want := float64(snap.TxFees[it.Hash]) / float64(sz); it.FeeRate != want {
			return "C34:fee-list", fmt.Sprintf("fee rate of %s is %v, fee/size = %v", w.nameOf(it.Hash), it.FeeRate, want)
		}
		if i > 0 && snap.FeeList[i-1].FeeRate < it.FeeRate {
			return "C34:fee-order", fmt.Sprintf("fee list not ordered at %d: %v before %v", i, snap.FeeList[i-1].FeeRate, it.FeeRate)
		}
		total += uint64(sz)
	}
	if total != snap.TotalSize {
		return "C34:size-accounting", fmt.Sprintf("totalSize %d, sum of pool transaction sizes %d", snap.TotalSize, total)
	}
	if snap.TotalSize > snap.MaxSize {
		return "C34:size-limit", fmt.Sprintf("totalSize %d exceeds the limit %d", snap.TotalSize, snap.MaxSize)
	}
	// conflict slots = image of the pool: the input slot holds exactly the pool's
	// inputs; the producer slots exactly the owner / node / nickname claims of the
	// registrations in the pool; every other slot is empty
	expect := map[string]map[string]bool{"TxInputsReferKeys": {}}
	for _, t := range got {
		if r, ok := regOf[t]; ok {
			for slot, who := range map[string][]string{"DPoSOwnerPublicKey": {r[0]}, "DPoSNodePublicKey": {r[1]},
				"DPoSOwnerNodePublicKeys": {r[0], r[1]}, "DPoSNickname": {r[2]}} {
				if expect[slot] == nil {
					expect[slot] = map[string]bool{}
				}
				for _, x := range who {
					expect[slot][x+"@"+t] = true
				}
			}
		}
	}
	for k, t := range used {
		expect["TxInputsReferKeys"][k+"@"+t] = true
	}
	for name, m := range snap.Slots {
		if expect[name] == nil {
			return "C34:slot-index", fmt.Sprintf("slot %s holds %d keys although no pool transaction claims such a resource", name, len(m))
		}
	}
	for name, exp := range expect {
		m := snap.Slots[name]
		if len(m) != len(exp) {
			var ks []string
			for k, h := range m {
				if len(k) > 12 {
					k = k[:12]
				}
				ks = append(ks, k+"->"+w.nameOf(h))
			}
			sort.Strings(ks)
			return "C34:slot-index", fmt.Sprintf("slot %s holds %d keys %v, the pool %v claims %d", name, len(m), ks, got, len(exp))
		}
		holders := map[string]int{}
		for _, h := range m {
			holders[w.nameOf(h)]++
		}
		want := map[string]int{}
		for e := range exp {
			want[e[strings.LastIndex(e, "@")+1:]]++
		}
		for t, c := range want {
			if holders[t] != c {
				return "C34:slot-index", fmt.Sprintf("slot %s maps %d keys to %s, expected %d", name, holders[t], t, c)
			}
		}
		if name == "TxInputsReferKeys" {
			for k, h := range m {
				if used[k] != w.nameOf(h) {
					return "C34:slot-index", fmt.Sprintf("input slot key maps to %s, the pool transaction spending it is %q", w.nameOf(h), used[k])
				}
			}
		}
	}
	if snap.ProposalsUsed != 0 {
		return "C34:proposal-budget", fmt.Sprintf("pending proposal budget %d with no proposal in the pool", snap.ProposalsUsed)
	}
	if w.n.Pool.GetTransactionCount() != len(snap.Txs) {
		return "C34:count", "GetTransactionCount disagrees with the pool"
	}
	if ckpMode {
		if key, d := w.poolCheckpointRoundTrip(snap); key != "" {
			return key, d
		}
	}
	return "", ""
}

// poolCheckpointRoundTrip (C23, mempool part): the checkpoint the manager would
// save (Snapshot -> Serialize) is loaded into a fresh pool on the same chain
// (Deserialize, the path loadDefaultCheckpoint takes at start-up); the restored pool
// must hold the same transactions with the same fee list, size accounting and
// conflict slots.
func (w *world) poolCheckpointRoundTrip(live *mempool.VerifSnapshot) (string, string) {
	cp := w.n.Pool.Snapshot()
	if cp == nil {
		return "C23:mempool-checkpoint:snapshot", "Snapshot returned nil"
	}
	var buf bytes.Buffer
	if err := cp.Serialize(&buf); err != nil {
		return "C23:mempool-checkpoint:serialize", err.Error()
	}
	saved := append([]byte(nil), buf.Bytes()...)
	r := bytes.NewReader(saved)
	if _, err := common.ReadUint32(r); err != nil {
		return "C23:mempool-checkpoint:format", err.Error()
	}
	cnt, _ := common.ReadVarUint(r, 0)
	if int(cnt) != len(live.Txs) {
		return "C23:mempool-checkpoint:transactions-lost", fmt.Sprintf(
			"the saved mempool checkpoint holds %d transactions, the pool %d", cnt, len(live.Txs))
	}
	ck2 := checkpoint.NewManager(w.n.Params)
	ck2.SetDataPath(filepath.Join(w.n.Dir, "ckp2"))
	p2 := mempool.NewTxPool(w.n.Params, ck2)
	if maxPool > 0 {
		p2.VerifSetMaxSize(uint64(maxPool))
	}
	if err := p2.Deserialize(bytes.NewReader(saved)); err != nil {
		return "C23:mempool-checkpoint:deserialize", err.Error()
	}
	got := p2.VerifSnapshot()
	name := func(hs []common.Uint256) string {
		var s []string
		for _, h := range hs {
			s = append(s, w.nameOf(h))
		}
		sort.Strings(s)
		return strings.Join(s, ",")
	}
	if name(got.Txs) != name(live.Txs) {
		return "C23:mempool-restore:transactions", fmt.Sprintf("restored pool holds [%s], the saved one [%s]", name(got.Txs), name(live.Txs))
	}
	if got.TotalSize != live.TotalSize {
		return "C23:mempool-restore:size-accounting", fmt.Sprintf("restored totalSize %d, saved %d", got.TotalSize, live.TotalSize)
	}
	if len(got.FeeList) != len(live.FeeList) {
		return "C23:mempool-restore:fee-list", fmt.Sprintf("restored fee list has %d entries, saved %d", len(got.FeeList), len(live.FeeList))
	}
	for i := range got.FeeList {
		if got.FeeList[i].Hash != live.FeeList[i].Hash && got.FeeList[i].FeeRate != live.FeeList[i].FeeRate {
			return "C23:mempool-restore:fee-list", fmt.Sprintf("fee list entry %d differs after restore", i)
		}
	}
	if len(got.Slots["TxInputsReferKeys"]) != len(live.Slots["TxInputsReferKeys"]) {
		return "C23:mempool-restore:slots", fmt.Sprintf("restored input slot holds %d keys, saved %d",
			len(got.Slots["TxInputsReferKeys"]), len(live.Slots["TxInputsReferKeys"]))
	}
	return "", ""
}

func (w *world) submitStep(b rep.Behaviour, i int, st rep.Step) bool {
	t := rep.Str(st.Args(), "tx")
	res := rep.Map(st, "res")
	why := rep.Str(res, "why")
	var err error
	var pan interface{}
	func() {
		defer func() { pan = recover() }()
		if e := w.n.Pool.AppendToTxPool(w.txs[t]); e != nil {
			err = e
		}
	}()
	c := map[string]interface{}{"behaviour": b[:i+1], "real_result": fmt.Sprint(err)}
	if pan != nil {
		rep.Violation("C03:panic:AppendToTxPool", fmt.Sprintf("AppendToTxPool panicked: %v", pan), c)
		return false
	}
	if (err != nil) != rep.Bool(res, "err") {
		if err == nil {
			key := "C34:accepts:" + why
			if why == "conflict" || why == "context" || why == "sanity" {
				key = "C06:mempool-accepts:" + why
			}
			rep.Violation(key, fmt.Sprintf("AppendToTxPool(%s) succeeded where the spec rejects (%s)", t, why), c)
		} else {
			rep.Mismatch(fmt.Sprintf("AppendToTxPool(%s) failed (%v) where the spec accepts", t, err), c)
		}
		return false
	}
	if key, d := w.poolCheck(st); key != "" {
		rep.Violation(key+":after-submit-"+why, fmt.Sprintf("after Submit(%s) [%s]: %s", t, why, d), c)
		return false
	}
	return true
}
