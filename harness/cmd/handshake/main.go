// Conformance driver for X01 (spec/Edge/Handshake.tla, TraceHandshake.tla): the
// life cycle of a P2P connection in p2p/peer.
//
//	handshake record <quick|thorough> <out.ndjson>
//
// REAL peer.Peer objects are joined pairwise over net.Pipe / a loopback TCP
// connection, or one real peer faces a scripted raw remote that writes frames in
// any order.  Every run is recorded as one event per spec action:
//
//	Send / Read   by a tap around the net.Conn handed to the peer (a frame handed
//	              to / completely consumed from the connection),
//	Deliver       by Config.MessageFunc (with VersionKnown / VerAckReceived /
//	              ProtocolVersion read at that moment),
//	Close         by the tap's Close (Peer.Disconnect closes the connection),
//	UserPing      by the harness before it queues a ping.
//
// Events are totally ordered by one mutex (a Send is logged before its bytes are
// forwarded, a Read after they were consumed), never by a clock.  The runs are
// concatenated (Reset events) and validated by TLC against TraceHandshake.tla; the
// driver itself monitors the safety properties of the spec on the events and
// reports real-code behaviour contradicting them as violations.
package main

import (
	"bytes"
	"encoding/json"
	"errors"
	"fmt"
	"io"
	"math/rand"
	"net"
	"os"
	"sort"
	"strings"
	"sync"
	"time"

	"github.com/elastos/Elastos.ELA/common/log"
	"github.com/elastos/Elastos.ELA/core/types"
	"github.com/elastos/Elastos.ELA/p2p"
	"github.com/elastos/Elastos.ELA/p2p/msg"
	"github.com/elastos/Elastos.ELA/p2p/peer"

	"verif/harness/internal/rep"
)

const magic = 0x58303101

type event map[string]interface{}

// ---------------------------------------------------------------------------
// one recorded run

type run struct {
	mu      sync.Mutex
	cond    *sync.Cond
	name    string
	evs     []event
	sealed  bool
	closed  map[string]bool
	why     map[string]string // cause the harness expects for the next Close of a side
	label   map[uint64]string // nonce -> name of the side that drew it
	roles   map[string]string
	cfgVer  map[string]uint32
	advVer  map[string]uint32
	same    bool
	unsettl bool
}

func newRun(name string, roleA, roleB string) *run {
	r := &run{name: name, closed: map[string]bool{}, why: map[string]string{}, label: map[uint64]string{},
		roles: map[string]string{"A": roleA, "B": roleB}, cfgVer: map[string]uint32{}, advVer: map[string]uint32{}}
	r.cond = sync.NewCond(&r.mu)
	return r
}

// add must be called with r.mu held.
func (r *run) add(e event) {
	if r.sealed {
		return
	}
	r.evs = append(r.evs, e)
	r.cond.Broadcast()
}

func other(s string) string {
	if s == "A" {
		return "B"
	}
	return "A"
}

// wait blocks until pred holds on the events so far (or the deadline passes).
func (r *run) wait(d time.Duration, pred func(evs []event) bool) bool {
	deadline := time.Now().Add(d)
	t := time.AfterFunc(d, func() { r.mu.Lock(); r.cond.Broadcast(); r.mu.Unlock() })
	defer t.Stop()
	r.mu.Lock()
	defer r.mu.Unlock()
	for !pred(r.evs) {
		if !time.Now().Before(deadline) {
			return false
		}
		r.cond.Wait()
	}
	return true
}

func count(evs []event, ev, p, k string) int {
	n := 0
	for _, e := range evs {
		if e["ev"] == ev && (p == "" || e["p"] == p) && (k == "" || e["k"] == k) {
			n++
		}
	}
	return n
}

func has(evs []event, ev, p, k string) bool { return count(evs, ev, p, k) > 0 }

// ---------------------------------------------------------------------------
// messages <-> spec kinds

func kindOfCmd(cmd string) string {
	switch cmd {
	case p2p.CmdVersion, p2p.CmdVerAck, p2p.CmdPing, p2p.CmdPong, p2p.CmdReject:
		return cmd
	case "malformed":
		return "bad"
	}
	return "other"
}

func createMessage(hdr p2p.Header, r net.Conn) (p2p.Message, error) {
	var m p2p.Message
	switch hdr.GetCMD() {
	case p2p.CmdMemPool:
		m = &msg.MemPool{}
	case p2p.CmdReject:
		m = &msg.Reject{}
	default:
		return nil, fmt.Errorf("unknown command %q", hdr.GetCMD())
	}
	return peer.CheckAndCreateMessage(hdr, m, r)
}

func rawFactory(hdr p2p.Header, r net.Conn) (p2p.Message, error) {
	var m p2p.Message
	switch hdr.GetCMD() {
	case p2p.CmdVersion:
		m = &msg.Version{}
	case p2p.CmdVerAck:
		m = &msg.VerAck{}
	case p2p.CmdPing:
		m = &msg.Ping{}
	case p2p.CmdPong:
		m = &msg.Pong{}
	case p2p.CmdGetAddr:
		m = &msg.GetAddr{}
	case p2p.CmdAddr:
		m = &msg.Addr{}
	default:
		return createMessage(hdr, r)
	}
	return peer.CheckAndCreateMessage(hdr, m, r)
}

// describe decodes a frame into the fields of the spec's message record.
func (r *run) describe(frame []byte) (k string, a int, b string) {
	var hdr p2p.Header
	if len(frame) < p2p.HeaderSize || hdr.Deserialize(frame[:p2p.HeaderSize]) != nil {
		return "bad", 0, ""
	}
	payload := frame[p2p.HeaderSize:]
	sum := p2p.BuildHeader(hdr.Magic, hdr.GetCMD(), payload)
	if hdr.Magic != magic || int(hdr.Length) != len(payload) || sum.Checksum != hdr.Checksum {
		return "bad", 0, ""
	}
	k = kindOfCmd(hdr.GetCMD())
	switch k {
	case "version":
		v := &msg.Version{}
		if v.Deserialize(bytes.NewReader(payload)) != nil {
			return "bad", 0, ""
		}
		return k, int(v.Version), r.label[v.Nonce]
	case "ping":
		m := &msg.Ping{}
		m.Deserialize(bytes.NewReader(payload))
		return k, int(m.Nonce), ""
	case "pong":
		m := &msg.Pong{}
		m.Deserialize(bytes.NewReader(payload))
		return k, int(m.Nonce), ""
	case "reject":
		m := &msg.Reject{}
		if m.Deserialize(bytes.NewReader(payload)) != nil {
			return "bad", 0, ""
		}
		return k, 0, kindOfCmd(m.Cmd)
	}
	return k, 0, ""
}

// ---------------------------------------------------------------------------
// the tap around a connection end

type tap struct {
	net.Conn
	r    *run
	side string
	hdr  []byte // header written, payload not yet
	rbuf []byte // frame read from the connection, not yet consumed by the reader
	rpos int
	wmu  sync.Mutex
}

var errClosed = errors.New("tap: use of closed connection")

func (t *tap) Write(b []byte) (int, error) {
	t.wmu.Lock()
	defer t.wmu.Unlock()
	if t.hdr == nil && len(b) == p2p.HeaderSize {
		t.hdr = append([]byte(nil), b...) // p2p.WriteMessage writes the payload next
		return len(b), nil
	}
	frame := append(t.hdr, b...)
	t.hdr = nil
	r := t.r
	r.mu.Lock()
	if r.closed[t.side] {
		r.mu.Unlock()
		return 0, errClosed
	}
	if len(frame) >= p2p.HeaderSize {
		var hdr p2p.Header
		if hdr.Deserialize(frame[:p2p.HeaderSize]) == nil && hdr.GetCMD() == p2p.CmdVersion {
			v := &msg.Version{}
			if v.Deserialize(bytes.NewReader(frame[p2p.HeaderSize:])) == nil {
				if _, ok := r.label[v.Nonce]; !ok {
					r.label[v.Nonce] = t.side
					if r.roles[t.side] == "raw" {
						r.label[v.Nonce] = "R"
					}
				}
			}
		}
	}
	k, a, bb := r.describe(frame)
	r.add(event{"ev": "Send", "p": t.side, "k": k, "a": a, "b": bb})
	r.mu.Unlock()
	if _, err := t.Conn.Write(frame); err != nil {
		return 0, err
	}
	return len(b), nil
}

func (t *tap) Read(b []byte) (int, error) {
	if len(b) == 0 {
		return 0, nil
	}
	if t.rpos >= len(t.rbuf) {
		hdr := make([]byte, p2p.HeaderSize)
		if _, err := io.ReadFull(t.Conn, hdr); err != nil {
			return 0, err
		}
		var h p2p.Header
		n := 0
		if h.Deserialize(hdr) == nil && h.Length <= 1<<20 {
			n = int(h.Length)
		}
		frame := append(hdr, make([]byte, n)...)
		if _, err := io.ReadFull(t.Conn, frame[p2p.HeaderSize:]); err != nil {
			return 0, err
		}
		t.rbuf, t.rpos = frame, 0
	}
	n := copy(b, t.rbuf[t.rpos:])
	t.rpos += n
	// a frame without payload is complete with its header; otherwise with its last payload byte
	if t.rpos >= len(t.rbuf) {
		r := t.r
		r.mu.Lock()
		if r.closed[t.side] {
			r.mu.Unlock()
			return 0, errClosed
		}
		k, a, bb := r.describe(t.rbuf)
		r.add(event{"ev": "Read", "p": t.side, "k": k, "a": a, "b": bb})
		r.mu.Unlock()
	}
	return n, nil
}

func (t *tap) Close() error {
	r := t.r
	r.mu.Lock()
	if !r.closed[t.side] {
		r.closed[t.side] = true
		r.add(event{"ev": "Close", "p": t.side, "why": r.why[t.side]})
	}
	r.mu.Unlock()
	return t.Conn.Close()
}

// ---------------------------------------------------------------------------
// timers of the peers (hook p2p/peer/hook_x01_verif.go)

type timers struct{ negotiate, idle time.Duration }

var tmu sync.Mutex
var tset = map[*peer.Peer]*timers{}

func init() {
	peer.VerifX01Timeout = func(p *peer.Peer, which string, d time.Duration) time.Duration {
		tmu.Lock()
		defer tmu.Unlock()
		t := tset[p]
		switch which {
		case "negotiate":
			if t != nil && t.negotiate > 0 {
				return t.negotiate
			}
			return 20 * time.Second
		case "idle":
			if t != nil && t.idle > 0 {
				return t.idle
			}
		}
		return time.Hour // the ping ticker never fires: pings are queued by the harness
	}
}

func setTimers(p *peer.Peer, neg, idle time.Duration) {
	tmu.Lock()
	tset[p] = &timers{neg, idle}
	tmu.Unlock()
}

// ---------------------------------------------------------------------------
// a side of a run: a real peer or a raw remote

type node struct { // what server.go keeps per node: the table of sent nonces
	mu   sync.Mutex
	sent map[uint64]bool
	rng  *rand.Rand
}

type side struct {
	r     *run
	name  string
	role  string
	conn  *tap
	p     *peer.Peer
	nd    *node
	rawWG sync.WaitGroup
}

type opts struct {
	cfgVer    uint32
	upgrade   bool // best height >= NewVersionHeight: advertises pact.CRProposalVersion
	neg, idle time.Duration
}

func (s *side) startPeer(o opts) {
	height := uint64(1)
	if s.name == "B" {
		height = 2
	}
	nvh := uint64(1) << 40
	if o.upgrade {
		nvh = 0
	}
	r := s.r
	cfg := &peer.Config{
		Magic: magic, ProtocolVersion: o.cfgVer, DefaultPort: 20338, Services: 1,
		CreateMessage: createMessage,
		BestHeight:    func() uint64 { return height },
		IsSelfConnection: func(ip net.IP, port int, nonce uint64) bool {
			s.nd.mu.Lock()
			defer s.nd.mu.Unlock()
			return s.nd.sent[nonce]
		},
		GetVersionNonce: func() uint64 {
			s.nd.mu.Lock()
			defer s.nd.mu.Unlock()
			n := s.nd.rng.Uint64()
			s.nd.sent[n] = true
			return n
		},
		NewVersionHeight: nvh, NodeVersion: "x01",
	}
	cfg.MessageFunc = func(p *peer.Peer, m p2p.Message) {
		vk, va, pv := p.VersionKnown(), p.VerAckReceived(), p.ProtocolVersion()
		r.mu.Lock()
		r.add(event{"ev": "Deliver", "p": s.name, "k": kindOfCmd(m.CMD()), "vk": vk, "va": va, "pv": int(pv),
			"late": r.closed[s.name]})
		r.mu.Unlock()
	}
	if s.role == "out" {
		p, err := peer.NewOutboundPeer(cfg, "127.0.0.1:20338")
		if err != nil {
			panic(err)
		}
		s.p = p
	} else {
		s.p = peer.NewInboundPeer(cfg)
		s.p.SetNA(&net.TCPAddr{IP: net.IPv4(127, 0, 0, 1), Port: 40000})
		s.p.SetAddr("127.0.0.1:40000")
	}
	setTimers(s.p, o.neg, o.idle)
	s.p.AssociateConnection(s.conn)
}

// raw remote: a reader that consumes every frame the peer writes
func (s *side) startRaw() {
	s.rawWG.Add(1)
	go func() {
		defer s.rawWG.Done()
		for {
			if _, err := p2p.ReadMessage(s.conn, magic, time.Hour, rawFactory); err != nil {
				if errors.Is(err, p2p.ErrInvalidPayload) {
					continue
				}
				return
			}
		}
	}()
}

func noBlock(p2p.Message) (*types.DposBlock, bool) { return nil, false }

func (s *side) rawSend(m p2p.Message, corrupt bool) error {
	if !corrupt {
		return p2p.WriteMessage(s.conn, magic, m, 5*time.Second, noBlock)
	}
	buf := new(bytes.Buffer)
	m.Serialize(buf)
	hdr := p2p.BuildHeader(magic, m.CMD(), buf.Bytes())
	hdr.Checksum[0] ^= 0x55
	hb, _ := hdr.Serialize()
	if _, err := s.conn.Write(hb); err != nil {
		return err
	}
	_, err := s.conn.Write(buf.Bytes())
	return err
}

func (s *side) disconnect(why string) {
	s.r.mu.Lock()
	s.r.why[s.name] = why
	s.r.mu.Unlock()
	if s.p != nil {
		s.p.Disconnect()
	} else {
		s.conn.Close()
	}
}

// connect creates the two connection ends.
func connect(transport string) (net.Conn, net.Conn) {
	if transport == "tcp" {
		l, err := net.Listen("tcp", "127.0.0.1:0")
		if err != nil {
			panic(err)
		}
		defer l.Close()
		ch := make(chan net.Conn, 1)
		go func() { c, _ := l.Accept(); ch <- c }()
		a, err := net.Dial("tcp", l.Addr().String())
		if err != nil {
			panic(err)
		}
		return a, <-ch
	}
	return net.Pipe()
}

// ---------------------------------------------------------------------------
// scenarios

type scenario struct {
	name      string
	roleA     string
	roleB     string
	transport string
	same      bool
	oA, oB    opts
	script    func(sc *scenario, r *run, A, B *side, rng *rand.Rand)
}

const patience = 3 * time.Second

// settled: every reaction the spec lets us expect from honest side h has been seen.
func settled(h string, rawSends func(evs []event) int) func(evs []event) bool {
	return func(evs []event) bool {
		if has(evs, "Close", h, "") {
			return true
		}
		o := other(h)
		if count(evs, "Read", h, "") < count(evs, "Send", o, "") {
			return false
		}
		handled := count(evs, "Deliver", h, "") + count(evs, "Send", h, "reject")
		if handled < count(evs, "Read", h, "") {
			return false
		}
		if has(evs, "Deliver", h, "version") && !has(evs, "Send", h, "verack") {
			return false
		}
		return count(evs, "Send", h, "pong") >= count(evs, "Deliver", h, "ping")
	}
}

func established(p string) func(evs []event) bool {
	return func(evs []event) bool {
		return has(evs, "Deliver", p, "verack") || has(evs, "Close", p, "")
	}
}

func both(f, g func([]event) bool) func([]event) bool {
	return func(e []event) bool { return f(e) && g(e) }
}

func (r *run) note(ok bool) {
	if !ok {
		r.mu.Lock()
		r.unsettl = true
		r.mu.Unlock()
	}
}

func ping(r *run, s *side) {
	r.mu.Lock()
	r.add(event{"ev": "UserPing", "p": s.name})
	r.mu.Unlock()
	h := uint64(1)
	if s.name == "B" {
		h = 2
	}
	s.p.QueueMessage(msg.NewPing(h), nil)
}

// honest pair: handshake, keep-alive both ways, then one side disconnects
func scriptHonest(sc *scenario, r *run, A, B *side, rng *rand.Rand) {
	r.note(r.wait(patience, both(established("A"), established("B"))))
	order := []*side{A, B}
	if rng.Intn(2) == 0 {
		order = []*side{B, A}
	}
	for _, s := range order {
		if s.p == nil || !s.p.Connected() {
			continue
		}
		before := 0
		r.mu.Lock()
		before = count(r.evs, "Deliver", s.name, "pong")
		r.mu.Unlock()
		ping(r, s)
		r.note(r.wait(patience, func(evs []event) bool {
			return count(evs, "Deliver", s.name, "pong") > before || has(evs, "Close", "", "")
		}))
	}
	first := order[rng.Intn(2)]
	first.disconnect("user")
	r.note(r.wait(patience, both(func(e []event) bool { return has(e, "Close", "A", "") },
		func(e []event) bool { return has(e, "Close", "B", "") })))
}

// a user disconnects one side after the k-th event of the run
func scriptCut(k int, who string) func(*scenario, *run, *side, *side, *rand.Rand) {
	return func(sc *scenario, r *run, A, B *side, rng *rand.Rand) {
		r.wait(patience, func(evs []event) bool { return len(evs) >= k })
		s := A
		if who == "B" {
			s = B
		}
		s.disconnect("user")
		r.note(r.wait(patience, both(func(e []event) bool { return has(e, "Close", "A", "") },
			func(e []event) bool { return has(e, "Close", "B", "") })))
	}
}

// nothing is done: the timers of the scenario end the run
func scriptWaitClosed(sc *scenario, r *run, A, B *side, rng *rand.Rand) {
	r.note(r.wait(patience, func(e []event) bool {
		return (A.p == nil || has(e, "Close", "A", "")) && (B.p == nil || has(e, "Close", "B", ""))
	}))
}

// handshake, then silence until the idle timer of B fires (armed by one ping of A)
func scriptIdle(sc *scenario, r *run, A, B *side, rng *rand.Rand) {
	r.note(r.wait(patience, both(established("A"), established("B"))))
	setTimers(B.p, 0, 40*time.Millisecond)
	ping(r, A)
	scriptWaitClosed(sc, r, A, B, rng)
}

type rawOp struct {
	kind string // version verack ping pong other bad | echo (version with the peer's own nonce) | low (version 10001)
	ver  uint32
}

// end: "close" the raw remote closes, "wait" the peer's timers end the run, "leave" the harness tears down
func rawScript(ops []rawOp, end string) func(*scenario, *run, *side, *side, *rand.Rand) {
	return func(sc *scenario, r *run, A, B *side, rng *rand.Rand) {
		raw, h := A, B
		if sc.roleB == "raw" {
			raw, h = B, A
		}
		rawSends := func(evs []event) int { return count(evs, "Send", raw.name, "") }
		if h.role == "out" { // an outbound peer speaks first
			r.note(r.wait(patience, func(e []event) bool { return has(e, "Read", raw.name, "version") || has(e, "Close", h.name, "") }))
		}
		for _, op := range ops {
			r.mu.Lock()
			dead := r.closed[h.name]
			var peerNonce uint64
			for n, l := range r.label {
				if l == h.name {
					peerNonce = n
				}
			}
			r.mu.Unlock()
			if dead {
				break
			}
			var m p2p.Message
			switch op.kind {
			case "version", "echo":
				nonce := rng.Uint64() | 1<<63
				if op.kind == "echo" {
					nonce = peerNonce
				}
				m = msg.NewVersion(op.ver, 20338, 1, nonce, 7, false, "raw")
			case "verack":
				m = msg.NewVerAck()
			case "ping":
				m = msg.NewPing(7)
			case "pong":
				m = msg.NewPong(7)
			case "other", "bad":
				m = &msg.MemPool{}
			}
			if err := raw.rawSend(m, op.kind == "bad"); err != nil {
				break
			}
			r.note(r.wait(patience, settled(h.name, rawSends)))
		}
		if end == "close" {
			raw.disconnect("")
		}
		if end == "leave" {
			return
		}
		r.note(r.wait(patience, func(e []event) bool { return has(e, "Close", h.name, "") }))
	}
}

// ---------------------------------------------------------------------------
// running one scenario

func (sc *scenario) run(rng *rand.Rand) *run {
	r := newRun(sc.name, sc.roleA, sc.roleB)
	r.same = sc.same
	a, b := connect(sc.transport)
	ndA := &node{sent: map[uint64]bool{}, rng: rand.New(rand.NewSource(rng.Int63()))}
	ndB := &node{sent: map[uint64]bool{}, rng: rand.New(rand.NewSource(rng.Int63()))}
	if sc.same {
		ndB = ndA
	}
	A := &side{r: r, name: "A", role: sc.roleA, nd: ndA}
	B := &side{r: r, name: "B", role: sc.roleB, nd: ndB}
	A.conn = &tap{Conn: a, r: r, side: "A"}
	B.conn = &tap{Conn: b, r: r, side: "B"}
	for _, x := range []struct {
		s *side
		o opts
	}{{A, sc.oA}, {B, sc.oB}} {
		r.cfgVer[x.s.name] = x.o.cfgVer
		r.advVer[x.s.name] = x.o.cfgVer
		if x.o.upgrade {
			r.advVer[x.s.name] = 80000
		}
	}
	// an inbound peer first, so that it is reading when an outbound one writes
	for _, s := range []*side{B, A} {
		switch {
		case s.role == "raw":
			s.startRaw()
		case s == A:
			s.startPeer(sc.oA)
		default:
			s.startPeer(sc.oB)
		}
	}
	func() {
		defer func() {
			if p := recover(); p != nil {
				rep.Mismatch(fmt.Sprintf("scenario %s: the script panicked: %v", sc.name, p), nil)
			}
		}()
		sc.script(sc, r, A, B, rng)
	}()
	// tear down whatever is still open, then seal the log
	for _, s := range []*side{A, B} {
		r.mu.Lock()
		open := !r.closed[s.name]
		r.mu.Unlock()
		if open {
			s.disconnect("user")
		}
	}
	r.wait(patience, func(e []event) bool { return has(e, "Close", "A", "") && has(e, "Close", "B", "") })
	for _, s := range []*side{A, B} {
		if s.p != nil {
			s.p.WaitForDisconnect()
		}
	}
	time.Sleep(2 * time.Millisecond) // let a handler that was mid-message log its last event
	r.mu.Lock()
	r.sealed = true
	r.mu.Unlock()
	A.rawWG.Wait()
	B.rawWG.Wait()
	tmu.Lock()
	if A.p != nil {
		delete(tset, A.p)
	}
	if B.p != nil {
		delete(tset, B.p)
	}
	tmu.Unlock()
	return r
}

// ---------------------------------------------------------------------------
// monitors: the safety properties of Handshake.tla on the recorded events

var quietMonitor bool
var logDir string

func monitor(sc *scenario, r *run) (viol []string) {
	report := func(key, what string) {
		viol = append(viol, key)
		if quietMonitor {
			return
		}
		rep.Violation(key, fmt.Sprintf("run %q (%s-%s over %s): %s", sc.name, sc.roleA, sc.roleB, sc.transport, what),
			map[string]interface{}{"scenario": sc.name, "roles": []string{sc.roleA, sc.roleB}, "events": r.evs})
	}
	seen := map[string]bool{}
	once := func(key, what string) {
		if !seen[key] {
			seen[key] = true
			report(key, what)
		}
	}
	for _, p := range []string{"A", "B"} {
		if r.roles[p] == "raw" {
			continue
		}
		q := other(p)
		vk, nVerack, lateN, nVersion := false, 0, 0, 0
		sent, read, closed := false, false, false
		rejectedEarly := false
		pv := -1
		for _, e := range r.evs {
			if e["p"] != p {
				continue
			}
			k, _ := e["k"].(string)
			switch e["ev"] {
			case "Send":
				if closed {
					once("X01:after-disconnect:sent", p+" wrote a "+k+" message after Disconnect")
				}
				if r.roles[p] == "in" && !read {
					once("X01:inbound-speaks-first", "inbound peer "+p+" wrote a "+k+" message before it had read anything")
				}
				if rejectedEarly {
					once("X01:negotiation-continued-after-reject", p+" answered a non-version first message with a reject and then went on with the negotiation (wrote a "+k+" message)")
				}
				if k == "reject" && !vk {
					rejectedEarly = true
				}
				if k != "version" && k != "reject" && !vk {
					once("X01:started-without-version:"+k, p+" runs its handlers and wrote a "+k+" message although it never received a version message")
				}
				sent = true
			case "Read":
				if closed {
					once("X01:after-disconnect:read", p+" read a "+k+" message after Disconnect")
				}
				read = true
			case "Close":
				closed = true
			case "Deliver":
				evk, _ := e["vk"].(bool)
				if closed {
					lateN++
				}
				if k == "version" {
					nVersion++
					a := advertised(r, q, e)
					want := int(r.cfgVer[p])
					if a < want {
						want = a
					}
					if e["pv"].(int) != want {
						once("X01:negotiated-version:not-min", fmt.Sprintf("%s configured with %d received version %d and negotiated %d", p, r.cfgVer[p], a, e["pv"]))
					}
					if r.same {
						once("X01:self-connection:established", p+" accepted the version message of a peer of its own node (nonce drawn by the same node): self connection not detected")
					}
					if l := nonceLabelOfLastRead(r, p, e); l == p {
						once("X01:self-connection:own-nonce", p+" accepted a version message carrying the nonce of its own version message")
					}
				} else if !evk {
					if k == "verack" {
						once("X01:handshake-order:verack-without-version", p+" reports the handshake done (verack delivered, VerAckReceived) although VersionKnown is false")
					} else {
						once("X01:early-delivery:"+k, "a "+k+" message reached MessageFunc of "+p+" before any version message")
					}
				}
				if k == "verack" {
					nVerack++
				}
				if pv >= 0 && e["pv"].(int) != pv {
					once("X01:renegotiated", fmt.Sprintf("the negotiated version of %s changed from %d to %d", p, pv, e["pv"]))
				}
				if evk {
					pv = e["pv"].(int)
				}
				vk = vk || evk
			}
		}
		_ = sent
		if nVerack > 1 {
			once("X01:second-verack-delivered", "a second verack reached MessageFunc of "+p)
		}
		if nVersion > 1 {
			once("X01:second-version-delivered", "a second version message reached MessageFunc of "+p)
		}
		if lateN > 1 {
			once("X01:after-disconnect:delivered", fmt.Sprintf("%d messages reached MessageFunc of %s after Disconnect", lateN, p))
		}
	}
	// agreement of two real peers
	if r.roles["A"] != "raw" && r.roles["B"] != "raw" {
		pa, pb := lastPV(r, "A"), lastPV(r, "B")
		if pa >= 0 && pb >= 0 && pa != pb {
			if r.advVer["A"] == r.cfgVer["A"] && r.advVer["B"] == r.cfgVer["B"] {
				once("X01:negotiated-version:disagree", fmt.Sprintf("A negotiated %d, B negotiated %d", pa, pb))
			} else {
				once("X01:negotiated-version:upgrade-asymmetry", fmt.Sprintf(
					"A (configured %d, advertises %d) negotiated %d, B (configured %d, advertises %d) negotiated %d: a peer that "+
						"advertises pact.CRProposalVersion because the chain passed NewVersionHeight still negotiates from the version it was created with",
					r.cfgVer["A"], r.advVer["A"], pa, r.cfgVer["B"], r.advVer["B"], pb))
			}
		}
	}
	return
}

func lastPV(r *run, p string) int {
	pv := -1
	for _, e := range r.evs {
		if e["p"] == p && e["ev"] == "Deliver" && e["vk"] == true {
			pv = e["pv"].(int)
		}
	}
	return pv
}

// the version p's last Read before event d carried
func lastReadVersion(r *run, p string, d event) event {
	var last event
	for _, e := range r.evs {
		if e["p"] == p && e["ev"] == "Read" && e["k"] == "version" {
			last = e
		}
		if sameEvent(e, d) {
			break
		}
	}
	return last
}

func sameEvent(a, b event) bool { return fmt.Sprintf("%p", a) == fmt.Sprintf("%p", b) }

func advertised(r *run, q string, d event) int {
	if e := lastReadVersion(r, d["p"].(string), d); e != nil {
		return e["a"].(int)
	}
	return -1
}

func nonceLabelOfLastRead(r *run, p string, d event) string {
	if e := lastReadVersion(r, p, d); e != nil {
		return e["b"].(string)
	}
	return ""
}

// ---------------------------------------------------------------------------
// the catalogue

func catalogue(thorough bool, rng *rand.Rand) []*scenario {
	var scs []*scenario
	vers := []uint32{10001, 20000, 80000}
	add := func(s *scenario) {
		if s.transport == "" {
			s.transport = "pipe"
		}
		if s.oA.cfgVer == 0 {
			s.oA.cfgVer = 20000
		}
		if s.oB.cfgVer == 0 {
			s.oB.cfgVer = 20000
		}
		scs = append(scs, s)
	}
	// 1. two correct peers, every pair of configured versions, both transports
	for _, va := range vers {
		for _, vb := range vers {
			for _, tr := range []string{"pipe", "tcp"} {
				if !thorough && tr == "tcp" && va != vb {
					continue
				}
				add(&scenario{name: fmt.Sprintf("honest-%d-%d", va, vb), roleA: "out", roleB: "in", transport: tr,
					oA: opts{cfgVer: va}, oB: opts{cfgVer: vb}, script: scriptHonest})
			}
		}
	}
	// the chain passed NewVersionHeight on one / both sides
	add(&scenario{name: "upgrade-A", roleA: "out", roleB: "in", oA: opts{cfgVer: 20000, upgrade: true}, oB: opts{cfgVer: 80000}, script: scriptHonest})
	add(&scenario{name: "upgrade-B", roleA: "out", roleB: "in", oA: opts{cfgVer: 80000}, oB: opts{cfgVer: 20000, upgrade: true}, script: scriptHonest})
	add(&scenario{name: "upgrade-both", roleA: "out", roleB: "in", oA: opts{cfgVer: 20000, upgrade: true}, oB: opts{cfgVer: 20000, upgrade: true}, script: scriptHonest})
	// 2. a node connected to itself
	for _, tr := range []string{"pipe", "tcp"} {
		add(&scenario{name: "self-connection", roleA: "out", roleB: "in", same: true, transport: tr, script: scriptHonest})
	}
	// 3. timers
	short := 40 * time.Millisecond
	add(&scenario{name: "negotiate-timeout-both-inbound", roleA: "in", roleB: "in", oA: opts{neg: short}, oB: opts{neg: short}, script: scriptWaitClosed})
	add(&scenario{name: "both-outbound-pipe", roleA: "out", roleB: "out", oA: opts{neg: short}, oB: opts{neg: short}, script: scriptWaitClosed})
	add(&scenario{name: "both-outbound-tcp", roleA: "out", roleB: "out", transport: "tcp", script: scriptHonest})
	add(&scenario{name: "idle-timeout", roleA: "out", roleB: "in", script: scriptIdle})
	add(&scenario{name: "silent-remote-inbound", roleA: "raw", roleB: "in", oB: opts{neg: short}, script: rawScript(nil, "wait")})
	add(&scenario{name: "silent-remote-outbound", roleA: "out", roleB: "raw", oA: opts{neg: short}, script: rawScript(nil, "wait")})
	add(&scenario{name: "version-then-silence", roleA: "raw", roleB: "in", oB: opts{idle: short}, script: rawScript([]rawOp{{"version", 20000}}, "wait")})
	// 4. a user disconnects at every point of the handshake of two correct peers
	cuts := 12
	for k := 0; k <= cuts; k++ {
		for _, who := range []string{"A", "B"} {
			if !thorough && (k+len(who)+int(rng.Int63()))%2 == 0 && k > 2 {
				continue
			}
			add(&scenario{name: fmt.Sprintf("cut-%s-after-%d", who, k), roleA: "out", roleB: "in", script: scriptCut(k, who)})
		}
	}
	// 5. scripted raw remotes against an inbound and an outbound peer
	V, L := rawOp{"version", 20000}, rawOp{"version", 10001}
	H := rawOp{"version", 80000}
	ack, pi, po, ot, bad, echo := rawOp{kind: "verack"}, rawOp{kind: "ping"}, rawOp{kind: "pong"}, rawOp{kind: "other"}, rawOp{kind: "bad"}, rawOp{"echo", 20000}
	scripts := map[string][]rawOp{
		"verack-first":           {ack},
		"ping-first":             {pi},
		"pong-first":             {po},
		"other-first":            {ot},
		"bad-first":              {bad},
		"normal":                 {V, ack, pi, po, ot},
		"low-version":            {L, ack, pi},
		"high-version":           {H, ack},
		"duplicate-version":      {V, V},
		"duplicate-version-late": {V, ack, pi, V},
		"duplicate-verack":       {V, ack, ack},
		"no-verack":              {V, pi, ot, po},
		"bad-after-version":      {V, ack, bad},
		"unsolicited-pong":       {V, ack, po, po},
		"verack-then-version":    {ack, V, ack},
		"ping-verack-other":      {pi, ack, ot},
		"other-version-verack":   {ot, V, ack, pi},
		"same-nonce":             {echo, ack},
	}
	names := make([]string, 0, len(scripts))
	for n := range scripts {
		names = append(names, n)
	}
	sort.Strings(names)
	for _, n := range names {
		add(&scenario{name: "raw-in-" + n, roleA: "raw", roleB: "in", script: rawScript(scripts[n], "close")})
		add(&scenario{name: "raw-out-" + n, roleA: "out", roleB: "raw", script: rawScript(scripts[n], "close")})
	}
	if thorough {
		for _, n := range names {
			add(&scenario{name: "raw-in-tcp-" + n, roleA: "raw", roleB: "in", transport: "tcp", script: rawScript(scripts[n], "close")})
		}
	}
	// 6. seeded random raw schedules
	kinds := []rawOp{V, V, L, ack, ack, pi, po, ot, bad, echo}
	nRand := 40
	if thorough {
		nRand = 400
	}
	for i := 0; i < nRand; i++ {
		n := 1 + rng.Intn(5)
		ops := make([]rawOp, n)
		var ns []string
		for j := range ops {
			ops[j] = kinds[rng.Intn(len(kinds))]
			if j == 0 && rng.Intn(2) == 0 {
				ops[j] = V
			}
			ns = append(ns, ops[j].kind)
		}
		if rng.Intn(2) == 0 {
			add(&scenario{name: "rand-in-" + strings.Join(ns, "."), roleA: "raw", roleB: "in", script: rawScript(ops, []string{"close", "close", "leave"}[rng.Intn(3)])})
		} else {
			add(&scenario{name: "rand-out-" + strings.Join(ns, "."), roleA: "out", roleB: "raw", script: rawScript(ops, []string{"close", "close", "leave"}[rng.Intn(3)])})
		}
	}
	return scs
}

// ---------------------------------------------------------------------------

func record(tier, out string) {
	rng := rand.New(rand.NewSource(rep.Seed()))
	scs := catalogue(tier == "thorough", rng)
	f, err := os.Create(out)
	if err != nil {
		panic(err)
	}
	defer f.Close()
	enc := json.NewEncoder(f)
	kinds := map[string]int{}
	var violRuns []int
	var violKeys = map[string]int{}
	unsettled := 0
	var unsettledNames []string
	var sample interface{}
	events := 0
	for i, sc := range scs {
		r := sc.run(rng)
		enc.Encode(event{"ev": "Reset", "run": i, "name": sc.name, "roleA": sc.roleA, "roleB": sc.roleB, "same": sc.same,
			"cfgA": int(r.cfgVer["A"]), "cfgB": int(r.cfgVer["B"]), "advA": int(r.advVer["A"]), "advB": int(r.advVer["B"]),
			"transport": sc.transport})
		kinds["Reset"]++
		for _, e := range r.evs {
			enc.Encode(e)
			k := e["ev"].(string)
			if s, ok := e["k"].(string); ok {
				k += ":" + s
			}
			if k == "Close" {
				k += ":" + r.roles[e["p"].(string)]
			}
			kinds[k]++
		}
		events += len(r.evs) + 1
		if r.unsettl {
			unsettled++
			unsettledNames = append(unsettledNames, sc.name)
		}
		vs := monitor(sc, r)
		if len(vs) > 0 {
			violRuns = append(violRuns, i)
			for _, k := range vs {
				violKeys[k]++
			}
		}
		if sc.name == "raw-in-duplicate-version" {
			sample = map[string]interface{}{"scenario": sc.name, "events": r.evs}
		}
	}
	rep.Summary(len(scs), map[string]interface{}{"mode": "record", "tier": tier, "events": events, "events_by_kind": kinds,
		"runs_with_violation": violRuns, "violation_keys": violKeys, "unsettled_runs": unsettled, "unsettled_names": unsettledNames}, sample)
}

// selftest: the monitors must object to corrupted copies of a recorded run of two correct peers.
func selftest() {
	quietMonitor = true
	rng := rand.New(rand.NewSource(rep.Seed()))
	sc := &scenario{name: "selftest", roleA: "out", roleB: "in", transport: "pipe", oA: opts{cfgVer: 20000}, oB: opts{cfgVer: 10001}, script: scriptHonest}
	r := sc.run(rng)
	emit := func(name string, rejected bool) {
		b, _ := json.Marshal(map[string]interface{}{"kind": "selftest", "name": name, "rejected": rejected})
		fmt.Println(string(b))
	}
	emit("an unchanged run raises no alarm", len(monitor(sc, r)) != 0 == false)
	try := func(name, key string, f func(evs []event) []event) {
		cp := make([]event, len(r.evs))
		for i, e := range r.evs {
			c := event{}
			for k, v := range e {
				c[k] = v
			}
			cp[i] = c
		}
		got := false
		defer func() {
			if p := recover(); p != nil { // the recorded run lacks the event to corrupt (a broken tree)
				emit(name, false)
			}
		}()
		r2 := *r
		r2.evs = f(cp)
		for _, k := range monitor(sc, &r2) {
			if strings.HasPrefix(k, key) {
				got = true
			}
		}
		emit(name, got)
	}
	find := func(evs []event, ev, p, k string) int {
		for i, e := range evs {
			if e["ev"] == ev && e["p"] == p && e["k"] == k {
				return i
			}
		}
		panic("selftest: no " + ev + " " + p + " " + k)
	}
	try("verack delivered with VersionKnown false", "X01:handshake-order", func(evs []event) []event {
		evs[find(evs, "Deliver", "B", "verack")]["vk"] = false
		return evs
	})
	try("ping delivered before the version", "X01:early-delivery", func(evs []event) []event {
		evs[find(evs, "Deliver", "A", "pong")]["vk"] = false
		return evs
	})
	try("negotiated version not the minimum", "X01:negotiated-version:not-min", func(evs []event) []event {
		evs[find(evs, "Deliver", "A", "version")]["pv"] = 20000
		return evs
	})
	try("inbound peer writes first", "X01:inbound-speaks-first", func(evs []event) []event {
		i, j := find(evs, "Read", "B", "version"), find(evs, "Send", "B", "version")
		evs[i], evs[j] = evs[j], evs[i]
		return evs
	})
	try("verack delivered twice", "X01:second-verack-delivered", func(evs []event) []event {
		return append(evs, evs[find(evs, "Deliver", "A", "verack")])
	})
	try("two deliveries after Disconnect", "X01:after-disconnect:delivered", func(evs []event) []event {
		d := evs[find(evs, "Deliver", "A", "pong")]
		return append(evs, d, d)
	})
	try("write after Disconnect", "X01:after-disconnect:sent", func(evs []event) []event {
		return append(evs, evs[find(evs, "Send", "A", "ping")])
	})
	try("verack written without a version", "X01:started-without-version", func(evs []event) []event {
		i := find(evs, "Deliver", "B", "version")
		for _, e := range evs {
			if e["ev"] == "Deliver" && e["p"] == "B" {
				e["vk"] = false
			}
		}
		return append(evs[:i:i], evs[i+1:]...)
	})
	r.same = true
	try("self connection accepted", "X01:self-connection:established", func(evs []event) []event { return evs })
	rep.Summary(1, map[string]interface{}{"mode": "selftest"})
}

func main() {
	if len(os.Args) >= 2 && os.Args[1] == "selftest" {
		initLog()
		defer os.RemoveAll(logDir)
		defer rep.Flush()
		selftest()
		return
	}
	if len(os.Args) < 4 || os.Args[1] != "record" {
		fmt.Fprintln(os.Stderr, "usage: handshake record <quick|thorough> <out.ndjson> | selftest")
		os.Exit(3)
	}
	initLog()
	defer os.RemoveAll(logDir)
	defer rep.Flush()
	record(os.Args[2], os.Args[3])
}

func initLog() {
	// the node's logger must exist (header.Verify logs); keep it off stdout
	realStdout := os.Stdout
	if devnull, err := os.OpenFile(os.DevNull, os.O_WRONLY, 0); err == nil {
		os.Stdout = devnull
	}
	dir, _ := os.MkdirTemp("", "handshake-log-")
	log.NewDefault(dir, 4, 0, 0)
	logDir = dir
	os.Stdout = realStdout
}
