// Conformance driver for C32 (spec/Policy/Frozen.tla, NetConfig.tla).
//
//	frozen check  <cases.jsonl> [alltypes]  every case of Frozen.tla -> the real
//	                                        checkFrozenAddresses (verif export)
//	frozen config <cases.jsonl>             every case of NetConfig.tla -> Settings.SetupConfig
package main

import (
	"fmt"
	"math"
	"os"

	"github.com/elastos/Elastos.ELA/common"
	"github.com/elastos/Elastos.ELA/common/config"
	"github.com/elastos/Elastos.ELA/core/contract"
	"github.com/elastos/Elastos.ELA/core/transaction"
	common2 "github.com/elastos/Elastos.ELA/core/types/common"
	"github.com/elastos/Elastos.ELA/core/types/interfaces"

	"verif/harness/internal/edgee2e"
	"verif/harness/internal/netcfg"
	"verif/harness/internal/rep"
	"verif/harness/internal/stack"
)

const KeyUnlistedName = "C32:config:unlisted-activenet-keeps-mainnet-params"

type addrSet struct {
	name string
	hash map[string]common.Uint168
	str  map[string]string
}

func mkHash(prefix contract.PrefixType, tag byte) common.Uint168 {
	var h common.Uint168
	h[0] = byte(prefix)
	for i := 1; i < len(h); i++ {
		h[i] = tag ^ byte(i*7)
	}
	return h
}

func addrSets() []addrSet {
	exploit, err := common.Uint168FromAddress(config.ExploitIntermediateFrozenAddress)
	if err != nil {
		panic(err)
	}
	sets := []addrSet{
		{name: "standard", hash: map[string]common.Uint168{
			"A": mkHash(contract.PrefixStandard, 1), "B": mkHash(contract.PrefixStandard, 2), "C": mkHash(contract.PrefixStandard, 3)}},
		// the coordinated mainnet entry, a multi-sig and a cross-chain address;
		// B and C differ in the last byte only
		{name: "mixed", hash: map[string]common.Uint168{
			"A": *exploit, "B": mkHash(contract.PrefixMultiSig, 9), "C": mkHash(contract.PrefixMultiSig, 9)}},
		// same body, different prefix
		{name: "prefix", hash: map[string]common.Uint168{
			"A": mkHash(contract.PrefixCrossChain, 5), "B": mkHash(contract.PrefixDeposit, 5), "C": mkHash(contract.PrefixStandard, 5)}},
	}
	c := sets[1].hash["C"]
	c[len(c)-1] ^= 1
	sets[1].hash["C"] = c
	for i := range sets {
		sets[i].str = map[string]string{}
		for k, h := range sets[i].hash {
			s, err := h.ToAddress()
			if err != nil {
				panic(err)
			}
			sets[i].str[k] = s
		}
	}
	return sets
}

func instantiable() (all []common2.TxType) {
	for b := 1; b < 256; b++ { // 0 = CoinBase
		func() {
			defer func() { recover() }()
			if txn, err := transaction.GetTransaction(common2.TxType(b)); err == nil && txn != nil {
				all = append(all, common2.TxType(b))
			}
		}()
	}
	return
}

func strs(l []interface{}) []string {
	r := make([]string, len(l))
	for i, v := range l {
		r[i], _ = v.(string)
	}
	return r
}

func check(path string, allTypes bool) {
	cases := rep.ReadCases(path)
	sets := addrSets()
	types := []common2.TxType{common2.TransferAsset}
	if allTypes {
		types = instantiable()
	}
	bases := []uint32{0, config.MainNetCrossChainUTXOFreezeHeight - 1, math.MaxUint32 - 16}
	runs, agree, unconstrained := 0, 0, 0
	var sample interface{}
	for ci, c := range cases {
		a := rep.Map(c, "args")
		exp := rep.Str(c, "exp")
		ins, outs := strs(rep.List(a, "ins")), strs(rep.List(a, "outs"))
		h := uint32(rep.Int(a, "h"))
		cb := rep.Bool(a, "cb")
		ok := true
		for si, set := range sets {
			for bi, base := range bases {
				tt := types[(ci+si+bi)%len(types)]
				if cb {
					tt = common2.CoinBase
				}
				var frozen []config.FrozenAddress
				for _, e := range rep.List(a, "list") {
					em := e.(map[string]interface{})
					fa := config.FrozenAddress{Address: set.str[rep.Str(em, "a")], DisableStartHeight: base + uint32(rep.Int(em, "s"))}
					if !rep.Bool(em, "nil") {
						ph := set.hash[rep.Str(em, "a")]
						fa.ProgramHash = &ph
					}
					frozen = append(frozen, fa)
				}
				inputs := make([]*common2.Input, len(ins))
				refs := map[*common2.Input]common2.Output{}
				for i, o := range ins {
					inputs[i] = &common2.Input{Previous: common2.OutPoint{TxID: common.Uint256{byte(i + 1), byte(ci)}, Index: uint16(i)}}
					refs[inputs[i]] = common2.Output{ProgramHash: set.hash[o], Value: 10}
				}
				outputs := make([]*common2.Output, len(outs))
				for i, o := range outs {
					outputs[i] = &common2.Output{ProgramHash: set.hash[o], Value: 1}
				}
				txn := transaction.CreateTransaction(common2.TxVersion09, tt, 0, nil, nil, inputs, outputs, 0, nil)
				var err error
				var pan interface{}
				func() {
					defer func() { pan = recover() }()
					err = transaction.VerifC32CheckFrozenAddresses(txn, refs, base+h, frozen)
				}()
				runs++
				conc := map[string]interface{}{"case": c, "addresses": set.str, "blockHeight": base + h, "frozen": frozen,
					"txType": tt.Name(), "error": fmt.Sprint(err)}
				if pan != nil {
					ok = false
					rep.Violation("C32:frozen:panic", fmt.Sprintf("checkFrozenAddresses panicked: %v", pan), conc)
					continue
				}
				if exp == "unconstrained" {
					continue
				}
				real := "accept"
				if err != nil {
					real = "reject"
				}
				if real == exp {
					if sample == nil && exp == "reject" && si == 1 && bi == 1 {
						sample = conc
					}
					continue
				}
				ok = false
				if exp == "reject" {
					rep.Violation("C32:frozen:"+rep.Str(c, "why"),
						fmt.Sprintf("%s transaction with inputs owned by %v and outputs to %v accepted at height %d although list entry %d (%s) is in force: it %s a frozen address",
							tt.Name(), ins, outs, base+h, rep.Int(c, "at"), set.name, rep.Str(c, "why")), conc)
				} else {
					rep.Mismatch(fmt.Sprintf("no frozen entry in force touches the transaction but the code refused: %v", err), conc)
				}
			}
		}
		if exp == "unconstrained" {
			unconstrained++
		}
		if ok {
			agree++
		}
	}
	rep.Summary(len(cases), map[string]interface{}{"mode": "check", "agree": agree, "concrete_runs": runs,
		"coinbase_cases_unconstrained": unconstrained, "tx_types": len(types)}, sample)
}

// e2e: every case with at least one input is built as a signed, otherwise valid
// TransferAsset between three funded keys and goes through the node's own
// BlockChain.CheckTransactionContext with the case's frozen list configured.
func e2e(path string) {
	cases := rep.ReadCases(path)
	env, err := edgee2e.New([]string{"A", "B", "C"}, 3)
	if err != nil {
		fmt.Fprintln(os.Stderr, "cannot build the node:", err)
		os.Exit(3)
	}
	defer env.Close()
	defer stack.CleanupGlobals()
	n, agree := 0, 0
	var sample interface{}
	for _, c := range cases {
		a := rep.Map(c, "args")
		ins, outs := strs(rep.List(a, "ins")), strs(rep.List(a, "outs"))
		if rep.Bool(a, "cb") || len(ins) == 0 {
			continue
		}
		n++
		exp := rep.Str(c, "exp")
		h := rep.Int(a, "h")
		var frozen []config.FrozenAddress
		for _, e := range rep.List(a, "list") {
			em := e.(map[string]interface{})
			o := env.Owners[rep.Str(em, "a")]
			addr, _ := o.Hash.ToAddress()
			fa := config.FrozenAddress{Address: addr, DisableStartHeight: uint32(int(env.H) + rep.Int(em, "s") - h)}
			if !rep.Bool(em, "nil") {
				ph := o.Hash
				fa.ProgramHash = &ph
			}
			frozen = append(frozen, fa)
		}
		env.N.Params.FrozenAddresses = frozen
		tx, err := env.Transfer(ins, outs)
		if err != nil {
			rep.Mismatch("cannot build the transfer: "+err.Error(), c)
			continue
		}
		cerr, pan := env.Check(tx)
		conc := map[string]interface{}{"case": c, "validatedHeight": env.H, "frozen": frozen, "error": fmt.Sprint(cerr)}
		switch {
		case pan != nil:
			rep.Violation("C32:e2e:panic", fmt.Sprintf("CheckTransactionContext panicked: %v", pan), conc)
		case cerr == nil && exp == "reject":
			rep.Violation("C32:e2e:"+rep.Str(c, "why"), fmt.Sprintf("CheckTransactionContext accepted a signed transfer with inputs owned by %v and outputs to %v at height %d although list entry %d is in force: it %s a frozen address",
				ins, outs, env.H, rep.Int(c, "at"), rep.Str(c, "why")), conc)
		case cerr != nil && exp == "accept":
			rep.Mismatch(fmt.Sprintf("no frozen entry in force touches the transfer but CheckTransactionContext refused: %v", cerr), conc)
		default:
			agree++
			if sample == nil && exp == "reject" {
				sample = conc
			}
		}
	}
	rep.Summary(n, map[string]interface{}{"mode": "e2e", "agree": agree}, sample)
}

func configCases(path string) {
	cases := rep.ReadCases(path)
	dir, err := os.MkdirTemp("", "frozen-cfg-")
	if err != nil {
		fmt.Fprintln(os.Stderr, err)
		os.Exit(3)
	}
	defer os.RemoveAll(dir)
	agree, runs := 0, 0
	var sample interface{}
	for _, c := range cases {
		a := rep.Map(c, "args")
		exp := rep.Map(c, "exp")
		dev := rep.Map(c, "dev")
		nc := netcfg.Case{Name: rep.Str(a, "name"), OvF: rep.Str(a, "ovF"), OvR: rep.Str(a, "ovR"), OvFrozen: rep.Str(a, "ovFrozen")}
		variants := []bool{false}
		if nc.Name == "" {
			variants = append(variants, true)
		}
		ok := true
		for _, omit := range variants {
			res := netcfg.Run(dir, nc, omit)
			runs++
			conc := map[string]interface{}{"case": c, "real": res}
			if res.Panic != "" {
				ok = false
				rep.Mismatch("SetupConfig failed: "+res.Panic, conc)
				continue
			}
			if res.Net != rep.Str(exp, "net") {
				ok = false
				rep.Mismatch(fmt.Sprintf("parameter set selected for ActiveNet %q: spec %s, real %s", nc.Name, rep.Str(exp, "net"), res.Net), conc)
				continue
			}
			if netcfg.SameList(rep.Str(exp, "frozen"), res.Frozen) && res.Resolved == rep.Bool(exp, "resolved") {
				if sample == nil && nc.OvFrozen == "otherAddr" && res.Net == "main" {
					sample = conc
				}
				continue
			}
			ok = false
			what := fmt.Sprintf("ActiveNet %q selects the %snet parameter set (magic %d) but the effective frozen list is %s (program hashes resolved: %v; spec: %s); file: %s",
				nc.Name, res.Net, res.Magic, res.Frozen, res.Resolved, rep.Str(exp, "frozen"), res.File)
			switch {
			case res.Net != "main":
				// the property says nothing about other networks' lists
				rep.Mismatch("frozen list off mainnet differs from the model: "+what, conc)
			case dev != nil && netcfg.SameList(rep.Str(dev, "frozen"), res.Frozen) && res.Resolved:
				rep.Violation(KeyUnlistedName, what, conc)
			default:
				rep.Violation("C32:config:mainnet-frozen-list-not-coordinated", what, conc)
			}
		}
		if ok {
			agree++
		}
	}
	rep.Summary(len(cases), map[string]interface{}{"mode": "config", "agree": agree, "concrete_runs": runs}, sample)
}

var _ interfaces.Transaction

func main() {
	if len(os.Args) < 3 {
		fmt.Fprintln(os.Stderr, "usage: frozen check|config <cases.jsonl>")
		os.Exit(3)
	}
	defer rep.Flush()
	switch os.Args[1] {
	case "check":
		check(os.Args[2], len(os.Args) > 3 && os.Args[3] == "alltypes")
	case "config":
		configCases(os.Args[2])
	case "e2e":
		e2e(os.Args[2])
	default:
		os.Exit(3)
	}
}
