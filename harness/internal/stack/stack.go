// Package stack builds a complete in-process regnet node (real ChainStore on a
// scratch directory, BlockChain, DPoS Arbiters, CR Committee, TxPool, pow
// Service) the way main.go / benchmark/tools/generator/chain do, plus a block
// and transaction factory that can build forks, orphans and deliberately invalid
// blocks.  Used by every full-stack replay driver.
package stack

import (
	"bytes"
	"encoding/binary"
	"errors"
	"fmt"
	"math"
	"os"
	"path/filepath"
	"sort"
	"sync"

	"github.com/elastos/Elastos.ELA/account"
	"github.com/elastos/Elastos.ELA/blockchain"
	"github.com/elastos/Elastos.ELA/common"
	"github.com/elastos/Elastos.ELA/common/config"
	"github.com/elastos/Elastos.ELA/common/log"
	"github.com/elastos/Elastos.ELA/core"
	"github.com/elastos/Elastos.ELA/core/checkpoint"
	"github.com/elastos/Elastos.ELA/core/contract"
	pg "github.com/elastos/Elastos.ELA/core/contract/program"
	"github.com/elastos/Elastos.ELA/core/transaction"
	"github.com/elastos/Elastos.ELA/core/types"
	common2 "github.com/elastos/Elastos.ELA/core/types/common"
	"github.com/elastos/Elastos.ELA/core/types/functions"
	"github.com/elastos/Elastos.ELA/core/types/interfaces"
	"github.com/elastos/Elastos.ELA/core/types/outputpayload"
	"github.com/elastos/Elastos.ELA/core/types/payload"
	crstate "github.com/elastos/Elastos.ELA/cr/state"
	"github.com/elastos/Elastos.ELA/crypto"
	"github.com/elastos/Elastos.ELA/dpos/state"
	"github.com/elastos/Elastos.ELA/events"
	"github.com/elastos/Elastos.ELA/mempool"
	"github.com/elastos/Elastos.ELA/pow"
)

var initOnce sync.Once

// InitGlobals wires the package-level function hooks the repository expects
// (main.go / test init functions do the same).
func InitGlobals() {
	initOnce.Do(func() {
		functions.GetTransactionByTxType = transaction.GetTransaction
		functions.GetTransactionByBytes = transaction.GetTransactionByBytes
		functions.CreateTransaction = transaction.CreateTransaction
		functions.GetTransactionParameters = transaction.GetTransactionparameters
		config.DefaultParams = *config.GetDefaultParams().RegNet().InstantBlock().Sterilize()
		logDir, _ := os.MkdirTemp("", "verif-log-")
		level := uint8(5) // fatal only
		if v := os.Getenv("VERIF_LOGLEVEL"); v != "" {
			level = uint8(v[0] - '0')
			fmt.Fprintln(os.Stderr, "node log in", logDir)
		}
		log.NewDefault(logDir, level, 0, 0)
		LogDir = logDir
	})
}

// LogDir is removed by CleanupGlobals.
var LogDir string

func CleanupGlobals() {
	if LogDir != "" && os.Getenv("VERIF_LOGLEVEL") == "" {
		os.RemoveAll(LogDir)
	}
}

// Options tune the node.  Zero value = plain PoW regnet node.
type Options struct {
	// Tweak is applied to the parameters before anything is constructed.
	Tweak func(p *config.Configuration)
	// CoinbaseMaturity (default 1 so that funding outputs mature quickly).
	CoinbaseMaturity uint32
	// PoolGlue makes the node's TxPool react to chain notifications exactly as
	// elanet/netsync/manager.go handleBlockchainEvents does (the sync manager
	// itself needs a P2P server and subscribes for the life of the process, so it
	// cannot be instantiated once per behaviour).
	PoolGlue bool
	// Foundation, when set, receives the genesis block's coinbase (33 M ELA): funds
	// for deposits.  Applied before the genesis block is built.
	Foundation *common.Uint168
}

type Node struct {
	Dir      string
	Params   *config.Configuration
	Chain    *blockchain.BlockChain
	Store    blockchain.IChainStore
	Arbiters *state.Arbiters
	Comm     *crstate.Committee
	Ckp      *checkpoint.Manager
	Pool     *mempool.TxPool
	Pow      *pow.Service
	Miner    *account.Account // receives coinbases of factory blocks
	nonce    uint64
	opt      Options
	glue     bool
	Events   []Event // connect / disconnect notifications since last Drain
	sub      bool
}

type Event struct {
	Kind string // "connect" | "disconnect"
	Hash common.Uint256
}

var current *Node // events.Notify is process global

// New creates a fresh node in a scratch directory.
func New(opt Options) (*Node, error) {
	InitGlobals()
	dir, err := os.MkdirTemp("", "verif-node-")
	if err != nil {
		return nil, err
	}
	return build(opt, dir)
}

// Restart closes the node's database and builds the node again on the same data
// directory, the way a restarted process does (blockchain.New, BlockChain.Init,
// InitCheckpoint): in-memory state (block index, side-chain block cache, orphans,
// transaction pool, DPoS / CR state) is rebuilt from what is stored.
func (n *Node) Restart() error {
	if current == n {
		current = nil
	}
	func() {
		defer func() { recover() }()
		n.Store.Close()
	}()
	func() {
		// the legacy leveldb handle is closed separately (ChainStore.Close leaves it open)
		defer func() { recover() }()
		n.Store.CloseLeveldb()
	}()
	m, err := build(n.opt, n.Dir)
	if err != nil {
		return err
	}
	miner, nonce := n.Miner, n.nonce
	*n = *m
	n.Miner, n.nonce = miner, nonce
	current = n
	return nil
}

func build(opt Options, dir string) (*Node, error) {
	var err error
	// every node gets its own parameter object; the package-level
	// config.DefaultParams (read by a few helpers) is set once in InitGlobals
	params := config.GetDefaultParams().RegNet().InstantBlock()
	if opt.Foundation != nil {
		params.FoundationAddress = ""
		params.FoundationProgramHash = opt.Foundation
	}
	params = params.Sterilize()
	params.DataDir = dir
	params.CheckRewardHeight = 0
	params.PowConfiguration.CoinbaseMaturity = 1
	if opt.CoinbaseMaturity != 0 {
		params.PowConfiguration.CoinbaseMaturity = opt.CoinbaseMaturity
	}
	params.DPoSConfiguration.SponsorsFilePath = filepath.Join(dir, "sponsors")
	if opt.Tweak != nil {
		opt.Tweak(params)
	}
	n := &Node{Dir: dir, Params: params, glue: opt.PoolGlue, opt: opt}
	n.Ckp = checkpoint.NewManager(params)
	n.Ckp.SetDataPath(filepath.Join(dir, "checkpoints"))
	ledger := &blockchain.Ledger{}
	blockchain.FoundationAddress = *params.FoundationProgramHash
	store, err := blockchain.NewChainStore(filepath.Join(dir, "data"), params)
	if err != nil {
		return nil, err
	}
	n.Store = store
	ledger.Store = store
	n.Pool = mempool.NewTxPool(params, n.Ckp)
	blockchain.DefaultLedger = ledger
	n.Comm = crstate.NewCommittee(params, n.Ckp)
	ledger.Committee = n.Comm
	arb, err := state.NewArbitrators(params, n.Comm, ledger.GetAmount,
		n.Comm.TryUpdateCRMemberInactivity, n.Comm.TryRevertCRMemberInactivity,
		n.Comm.TryUpdateCRMemberIllegal, n.Comm.TryRevertCRMemberIllegal,
		n.Comm.UpdateCRInactivePenalty, n.Comm.RevertUpdateCRInactivePenalty, n.Ckp)
	if err != nil {
		return nil, err
	}
	n.Arbiters = arb
	ledger.Arbitrators = arb
	chain, err := blockchain.New(store, params, arb.State, n.Comm, n.Ckp)
	if err != nil {
		return nil, err
	}
	if err = chain.Init(nil); err != nil {
		return nil, err
	}
	n.Chain = chain
	ledger.Blockchain = chain
	arb.RegisterFunction(chain.GetHeight, chain.GetBestBlockHash, chain.GetBlock, chain.UTXOCache.GetTxReference)
	arb.State.RegisterFuncitons(&state.StateFuncsConfig{
		GetHeight:      store.GetHeight,
		IsCurrent:      func() bool { return false },
		AppendToTxpool: n.Pool.AppendToTxPool,
	})
	n.Comm.RegisterFuncitons(&crstate.CommitteeFuncsConfig{
		GetTxReference:     chain.UTXOCache.GetTxReference,
		GetUTXO:            store.GetFFLDB().GetUTXO,
		GetHeight:          store.GetHeight,
		IsCurrent:          func() bool { return false },
		AppendToTxpool:     n.Pool.AppendToTxPool,
		GetCurrentArbiters: arb.GetCurrentArbitratorKeys,
	})
	n.Miner, _ = account.NewAccount()
	minerAddr, _ := n.Miner.ProgramHash.ToAddress()
	n.Pow = pow.NewService(&pow.Config{
		PayToAddr:      minerAddr,
		MinerInfo:      "verif",
		Chain:          chain,
		ChainParams:    params,
		TxMemPool:      n.Pool,
		BroadcastBlock: func(*types.Block) {},
		Arbitrators:    arb,
	})
	if err = chain.InitCheckpoint(nil, nil, nil); err != nil {
		return nil, err
	}
	current = n
	if !subscribed {
		subscribed = true
		events.Subscribe(func(e *events.Event) {
			c := current
			if c == nil {
				return
			}
			switch e.Type {
			case events.ETBlockConnected:
				blk := e.Data.(*types.Block)
				c.Events = append(c.Events, Event{"connect", blk.Hash()})
				if c.glue {
					c.Pool.CleanSubmittedTransactions(blk)
					c.Chain.UTXOCache.CleanTxCache()
					c.Pool.ResendOutdatedTransactions(blk)
				}
			case events.ETBlockDisconnected:
				blk := e.Data.(*types.Block)
				c.Events = append(c.Events, Event{"disconnect", blk.Hash()})
				if c.glue {
					for _, tx := range blk.Transactions[1:] {
						if err := c.Pool.MaybeAcceptTransaction(tx); err != nil {
							c.Pool.RemoveTransaction(tx)
						}
					}
				}
			case events.ETBlockProcessed:
				blk := e.Data.(*types.Block)
				c.Events = append(c.Events, Event{"processed", blk.Hash()})
				if c.glue {
					c.Pool.CheckAndCleanAllTransactions()
					c.Pool.BroadcastSmallCrossChainTransactions(blk.Height)
				}
			}
		})
	}
	return n, nil
}

var subscribed bool

// Close releases the database and removes the scratch directory.
func (n *Node) Close() {
	if current == n {
		current = nil
	}
	func() {
		defer func() { recover() }()
		n.Store.Close()
	}()
	os.RemoveAll(n.Dir)
}

// Drain returns and clears the connect/disconnect notifications.
func (n *Node) Drain() []Event {
	e := n.Events
	n.Events = nil
	return e
}

func (n *Node) Genesis() *types.Block { return n.Params.GenesisBlock }

// ---------------------------------------------------------------------------
// block factory

// BlockOpts let a driver build deliberately wrong blocks.
type BlockOpts struct {
	CoinbaseTo     *common.Uint168 // default: node miner
	RewardDelta    common.Fixed64  // added to the miner share (context-invalid when != 0)
	BadMerkleRoot  bool            // header commits to a different root (sanity-invalid)
	Timestamp      uint32          // default parent+1
	KeepMerkleRoot *common.Uint256 // use this root instead of computing
	NoSolve        bool
	Fees           common.Fixed64 // total fees of txs (caller computes; used for the coinbase value)
}

// CoinbaseTx builds the coinbase the way pow.Service.CreateCoinbaseTx does, with
// a deterministic nonce.
func (n *Node) CoinbaseTx(height uint32, to common.Uint168) interfaces.Transaction {
	crRewardAddr := n.Params.FoundationProgramHash
	if height >= n.Params.CRConfiguration.CRCommitteeStartHeight {
		crRewardAddr = n.Params.CRConfiguration.CRAssetsProgramHash
	}
	n.nonce++
	nonce := make([]byte, 8)
	binary.BigEndian.PutUint64(nonce, n.nonce)
	txAttr := common2.NewAttribute(common2.Nonce, nonce)
	return functions.CreateTransaction(
		n.Pow.GetDefaultTxVersion(height), common2.CoinBase, payload.CoinBaseVersion,
		&payload.CoinBase{Content: []byte("verif")},
		[]*common2.Attribute{&txAttr},
		[]*common2.Input{{Previous: common2.OutPoint{TxID: common.EmptyHash, Index: math.MaxUint16}, Sequence: math.MaxUint32}},
		[]*common2.Output{
			{AssetID: core.ELAAssetID, Value: 0, ProgramHash: *crRewardAddr, Type: common2.OTNone, Payload: &outputpayload.DefaultOutput{}},
			{AssetID: core.ELAAssetID, Value: 0, ProgramHash: to, Type: common2.OTNone, Payload: &outputpayload.DefaultOutput{}},
		},
		height, []*pg.Program{})
}

// NewBlock builds (and solves) a block on top of parent with the given
// non-coinbase transactions.
func (n *Node) NewBlock(parent *types.Block, txs []interfaces.Transaction, o BlockOpts) (*types.Block, error) {
	height := parent.Height + 1
	to := n.Miner.ProgramHash
	if o.CoinbaseTo != nil {
		to = *o.CoinbaseTo
	}
	cb := n.CoinbaseTx(height, to)
	ts := o.Timestamp
	if ts == 0 {
		ts = parent.Timestamp + 1
	}
	b := &types.Block{
		Header: common2.Header{
			Version:  0,
			Previous: parent.Hash(),
			Timestamp: ts,
			Bits:      n.Params.PowConfiguration.PowLimitBits,
			Height:    height,
		},
		Transactions: append([]interfaces.Transaction{cb}, txs...),
	}
	total := o.Fees + n.Params.GetBlockReward(height)
	if err := n.Pow.AssignCoinbaseTxRewards(b, total); err != nil {
		return nil, err
	}
	if o.RewardDelta != 0 {
		b.Transactions[0].Outputs()[1].Value += o.RewardDelta
	}
	n.Seal(b, o)
	return b, nil
}

// Seal recomputes the merkle root (unless told otherwise) and solves the block.
func (n *Node) Seal(b *types.Block, o BlockOpts) {
	hashes := make([]common.Uint256, 0, len(b.Transactions))
	for _, tx := range b.Transactions {
		hashes = append(hashes, tx.Hash())
	}
	root, _ := crypto.ComputeRoot(hashes)
	if o.KeepMerkleRoot != nil {
		root = *o.KeepMerkleRoot
	}
	if o.BadMerkleRoot {
		root[0] ^= 0xff
	}
	b.Header.MerkleRoot = root
	if !o.NoSolve {
		for !n.Pow.SolveBlock(b, nil) {
		}
	}
}

// Process delivers a block to the node (nil confirmation).
func (n *Node) Process(b *types.Block) (inMain, isOrphan bool, err error) {
	return n.Chain.ProcessBlock(b, nil)
}

// MineOn builds a block on the current tip with txs and processes it.
func (n *Node) MineOn(txs []interfaces.Transaction, fees common.Fixed64) (*types.Block, error) {
	tip, err := n.TipBlock()
	if err != nil {
		return nil, err
	}
	b, err := n.NewBlock(tip, txs, BlockOpts{Fees: fees})
	if err != nil {
		return nil, err
	}
	_, _, err = n.Process(b)
	return b, err
}

func (n *Node) TipBlock() (*types.Block, error) {
	h := n.Chain.GetBestChain().Hash
	blk, err := n.Chain.GetBlockByHash(*h)
	if err != nil {
		return nil, err
	}
	return blk, nil
}

// ---------------------------------------------------------------------------
// transaction factory

// Key is a harness-held standard account.
type Key struct {
	Acc  *account.Account
	Code []byte
	Hash common.Uint168
}

func NewKey() *Key {
	acc, _ := account.NewAccount()
	return &Key{Acc: acc, Code: acc.RedeemScript, Hash: acc.ProgramHash}
}

// KeyFromSeed derives a deterministic key (harness keys must not depend on
// crypto/rand when behaviours are compared across runs).
func KeyFromSeed(seed uint64) *Key {
	for i := uint64(0); ; i++ {
		priv := make([]byte, 32)
		binary.BigEndian.PutUint64(priv[8:], seed)
		binary.BigEndian.PutUint64(priv[24:], i+1)
		priv[0] = 1
		acc, err := account.NewAccountWithPrivateKey(priv)
		if err == nil {
			return &Key{Acc: acc, Code: acc.RedeemScript, Hash: acc.ProgramHash}
		}
	}
}

type Out struct {
	To    common.Uint168
	Value common.Fixed64
}

// Transfer builds and signs a TransferAsset transaction spending the given
// outpoints (all owned by signer keys) to outs.
func Transfer(ins []common2.OutPoint, outs []Out, signers []*Key, nonce uint64) (interfaces.Transaction, error) {
	inputs := make([]*common2.Input, 0, len(ins))
	for _, op := range ins {
		inputs = append(inputs, &common2.Input{Previous: op, Sequence: 0})
	}
	outputs := make([]*common2.Output, 0, len(outs))
	for _, o := range outs {
		outputs = append(outputs, &common2.Output{AssetID: core.ELAAssetID, Value: o.Value, ProgramHash: o.To,
			Type: common2.OTNone, Payload: &outputpayload.DefaultOutput{}})
	}
	nb := make([]byte, 8)
	binary.BigEndian.PutUint64(nb, nonce)
	attr := common2.NewAttribute(common2.Nonce, nb)
	tx := functions.CreateTransaction(common2.TxVersion09, common2.TransferAsset, 0, &payload.TransferAsset{},
		[]*common2.Attribute{&attr}, inputs, outputs, 0, []*pg.Program{})
	return tx, Sign(tx, signers)
}

// Sign attaches one standard program per signer (sorted by program hash as the
// verifier expects).
func Sign(tx interfaces.Transaction, signers []*Key) error {
	buf := new(bytes.Buffer)
	if err := tx.SerializeUnsigned(buf); err != nil {
		return err
	}
	ks := append([]*Key(nil), signers...)
	sort.Slice(ks, func(i, j int) bool { return ks[i].Hash.Compare(ks[j].Hash) < 0 })
	var progs []*pg.Program
	seen := map[common.Uint168]bool{}
	for _, k := range ks {
		if seen[k.Hash] {
			continue
		}
		seen[k.Hash] = true
		sig, err := k.Acc.Sign(buf.Bytes())
		if err != nil {
			return err
		}
		param := append([]byte{byte(len(sig))}, sig...)
		progs = append(progs, &pg.Program{Code: k.Code, Parameter: param})
	}
	tx.SetPrograms(progs)
	return nil
}

// StandardHash returns the program hash of a standard redeem script.
func StandardHash(code []byte) common.Uint168 {
	ct, _ := contract.CreateStandardContractByCode(code)
	if ct == nil {
		return common.Uint168{}
	}
	return *ct.ToProgramHash()
}

var ErrNoFunds = errors.New("no funds")

// String for debugging.
func (e Event) String() string { return fmt.Sprintf("%s:%s", e.Kind, e.Hash.String()[:8]) }
