// Package cons holds helpers shared by the consensus drivers (confirm, view,
// reward, randselect): deterministic ECDSA keys.
package cons

import (
	"crypto/sha256"
	"fmt"
	"math/big"

	"github.com/elastos/Elastos.ELA/crypto"
)

type Key struct {
	Pri []byte
	Pub []byte // compressed point
}

// DetKey returns key #i of the family tag.  The values of keys never
// influence a verdict; determinism only keeps samples reproducible.
func DetKey(tag string, i int) Key {
	h := sha256.Sum256([]byte(fmt.Sprintf("verif-%s-%d", tag, i)))
	d := new(big.Int).SetBytes(h[:])
	nMinus1 := new(big.Int).Sub(crypto.DefaultCurve.Params().N, big.NewInt(1))
	d.Mod(d, nMinus1)
	d.Add(d, big.NewInt(1))
	x, y := crypto.DefaultCurve.ScalarBaseMult(d.Bytes())
	pk := crypto.PublicKey{X: x, Y: y}
	enc, err := pk.EncodePoint(true)
	if err != nil {
		panic(err)
	}
	return Key{Pri: d.Bytes(), Pub: enc}
}
