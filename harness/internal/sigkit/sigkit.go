// Package sigkit materialises the abstract transactions of spec/Edge/Sig.tla
// (and the program shapes of spec/Edge/Validate.tla) with real secp256r1 keys,
// real redeem scripts built by core/contract, real transactions built by
// functions.CreateTransaction and real signatures (crypto.Sign,
// crypto.AggregateSignatures, or the wallet functions of package account).
package sigkit

import (
	"bytes"
	"crypto/sha256"
	"encoding/binary"
	"errors"
	"fmt"
	"math/big"
	"math/rand"
	"os"
	"sort"
	"sync"

	"github.com/elastos/Elastos.ELA/account"
	"github.com/elastos/Elastos.ELA/common"
	"github.com/elastos/Elastos.ELA/common/config"
	"github.com/elastos/Elastos.ELA/common/log"
	"github.com/elastos/Elastos.ELA/core"
	"github.com/elastos/Elastos.ELA/core/contract"
	pg "github.com/elastos/Elastos.ELA/core/contract/program"
	"github.com/elastos/Elastos.ELA/core/transaction"
	common2 "github.com/elastos/Elastos.ELA/core/types/common"
	"github.com/elastos/Elastos.ELA/core/types/functions"
	"github.com/elastos/Elastos.ELA/core/types/interfaces"
	"github.com/elastos/Elastos.ELA/core/types/outputpayload"
	"github.com/elastos/Elastos.ELA/core/types/payload"
	"github.com/elastos/Elastos.ELA/crypto"
)

var initOnce sync.Once

// Init wires the constructor hooks of core/types/functions (main.go and the
// repository's tests do the same).
func Init() {
	initOnce.Do(func() {
		functions.GetTransactionByTxType = transaction.GetTransaction
		functions.GetTransactionByBytes = transaction.GetTransactionByBytes
		functions.CreateTransaction = transaction.CreateTransaction
		functions.GetTransactionParameters = transaction.GetTransactionparameters
		config.DefaultParams = *config.GetDefaultParams()
		// the validators log (blockchain.RunPrograms does): give them a logger
		logDir, _ = os.MkdirTemp("", "verif-siglog-")
		log.NewDefault(logDir, 5, 0, 0) // level 5 = fatal only
	})
}

var logDir string

// Cleanup removes the scratch log directory.
func Cleanup() {
	if logDir != "" {
		os.RemoveAll(logDir)
	}
}

// Silence sends everything the repository prints with fmt.Print* to
// /dev/null (package rep keeps the original stdout).
func Silence() {
	if f, err := os.OpenFile(os.DevNull, os.O_WRONLY, 0); err == nil {
		os.Stdout = f
	}
}

// ---------------------------------------------------------------------------
// keys

type Pool struct{ Accs []*account.Account }

// NewPool derives n deterministic accounts from seed.
func NewPool(seed int64, n int) *Pool {
	p := &Pool{}
	for i := 0; len(p.Accs) < n; i++ {
		var b [16]byte
		binary.BigEndian.PutUint64(b[:8], uint64(seed))
		binary.BigEndian.PutUint64(b[8:], uint64(i))
		priv := sha256.Sum256(b[:])
		priv[0] &= 0x7f
		if priv[0] == 0 && priv[1] == 0 {
			continue
		}
		acc, err := account.NewAccountWithPrivateKey(priv[:])
		if err != nil {
			continue
		}
		p.Accs = append(p.Accs, acc)
	}
	return p
}

// Binding maps an abstract key holder (1, 2, ...) to a real account.
type Binding map[int]*account.Account

// ---------------------------------------------------------------------------
// codes

type CodeDef struct {
	Kind string  // std | multi | schnorr | cross | other
	M    int     // threshold (multi, cross)
	Keys [][]int // each key is a set of holders; len>1 = aggregated Schnorr key
}

func pubs(b Binding, keys [][]int) ([]*crypto.PublicKey, error) {
	var res []*crypto.PublicKey
	for _, k := range keys {
		if len(k) != 1 {
			return nil, fmt.Errorf("plain key expected, got %v", k)
		}
		a := b[k[0]]
		if a == nil {
			return nil, fmt.Errorf("holder %d not bound", k[0])
		}
		// CreateMultiSigRedeemScript sorts its argument in place: hand out copies
		res = append(res, &crypto.PublicKey{X: new(big.Int).Set(a.PublicKey.X), Y: new(big.Int).Set(a.PublicKey.Y)})
	}
	return res, nil
}

// Accounts returns the accounts of the holders of an (aggregated) key.
func Accounts(b Binding, key []int) []*account.Account {
	var r []*account.Account
	for _, h := range key {
		r = append(r, b[h])
	}
	return r
}

// AggregatedPub is the sum of the holders' public keys (what
// account.NewSchnorrAggregateAccount computes).
func AggregatedPub(b Binding, key []int) (*crypto.PublicKey, error) {
	var enc [][]byte
	for _, h := range key {
		a := b[h]
		if a == nil {
			return nil, fmt.Errorf("holder %d not bound", h)
		}
		e, err := a.PublicKey.EncodePoint(true)
		if err != nil {
			return nil, err
		}
		enc = append(enc, e)
	}
	sum, err := crypto.AggregatePublickeys(enc)
	if err != nil {
		return nil, err
	}
	return crypto.DecodePoint(sum)
}

// OtherCode is a script that is none of standard / multisig / Schnorr /
// cross-chain: a Bitcoin style pay-to-pubkey-hash script (25 bytes).
func OtherCode() []byte {
	c := []byte{0x76, 0xa9, 0x14}
	for i := 0; i < 20; i++ {
		c = append(c, byte(0x30+i))
	}
	return append(c, 0x88, 0xac)
}

// BuildCode builds the redeem script with the repository's own constructors.
func BuildCode(d CodeDef, b Binding) ([]byte, error) {
	switch d.Kind {
	case "std":
		ps, err := pubs(b, d.Keys)
		if err != nil || len(ps) != 1 {
			return nil, fmt.Errorf("std code: %v", err)
		}
		return contract.CreateStandardRedeemScript(ps[0])
	case "multi", "cross":
		ps, err := pubs(b, d.Keys)
		if err != nil {
			return nil, err
		}
		m := d.M
		if m < 1 {
			m = 1
		}
		code, err := contract.CreateMultiSigRedeemScript(m, ps)
		if err != nil || code == nil {
			return nil, fmt.Errorf("multisig code: %v", err)
		}
		if d.M < 1 {
			// m is encoded as PUSH1 + m - 1
			code[0] = byte(crypto.PUSH1 + d.M - 1)
		}
		if d.Kind == "cross" {
			code[len(code)-1] = common.CROSSCHAIN
		}
		return code, nil
	case "schnorr":
		if len(d.Keys) != 1 {
			return nil, errors.New("schnorr code needs one (aggregated) key")
		}
		pk, err := AggregatedPub(b, d.Keys[0])
		if err != nil {
			return nil, err
		}
		return contract.CreateSchnorrRedeemScript(pk)
	case "other":
		return OtherCode(), nil
	}
	return nil, errors.New("unknown code kind " + d.Kind)
}

var prefixes = map[string]byte{
	"std": byte(contract.PrefixStandard), "multi": byte(contract.PrefixMultiSig),
	"cross": byte(contract.PrefixCrossChain), "deposit": byte(contract.PrefixDeposit),
	"stake": byte(contract.PrefixDPoSV2), "crdid": byte(contract.PrefixCRDID),
}

// Address materialises [pfx, h]: the hash of code h under the prefix; for
// cross-chain addresses h=0 / h=99 are the lowest / highest 160-bit values.
func Address(pfx string, h int, codes map[int][]byte) (common.Uint168, error) {
	var a common.Uint168
	p, ok := prefixes[pfx]
	if !ok {
		return a, errors.New("unknown prefix " + pfx)
	}
	a[0] = p
	if pfx == "cross" {
		if h == 99 {
			for i := 1; i < len(a); i++ {
				a[i] = 0xff
			}
		}
		return a, nil
	}
	code, ok := codes[h]
	if !ok {
		return a, fmt.Errorf("no code %d", h)
	}
	return *common.ToProgramHash(p, code), nil
}

// Realise binds the holders 1..4 to accounts of the pool such that the real
// code hashes are ordered like the abstract ids (the verifier sorts addresses
// and programs by code hash).
func Realise(defs map[int]CodeDef, pool *Pool, rng *rand.Rand) (Binding, map[int][]byte, error) {
	ids := make([]int, 0, len(defs))
	for id := range defs {
		ids = append(ids, id)
	}
	sort.Ints(ids)
	for try := 0; try < 200000; try++ {
		perm := rng.Perm(len(pool.Accs))
		b := Binding{}
		for h := 1; h <= 4; h++ {
			b[h] = pool.Accs[perm[h-1]]
		}
		codes := map[int][]byte{}
		ok := true
		var prev *common.Uint160
		for _, id := range ids {
			c, err := BuildCode(defs[id], b)
			if err != nil {
				return nil, nil, err
			}
			codes[id] = c
			h := common.ToCodeHash(c)
			if prev != nil && prev.Compare(*h) >= 0 {
				ok = false
				break
			}
			prev = h
		}
		if ok {
			return b, codes, nil
		}
	}
	return nil, nil, errors.New("could not realise the hash order")
}

// ---------------------------------------------------------------------------
// transactions

// TxShape is everything of a transaction but its programs.
type TxShape struct {
	Version  common2.TransactionVersion
	Type     common2.TxType
	PVersion byte
	Payload  interfaces.Payload
	Nonce    []byte
	Scripts  []common.Uint168 // script attributes
	Inputs   []common2.Input
	Outputs  []common2.Output
	LockTime uint32
}

func (s TxShape) Clone() TxShape {
	c := s
	c.Nonce = append([]byte(nil), s.Nonce...)
	c.Scripts = append([]common.Uint168(nil), s.Scripts...)
	c.Inputs = append([]common2.Input(nil), s.Inputs...)
	c.Outputs = append([]common2.Output(nil), s.Outputs...)
	return c
}

// Build creates the transaction object; inputs are returned so that callers
// can key the reference map by them.
func (s TxShape) Build() (interfaces.Transaction, []*common2.Input) {
	attrs := []*common2.Attribute{}
	na := common2.NewAttribute(common2.Nonce, append([]byte(nil), s.Nonce...))
	attrs = append(attrs, &na)
	for _, h := range s.Scripts {
		a := common2.NewAttribute(common2.Script, append([]byte(nil), h[:]...))
		attrs = append(attrs, &a)
	}
	var ins []*common2.Input
	for i := range s.Inputs {
		in := s.Inputs[i]
		ins = append(ins, &in)
	}
	var outs []*common2.Output
	for i := range s.Outputs {
		o := s.Outputs[i]
		if o.Payload == nil {
			o.Payload = &outputpayload.DefaultOutput{}
		}
		outs = append(outs, &o)
	}
	tx := functions.CreateTransaction(s.Version, s.Type, s.PVersion, s.Payload, attrs, ins, outs, s.LockTime,
		[]*pg.Program{})
	return tx, ins
}

// Unsigned returns the bytes that are signed.
func Unsigned(tx interfaces.Transaction) []byte {
	buf := new(bytes.Buffer)
	tx.SerializeUnsigned(buf)
	return buf.Bytes()
}

// BaseShape is a version-9 TransferAsset spending n symbolic outpoints.
func BaseShape(tag uint64, n int, payTo common.Uint168) TxShape {
	s := TxShape{Version: common2.TxVersion09, Type: common2.TransferAsset, Payload: &payload.TransferAsset{}}
	s.Nonce = make([]byte, 8)
	binary.BigEndian.PutUint64(s.Nonce, tag)
	for i := 0; i < n; i++ {
		var id common.Uint256
		h := sha256.Sum256([]byte(fmt.Sprintf("verif-input-%d-%d", tag, i)))
		copy(id[:], h[:])
		s.Inputs = append(s.Inputs, common2.Input{Previous: common2.OutPoint{TxID: id, Index: uint16(i)}, Sequence: 0})
	}
	s.Outputs = []common2.Output{{AssetID: core.ELAAssetID, Value: 1000, ProgramHash: payTo, Type: common2.OTNone}}
	return s
}

// Tamper changes one byte class of the unsigned serialisation.  sub selects
// the byte within the class; gentle keeps the transaction valid for the rest
// of the node's context checks (used by the end-to-end replays).
func Tamper(s TxShape, class string, sub int, gentle bool) (TxShape, error) {
	t := s.Clone()
	switch class {
	case "none":
	case "version":
		if t.Version == common2.TxVersion09 {
			t.Version = common2.TxVersionDefault
		} else {
			t.Version = common2.TxVersion09
		}
	case "type":
		// another transaction type whose payload serialises to the same (no) bytes
		t.Type = common2.ReturnDepositCoin
		t.Payload = &payload.ReturnDepositCoin{}
	case "payload":
		if r, ok := t.Payload.(*payload.Record); ok {
			c := append([]byte(nil), r.Content...)
			c[sub%len(c)] ^= 1 << uint(sub%8)
			t.Payload = &payload.Record{Type: r.Type, Content: c}
		} else {
			t.PVersion ^= 1
		}
	case "attribute":
		t.Nonce[sub%len(t.Nonce)] ^= 1 << uint(sub%8)
	case "input":
		if len(t.Inputs) == 0 {
			return t, errors.New("no input to tamper")
		}
		i := sub % len(t.Inputs)
		switch {
		case gentle || sub%3 == 0:
			t.Inputs[i].Sequence ^= 1
		case sub%3 == 1:
			t.Inputs[i].Previous.Index ^= 1
		default:
			t.Inputs[i].Previous.TxID[sub%32] ^= 0x80
		}
	case "output":
		i := sub % len(t.Outputs)
		if gentle || sub%2 == 0 {
			t.Outputs[i].Value--
		} else {
			t.Outputs[i].ProgramHash[1+sub%20] ^= 1
		}
	case "locktime":
		t.LockTime ^= 1
	default:
		return t, errors.New("unknown tamper class " + class)
	}
	return t, nil
}

// ---------------------------------------------------------------------------
// signatures

// SigItem is one abstract signature of a program.
type SigItem struct {
	Key    []int // holders; empty = random bytes
	Ver    int   // content version it was made over
	Wallet bool  // produced through package account (C37)
}

type ProgDef struct {
	Code int
	Sigs []SigItem
}

// SchnorrSign signs with the aggregated key of the given holders.
func SchnorrSign(b Binding, key []int, data []byte) ([]byte, error) {
	var privs []*big.Int
	for _, h := range key {
		a := b[h]
		if a == nil {
			return nil, fmt.Errorf("holder %d not bound", h)
		}
		privs = append(privs, new(big.Int).SetBytes(a.PrivateKey))
	}
	sig, err := crypto.AggregateSignatures(privs, common.Sha256D(data))
	if err != nil {
		return nil, err
	}
	return sig[:], nil
}

// Parameter assembles the parameter of a program from abstract signatures made
// directly with the crypto package (no wallet).  data[v] are the unsigned
// bytes of content version v.
func Parameter(kind string, sigs []SigItem, b Binding, data [][]byte, rng *rand.Rand) ([]byte, error) {
	param := []byte{}
	for _, s := range sigs {
		var raw []byte
		var err error
		switch {
		case len(s.Key) == 0:
			raw = make([]byte, 64)
			rng.Read(raw)
		case kind == "schnorr" || len(s.Key) > 1:
			raw, err = SchnorrSign(b, s.Key, data[s.Ver])
		default:
			a := b[s.Key[0]]
			if a == nil {
				return nil, fmt.Errorf("holder %d not bound", s.Key[0])
			}
			raw, err = crypto.Sign(a.PrivateKey, data[s.Ver])
		}
		if err != nil {
			return nil, err
		}
		if kind != "schnorr" {
			param = append(param, byte(len(raw)))
		}
		param = append(param, raw...)
	}
	return param, nil
}

// WalletParameter produces the parameter by replaying the wallet calls:
// every signature is made by the wallet of its holder(s) over the transaction
// as it was at that content version (txs[v]).
func WalletParameter(def CodeDef, code []byte, sigs []SigItem, b Binding, txs []interfaces.Transaction) ([]byte, error) {
	prog := &pg.Program{Code: code, Parameter: nil}
	for _, s := range sigs {
		tx := txs[s.Ver]
		switch def.Kind {
		case "std":
			acc := b[s.Key[0]]
			wallet := map[common.Uint160]*account.Account{acc.ProgramHash.ToCodeHash(): acc}
			p, err := account.SignStandardTransaction(tx, prog, wallet)
			if err != nil {
				return nil, err
			}
			prog = p
		case "multi":
			acc := b[s.Key[0]]
			wallet := map[common.Uint160]*account.Account{acc.ProgramHash.ToCodeHash(): acc}
			p, err := account.SignMultiSignTransaction(tx, prog, wallet)
			if err != nil {
				return nil, err
			}
			prog = p
		case "schnorr":
			sa := account.NewSchnorrAggregateAccount(Accounts(b, s.Key))
			if !bytes.Equal(sa.RedeemScript, code) {
				return nil, errors.New("aggregated account has another redeem script than the program")
			}
			sig, err := crypto.AggregateSignatures(sa.PrivateKeys, common.Sha256D(Unsigned(tx)))
			if err != nil {
				return nil, err
			}
			prog = &pg.Program{Code: code, Parameter: sig[:]}
		default:
			return nil, errors.New("no wallet function for code kind " + def.Kind)
		}
	}
	if prog.Parameter == nil {
		prog.Parameter = []byte{}
	}
	return prog.Parameter, nil
}
