// Package edgee2e drives the node's own BlockChain.CheckTransactionContext on a
// real regnet node (harness/internal/stack) with signed, otherwise valid
// transfers, for the end-to-end halves of C31 and C32: the policy helpers are
// reached exactly the way block and mempool validation reach them.
package edgee2e

import (
	"bytes"
	"fmt"

	"github.com/elastos/Elastos.ELA/common"
	"github.com/elastos/Elastos.ELA/core"
	"github.com/elastos/Elastos.ELA/core/contract"
	pg "github.com/elastos/Elastos.ELA/core/contract/program"
	common2 "github.com/elastos/Elastos.ELA/core/types/common"
	"github.com/elastos/Elastos.ELA/core/types/functions"
	"github.com/elastos/Elastos.ELA/core/types/interfaces"
	"github.com/elastos/Elastos.ELA/core/types/outputpayload"
	"github.com/elastos/Elastos.ELA/core/types/payload"
	"github.com/elastos/Elastos.ELA/crypto"

	"verif/harness/internal/stack"
)

const Fee = 10000

type utxo struct {
	op    common2.OutPoint
	value common.Fixed64
}

// Owner is something that holds funds on the node: a standard key, or the
// harness' own 1-of-2 cross-chain script (prefix X).
type Owner struct {
	Name string
	Hash common.Uint168
	key  *stack.Key
	code []byte // redeem script the owner signs with
	utxo []utxo
}

type Env struct {
	N      *stack.Node
	Owners map[string]*Owner
	H      uint32 // height the transactions are validated for (tip + 1)
	TS     uint32
	nonce  uint64
}

// New builds a node and funds the named owners with perOwner coinbase outputs
// each.  The owner called "X" is a cross-chain (prefix X) script address.
func New(names []string, perOwner int) (*Env, error) {
	n, err := stack.New(stack.Options{})
	if err != nil {
		return nil, err
	}
	e := &Env{N: n, Owners: map[string]*Owner{}}
	for i, name := range names {
		k := stack.KeyFromSeed(uint64(100 + i))
		o := &Owner{Name: name, Hash: k.Hash, key: k, code: k.Code}
		if name == "X" {
			k2 := stack.KeyFromSeed(uint64(200 + i))
			script, err := contract.CreateMultiSigRedeemScript(1, []*crypto.PublicKey{k.Acc.PublicKey, k2.Acc.PublicKey})
			if err != nil || script == nil {
				return nil, fmt.Errorf("cross-chain script: %v", err)
			}
			script[len(script)-1] = common.CROSSCHAIN
			o.code = script
			o.Hash = *common.ToProgramHash(byte(contract.PrefixCrossChain), script)
		}
		e.Owners[name] = o
	}
	for _, name := range names {
		o := e.Owners[name]
		for j := 0; j < perOwner; j++ {
			tip, err := n.TipBlock()
			if err != nil {
				return nil, err
			}
			b, err := n.NewBlock(tip, nil, stack.BlockOpts{CoinbaseTo: &o.Hash})
			if err != nil {
				return nil, err
			}
			if _, _, err = n.Process(b); err != nil {
				return nil, fmt.Errorf("funding block for %s: %v", name, err)
			}
			cb := b.Transactions[0]
			o.utxo = append(o.utxo, utxo{op: common2.OutPoint{TxID: cb.Hash(), Index: 1}, value: cb.Outputs()[1].Value})
		}
	}
	for n.Chain.GetHeight() < 12 { // maturity, and room below the validated height
		if _, err := n.MineOn(nil, 0); err != nil {
			return nil, err
		}
	}
	if _, err := n.MineOn(nil, 0); err != nil {
		return nil, err
	}
	tip, err := n.TipBlock()
	if err != nil {
		return nil, err
	}
	e.H, e.TS = tip.Height+1, tip.Timestamp+1
	return e, nil
}

func (e *Env) Close() { e.N.Close() }

// Transfer builds and signs a TransferAsset spending one output of every owner
// named in ins (the k-th occurrence of an owner takes its k-th output) to the
// owners named in outs.
func (e *Env) Transfer(ins, outs []string) (interfaces.Transaction, error) {
	used := map[string]int{}
	var inputs []*common2.Input
	var total common.Fixed64
	var signers []*Owner
	seen := map[string]bool{}
	for _, name := range ins {
		o := e.Owners[name]
		if o == nil || used[name] >= len(o.utxo) {
			return nil, fmt.Errorf("no output left for owner %q", name)
		}
		u := o.utxo[used[name]]
		used[name]++
		inputs = append(inputs, &common2.Input{Previous: u.op})
		total += u.value
		if !seen[name] {
			seen[name] = true
			signers = append(signers, o)
		}
	}
	var outputs []*common2.Output
	if len(outs) > 0 {
		share := (total - Fee) / common.Fixed64(len(outs))
		for _, name := range outs {
			o := e.Owners[name]
			if o == nil {
				return nil, fmt.Errorf("unknown owner %q", name)
			}
			outputs = append(outputs, &common2.Output{AssetID: core.ELAAssetID, Value: share, ProgramHash: o.Hash,
				Type: common2.OTNone, Payload: &outputpayload.DefaultOutput{}})
		}
	}
	e.nonce++
	nb := []byte(fmt.Sprintf("edge-%d", e.nonce))
	attr := common2.NewAttribute(common2.Nonce, nb)
	tx := functions.CreateTransaction(common2.TxVersion09, common2.TransferAsset, 0, &payload.TransferAsset{},
		[]*common2.Attribute{&attr}, inputs, outputs, 0, []*pg.Program{})
	buf := new(bytes.Buffer)
	if err := tx.SerializeUnsigned(buf); err != nil {
		return nil, err
	}
	var progs []*pg.Program
	for _, o := range signers {
		sig, err := o.key.Acc.Sign(buf.Bytes())
		if err != nil {
			return nil, err
		}
		progs = append(progs, &pg.Program{Code: o.code, Parameter: append([]byte{byte(len(sig))}, sig...)})
	}
	tx.SetPrograms(progs)
	return tx, nil
}

// Check runs the node's CheckTransactionContext for the fixed height e.H.
func (e *Env) Check(tx interfaces.Transaction) (err error, panicked interface{}) {
	defer func() { panicked = recover() }()
	_, cerr := e.N.Chain.CheckTransactionContext(e.H, tx, 0, e.TS)
	if cerr != nil {
		return fmt.Errorf("%v: %v", cerr.Code(), cerr), nil
	}
	return nil, nil
}
