// Package rep is the result protocol between the Go drivers and tools/lib/vf.py:
// one JSON record per line on stdout.
package rep

import (
	"bufio"
	"encoding/json"
	"fmt"
	"os"
	"strconv"
	"sync"
)

type Step map[string]interface{}
type Behaviour []Step

var mu sync.Mutex
var out = bufio.NewWriterSize(os.Stdout, 1<<20)

func emit(v interface{}) {
	mu.Lock()
	defer mu.Unlock()
	b, _ := json.Marshal(v)
	out.Write(b)
	out.WriteByte('\n')
}

// Flush must be called before the driver exits.
func Flush() { mu.Lock(); out.Flush(); mu.Unlock() }

var nViol, nMis int

// Violation: real code contradicts the property.  key classifies the failing
// shape (matched against known_findings.json).
func Violation(key, what string, c interface{}) {
	mu.Lock()
	nViol++
	n := nViol
	mu.Unlock()
	if n > 2000 {
		return
	}
	emit(map[string]interface{}{"kind": "violation", "key": key, "what": what, "case": c})
}

// Mismatch: real code disagrees with the spec in a way that does not violate the
// property (harness/model problem).  Makes the check exit 2.
func Mismatch(what string, c interface{}) {
	mu.Lock()
	nMis++
	n := nMis
	mu.Unlock()
	if n > 200 {
		return
	}
	emit(map[string]interface{}{"kind": "mismatch", "what": what, "case": c})
}

// Summary closes a driver run.
func Summary(cases int, extra map[string]interface{}, samples ...interface{}) {
	m := map[string]interface{}{"kind": "summary", "cases": cases, "samples": samples}
	for k, v := range extra {
		m[k] = v
	}
	emit(m)
	Flush()
}

// ReadBehaviours reads a JSONL file, one behaviour (array of steps) per line.
func ReadBehaviours(path string) []Behaviour {
	f, err := os.Open(path)
	if err != nil {
		fmt.Fprintln(os.Stderr, "open:", err)
		os.Exit(3)
	}
	defer f.Close()
	var res []Behaviour
	sc := bufio.NewScanner(f)
	sc.Buffer(make([]byte, 1<<20), 1<<28)
	for sc.Scan() {
		if len(sc.Bytes()) == 0 {
			continue
		}
		var b Behaviour
		if err := json.Unmarshal(sc.Bytes(), &b); err != nil {
			fmt.Fprintln(os.Stderr, "bad behaviour line:", err)
			os.Exit(3)
		}
		res = append(res, b)
	}
	return res
}

// ReadCases reads a JSONL file of arbitrary objects.
func ReadCases(path string) []map[string]interface{} {
	f, err := os.Open(path)
	if err != nil {
		fmt.Fprintln(os.Stderr, "open:", err)
		os.Exit(3)
	}
	defer f.Close()
	var res []map[string]interface{}
	sc := bufio.NewScanner(f)
	sc.Buffer(make([]byte, 1<<20), 1<<28)
	for sc.Scan() {
		if len(sc.Bytes()) == 0 {
			continue
		}
		var b map[string]interface{}
		if err := json.Unmarshal(sc.Bytes(), &b); err != nil {
			fmt.Fprintln(os.Stderr, "bad case line:", err)
			os.Exit(3)
		}
		res = append(res, b)
	}
	return res
}

func (s Step) Act() string { a, _ := s["act"].(string); return a }

func (s Step) Args() map[string]interface{} {
	a, _ := s["args"].(map[string]interface{})
	return a
}

// Int fetches an integer field (TLC prints integers as JSON numbers).
func Int(m map[string]interface{}, k string) int {
	switch v := m[k].(type) {
	case float64:
		return int(v)
	case string:
		n, _ := strconv.Atoi(v)
		return n
	case bool:
		if v {
			return 1
		}
	}
	return 0
}

func Str(m map[string]interface{}, k string) string { s, _ := m[k].(string); return s }
func Bool(m map[string]interface{}, k string) bool  { b, _ := m[k].(bool); return b }

func Map(m map[string]interface{}, k string) map[string]interface{} {
	r, _ := m[k].(map[string]interface{})
	return r
}

// List fetches an array; TLC prints an empty sequence as [] and records keyed
// by 1..n as arrays too.
func List(m map[string]interface{}, k string) []interface{} {
	r, _ := m[k].([]interface{})
	return r
}

// Seed returns VERIF_SEED (default 1).
func Seed() int64 {
	n, err := strconv.ParseInt(os.Getenv("VERIF_SEED"), 10, 64)
	if err != nil {
		return 1
	}
	return n
}
