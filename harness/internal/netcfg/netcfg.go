// Package netcfg materialises the cases of spec/Policy/NetConfig.tla as config
// files and runs the node's real configuration code (Settings.SetupConfig) on
// them.  Shared by the C31 (ccutxo) and C32 (frozen) drivers.
package netcfg

import (
	"encoding/json"
	"fmt"
	"math"
	"os"
	"path/filepath"

	"github.com/elastos/Elastos.ELA/common"
	"github.com/elastos/Elastos.ELA/common/config"
	"github.com/elastos/Elastos.ELA/common/config/settings"
	"github.com/elastos/Elastos.ELA/elanet/pact"
)

const (
	OtherF        = 12345
	OtherR        = 23456
	OtherAddress  = "EJMzC16Eorq9CuFCGtyMrq4Jmgw9jYCHQR"
	OtherStart    = 100
	SameLaterFrom = 4000000
)

// Case is the abstract configuration file of NetConfig.tla.
type Case struct {
	Name     string `json:"name"`
	OvF      string `json:"ovF"`
	OvR      string `json:"ovR"`
	OvFrozen string `json:"ovFrozen"`
}

// Result is the effective configuration projected onto NetConfig.tla's tokens.
type Result struct {
	Net      string `json:"net"`
	F        string `json:"F"`
	R        string `json:"R"`
	Frozen   string `json:"frozen"`
	Resolved bool   `json:"resolved"`
	// concrete values, for reports
	Magic   uint32                 `json:"magic"`
	FreezeH uint32                 `json:"freezeHeight"`
	RestrH  uint32                 `json:"restrictionHeight"`
	List    []config.FrozenAddress `json:"list"`
	File    string                 `json:"file"`
	Panic   string                 `json:"panic,omitempty"`
}

func heightValue(tok string, other uint32) (uint32, bool) {
	switch tok {
	case "zero":
		return 0, true
	case "other":
		return other, true
	case "disabled":
		return math.MaxUint32, true
	}
	return 0, false
}

// FileFor renders the local config file of a case.  omitName leaves the
// ActiveNet key out (only meaningful for the empty name).
func FileFor(c Case, omitName bool) []byte {
	conf := map[string]interface{}{}
	if !(omitName && c.Name == "") {
		conf["ActiveNet"] = c.Name
	}
	if v, ok := heightValue(c.OvF, OtherF); ok {
		conf["CrossChainUTXOFreezeHeight"] = v
	}
	if v, ok := heightValue(c.OvR, OtherR); ok {
		conf["CrossChainUTXORestrictionHeight"] = v
	}
	switch c.OvFrozen {
	case "empty":
		conf["FrozenAddresses"] = []interface{}{}
	case "otherAddr":
		conf["FrozenAddresses"] = []interface{}{map[string]interface{}{
			"Address": OtherAddress, "DisableStartHeight": OtherStart}}
	case "sameLater":
		conf["FrozenAddresses"] = []interface{}{map[string]interface{}{
			"Address": config.ExploitIntermediateFrozenAddress, "DisableStartHeight": SameLaterFrom}}
	}
	b, _ := json.MarshalIndent(map[string]interface{}{"Configuration": conf}, "", "  ")
	return b
}

func heightToken(v, mainV uint32, other uint32) string {
	switch v {
	case mainV:
		return "main"
	case math.MaxUint32:
		return "disabled"
	case 0:
		return "zero"
	case other:
		return "other"
	}
	return fmt.Sprintf("value:%d", v)
}

func listToken(l []config.FrozenAddress) string {
	if len(l) == 0 {
		return "empty" // nil and empty are the same list
	}
	if len(l) == 1 {
		e := l[0]
		switch {
		case e.Address == config.ExploitIntermediateFrozenAddress && e.DisableStartHeight == config.MainNetCrossChainUTXOFreezeHeight:
			return "coordinated"
		case e.Address == config.ExploitIntermediateFrozenAddress && e.DisableStartHeight == SameLaterFrom:
			return "sameLater"
		case e.Address == OtherAddress && e.DisableStartHeight == OtherStart:
			return "otherAddr"
		}
	}
	b, _ := json.Marshal(l)
	return "list:" + string(b)
}

// Run executes Settings.SetupConfig on the case's file inside dir.
func Run(dir string, c Case, omitName bool) (res Result) {
	path := filepath.Join(dir, "config.json")
	content := FileFor(c, omitName)
	res.File = string(content)
	if err := os.WriteFile(path, content, 0o600); err != nil {
		res.Panic = "cannot write config file: " + err.Error()
		return
	}
	defer func() {
		if r := recover(); r != nil {
			res.Panic = fmt.Sprint(r)
		}
	}()
	// SetupConfig works on the package-level defaults; give it fresh ones.
	config.DefaultParams = *config.GetDefaultParams()
	config.DefaultParams.Conf = path
	config.Parameters = nil
	pact.MaxBlockContextSize = 8000000
	pact.MaxBlockHeaderSize = 1000000
	conf := settings.NewSettings().SetupConfig(false, "", "")

	res.Magic = conf.Magic
	switch conf.Magic {
	case 2017001:
		res.Net = "main"
	case 2018101:
		res.Net = "test"
	case 2018201:
		res.Net = "reg"
	default:
		res.Net = fmt.Sprintf("magic:%d", conf.Magic)
	}
	res.FreezeH, res.RestrH = conf.CrossChainUTXOFreezeHeight, conf.CrossChainUTXORestrictionHeight
	res.F = heightToken(conf.CrossChainUTXOFreezeHeight, config.MainNetCrossChainUTXOFreezeHeight, OtherF)
	res.R = heightToken(conf.CrossChainUTXORestrictionHeight, config.MainNetCrossChainUTXORestrictionHeight, OtherR)
	res.List = conf.FrozenAddresses
	res.Frozen = listToken(conf.FrozenAddresses)
	res.Resolved = true
	for _, e := range conf.FrozenAddresses {
		want, err := common.Uint168FromAddress(e.Address)
		if err != nil || e.ProgramHash == nil || !e.ProgramHash.IsEqual(*want) {
			res.Resolved = false
		}
	}
	if config.Parameters != conf {
		res.Panic = "config.Parameters is not the configuration SetupConfig returned"
	}
	return
}

// SameList compares the spec's list token with the real one ("none" = nil and
// "empty" are the same list for the frozen-address check).
func SameList(spec, real string) bool {
	if spec == "none" {
		spec = "empty"
	}
	return spec == real
}
